(* Model/C16_Stability.v — transcription of fcapy/lattice/concept_measures.py
   (stability, stability_bounds, log_stability_lbound) and of the measure storage of
   fcapy/lattice/concept_lattice.py (calc_concepts_measures, ConceptLattice.measures).
   Definitions only.  Numbers are exact rationals: every float the code produces here is a
   dyadic rational (2 ** -k, sums and differences of those, count / 2 ** n).

   A concept is given by its extent [A] and intent [B] (index lists, as stored in the
   lattice); [children] is the list of the extents of  lattice.children(c_i). *)
From FCA Require Export Base.C16_Dyadic Model.FormalContext Spec.Closure.
From Coq Require Import ZArith QArith.
Local Open Scope nat_scope.

(* stability(c_i, lattice, context):
     n = 2 ** len(extent)
     if len(extent) > 0:  x = sum(int(set(context.intention_i(gs)) == set(intent)) for gs in powerset(extent)) / n
     else:                x = 1
   [powerset] enumerates the sub-tuples of the extent by increasing size; only the number of
   hits is observable, so the model enumerates them with [sublists]. *)
Definition stability_m (b : backend) (t : table) (A B : list nat) : Q :=
  match length A with
  | 0 => 1%Q
  | _ => Qmake (Z.of_nat (count_if (fun S => same_setb (intention_i b t S None) B) (sublists A)))
               (pow2p (length A))
  end.

(* len(set(extent) - set(child_extent)) — extents are duplicate-free index tuples *)
Definition delta (A C : list nat) : nat := length (diff A C).

(* stability_bounds(c_i, lattice):
     inv_diff = [0];  if children: inv_diff = [2 ** (-delta) for child in children]
     return 1 - sum(inv_diff), 1 - max(inv_diff) *)
Definition inv_diffs (A : list nat) (children : list (list nat)) : list Q :=
  match children with
  | [] => [0%Q]
  | _ => map (fun C => inv_pow2 (delta A C)) children
  end.

Definition stability_bounds_m (A : list nat) (children : list (list nat)) : Q * Q :=
  let inv_diff := inv_diffs A children in
  (Qminus 1 (qsum inv_diff), Qminus 1 (qmax_list inv_diff)).

(* log_stability_lbound(c_i, lattice, n_bin_attrs):
     bound = min(delta for child in children) if children else math.inf
     return bound - log2(n_bin_attrs)
   The model returns the integer part [min delta] ([None] = +inf); the subtraction of
   log2(n_bin_attrs) is the only non-rational step and is applied by the harness. *)
Definition log_lbound_m (A : list nat) (children : list (list nat)) : option nat :=
  nmin_list (map (delta A) children).

(* ------------------------------------------------------------------ measure storage.
   Every concept carries a dict  measures : name -> value.  Keys are small numbers:
   1 'LStab', 2 'UStab', 3 'log_stability_lbound', 4 'Stab'.  Values: a rational, or the
   pair (min delta or +inf, n_bin_attrs) standing for  min delta - log2(n_bin_attrs). *)
Inductive mval := VQ (q : Q) | VLog (d : option nat) (n : nat).

Definition mdict (V : Type) := list (nat * V).

(* d[k] = v : an existing key keeps its position, a new key goes last *)
Fixpoint dict_set {V} (d : mdict V) (k : nat) (v : V) : mdict V :=
  match d with
  | [] => [(k, v)]
  | (k', v') :: d' => if Nat.eqb k k' then (k, v) :: d' else (k', v') :: dict_set d' k v
  end.

Definition dict_set_all {V} (d : mdict V) (kvs : list (nat * V)) : mdict V :=
  fold_left (fun d kv => dict_set d (fst kv) (snd kv)) kvs d.

(* one call of calc_concepts_measures: `for c_i, c in enumerate(self): c.measures[k] = v ...`;
   [f c_i] is the list of (key, value) assignments made for concept number c_i *)
Fixpoint calc_from {V} (i : nat) (f : nat -> list (nat * V)) (st : list (mdict V)) : list (mdict V) :=
  match st with
  | [] => []
  | d :: st' => dict_set_all d (f i) :: calc_from (S i) f st'
  end.
Definition calc {V} (f : nat -> list (nat * V)) (st : list (mdict V)) := calc_from 0 f st.

(* ConceptLattice.measures:
     for i, c in enumerate(self):
        for k, v in c.measures.items():
            if k not in meas_dict: meas_dict[k] = [None] * i
            meas_dict[k].append(v)
     assert len(set(len(vs) ...)) == 1 or len(meas_dict) == 0                                *)
Fixpoint md_append {V} (md : mdict (list (option V))) (i k : nat) (v : V) : mdict (list (option V)) :=
  match md with
  | [] => [(k, repeat None i ++ [Some v])]
  | (k', vs) :: md' => if Nat.eqb k k' then (k', vs ++ [Some v]) :: md'
                       else (k', vs) :: md_append md' i k v
  end.

Fixpoint measures_from {V} (i : nat) (st : list (mdict V)) (md : mdict (list (option V)))
  : mdict (list (option V)) :=
  match st with
  | [] => md
  | d :: st' => measures_from (S i) st' (fold_left (fun md kv => md_append md i (fst kv) (snd kv)) d md)
  end.

Definition all_same_length {V} (md : mdict (list V)) : bool :=
  match md with
  | [] => true
  | (_, vs) :: md' => forallb (fun kv => Nat.eqb (length (snd kv)) (length vs)) md'
  end.

(* None = AssertionError *)
Definition measures_m {V} (st : list (mdict V)) : option (mdict (list (option V))) :=
  let md := measures_from 0 st [] in
  if all_same_length md then Some md else None.

(* the assignments of the three measure names the property speaks about, for a lattice given as
   a list of (extent, intent) with children index lists.  op: 0 'stability_bounds' | 'LStab' |
   'UStab', 1 'log_stability_lbound', 2 'stability' *)
Definition concept := (list nat * list nat)%type.

Definition children_extents (L : list concept) (ch : list nat) : list (list nat) :=
  map (fun j => fst (nth j L ([], []))) ch.

Definition measure_op (b : backend) (t : table) (L : list concept) (children : list (list nat))
           (op : nat) (c_i : nat) : list (nat * mval) :=
  let c := nth c_i L ([], []) in
  let ch := children_extents L (nth c_i children []) in
  match op with
  | 0 => let lu := stability_bounds_m (fst c) ch in [(1, VQ (fst lu)); (2, VQ (snd lu))]
  | 1 => [(3, VLog (log_lbound_m (fst c) ch) (width t))]
  | _ => [(4, VQ (stability_m b t (fst c) (snd c)))]
  end.

Definition run_measures (b : backend) (t : table) (L : list concept) (children : list (list nat))
           (ops : list nat) : list (mdict mval) :=
  fold_left (fun st op => calc (measure_op b t L children op) st) ops (repeat [] (length L)).

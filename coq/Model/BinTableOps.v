(* Model/BinTableOps.v — property C05: transcription of the remaining public operations of the
   three registered back-ends of fcapy/context/bintable.py (shape/height/width/len,
   __getitem__ in its nine forms, all/any/sum with axis None/0/1 and optional selections,
   T, & | ~, ==, to_list/to_tuple, construction and init_bintable conversion) and of the
   FormalContext wrappers built on them (__getitem__, T, __invert__, to_bin_attr_extents,
   __eq__).  Model/BinTable.v already has all/any per row / per column and all_i/any_i.
   Definitions only.

   Conventions.  A table is [list (list bool)]; the constructor of every class stores
   height = len(data), width = len(data[0]) (0, 0 for empty data), which is [height]/[width].
   A slice is normalised by the harness to the index list Python's slice.indices() yields
   (library semantics of list / ndarray / bitarray slicing); the model keeps the distinction
   list / slice because the code branches on it.  Exceptions are [RErr kind] with the kinds of
   harness/core.py (ERR_KINDS). *)
From FCA Require Export Model.BinTable Model.FormalContext.

Inductive res (A : Type) := ROk (a : A) | RErr (kind : nat).
Arguments ROk {A} a. Arguments RErr {A} kind.
Definition E_Attribute := 5.   (* AttributeError *)
Definition E_Assertion := 6.   (* AssertionError *)
Definition E_Type := 7.        (* TypeError (UnknownAxisError, UnknownDataTypeError are TypeErrors) *)

Definition rbind {A B} (r : res A) (f : A -> res B) : res B :=
  match r with ROk a => f a | RErr k => RErr k end.

Inductive sel := SList (l : list nat) | SSlice (l : list nat).
Definition sel_idx (s : sel) : list nat := match s with SList l => l | SSlice l => l end.
Inductive idx := XInt (i : nat) | XSel (s : sel).
Inductive item := ItInt (i : nat) | ItSel (s : sel) | ItPair (a b : idx).

Definition backend_eqb (a b : backend) : bool :=
  match a, b with
  | BLists, BLists | BNumpy, BNumpy | BBitarray, BBitarray => true
  | _, _ => false
  end.

(* observable values *)
Inductive val :=
| VBool (b : bool)
| VNat (n : nat)
| VBools (l : list bool)
| VNats (l : list nat)
| VShape (h w : nat)
| VTable (h w : nat) (d : table)                       (* .shape and .to_list() of a table *)
| VConv (cls : backend) (h w : nat) (d : table)        (* class, shape, to_list of a converted table *)
| VCtx (h w : nat) (d : table) (onames anames : list nat)
| VExt (l : list (nat * list bool)).

Definition b2n (b : bool) : nat := if b then 1 else 0.
Definition py_sum (l : list nat) : nat := fold_left Nat.add l 0.        (* sum(iterable) *)
Definition bnot (r : list bool) : list bool := map negb r.              (* ~row *)
Definition bcount (r : list bool) : nat := list_sum (map b2n r).        (* row.count() *)
Definition sel_row (r : list bool) (c : list nat) : list bool := map (fun j => nth j r false) c.

(* to_list(): BinTableLists returns data, the abstract one rebuilds it with bool(v),
   BinTableNumpy calls data.tolist(); a BinTableNumpy without rows keeps an empty boolean
   ndarray (BinTableNumpy._transform_data), whose tolist() is []. *)
Definition to_list_m (b : backend) (d : table) : res table :=
  match b with
  | BLists => ROk d
  | BBitarray => ROk (map (fun r => map (fun v => v) r) d)
  | BNumpy => ROk d
  end.

(* what the harness reads off a returned table: shape and to_list() *)
Definition observe (b : backend) (d : table) : res val :=
  rbind (to_list_m b d) (fun l => ROk (VTable (height d) (width d) l)).

(* ================================================================ BinTableLists *)

(* for i in rows: if not all(data[i]): return False  /  for j in columns: if not row[j]: ... *)
Definition L_all (t : table) (rows cols : option (list nat)) : bool :=
  let rs := rows_or t rows in
  match cols with
  | None => forallb (fun i => forallb id (row t i)) rs
  | Some c => forallb (fun i => forallb (fun j => nth j (row t i) false) c) rs
  end.

Definition L_any (t : table) (rows cols : option (list nat)) : bool :=
  let rs := rows_or t rows in
  match cols with
  | None => existsb (fun i => existsb id (row t i)) rs
  | Some c => existsb (fun i => existsb (fun j => nth j (row t i) false) c) rs
  end.

Definition L_sum_per_row (t : table) (rows cols : option (list nat)) : list nat :=
  let rs := rows_or t rows in
  match cols with
  | None => map (fun i => py_sum (map b2n (row t i))) rs
  | Some c => map (fun i => py_sum (map b2n (map (fun j => cell t i j) c))) rs
  end.

Definition L_sum (t : table) (rows cols : option (list nat)) : nat :=
  py_sum (L_sum_per_row t rows cols).

(* for i in rows: vals = [v + int(row[col_i]) for v, col_i in zip(vals, columns)] *)
Definition L_sum_per_column (t : table) (rows cols : option (list nat)) : list nat :=
  let cs := cols_or t cols in
  fold_left (fun vals i => map2 Nat.add vals (map (fun j => b2n (cell t i j)) cs))
            (rows_or t rows) (repeat 0 (length cs)).

Definition L_get_item (t : table) (i j : nat) : bool := nth j (row t i) false.

Definition L_get_row (t : table) (i : nat) (cs : option sel) : list bool :=
  match cs with
  | None => row t i
  | Some (SSlice l) => map (fun c => nth c (row t i) false) l     (* the range of slice.indices(width) *)
  | Some (SList l) => map (fun c => nth c (row t i) false) l
  end.

Definition L_get_column (t : table) (rs : sel) (j : nat) : list bool :=
  match rs with
  | SSlice l => map (fun i => nth j (row t i) false) l
  | SList l => map (fun i => nth j (row t i) false) l
  end.

Definition L_get_subtable (t : table) (rs : sel) (cs : option sel) : table :=
  let r := match rs with SSlice l => l | SList l => l end in
  match cs with
  | None => map (fun i => row t i) r
  | Some s =>
      let c := match s with SSlice l => l | SList l => l end in
      map (fun i => map (fun j => nth j (row t i) false) c) r
  end.

(* [[a and b for a, b in zip(row_a, row_b)] for row_a, row_b in zip(self.data, other.data)] *)
Definition L_and (t u : table) : table := map2 (fun ra rb => map2 andb ra rb) t u.
Definition L_or (t u : table) : table := map2 (fun ra rb => map2 orb ra rb) t u.
Definition L_invert (t : table) : table := map (fun r => map negb r) t.

(* AbstractBinTable.T: [self._get_column(range(self.height), col_i) for col_i in range(self.width)] *)
Definition abs_T (get_column : table -> sel -> nat -> list bool) (t : table) : table :=
  map (fun j => get_column t (SList (seq 0 (height t))) j) (seq 0 (width t)).
Definition L_T := abs_T L_get_column.

(* AbstractBinTable.__eq__: heights, widths, then data == data (list of lists) *)
Definition row_eqb := list_eqb Bool.eqb.
Definition L_eq (t u : table) : bool :=
  if negb (Nat.eqb (height t) (height u)) then false
  else if negb (Nat.eqb (width t) (width u)) then false
  else list_eqb row_eqb t u.

(* ================================================================ BinTableBitarray *)

Definition B_all (t : table) (rows cols : option (list nat)) : bool :=
  let rs := rows_or t rows in
  match cols with
  | None => forallb (fun i => ball (row t i)) rs
  | Some c => let m := mask_not_in c (width t) in forallb (fun i => ball (bor (row t i) m)) rs
  end.

Definition B_any (t : table) (rows cols : option (list nat)) : bool :=
  let rs := rows_or t rows in
  match cols with
  | None => existsb (fun i => bany (row t i)) rs
  | Some c => let m := mask_in c (width t) in existsb (fun i => bany (band (row t i) m)) rs
  end.

Definition B_sum_per_row (t : table) (rows cols : option (list nat)) : list nat :=
  let rs := rows_or t rows in
  match cols with
  | None => map (fun i => bcount (row t i)) rs
  | Some c => let m := mask_in c (width t) in map (fun i => bcount (band (row t i) m)) rs
  end.

Definition B_sum (t : table) (rows cols : option (list nat)) : nat :=
  py_sum (B_sum_per_row t rows cols).

Fixpoint add_at (pos x : nat) (vals : list nat) : list nat :=       (* vals[pos] += x *)
  match vals, pos with
  | [], _ => []
  | v :: vs, 0 => (v + x) :: vs
  | v :: vs, S p => v :: add_at p x vs
  end.

(* columns is None: for i in rows: for j in data[i].search(1): vals[j] += 1
   else:            for i in rows: for pos, j in enumerate(columns): vals[pos] += row[j] *)
Definition B_sum_per_column (t : table) (rows cols : option (list nat)) : list nat :=
  let rs := rows_or t rows in
  match cols with
  | None =>
      fold_left (fun vals i => fold_left (fun vs j => add_at j 1 vs) (search1 (row t i)) vals)
                rs (repeat 0 (width t))
  | Some c =>
      fold_left (fun vals i =>
                   fold_left (fun vs pj => add_at (fst pj) (b2n (nth (snd pj) (row t i) false)) vs)
                             (combine (seq 0 (length c)) c) vals)
                rs (repeat 0 (length c))
  end.

Definition B_get_item (t : table) (i j : nat) : bool := nth j (row t i) false.

Definition B_get_row (t : table) (i : nat) (cs : option sel) : list bool :=
  match cs with
  | None => row t i
  | Some (SSlice l) => sel_row (row t i) l                          (* row[slice] *)
  | Some (SList l) => map (fun c => nth c (row t i) false) l         (* fbarray([row[c] ...]) *)
  end.

Definition B_get_column (t : table) (rs : sel) (j : nat) : list bool :=
  match rs with
  | SSlice l => map (fun i => nth j (row t i) false) l
  | SList l => map (fun i => nth j (row t i) false) l
  end.

Definition B_get_subtable (t : table) (rs : sel) (cs : option sel) : table :=
  let r := match rs with SSlice l => l | SList l => l end in
  match cs with
  | None => map (fun i => row t i) r
  | Some (SSlice l) => map (fun i => sel_row (row t i) l) r
  | Some (SList l) => map (fun i => map (fun j => nth j (row t i) false) l) r
  end.

Definition B_and (t u : table) : table := map2 band t u.
Definition B_or (t u : table) : table := map2 bor t u.
Definition B_invert (t : table) : table := map bnot t.
Definition B_T := abs_T B_get_column.
Definition B_eq (t u : table) : bool :=
  if negb (Nat.eqb (height t) (height u)) then false
  else if negb (Nat.eqb (width t) (width u)) then false
  else list_eqb row_eqb t u.

(* ================================================================ BinTableNumpy *)

(* data_slice.all() / .any() / .sum() and the per-axis versions *)
Definition N_all_none (t : table) (rows cols : option (list nat)) : bool :=
  forallb (fun r => forallb id r) (N_slice t rows cols).
Definition N_any_none (t : table) (rows cols : option (list nat)) : bool :=
  existsb (fun r => existsb id r) (N_slice t rows cols).
Definition N_sum_none (t : table) (rows cols : option (list nat)) : nat :=
  list_sum (map (fun r => list_sum (map b2n r)) (N_slice t rows cols)).
Definition N_sum_axis (t : table) (axis : nat) (rows cols : option (list nat)) : list nat :=
  let s := N_slice t rows cols in
  match axis with
  | 0 => map (fun k => list_sum (map (fun r => b2n (nth k r false)) s)) (seq 0 (N_ncols t cols))
  | _ => map (fun r => list_sum (map b2n r)) s
  end.

(* the abstract accessors, which numpy inherits: data[i][j], data[i][cols], data[rows][:, j] *)
Definition N_get_item (t : table) (i j : nat) : bool := nth j (row t i) false.
Definition N_get_row (t : table) (i : nat) (cs : option sel) : list bool :=
  match cs with
  | None => row t i
  | Some s => sel_row (row t i) (sel_idx s)
  end.
Definition N_get_column (t : table) (rs : sel) (j : nat) : list bool :=
  map (fun r => nth j r false) (map (row t) (sel_idx rs)).
(* data[rows] / data[rows][:, cols] *)
Definition N_get_subtable (t : table) (rs : sel) (cs : option sel) : table :=
  let d1 := map (row t) (sel_idx rs) in
  match cs with
  | None => d1
  | Some c => map (fun r => sel_row r (sel_idx c)) d1
  end.

(* data.T: column k of every row, for every k *)
Definition N_T (t : table) : table :=
  map (fun k => map (fun r => nth k r false) t) (seq 0 (width t)).
(* elementwise & | ~ and (data == other.data).all() *)
Definition N_and (t u : table) : table := map2 (fun ra rb => map2 andb ra rb) t u.
Definition N_or (t u : table) : table := map2 (fun ra rb => map2 orb ra rb) t u.
Definition N_invert (t : table) : table := map (fun r => map negb r) t.
Definition N_eq (t u : table) : bool :=
  if negb (Nat.eqb (height t) (height u)) then false
  else if negb (Nat.eqb (width t) (width u)) then false
  else forallb (fun r => forallb id r) (map2 (fun ra rb => map2 Bool.eqb ra rb) t u).

(* ================================================================ dispatch on the class *)

Definition shape_eqb (t u : table) : bool :=
  Nat.eqb (height t) (height u) && Nat.eqb (width t) (width u).

Definition get_item (b : backend) :=
  match b with BLists => L_get_item | BNumpy => N_get_item | BBitarray => B_get_item end.
Definition get_row (b : backend) :=
  match b with BLists => L_get_row | BNumpy => N_get_row | BBitarray => B_get_row end.
Definition get_column (b : backend) :=
  match b with BLists => L_get_column | BNumpy => N_get_column | BBitarray => B_get_column end.
Definition get_subtable (b : backend) :=
  match b with BLists => L_get_subtable | BNumpy => N_get_subtable | BBitarray => B_get_subtable end.

(* the raw (unobserved) result of AbstractBinTable.__getitem__ *)
Inductive got := GBool (v : bool) | GRow (r : list bool) | GTable (d : table).

Definition getitem_raw (b : backend) (t : table) (it : item) : got :=
  match it with
  | ItInt i => GRow (get_row b t i None)
  | ItSel s => GTable (get_subtable b t s None)
  | ItPair (XInt i) (XInt j) => GBool (get_item b t i j)
  | ItPair (XInt i) (XSel c) => GRow (get_row b t i (Some c))
  | ItPair (XSel r) (XInt j) => GRow (get_column b t r j)
  | ItPair (XSel r) (XSel c) => GTable (get_subtable b t r (Some c))
  end.

Definition getitem (b : backend) (t : table) (it : item) : res val :=
  match getitem_raw b t it with
  | GBool v => ROk (VBool v)
  | GRow r => ROk (VBools r)
  | GTable d => observe b d
  end.

Definition axis_ok (axis : option nat) : bool :=
  match axis with None | Some 0 | Some 1 => true | _ => false end.

(* all(axis, rows, columns); an unknown axis raises UnknownAxisError (a TypeError) *)
Definition all_op (b : backend) (t : table) (axis : option nat) (rows cols : option (list nat))
  : res val :=
  if negb (axis_ok axis) then RErr E_Type else
  ROk match b, axis with
      | BLists, None => VBool (L_all t rows cols)
      | BLists, Some 0 => VBools (L_all_per_column t rows cols)
      | BLists, Some _ => VBools (L_all_per_row t rows cols)
      | BBitarray, None => VBool (B_all t rows cols)
      | BBitarray, Some 0 => VBools (B_all_per_column t rows cols)
      | BBitarray, Some _ => VBools (B_all_per_row t rows cols)
      | BNumpy, None => VBool (N_all_none t rows cols)
      | BNumpy, Some a => VBools (N_all t a rows cols)
      end.

Definition any_op (b : backend) (t : table) (axis : option nat) (rows cols : option (list nat))
  : res val :=
  if negb (axis_ok axis) then RErr E_Type else
  ROk match b, axis with
      | BLists, None => VBool (L_any t rows cols)
      | BLists, Some 0 => VBools (L_any_per_column t rows cols)
      | BLists, Some _ => VBools (L_any_per_row t rows cols)
      | BBitarray, None => VBool (B_any t rows cols)
      | BBitarray, Some 0 => VBools (B_any_per_column t rows cols)
      | BBitarray, Some _ => VBools (B_any_per_row t rows cols)
      | BNumpy, None => VBool (N_any_none t rows cols)
      | BNumpy, Some a => VBools (N_any t a rows cols)
      end.

Definition sum_op (b : backend) (t : table) (axis : option nat) (rows cols : option (list nat))
  : res val :=
  if negb (axis_ok axis) then RErr E_Type else
  ROk match b, axis with
      | BLists, None => VNat (L_sum t rows cols)
      | BLists, Some 0 => VNats (L_sum_per_column t rows cols)
      | BLists, Some _ => VNats (L_sum_per_row t rows cols)
      | BBitarray, None => VNat (B_sum t rows cols)
      | BBitarray, Some 0 => VNats (B_sum_per_column t rows cols)
      | BBitarray, Some _ => VNats (B_sum_per_row t rows cols)
      | BNumpy, None => VNat (N_sum_none t rows cols)
      | BNumpy, Some a => VNats (N_sum_axis t a rows cols)
      end.

(* all_i / any_i (axis 0 or 1; they call all()/any() first, which rejects other axes) *)
Definition all_i_op (b : backend) (t : table) (axis : nat) (rows cols : option (list nat)) : res val :=
  if negb (axis_ok (Some axis)) then RErr E_Type else ROk (VNats (all_i b t axis rows cols)).
Definition any_i_op (b : backend) (t : table) (axis : nat) (rows cols : option (list nat)) : res val :=
  if negb (axis_ok (Some axis)) then RErr E_Type else ROk (VNats (any_i b t axis rows cols)).

Definition T_m (b : backend) (t : table) : table :=
  match b with BLists => L_T t | BNumpy => N_T t | BBitarray => B_T t end.
Definition and_m (b : backend) (t u : table) : res table :=
  if negb (shape_eqb t u) then RErr E_Assertion else     (* assert self.shape == other.shape *)
  ROk match b with BLists => L_and t u | BNumpy => N_and t u | BBitarray => B_and t u end.
Definition or_m (b : backend) (t u : table) : res table :=
  if negb (shape_eqb t u) then RErr E_Assertion else
  ROk match b with BLists => L_or t u | BNumpy => N_or t u | BBitarray => B_or t u end.
Definition invert_m (b : backend) (t : table) : table :=
  match b with BLists => L_invert t | BNumpy => N_invert t | BBitarray => B_invert t end.
Definition eq_m (b : backend) (t u : table) : bool :=
  match b with BLists => L_eq t u | BNumpy => N_eq t u | BBitarray => B_eq t u end.

(* ================================================================ construction / conversion *)

(* Python data handed to a constructor: its kind (list of lists / ndarray / list of
   frozenbitarrays, named by the class that owns that representation) and its content.
   AbstractBinTable._transform_data: empty data -> ([], 0, 0); data of the class's own kind is
   taken as it is; otherwise the owning class is instantiated and its to_list() converted. *)
Definition construct (b : backend) (kind : backend) (d : table) : res table :=
  match d with
  | [] => ROk []
  | _ => if backend_eqb kind b then ROk d
         else rbind (to_list_m kind d) (fun l => ROk l)
  end.

(* init_bintable(data, class_name).  via = 0: data is a table object of class b;
   via = 1: data is the raw .data of such an object.  target None = 'auto', which tries the
   first class whose dependencies are installed (BinTableBitarray) on whatever it is given —
   a table object is not a known data type there (UnknownDataTypeError). *)
Definition init_bintable (b : backend) (d : table) (via : nat) (target : option backend)
  : res (backend * table) :=
  match via, target with
  | 0, None => match d with [] => ROk (BBitarray, []) | _ => RErr E_Type end
  | 0, Some c => if backend_eqb b c then ROk (b, d)
                 else rbind (construct c b d) (fun d' => ROk (c, d'))
  | _, None => rbind (construct BBitarray b d) (fun d' => ROk (BBitarray, d'))
  | _, Some c => rbind (construct c b d) (fun d' => ROk (c, d'))
  end.

Definition conv_op (b : backend) (t : table) (via : nat) (target : option backend) : res val :=
  rbind (init_bintable b t via target) (fun cd =>
  rbind (to_list_m (fst cd) (snd cd)) (fun l =>
  ROk (VConv (fst cd) (height (snd cd)) (width (snd cd)) l))).

(* ================================================================ FormalContext wrappers *)

(* FormalContext(data, object_names, attribute_names, backend=b) for a table object / raw data
   that init_bintable has already turned into [d]: the two name setters assert the lengths. *)
Definition mk_ctx (b : backend) (d : table) (on an : list nat) : res val :=
  if negb (Nat.eqb (length on) (height d)) then RErr E_Assertion
  else if negb (Nat.eqb (length an) (width d)) then RErr E_Assertion
  else rbind (to_list_m b d) (fun l => ROk (VCtx (height d) (width d) l on an)).

(* slice_list(names, slicer) *)
Definition slice_names (names : list nat) (x : idx) : list nat :=
  match x with
  | XInt i => [nth i names 0]
  | XSel s => map (fun k => nth k names 0) (sel_idx s)
  end.

(* FormalContext.__getitem__: a non-tuple item selects rows with columns slice(0, n_attributes);
   an element is returned as a bool; a single row / column (1-D data) is handed to the
   FormalContext constructor, which init_bintable cannot classify (TypeError) unless it is
   empty (then it is an empty table and a names assertion fails). *)
Definition ctx_getitem (b : backend) (t : table) (on an : list nat) (it : item) : res val :=
  let rc := match it with
            | ItInt i => (XInt i, XSel (SSlice (seq 0 (width t))))
            | ItSel s => (XSel s, XSel (SSlice (seq 0 (width t))))
            | ItPair r c => (r, c)
            end in
  let on' := slice_names on (fst rc) in
  let an' := slice_names an (snd rc) in
  match getitem_raw b t (ItPair (fst rc) (snd rc)) with
  | GBool v => ROk (VBool v)
  | GRow [] => RErr E_Assertion
  | GRow _ => RErr E_Type
  | GTable d => mk_ctx b d on' an'
  end.

(* FormalContext.T: FormalContext(self.data.T.data, attribute_names, object_names, backend) *)
Definition ctx_T (b : backend) (t : table) (on an : list nat) : res val :=
  rbind (init_bintable b (T_m b t) 1 (Some b)) (fun cd => mk_ctx (fst cd) (snd cd) an on).

(* ~K: FormalContext(~self.data, object_names, toggled attribute names, backend); the name
   toggling belongs to C06, the harness strips it *)
Definition ctx_invert (b : backend) (t : table) (on an : list nat) : res val :=
  rbind (init_bintable b (invert_m b t) 0 (Some b)) (fun cd => mk_ctx (fst cd) (snd cd) on an).

(* to_bin_attr_extents: for i, m in enumerate(attribute_names): self.data[:, i] *)
Definition ctx_extents (b : backend) (t : table) (an : list nat) : res val :=
  ROk (VExt (map (fun im => (snd im, get_column b t (SSlice (seq 0 (height t))) (fst im)))
                 (combine (seq 0 (length an)) an))).

(* K == K' with equal names and no target: self.data == other.data and None == None *)
Definition ctx_eq (b : backend) (t u : table) : res val := ROk (VBool (eq_m b t u && true)).

(* ================================================================ the operations as data *)

Inductive op :=
| OShape | OHeight | OWidth | OLen | OToList | OToTuple | OT | OInvert
| OAnd (u : table) | OOr (u : table) | OEq (u : table)
| OAll (axis : option nat) (rows cols : option (list nat))
| OAny (axis : option nat) (rows cols : option (list nat))
| OSum (axis : option nat) (rows cols : option (list nat))
| OAllI (axis : nat) (rows cols : option (list nat))
| OAnyI (axis : nat) (rows cols : option (list nat))
| OGet (it : item)
| OConv (via : nat) (target : option backend)
| OCtxGet (on an : list nat) (it : item)
| OCtxT (on an : list nat)
| OCtxInvert (on an : list nat)
| OCtxExtents (an : list nat)
| OCtxEq (u : table)
(* FormalContext.extension_i / intention_i / extension_monotone_i / intention_monotone_i
   (kind 0 / 1 / 2 / other; Model/FormalContext.v) — whatever container the selections come in,
   they denote the index list the harness reads off it *)
| ODeriv (kind : nat) (arg : list nat) (base : option (list nat)).

Definition run_op (b : backend) (t : table) (o : op) : res val :=
  match o with
  | OShape => ROk (VShape (height t) (width t))
  | OHeight => ROk (VNat (height t))
  | OWidth => ROk (VNat (width t))
  | OLen => ROk (VNat (height t))
  | OToList => rbind (to_list_m b t) (fun l => ROk (VTable (height t) (width t) l))
  | OToTuple => rbind (to_list_m b t) (fun l => ROk (VTable (height t) (width t) l))
  | OT => observe b (T_m b t)
  | OInvert => observe b (invert_m b t)
  | OAnd u => rbind (and_m b t u) (observe b)
  | OOr u => rbind (or_m b t u) (observe b)
  | OEq u => ROk (VBool (eq_m b t u))
  | OAll axis rows cols => all_op b t axis rows cols
  | OAny axis rows cols => any_op b t axis rows cols
  | OSum axis rows cols => sum_op b t axis rows cols
  | OAllI axis rows cols => all_i_op b t axis rows cols
  | OAnyI axis rows cols => any_i_op b t axis rows cols
  | OGet it => getitem b t it
  | OConv via target => conv_op b t via target
  | OCtxGet on an it => ctx_getitem b t on an it
  | OCtxT on an => ctx_T b t on an
  | OCtxInvert on an => ctx_invert b t on an
  | OCtxExtents an => ctx_extents b t an
  | OCtxEq u => ctx_eq b t u
  | ODeriv 0 arg base => ROk (VNats (extension_i b t arg base))
  | ODeriv 1 arg base => ROk (VNats (intention_i b t arg base))
  | ODeriv 2 arg base => ROk (VNats (extension_monotone_i b t arg base))
  | ODeriv _ arg base => ROk (VNats (intention_monotone_i b t arg base))
  end.

(* Model/Poset.v — Gallina transcription of fcapy/poset/poset.py (class POSet), definitions only.

   State = element list + the five caches (_cache_leq, _cache_descendants, _cache_ancestors,
   _cache_children, _cache_parents) as association lists + the use_cache flag.  The
   element->index dictionary is [index_of] on the element list.  Mutation is state passing:
   every accessor returns the new state together with its value, because the cached accessors
   write back.  Python sets of indexes are duplicate-free lists; where the code iterates a set
   the model iterates the list in its stored order (ascending for everything built by a
   comprehension over range(len)), and outputs are listed in ascending order ([norm]).
   The two symmetric halves of the code (ancestors/parents/tops/join versus
   descendants/children/bottoms/meet) are one definition with a direction flag [up].
   Loops that are not structural (the work lists of trace_element and of
   _closed_relation_cache_by_direct_cache) run on explicit fuel; exhaustion is the error EFuel.
   A dictionary subscript that can raise KeyError is an [option]. *)
From FCA Require Export Base.ListSet Spec.PosetSpec.

(* ------------------------------------------------------------------ association lists *)
Section Assoc.
  Context {K V : Type}.
  Variable keqb : K -> K -> bool.
  Fixpoint lookup (c : list (K * V)) (k : K) : option V :=
    match c with
    | [] => None
    | (k', v) :: c' => if keqb k k' then Some v else lookup c' k
    end.
  Fixpoint remove_key (k : K) (c : list (K * V)) : list (K * V) :=
    match c with
    | [] => []
    | (k', v) :: c' => if keqb k k' then remove_key k c' else (k', v) :: remove_key k c'
    end.
  (* d[k] = v *)
  Definition update (k : K) (v : V) (c : list (K * V)) : list (K * V) := (k, v) :: remove_key k c.
  Definition has_key (c : list (K * V)) (k : K) : bool :=
    match lookup c k with Some _ => true | None => false end.
End Assoc.

Definition pair_eqb (p q : nat * nat) : bool := Nat.eqb (fst p) (fst q) && Nat.eqb (snd p) (snd q).
Definition cache := list (nat * list nat).
Definition lcache := list ((nat * nat) * bool).
Definition lk (c : cache) (k : nat) := lookup Nat.eqb c k.
Definition upd (k : nat) (v : list nat) (c : cache) : cache := update Nat.eqb k v c.
Definition lkl (c : lcache) (k : nat * nat) := lookup pair_eqb c k.
Definition updl (k : nat * nat) (v : bool) (c : lcache) : lcache := update pair_eqb k v c.

(* sets of indexes as duplicate-free lists *)
Definition union (a b : list nat) : list nat := a ++ diff b a.
Definition add1 (x : nat) (l : list nat) : list nat := if mem x l then l else l ++ [x].
Definition is_nil {A} (l : list A) : bool := match l with [] => true | _ => false end.
(* ascending duplicate-free listing of a set of indexes *)
Definition norm (l : list nat) : list nat := filter (fun j => mem j l) (seq 0 (S (list_max l))).

Section PosetModel.
  Variable E : Type.
  Variable leq : E -> E -> bool.
  Variable eqb : E -> E -> bool.

  Notation lq := (lq E leq).
  Notation memE := (memE E eqb).
  Notation index_of := (index_of E eqb).
  Notation op := (op E).
  Notation out := (out E).

  Record state := mk_state {
    els : list E;
    c_leq : lcache;
    c_desc : cache;
    c_anc : cache;
    c_ch : cache;
    c_par : cache;
    use_cache : bool
  }.

  Definition set_els s v := mk_state v (c_leq s) (c_desc s) (c_anc s) (c_ch s) (c_par s) (use_cache s).
  Definition set_leq s v := mk_state (els s) v (c_desc s) (c_anc s) (c_ch s) (c_par s) (use_cache s).
  Definition set_desc s v := mk_state (els s) (c_leq s) v (c_anc s) (c_ch s) (c_par s) (use_cache s).
  Definition set_anc s v := mk_state (els s) (c_leq s) (c_desc s) v (c_ch s) (c_par s) (use_cache s).
  Definition set_ch s v := mk_state (els s) (c_leq s) (c_desc s) (c_anc s) v (c_par s) (use_cache s).
  Definition set_par s v := mk_state (els s) (c_leq s) (c_desc s) (c_anc s) (c_ch s) v (use_cache s).

  (* up = true: ancestors / parents;  up = false: descendants / children *)
  Definition closed_cache (up : bool) s : cache := if up then c_anc s else c_desc s.
  Definition cover_cache (up : bool) s : cache := if up then c_par s else c_ch s.
  Definition set_closed (up : bool) s v := if up then set_anc s v else set_desc s v.
  Definition set_cover (up : bool) s v := if up then set_par s v else set_ch s v.

  Definition size s := length (els s).

  (* POSet.__init__ without children_dict *)
  Definition init (l : list E) (uc : bool) : state := mk_state l [] [] [] [] [] uc.

  (* ---------------------------------------------------------------- leq_elements *)
  (* _leq_elements_cache: table, then descendants cache of b, then ancestors cache of a (the two
     strict caches only for a <> b), else compute and store; _leq_elements_nocache otherwise *)
  Definition leq_elements (s : state) (a b : nat) : state * bool :=
    if use_cache s then
      match lkl (c_leq s) (a, b) with
      | Some r => (s, r)
      | None =>
          match (if Nat.eqb a b then None else lk (c_desc s) b) with
          | Some d => (s, mem a d)
          | None =>
              match (if Nat.eqb a b then None else lk (c_anc s) a) with
              | Some u => (s, mem b u)
              | None => let r := lq (els s) a b in
                        (set_leq s (updl (a, b) r (c_leq s)), r)
              end
          end
      end
    else (s, lq (els s) a b).

  (* {j for j in js if f(j)} with the state threaded through every call *)
  Fixpoint scan (f : state -> nat -> state * bool) (s : state) (js : list nat) : state * list nat :=
    match js with
    | [] => (s, [])
    | j :: js' =>
        let '(s1, r) := f s j in
        let '(s2, rest) := scan f s1 js' in
        (s2, if r then j :: rest else rest)
    end.

  (* _ancestors_nocache / _descendants_nocache: leq_elements is evaluated first for EVERY index,
     the reflexive pair included (which is how (i,i) entries get stored) *)
  Definition closed_nocache (up : bool) (s : state) (i : nat) : state * list nat :=
    scan (fun s j =>
            let '(s', r) := if up then leq_elements s i j else leq_elements s j i in
            (s', r && negb (Nat.eqb j i)))
         s (seq 0 (size s)).

  (* self.ancestors / self.descendants: the _cache variant when use_cache, else _nocache *)
  Definition closed (up : bool) (s : state) (i : nat) : state * list nat :=
    if use_cache s then
      match lk (closed_cache up s) i with
      | Some r => (s, r)
      | None =>
          let '(s1, r) := closed_nocache up s i in
          (set_closed up s1 (upd i r (closed_cache up s1)), r)
      end
    else closed_nocache up s i.

  (* for el in list(X): if el in X: X -= rel(el) *)
  Fixpoint prune (rel : state -> nat -> state * list nat) (s : state) (todo cur : list nat)
    : state * list nat :=
    match todo with
    | [] => (s, cur)
    | x :: t =>
        if mem x cur then
          let '(s1, r) := rel s x in prune rel s1 t (diff cur r)
        else prune rel s t cur
    end.

  (* list(superelement_idxs): CPython lists a set of small ints in ascending order; the order
     only matters when the caches are unsound (results of the set algebra, finding D15) *)
  Definition cover_nocache (up : bool) (s : state) (i : nat) : state * list nat :=
    let '(s1, sup) := closed up s i in
    prune (closed up) s1 (norm sup) sup.

  Definition cover (up : bool) (s : state) (i : nat) : state * list nat :=
    if use_cache s then
      match lk (cover_cache up s) i with
      | Some r => (s, r)
      | None =>
          let '(s1, r) := cover_nocache up s i in
          (set_cover up s1 (upd i r (cover_cache up s1)), r)
      end
    else cover_nocache up s i.

  (* POSet.tops / POSet.bottoms *)
  Definition extremes_q (up : bool) (s : state) : state * list nat :=
    scan (fun s j => let '(s', r) := closed up s j in (s', is_nil r)) s (seq 0 (size s)).

  (* join / meet *)
  Definition bound_q (up : bool) (s : state) (l : list nat) : state * out :=
    let l' := match l with [] => seq 0 (size s) | _ => l end in
    match l' with
    | [] => (s, OErr EIndex)
    | x :: rest =>
        let '(s1, a0) := closed up s x in
        let '(s2, cur) :=
          fold_left (fun (sc : state * list nat) y =>
                       let '(s', a) := closed up (fst sc) y in (s', inter (snd sc) (union a [y])))
                    rest (s1, union a0 [x]) in
        let '(s3, fin) :=
          fold_left (fun (sc : state * list nat) y =>
                       let '(s', a) := closed up (fst sc) y in (s', diff (snd sc) a))
                    cur (s2, cur) in
        (s3, OOpt (match fin with [z] => Some z | _ => None end))
    end.

  (* ---------------------------------------------------------------- __eq__ *)
  Definition set_eqE (l1 l2 : list E) : bool :=
    forallb (fun e => memE e l2) l1 && forallb (fun e => memE e l1) l2.

  (* {other_i_self_i_map[j2] for j2 in other_subs} *)
  Definition map_back (l1 l2 : list E) (d2 : list nat) : list nat :=
    flat_map (fun j2 => match nth_error l2 j2 with
                        | Some x => match index_of x l1 with Some j => [j] | None => [] end
                        | None => [] end) d2.

  Fixpoint eq_loop (is : list nat) (s1 s2 : state) : state * state * bool :=
    match is with
    | [] => (s1, s2, true)
    | i :: is' =>
        match nth_error (els s1) i with
        | None => (s1, s2, true)
        | Some e =>
            match index_of e (els s2) with
            | None => (s1, s2, false)
            | Some i2 =>
                let '(s1', d1) := closed false s1 i in
                let '(s2', d2) := closed false s2 i2 in
                if same_setb d1 (map_back (els s1) (els s2) d2) then eq_loop is' s1' s2'
                else (s1', s2', false)
            end
        end
    end.

  Definition poset_eq (s1 s2 : state) : state * state * bool :=
    if set_eqE (els s1) (els s2) then eq_loop (seq 0 (size s1)) s1 s2 else (s1, s2, false).

  (* ---------------------------------------------------------------- fill_up_* *)
  Definition fill_leq (s : state) : state :=
    fold_left (fun s i =>
      fold_left (fun s j => match lkl (c_leq s) (i, j) with
                            | Some _ => s
                            | None => fst (leq_elements s i j) end)
                (seq 0 (size s)) s)
      (seq 0 (size s)) s.
  Definition fill_rel (f : state -> nat -> state * list nat) (s : state) : state :=
    fold_left (fun s i => fst (f s i)) (seq 0 (size s)) s.
  Definition fill (k : nat) (s : state) : state :=
    match k with
    | 0 => fill_leq s
    | 1 => fill_rel (closed false) s
    | 2 => fill_rel (closed true) s
    | 3 => fill_rel (cover false) s
    | 4 => fill_rel (cover true) s
    | _ => fill_rel (cover true) (fill_rel (cover false) (fill_rel (closed true)
             (fill_rel (closed false) (fill_leq s))))
    end.

  (* ---------------------------------------------------------------- trace_element *)
  (* _trace_elements_both_directions: breadth-first walk from [todo] through [next], keeping the
     elements that compare with the new element; every iteration moves one new index into
     [traced], so [size + 1] rounds of fuel suffice *)
  Fixpoint bfs (fuel : nat) (next : state -> nat -> state * list nat) (cmp : nat -> bool)
           (s : state) (todo traced final : list nat) : state * option (list nat * list nat) :=
    match todo with
    | [] => (s, Some (final, traced))
    | el :: rest =>
        match fuel with
        | 0 => (s, None)
        | S f =>
            let traced' := add1 el traced in
            let '(s1, nx) := next s el in
            let nxt := filter cmp nx in
            match nxt with
            | [] => bfs f next cmp s1 rest traced' (add1 el final)
            | _ => bfs f next cmp s1 (rest ++ diff (diff nxt traced') rest) traced' final
            end
        end
    end.

  (* trace_element(e, 'up') is [trace starts true]: start at the bottoms, move through parents,
     keep what is below e; result (children of e, descendants of e).  'down' is [trace _ false].
     [starts up] is self.tops / self.bottoms, which the semilattice classes override. *)
  Definition trace (starts : bool -> state -> state * list nat) (mv_up : bool) (s : state) (e : E)
    : state * option (list nat * list nat) :=
    let cmp := fun j => match nth_error (els s) j with
                        | Some x => if mv_up then leq x e else leq e x
                        | None => false end in
    let '(s1, st) := starts (negb mv_up) s in
    bfs (S (size s)) (cover mv_up) cmp s1 (filter cmp st) [] [].

  (* ---------------------------------------------------------------- add *)
  (* the loop over the old elements in POSet.add; None = KeyError on a cache subscript *)
  Definition add_patch (nw : nat) (ch desc par anc : list nat) (s : option state) (i : nat)
    : option state :=
    match s with
    | None => None
    | Some s =>
        if mem i desc then
          match lk (c_anc s) i with
          | None => None
          | Some ai =>
              let s1 := set_anc s (upd i (union ai [nw]) (c_anc s)) in
              let s2 := set_leq s1 (updl (nw, i) false (updl (i, nw) true (c_leq s1))) in
              if mem i ch then
                match lk (c_par s2) i with
                | None => None
                | Some pi => Some (set_par s2 (upd i (union [nw] (diff pi anc)) (c_par s2)))
                end
              else Some s2
          end
        else if mem i anc then
          match lk (c_desc s) i with
          | None => None
          | Some di =>
              let s1 := set_desc s (upd i (union di [nw]) (c_desc s)) in
              let s2 := set_leq s1 (updl (nw, i) true (updl (i, nw) false (c_leq s1))) in
              if mem i par then
                match lk (c_ch s2) i with
                | None => None
                | Some ci => Some (set_ch s2 (upd i (union [nw] (diff ci desc)) (c_ch s2)))
                end
              else Some s2
          end
        else Some (set_leq s (updl (nw, i) false (updl (i, nw) false (c_leq s))))
    end.

  Definition add_with (starts : bool -> state -> state * list nat) (s : state) (e : E) (fill_up : bool)
    : state * out :=
    if memE e (els s) then (s, OEls (els s)) else
    let nw := size s in
    let done := fun s' => let s'' := set_els s' (els s' ++ [e]) in (s'', OEls (els s'')) in
    if use_cache s then
      if fill_up then
        let s0 := set_leq s (updl (nw, nw) true (c_leq s)) in
        let '(s1, r1) := trace starts true s0 e in
        match r1 with
        | None => (s, OErr EFuel)
        | Some (ch, desc) =>
            let s2 := set_desc (set_ch s1 (upd nw ch (c_ch s1))) (upd nw desc (c_desc s1)) in
            let '(s3, r2) := trace starts false s2 e in
            match r2 with
            | None => (s, OErr EFuel)
            | Some (par, anc) =>
                let s4 := set_anc (set_par s3 (upd nw par (c_par s3))) (upd nw anc (c_anc s3)) in
                match fold_left (add_patch nw ch desc par anc) (seq 0 nw) (Some s4) with
                | None => (s, OErr EKey)
                | Some s5 => done s5
                end
            end
        end
      else done (set_par (set_ch (set_anc (set_desc s []) []) []) [])
    else done s.

  Definition add := add_with extremes_q.

  (* ---------------------------------------------------------------- __delitem__ *)
  Definition decr (t i : nat) : nat := if Nat.ltb t i then i - 1 else i.

  (* the lines added by the D12 repair: cache what reconnect_relatives reads *)
  Definition prefetch (s : state) (key : nat) : state :=
    let '(s1, ps) := cover true s key in
    let s2 := fold_left (fun s p =>
                let '(sa, cp) := cover false s p in
                let '(sb, ck) := cover false sa key in
                fold_left (fun s x => fst (closed false s x)) (union cp ck) sb) ps s1 in
    let '(s3, cs) := cover false s2 key in
    let s4 := fold_left (fun s c =>
                let '(sa, pc) := cover true s c in
                let '(sb, pk) := cover true sa key in
                fold_left (fun s x => fst (closed true s x)) (union pc pk) sb) cs s3 in
    fst (closed false (fst (closed true s4 key)) key).

  (* one of the two cover loops of reconnect_relatives.  [up = false]: for parent in parents:
     patch _cache_children[parent] with the removed element's children, minimised through
     _cache_descendants (a plain subscript: None = KeyError) *)
  Definition reconnect_cover (up : bool) (item : nat) (rel_far rel_near : list nat) (s : option state)
    : option state :=
    fold_left (fun (s : option state) (p : nat) =>
      match s with
      | None => None
      | Some s =>
          match lk (cover_cache up s) p with
          | None => Some s
          | Some cp =>
              let cand := diff (union cp rel_near) [item] in
              match fold_left (fun (acc : option (list nat)) c =>
                                 match acc with
                                 | None => None
                                 | Some cur => match lk (closed_cache up s) c with
                                               | None => None
                                               | Some dc => Some (diff cur dc) end
                                 end) cand (Some cand) with
              | None => None
              | Some fin => Some (set_cover up s (upd p fin (cover_cache up s)))
              end
          end
      end) rel_far s.

  Definition reconnect_closed (up : bool) (item : nat) (rel : list nat) (s : state) : state :=
    fold_left (fun s a => match lk (closed_cache up s) a with
                          | None => s
                          | Some d => set_closed up s (upd a (diff d [item]) (closed_cache up s))
                          end) rel s.

  Definition pop (c : cache) (k : nat) : list nat * cache :=
    match lk c k with Some v => (v, remove_key Nat.eqb k c) | None => ([], c) end.

  Definition reconnect_relatives (s : state) (item : nat) : option state :=
    let '(ancs, ca) := pop (c_anc s) item in
    let '(descs, cd) := pop (c_desc s) item in
    let '(pars, cp) := pop (c_par s) item in
    let '(chs, cc) := pop (c_ch s) item in
    let s0 := set_ch (set_par (set_desc (set_anc s ca) cd) cp) cc in
    (* for parent in parents: children cache; for child in children: parents cache *)
    match reconnect_cover true item chs pars (reconnect_cover false item pars chs (Some s0)) with
    | None => None
    | Some s2 =>
        (* for ancestor in ancestors: descendants cache;  for descendant in descendants: ancestors *)
        Some (reconnect_closed true item descs (reconnect_closed false item ancs s2))
    end.

  Definition decrement_cache (t : nat) (c : cache) : cache :=
    fold_left (fun acc (kv : nat * list nat) =>
                 if Nat.eqb t (fst kv) then acc
                 else upd (decr t (fst kv))
                          (map (decr t) (filter (fun i => negb (Nat.eqb i t)) (snd kv))) acc)
              c [].
  Definition decrement_leq (t : nat) (c : lcache) : lcache :=
    fold_left (fun acc (kv : (nat * nat) * bool) =>
                 let '(a, b) := fst kv in
                 if Nat.eqb t a || Nat.eqb t b then acc
                 else updl (decr t a, decr t b) (snd kv) acc)
              c [].

  Definition delitem (s : state) (key : nat) : state * out :=
    let s1 := if use_cache s then prefetch s key else s in
    let s2 := set_els s1 (remove_nth key (els s1)) in
    if use_cache s then
      match reconnect_relatives s2 key with
      | None => (s, OErr EKey)
      | Some s3 =>
          let s4 := mk_state (els s3) (decrement_leq key (c_leq s3))
                             (decrement_cache key (c_desc s3)) (decrement_cache key (c_anc s3))
                             (decrement_cache key (c_ch s3)) (decrement_cache key (c_par s3))
                             (use_cache s3) in
          (s4, OEls (els s4))
      end
    else (s2, OEls (els s2)).

  (* remove: idx = self.index(element); del self[idx] *)
  Definition remove_with (del : state -> nat -> state * out) (s : state) (e : E) : state * out :=
    match index_of e (els s) with
    | None => (s, OErr EKey)
    | Some i => del s i
    end.

  (* ---------------------------------------------------------------- one public call *)
  Definition step (s : state) (o : op) : state * out :=
    match o with
    | QLeq a b => let '(s', r) := leq_elements s a b in (s', OBool r)
    | QClosed up i => let '(s', r) := closed up s i in (s', OSet (norm r))
    | QCover up i => let '(s', r) := cover up s i in (s', OSet (norm r))
    | QExtremes up => let '(s', r) := extremes_q up s in (s', OList r)
    | QBound up l => bound_q up s l
    | QIndex e => (s, match index_of e (els s) with Some i => ONat i | None => OErr EKey end)
    | QContains e => (s, OBool (memE e (els s)))
    | QLen => (s, ONat (size s))
    | QEq other oc => let '(s', _, b) := poset_eq s (init other oc) in (s', OBool b)
    | OFill k => if use_cache s then (fill k s, ONone) else (s, OErr EAssert)
    | OAdd e f => add s e f
    | ODel i => delitem s i
    | ORemove e => remove_with delitem s e
    end.

  Fixpoint run (s : state) (ops : list op) : state * list out :=
    match ops with
    | [] => (s, [])
    | o :: ops' => let '(s1, r) := step s o in
                   let '(s2, rs) := run s1 ops' in (s2, r :: rs)
    end.

  (* ---------------------------------------------------------------- __init__ with children_dict *)
  (* _transpose_hierarchy *)
  Definition transpose (h : cache) : cache :=
    fold_left (fun (acc : cache) (kv : nat * list nat) =>
                 let acc1 := match lk acc (fst kv) with Some _ => acc | None => upd (fst kv) [] acc end in
                 fold_left (fun (acc : cache) v =>
                              upd v (union (match lk acc v with Some x => x | None => [] end) [fst kv]) acc)
                           (snd kv) acc1)
              h [].

  Definition getd (c : cache) (k : nat) : list nat := match lk c k with Some v => v | None => [] end.

  (* first index of to_visit whose direct relatives are all visited *)
  Fixpoint first_ready (direct : cache) (visited : list nat) (todo : list nat) : option nat :=
    match todo with
    | [] => None
    | x :: t => if subsetb (getd direct x) visited then Some x
                else first_ready direct visited t
    end.
  Fixpoint remove_first (x : nat) (l : list nat) : list nat :=
    match l with
    | [] => []
    | y :: t => if Nat.eqb x y then t else y :: remove_first x t
    end.

  (* _closed_relation_cache_by_direct_cache; the work list may hold an index several times, so
     the number of rounds is the number of cover paths, bounded by size * 2^size *)
  Fixpoint close_loop (fuel : nat) (direct trans : cache) (todo visited : list nat) (closed_c : cache)
    : option cache :=
    match todo with
    | [] => Some closed_c
    | _ =>
        match fuel with
        | 0 => None
        | S f =>
            match first_ready direct visited todo with
            | None => None
            | Some x =>
                let rels := getd direct x in
                let v := fold_left (fun acc r => union acc (getd closed_c r)) rels rels in
                close_loop f direct trans (remove_first x todo ++ getd trans x) (add1 x visited)
                           (upd x v closed_c)
            end
        end
    end.

  Definition closed_by_direct (n : nat) (direct : cache) : option cache :=
    close_loop (S n * Nat.pow 2 n) direct (transpose direct)
               (map fst (filter (fun kv => is_nil (snd kv)) direct)) [] [].

  Definition leq_table (n : nat) (desc : cache) : lcache :=
    if Nat.ltb n 10 then
      fold_left (fun acc (kv : nat * list nat) =>
                   fold_left (fun acc j => updl (j, fst kv) (Nat.eqb j (fst kv) || mem j (snd kv)) acc)
                             (seq 0 n) acc)
                desc []
    else [].

  Definition init_cd (l : list E) (cd : cache) : option state :=
    match closed_by_direct (length l) cd with
    | None => None
    | Some desc =>
        Some (mk_state l (leq_table (length l) desc) desc (transpose desc) cd (transpose cd) true)
    end.
End PosetModel.

Arguments mk_state {E}. Arguments els {E}. Arguments c_leq {E}. Arguments c_desc {E}.
Arguments c_anc {E}. Arguments c_ch {E}. Arguments c_par {E}. Arguments use_cache {E}.

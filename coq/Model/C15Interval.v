(* Model/C15Interval.v — the part of fcapy/mvcontext (MVContext over IntervalPS /
   IntervalNumpyPS columns) that Sofia and the random-forest miner use:
   IntervalPS.intention_i / extension_i / to_bin_attr_extents / to_numeric,
   MVContext.intention_i / extension_i / to_bin_attr_extents / to_numeric and
   PatternConcept.from_objects.  Definitions only.
   Interval end points are integers (any fixed dyadic grid is isomorphic to them); a
   many-valued context is the list of its columns, each a list of (left, right) pairs, one per
   object. *)
From Coq Require Import QArith.
From FCA Require Export Model.Sofia.
Local Open Scope nat_scope.

Definition ival := (Z * Z)%type.
Definition icol := list ival.
Definition mvctx := list icol.                (* pattern structures, in order *)
Definition descr := list (option ival).       (* {ps_i: description}, in ps order *)
Definition cellv (c : icol) (g : nat) : ival := nth g c (0%Z, 0%Z).
Definition mv_nobj (K : mvctx) : nat := length (hd [] K).

(* IntervalPS.intention_i: None for no object, else a left fold with strict comparisons *)
Definition ips_intention (c : icol) (A : list nat) : option ival :=
  match A with
  | [] => None
  | g :: A' =>
      Some (fold_left (fun acc g' =>
                         let v := cellv c g' in
                         ((if (fst v <? fst acc)%Z then fst v else fst acc),
                          (if (snd acc <? snd v)%Z then snd v else snd acc)))
                      A' (cellv c g))
  end.

(* IntervalPS.extension_i(description, base_objects_i) *)
Definition ips_extension (c : icol) (d : option ival) (base : list nat) : list nat :=
  match d with
  | None => []
  | Some (mn, mx) =>
      filter (fun g => let v := cellv c g in (mn <=? fst v)%Z && (snd v <=? mx)%Z) base
  end.

Definition mv_intention (K : mvctx) (A : list nat) : descr := map (fun c => ips_intention c A) K.

(* for ps_i, description in descriptions_i.items(): extent = ps.extension_i(description, extent);
   if len(extent) == 0: break *)
Fixpoint mv_ext_loop (K : mvctx) (ds : descr) (ext : list nat) : list nat :=
  match K, ds with
  | c :: K', d :: ds' =>
      match ips_extension c d ext with
      | [] => []
      | e => mv_ext_loop K' ds' e
      end
  | _, _ => ext
  end.
Definition mv_extension (K : mvctx) (ds : descr) : list nat := mv_ext_loop K ds (seq 0 (mv_nobj K)).

(* PatternConcept.from_objects(objects, K, is_extent) *)
Definition mv_from_objects (K : mvctx) (A : list nat) (is_extent : bool) : list nat * descr :=
  let d := mv_intention K A in
  (if is_extent then A else mv_extension K d, d).

(* sorted(set(values)) *)
Fixpoint zinsert (v : Z) (l : list Z) : list Z :=
  match l with
  | [] => [v]
  | x :: l' => if (v <? x)%Z then v :: l else if (v =? x)%Z then l else x :: zinsert v l'
  end.
Definition zsort_uniq (l : list Z) : list Z := fold_right zinsert [] l.

(* IntervalPS.to_bin_attr_extents: all objects; left >= b for every distinct left bound but the
   smallest, ascending; right <= b for every distinct right bound but the largest, descending;
   no object *)
Definition ips_bin_attr_extents (c : icol) : list (list bool) :=
  let lefts := zsort_uniq (map fst c) in
  let rights := zsort_uniq (map snd c) in
  [map (fun _ => true) c]
    ++ map (fun lb => map (fun v => (lb <=? fst v)%Z) c) (tl lefts)
    ++ map (fun rb => map (fun v => (snd v <=? rb)%Z) c) (tl (rev rights))
    ++ [map (fun _ => false) c].

Definition mv_bin_attr_extents (K : mvctx) : list (list bool) := flat_map ips_bin_attr_extents K.

(* MVContext.to_numeric()[0]: per object, (left, right) of every column side by side *)
Definition mv_to_numeric (K : mvctx) : list (list Z) :=
  map (fun g => flat_map (fun c => let v := cellv c g in [fst v; snd v]) K) (seq 0 (mv_nobj K)).

(* Sofia on a many-valued context of interval columns *)
Definition sofia_mv (shuffle : list extent -> list extent) (mu : list extent -> list Q)
           (K : mvctx) (L : nat) (min_supp : Q) : list (list nat * descr) :=
  map (fun e => mv_from_objects K (search1 e) true)
      (sofia_extents shuffle mu (mv_nobj K) (mv_bin_attr_extents K)
                     (eff_min_supp min_supp (mv_nobj K)) L).

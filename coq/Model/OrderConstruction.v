(* Model/OrderConstruction.v — transcription of fcapy/algorithms/lattice_construction.py
   (complete_comparison, construct_spanning_tree, construct_lattice_from_spanning_tree and its
   _parallel variant, construct_lattice_by_spanning_tree, add_concept, remove_concept) and of
   ConceptLattice._get_chains / get_top_bottom_concepts_i / get_all_{super,sub}concepts_dict /
   sort_concepts (fcapy/lattice/concept_lattice.py).  Definitions only.

   Concepts are referred to by their index in the given list.  The routines only ever look at
   a concept through
     [lt i j]   : Python's  concepts[i] < concepts[j]     (AbstractConcept.__lt__)
     [rank i]   : position of concept i in ConceptLattice.sort_concepts(concepts)
                  (the identity when is_concepts_sorted=True: the code then uses the index)
     [size i]   : concepts[i].support
   so the model is parameterised by these three functions and by the number [n] of concepts;
   the instance for lists of extents is at the end of the file ([ext_lt], [ext_rank], ...).
   Python dict {index: set} = total map [nat -> list nat] (absent key = []); Python set = list
   (membership is all that is observed; results are compared as sets). *)
From FCA Require Export Base.ListSet.

Definition imap := nat -> list nat.
Definition empty_map : imap := fun _ => [].
Definition upd (f : imap) (i : nat) (v : list nat) : imap :=
  fun j => if Nat.eqb j i then v else f j.
Definition add (x : nat) (s : list nat) : list nat := if mem x s then s else x :: s.
Definition union (a b : list nat) : list nat := fold_right add b a.
Definition tabulate (n : nat) (f : imap) : list (list nat) := map f (seq 0 n).

(* stable insertion sort by a nat key, ascending (Python's sorted(l, key=...)) *)
Fixpoint insert_by (key : nat -> nat) (x : nat) (l : list nat) : list nat :=
  match l with
  | [] => [x]
  | y :: l' => if Nat.leb (key x) (key y) then x :: l else y :: insert_by key x l'
  end.
Definition sort_by (key : nat -> nat) (l : list nat) : list nat := fold_right (insert_by key) [] l.
(* sorted(l, key=lambda i: -key i): stable, descending key *)
Fixpoint insert_by_desc (key : nat -> nat) (x : nat) (l : list nat) : list nat :=
  match l with
  | [] => [x]
  | y :: l' => if Nat.leb (key y) (key x) then x :: l else y :: insert_by_desc key x l'
  end.
Definition sort_by_desc (key : nat -> nat) (l : list nat) : list nat :=
  fold_right (insert_by_desc key) [] l.

Fixpoint min_list (l : list nat) : option nat :=
  match l with
  | [] => None
  | x :: l' => match min_list l' with None => Some x | Some m => Some (Nat.min x m) end
  end.

Inductive res (A : Type) := Done (a : A) | OutOfFuel | Fail (kind : nat).
Arguments Done {A} a. Arguments OutOfFuel {A}. Arguments Fail {A} kind.
(* Fail kinds: 6 = AssertionError, 8 = IndexError (as harness.core.ERR_KINDS) *)

Section Routines.
Variable lt : nat -> nat -> bool.
Variable rank : nat -> nat.
Variable size : nat -> nat.
Variable n : nat.

(* ------------------------------------------------------------------ complete_comparison *)
(* get_subconcepts(a_i): {b_i | (sorted -> not b_i < a_i) and b < a} *)
Definition all_sub (sorted : bool) : imap := fun a =>
  filter (fun b => (if sorted then negb (Nat.ltb b a) else true) && lt b a) (seq 0 n).

(* subconcepts_dict[a_i] = b_is is the SAME set object as all_subconcepts_dict[a_i], so the
   in-place  -=  also shrinks all_subconcepts_dict[a_i]: one map [D] plays both roles.
   b_is.copy() / sorted(b_is) is the value of D a before the inner loop. *)
Definition cc_step (D : imap) (a : nat) : imap :=
  upd D a (fold_left (fun cur b => diff cur (D b)) (D a) (D a)).
Definition complete_comparison (sorted : bool) : imap :=
  fold_left cc_step (seq 0 n) (all_sub sorted).

(* ------------------------------------------------------------------ sort order *)
(* concepts_sorted as a list of indexes: map_isort_i *)
Definition order : list nat := sort_by rank (seq 0 n).

(* ------------------------------------------------------------------ construct_spanning_tree *)
(* [enum] is the iteration order of a Python set (a parameter: any permutation). *)
Section Enum.
Variable enum : list nat -> list nat.

(* while sifted: for subconcept_i in sub_st[superconcept_i]: if c < subconcept: descend; break *)
Fixpoint sift (fuel : nat) (sub : imap) (c sup : nat) : option nat :=
  match fuel with
  | 0 => None
  | S f => match find (fun s => lt c s) (enum (sub sup)) with
           | Some s => sift f sub c s
           | None => Some sup
           end
  end.

Definition st_step (top : nat) (st : res (imap * imap)) (c : nat) : res (imap * imap) :=
  match st with
  | Done (sub, sup) =>
      match sift (S n) sub c top with
      | None => OutOfFuel
      | Some p => Done (upd (upd sub c []) p (add c (upd sub c [] p)), upd sup c [p])
      end
  | e => e
  end.

(* returns (subconcepts_st_dict, superconcepts_st_dict) *)
Definition spanning_tree : res (imap * imap) :=
  match order with
  | [] => Done (empty_map, empty_map)
  | top :: rest => fold_left (st_step top) rest (Done (empty_map, empty_map))
  end.
End Enum.

(* ------------------------------------------------------------------ ConceptLattice._get_chains *)
(* walk from c up to the concept of sort position 0 through sorted(superconcepts_dict[c])[0];
   the list is built bottom-up, i.e. it is the chain reversed *)
Fixpoint walk_up (fuel : nat) (sup : imap) (c : nat) : res (list nat) :=
  match fuel with
  | 0 => OutOfFuel
  | S f => if Nat.eqb (rank c) 0 then Done [c]
           else match min_list (sup c) with
                | None => Fail 8
                | Some p => match walk_up f sup p with
                            | Done l => Done (c :: l)
                            | e => e
                            end
                end
  end.

(* while len(visited) < n: start at the last concept (in sort order) not yet visited *)
Fixpoint chains_loop (fuel : nat) (sup : imap) (visited : list nat) : res (list (list nat)) :=
  match find (fun c => negb (mem c visited)) (rev order) with
  | None => Done []
  | Some c =>
      match fuel with
      | 0 => OutOfFuel
      | S f => match walk_up (S n) sup c with
               | Done up => match chains_loop f sup (union up visited) with
                            | Done chs => Done (rev up :: chs)
                            | e => e
                            end
               | OutOfFuel => OutOfFuel
               | Fail k => Fail k
               end
      end
  end.
Definition get_chains (sup : imap) : res (list (list nat)) := chains_loop n sup [].

(* ------------------------------------------------------------------ construct_lattice_from_spanning_tree *)
(* the three sets of the current concept that iterate_chain mutates in place *)
Record local := { l_S : list nat;   (* superconcepts_dict[c_i_cur] *)
                  l_A : list nat;   (* all_superconcepts[c_i_cur]  *)
                  l_I : list nat }. (* incomparables[c_i_cur]      *)

(* one iteration of iterate_chain's for loop on element [x] at position [idx];
   [prev] = chain_comp[idx - 1] (Python's negative index when idx = 0).
   inl = the loop goes on (continue / fall through), inr p = break with idx_comp_start = p *)
Definition iter_body (c len idx prev x : nat) (l : local) : local * option nat :=
  if mem x (l_A l) then (l, None)
  else
    let smaller := Nat.ltb (rank x) (rank c) in
    let known := mem x (l_I l) in
    let is_super := if known then false else if smaller then lt c x else false in
    let I' := if negb known && smaller && negb is_super then add x (l_I l) else l_I l in
    let last := Nat.eqb idx (len - 1) in
    if is_super && last then
      ({| l_S := add x (l_S l); l_A := add x (l_A l); l_I := I' |}, Some idx)
    else if negb is_super then
      ({| l_S := add prev (l_S l); l_A := l_A l; l_I := I' |}, Some idx)
    else ({| l_S := l_S l; l_A := add x (l_A l); l_I := I' |}, None).

Fixpoint iter_loop (c len : nat) (suffix : list nat) (idx prev : nat) (l : local) (start : nat)
  : local * nat :=
  match suffix with
  | [] => (l, start)
  | x :: rest =>
      match iter_body c len idx prev x l with
      | (l', Some p) => (l', p)
      | (l', None) => iter_loop c len rest (S idx) x l' start
      end
  end.

Definition prev_of (chain : list nat) (idx : nat) : nat :=
  match idx with 0 => last chain 0 | S k => nth k chain 0 end.

Definition iterate_chain (c : nat) (chain : list nat) (start : nat) (l : local) : local * nat :=
  iter_loop c (length chain) (skipn start chain) start (prev_of chain start) l start.

(* for ch_i_comp, chain_comp in enumerate(sptree_chains): ...; idxs_comp[ch_i_comp] = ... *)
Fixpoint scan_chains (c : nat) (chains : list (list nat)) (ptrs : list nat) (l : local)
  : local * list nat :=
  match chains, ptrs with
  | ch :: chains', p :: ptrs' =>
      let '(l1, p1) := iterate_chain c ch p l in
      let '(l2, ps) := scan_chains c chains' ptrs' l1 in
      (l2, p1 :: ps)
  | _, _ => (l, [])
  end.

Record gstate := { g_S : imap; g_A : imap; g_I : imap }.
Definition g0 : gstate := {| g_S := empty_map; g_A := empty_map; g_I := empty_map |}.

(* the body of "for idx_cur, c_i_cur in enumerate(chain[1:])" for concept [c] with chain
   predecessor [p]; [scan] is the sequential or the chunked scanning of all chains *)
Definition process (scan : nat -> list nat -> local -> local * list nat)
           (p c : nat) (gp : gstate * list nat) : gstate * list nat :=
  let '(g, ptrs) := gp in
  match g_S g c with
  | _ :: _ => gp                                  (* superconcepts already found: continue *)
  | [] =>
      let l0 := {| l_S := [p]; l_A := union (p :: g_A g p) (g_A g c); l_I := g_I g c |} in
      let '(l1, ptrs') := scan c ptrs l0 in
      ({| g_S := upd (g_S g) c (l_S l1); g_A := upd (g_A g) c (l_A l1);
          g_I := upd (g_I g) c (l_I l1) |}, ptrs')
  end.

Fixpoint pass_loop (scan : nat -> list nat -> local -> local * list nat)
         (p : nat) (rest : list nat) (gp : gstate * list nat) : gstate * list nat :=
  match rest with
  | [] => gp
  | c :: rest' => pass_loop scan c rest' (process scan p c gp)
  end.

Definition pass (scan : nat -> list nat -> local -> local * list nat) (nch : nat)
           (g : gstate) (chain : list nat) : gstate :=
  match chain with
  | [] => g
  | t :: rest => fst (pass_loop scan t rest (g, repeat 0 nch))   (* idxs_comp = [0] * len *)
  end.

(* final loop: sort the candidates by descending sort position, drop those that are strict
   super-concepts of the idx-th remaining one *)
Fixpoint filt_loop (A : imap) (fuel idx : nat) (l : list nat) : list nat :=
  match fuel with
  | 0 => l
  | S f => match nth_error l idx with
           | None => l
           | Some sc => filt_loop A f (S idx) (filter (fun i => negb (mem i (A sc))) l)
           end
  end.
Definition final_sups (g : gstate) (c : nat) : list nat :=
  let l := sort_by_desc rank (g_S g c) in filt_loop (g_A g) (length l) 0 l.
(* subconcepts_dict[superconcept_i].add(c_i) for every kept superconcept *)
Definition children_of (sups : imap) : imap :=
  fun y => filter (fun c => mem y (sups c)) (seq 0 n).

Definition sweep (scan : nat -> list nat -> local -> local * list nat)
           (chains : list (list nat)) : gstate :=
  fold_left (pass scan (length chains)) chains g0.

Definition from_spanning_tree (chains : list (list nat)) : imap :=
  children_of (final_sups (sweep (fun c => scan_chains c chains) chains)).

(* ---- the _parallel variant, threads run one after the other in chunk order:
   chunks of k = max_n_jobs chains; pointers are read before the chunk and written after *)
Fixpoint scan_chunks (fuel : nat) (c k : nat) (chains : list (list nat)) (ptrs : list nat)
         (l : local) : local * list nat :=
  match fuel with
  | 0 => (l, [])
  | S f =>
      match chains with
      | [] => (l, [])
      | _ =>
          let '(l1, ps) := scan_chains c (firstn k chains) (firstn k ptrs) l in
          let '(l2, ps') := scan_chunks f c k (skipn k chains) (skipn k ptrs) l1 in
          (l2, ps ++ ps')
      end
  end.

Definition from_spanning_tree_parallel (k : nat) (chains : list (list nat)) : imap :=
  children_of (final_sups
    (sweep (fun c => scan_chunks (length chains) c k chains) chains)).

(* ---- threads of one chunk, interleaved: an atomic step is one loop iteration of one thread *)
Record thread := { t_chain : list nat;   (* chain_comp *)
                   t_rest : list nat;    (* elements not yet looked at *)
                   t_idx : nat;          (* idx_comp of the head of t_rest *)
                   t_prev : nat;         (* chain_comp[idx_comp - 1] *)
                   t_start : nat;        (* idx_comp_start (returned) *)
                   t_done : bool }.

Definition spawn (chain : list nat) (start : nat) : thread :=
  {| t_chain := chain; t_rest := skipn start chain; t_idx := start;
     t_prev := prev_of chain start; t_start := start; t_done := false |}.

Definition thread_step (c : nat) (t : thread) (l : local) : thread * local :=
  if t_done t then (t, l)
  else match t_rest t with
       | [] => ({| t_chain := t_chain t; t_rest := []; t_idx := t_idx t; t_prev := t_prev t;
                   t_start := t_start t; t_done := true |}, l)
       | x :: rest =>
           match iter_body c (length (t_chain t)) (t_idx t) (t_prev t) x l with
           | (l', Some p) =>
               ({| t_chain := t_chain t; t_rest := rest; t_idx := t_idx t; t_prev := t_prev t;
                   t_start := p; t_done := true |}, l')
           | (l', None) =>
               ({| t_chain := t_chain t; t_rest := rest; t_idx := S (t_idx t); t_prev := x;
                   t_start := t_start t; t_done := false |}, l')
           end
       end.

Fixpoint set_nth {A} (k : nat) (x : A) (l : list A) : list A :=
  match l, k with
  | [], _ => []
  | _ :: l', 0 => x :: l'
  | y :: l', S k' => y :: set_nth k' x l'
  end.

(* a schedule is the list of thread numbers that take the next atomic step *)
Fixpoint run_schedule (c : nat) (sched : list nat) (ts : list thread) (l : local)
  : list thread * local :=
  match sched with
  | [] => (ts, l)
  | k :: sched' =>
      match nth_error ts k with
      | None => run_schedule c sched' ts l
      | Some t => let '(t', l') := thread_step c t l in
                  run_schedule c sched' (set_nth k t' ts) l'
      end
  end.

Definition all_done (ts : list thread) : bool := forallb t_done ts.

(* the threads joblib starts for one chunk: one per chain, from that chain's resume pointer *)
Definition spawn_all (chs : list (list nat)) (ptrs : list nat) : list thread :=
  map (fun p => spawn (fst p) (snd p)) (combine chs ptrs).

(* the schedule "thread after thread": thread k takes S (length chain) steps, enough to finish *)
Fixpoint seq_schedule (k : nat) (chs : list (list nat)) : list nat :=
  match chs with
  | [] => []
  | ch :: chs' => repeat k (S (length ch)) ++ seq_schedule (S k) chs'
  end.

(* the chunked sweep for concept c under a schedule oracle: [oracle j] is the order in which the
   threads of chunk j take their atomic steps; whatever it leaves unfinished is then run to
   completion thread after thread.  Every complete schedule is of this form (steps of finished
   threads change nothing), so quantifying over all oracles covers all complete interleavings.
   The resume pointers are read before the chunk and written back after it. *)
Fixpoint conc_chunks (oracle : nat -> list nat) (fuel c k j : nat) (chains : list (list nat))
         (ptrs : list nat) (l : local) : local * list nat :=
  match fuel with
  | 0 => (l, [])
  | S f =>
      match chains with
      | [] => (l, [])
      | _ =>
          let chunk := firstn k chains in
          let '(ts, l1) := run_schedule c (oracle j ++ seq_schedule 0 chunk)
                                        (spawn_all chunk (firstn k ptrs)) l in
          let '(l2, ps') := conc_chunks oracle f c k (S j) (skipn k chains) (skipn k ptrs) l1 in
          (l2, map t_start ts ++ ps')
      end
  end.

(* [oracle c j]: schedule of chunk j while concept c is processed *)
Definition from_spanning_tree_conc (oracle : nat -> nat -> list nat) (k : nat)
           (chains : list (list nat)) : imap :=
  children_of (final_sups
    (sweep (fun c => conc_chunks (oracle c) (length chains) c k 0 chains) chains)).

(* ------------------------------------------------------------------ construct_lattice_by_spanning_tree *)
Definition by_spanning_tree (enum : list nat -> list nat) (k : option nat) : res imap :=
  match spanning_tree enum with
  | Done (_, sup) =>
      match get_chains sup with
      | Done chains => Done (match k with
                             | None => from_spanning_tree chains
                             | Some k => from_spanning_tree_parallel k chains
                             end)
      | OutOfFuel => OutOfFuel
      | Fail e => Fail e
      end
  | OutOfFuel => OutOfFuel
  | Fail e => Fail e
  end.

(* ------------------------------------------------------------------ get_top_bottom_concepts_i *)
(* the unsorted branch: running arg-max / arg-min of support with "multiple" flags *)
Definition tb_step (st : (nat * bool) * (nat * bool)) (i : nat) : (nat * bool) * (nat * bool) :=
  let '((t, mt), (b, mb)) := st in
  let mt1 := if Nat.eqb (size i) (size t) then true else mt in
  let mb1 := if Nat.eqb (size i) (size b) then true else mb in
  let '(t2, mt2) := if Nat.ltb (size t) (size i) then (i, false) else (t, mt1) in
  let '(b2, mb2) := if Nat.ltb (size i) (size b) then (i, false) else (b, mb1) in
  ((t2, mt2), (b2, mb2)).
Definition top_bottom : option nat * option nat :=
  let '((t, mt), (b, mb)) := fold_left tb_step (seq 1 (n - 1)) ((0, false), (0, false)) in
  (if mt then None else Some t, if mb then None else Some b).

(* ------------------------------------------------------------------ add_concept *)
(* the new concept has index n: [lt]/[size] are those of the enlarged list.
   Breadth-first descent from the top through sub-concepts that are still above the new one;
   concepts_to_visit += list(subconcepts - visited) enumerates a set: order [enum]. *)
Fixpoint bfs (enum : list nat -> list nat) (next : imap) (keep : nat -> bool)
         (fuel : nat) (queue visited direct : list nat) : res (list nat) :=
  match queue with
  | [] => Done direct
  | c :: queue' =>
      match fuel with
      | 0 => OutOfFuel
      | S f =>
          let visited' := add c visited in
          let nxt := filter keep (next c) in
          match nxt with
          | [] => bfs enum next keep f queue' visited' (add c direct)
          | _ => bfs enum next keep f (queue' ++ enum (diff nxt visited')) visited' direct
          end
      end
  end.

(* number of descending paths starting at x (+1): a bound for the number of pops *)
Fixpoint weight (next : imap) (depth : nat) (x : nat) : nat :=
  match depth with
  | 0 => 1
  | S d => S (fold_right (fun s acc => weight next d s + acc) 0 (next x))
  end.

Record relation := { r_sub : imap; r_sup : imap; r_top : nat; r_bottom : nat }.

Definition add_concept (enum : list nat -> list nat) (sub sup : imap)
           (top bottom : option nat) : res relation :=
  if Nat.ltb n 2 then Fail 6 else
  let weird := match top, bottom with
               | Some t, Some b => lt t n || lt n b
               | _, _ => true
               end in
  let '(top1, bottom1) := if weird then top_bottom else (top, bottom) in
  match top1, bottom1 with
  | Some t, Some b =>
      let finish dsup dsub t' b' :=
        let sub1 := fold_left (fun m s => upd m s (add n (diff (m s) dsub))) dsup sub in
        let sup1 := fold_left (fun m s => upd m s (add n (diff (m s) dsup))) dsub sup in
        Done {| r_sub := upd sub1 n dsub; r_sup := upd sup1 n dsup; r_top := t'; r_bottom := b' |} in
      if lt t n then finish [] [t] n b
      else if lt n b then finish [b] [] t n
      else
        match bfs enum sub (fun s => lt n s) (S (weight sub n t)) [t] [] [] with
        | Done dsup =>
            match bfs enum sup (fun s => lt s n) (S (weight sup n b)) [b] [] [] with
            | Done dsub => finish dsup dsub t b
            | OutOfFuel => OutOfFuel
            | Fail e => Fail e
            end
        | OutOfFuel => OutOfFuel
        | Fail e => Fail e
        end
  | _, _ => Fail 6
  end.

(* ------------------------------------------------------------------ remove_concept *)
(* get_all_superconcepts_dict: visit by descending support, ancestors = parents + their ancestors *)
Definition closure_of (rel : imap) (visit : list nat) : imap :=
  fold_left (fun anc c => upd anc c (fold_left (fun acc s => union (anc s) acc) (rel c) (rel c)))
            visit empty_map.
Definition all_superconcepts_dict (sup : imap) : imap := closure_of sup (sort_by_desc size (seq 0 n)).
Definition all_subconcepts_dict (sub : imap) : imap := closure_of sub (sort_by size (seq 0 n)).

(* for c_i in sorted(S, key): if c_i in S: S -= closure[c_i]   (S changes while we go) *)
Definition prune (closure : imap) (visit : list nat) (s : list nat) : list nat :=
  fold_left (fun cur c => if mem c cur then diff cur (closure c) else cur) visit s.

Definition decr (thr i : nat) : nat := if Nat.leb thr i then i - 1 else i.
Definition reindex (thr : nat) (m : imap) : imap :=
  fun j => let old := if Nat.leb thr j then S j else j in map (decr thr) (m old).

Definition remove_concept (enum : list nat -> list nat) (i : nat) (sub sup : imap)
           (top bottom : option nat) : res relation :=
  if negb (Nat.ltb i n) then Fail 6 else
  if Nat.ltb n 3 then Fail 6 else
  let weird := match top, bottom with
               | Some t, Some b => lt t i || lt i b
               | _, _ => true
               end in
  let '(top1, bottom1) := if weird then top_bottom else (top, bottom) in
  let supers := sup i in
  let subs := sub i in
  let top2 := if (match top1 with Some t => Nat.eqb i t | None => false end)
              then (match subs with [s] => Some s | _ => None end) else top1 in
  let bottom2 := if (match bottom1 with Some b => Nat.eqb i b | None => false end)
                 then (match supers with [s] => Some s | _ => None end) else bottom1 in
  match top2, bottom2 with
  | Some t, Some b =>
      let all_sup := all_superconcepts_dict sup in
      let all_sub := all_subconcepts_dict sub in
      let sub1 := fold_left (fun m s =>
                    let cur := union subs (diff (m s) [i]) in
                    upd m s (prune all_sub (sort_by_desc size (enum cur)) cur)) supers sub in
      let sup1 := fold_left (fun m s =>
                    let cur := union (diff supers [s]) (diff (m s) [i]) in
                    upd m s (prune all_sup (sort_by size (enum cur)) cur)) subs sup in
      Done {| r_sub := reindex i sub1; r_sup := reindex i sup1;
              r_top := decr i t; r_bottom := decr i b |}
  | _, _ => Fail 6
  end.

End Routines.

(* ------------------------------------------------------------------ the instance for extents *)
(* AbstractConcept.__lt__ for antimonotone concepts: supports differ and extent is a subset *)
Definition ext_lt (a b : list nat) : bool := negb (Nat.eqb (length a) (length b)) && subsetb a b.

(* str(g): decimal digits as code points; ','.join(...) *)
Fixpoint digits_fuel (fuel k : nat) (acc : list nat) : list nat :=
  match fuel with
  | 0 => acc
  | S f => let acc' := (48 + Nat.modulo k 10) :: acc in
           if Nat.ltb k 10 then acc' else digits_fuel f (Nat.div k 10) acc'
  end.
Definition digits (k : nat) : list nat := digits_fuel (S k) k [].
Fixpoint join_ext (a : list nat) : list nat :=
  match a with
  | [] => []
  | [g] => digits g
  | g :: a' => digits g ++ 44 :: join_ext a'
  end.
Fixpoint lex_lt (a b : list nat) : bool :=
  match a, b with
  | _, [] => false
  | [], _ :: _ => true
  | x :: a', y :: b' => Nat.ltb x y || (Nat.eqb x y && lex_lt a' b')
  end.
(* key(c) = (-len(extent_i), ','.join(str(g))) : is key a < key b ? *)
Definition key_lt (a b : list nat) : bool :=
  Nat.ltb (length b) (length a) || (Nat.eqb (length a) (length b) && lex_lt (join_ext a) (join_ext b)).

Definition cs_lt (cs : list (list nat)) (i j : nat) : bool := ext_lt (nth i cs []) (nth j cs []).
Definition cs_size (cs : list (list nat)) (i : nat) : nat := length (nth i cs []).
(* position in sort_concepts(concepts); the flag is_concepts_sorted replaces it by the index *)
Definition cs_rank (cs : list (list nat)) (sorted : bool) (i : nat) : nat :=
  if sorted then i
  else length (filter (fun j => key_lt (nth j cs []) (nth i cs [])) (seq 0 (length cs))).

(* Model/C18_MinGen.v — transcription of
     FormalContext.get_minimal_generators / get_minimal_generators_i   (fcapy/context/formal_context.py)
     MVContext.get_minimal_generators, MVContext.generators_by_intent_difference,
     MVContext.extension_i                                             (fcapy/mvcontext/mvcontext.py)
     IntervalPS / IntervalNumpyPS . extension_i, description_to_generators,
     generators_to_description, generators_by_intent_difference        (fcapy/mvcontext/pattern_structure.py)
   Definitions only. *)
From FCA Require Export Model.FormalContext Spec.Closure.
From Coq Require Import ZArith.
Local Open Scope nat_scope.

(* ------------------------------------------------------------------ formal contexts *)

(* itertools.combinations(l, k), in its order *)
Fixpoint combs {A} (k : nat) (l : list A) : list (list A) :=
  match l with
  | [] => match k with 0 => [[]] | S _ => [] end
  | x :: l' => match k with
               | 0 => [[]]
               | S k' => map (cons x) (combs k' l') ++ combs k l'
               end
  end.

(* sorted(comb) *)
Fixpoint insert_sorted (x : nat) (l : list nat) : list nat :=
  match l with
  | [] => [x]
  | y :: l' => if Nat.leb x y then x :: l else y :: insert_sorted x l'
  end.
Definition sort_nat (l : list nat) : list nat := fold_right insert_sorted [] l.

(* ext_i = self.extension_i(comb, base_objects_i=base_objects_i); int_i = self.intention_i(ext_i) *)
Definition closure_in_m (b : backend) (t : table) (comb base_objs : list nat) : list nat :=
  intention_i b t (extension_i b t comb (Some base_objs)) None.

(* one pass of  `for comb in combinations(attrs_to_iterate, n_projection)` *)
Definition mingen_level (b : backend) (t : table) (intent base_gen base_objs attrs : list nat)
           (k : nat) : list (list nat) :=
  map (fun comb => sort_nat (base_gen ++ comb))
      (filter (fun comb => same_setb (closure_in_m b t (base_gen ++ comb) base_objs) intent)
              (combs k attrs)).

(* for n_projection in range(0, len(attrs)+1): ... if len(min_gens) > 0: break *)
Fixpoint mingen_levels (b : backend) (t : table) (intent base_gen base_objs attrs : list nat)
         (ks : list nat) : list (list nat) :=
  match ks with
  | [] => []
  | k :: ks' =>
      match mingen_level b t intent base_gen base_objs attrs k with
      | [] => mingen_levels b t intent base_gen base_objs attrs ks'
      | r => r
      end
  end.

(* get_minimal_generators_i(intent_i, base_generator=None, base_objects_i=None):
     base_generator = list(base_generator) if base_generator is not None else []
     base_objects_i = list(base_objects_i) if base_objects_i is not None else list(range(self.n_objects))
   The result is a set of sorted tuples: duplicates are removed, the order is not observable. *)
Definition get_minimal_generators_i (b : backend) (t : table) (intent : list nat)
           (base_gen : option (list nat)) (base_objs : option (list nat)) : list (list nat) :=
  let bo := default (seq 0 (height t)) base_objs in
  let bg := default [] base_gen in
  let attrs := filter (fun m => negb (mem m bg)) (seq 0 (width t)) in
  nodup_lists (mingen_levels b t intent bg bo attrs (seq 0 (S (length attrs)))).

(* [m_i for m_i, m in enumerate(names) if m in selection] *)
Definition idx_of_names (names sel : list nat) : list nat :=
  filter (fun i => mem (nth i names 0) sel) (seq 0 (length names)).

(* get_minimal_generators(intent, base_generator, base_objects, use_indexes=False) *)
Definition get_minimal_generators_named (b : backend) (t : table) (onames anames : list nat)
           (intent : list nat) (base_gen : option (list nat)) (base_objs : option (list nat))
  : list (list nat) :=
  let intent_i := idx_of_names anames intent in
  let bg := idx_of_names anames (default [] base_gen) in
  let bo := match base_objs with
            | None => seq 0 (height t)
            | Some l => idx_of_names onames l
            end in
  map (map (fun m => nth m anames 0)) (get_minimal_generators_i b t intent_i (Some bg) (Some bo)).

(* ------------------------------------------------------------------ interval pattern structures *)

Inductive bound := NegInf | Fin (z : Z) | PosInf.

Definition bleb (a b : bound) : bool :=
  match a, b with
  | NegInf, _ => true
  | _, PosInf => true
  | Fin x, Fin y => Z.leb x y
  | _, _ => false
  end.
Definition beqb (a b : bound) : bool :=
  match a, b with
  | NegInf, NegInf => true
  | PosInf, PosInf => true
  | Fin x, Fin y => Z.eqb x y
  | _, _ => false
  end.
Definition bmax (a b : bound) : bound := if bleb a b then b else a.
Definition bmin (a b : bound) : bound := if bleb a b then a else b.

(* a description / a generator of one interval column: None, a pair, or a bare number *)
Inductive descr := DNone | DIv (lo hi : bound) | DNum (x : bound).

Definition descr_eqb (a b : descr) : bool :=
  match a, b with
  | DNone, DNone => true
  | DIv l h, DIv l' h' => beqb l l' && beqb h h'
  | DNum x, DNum y => beqb x y
  | _, _ => false
  end.

(* a context: one column of (left, right) end points per pattern structure; [numpy] tells
   whether the columns are IntervalNumpyPS (true) or IntervalPS (false) *)
Record mvctx := { mv_cols : list (list (Z * Z)); mv_n : nat; mv_numpy : bool }.

Inductive res (A : Type) := ROk (a : A) | RErr (kind : nat).   (* kinds as in harness/core.py *)
Arguments ROk {A} a. Arguments RErr {A} kind.
Definition E_Assertion := 6.
Definition E_Type := 7.
Definition rbind {A B} (r : res A) (f : A -> res B) : res B :=
  match r with ROk a => f a | RErr k => RErr k end.

Definition col (K : mvctx) (ps : nat) : list (Z * Z) := nth ps (mv_cols K) [].
Definition cellv (K : mvctx) (ps g : nat) : Z * Z := nth g (col K ps) (0%Z, 0%Z).

Definition in_iv (K : mvctx) (ps : nat) (lo hi : bound) (g : nat) : bool :=
  bleb lo (Fin (fst (cellv K ps g))) && bleb (Fin (snd (cellv K ps g))) hi.

(* IntervalPS.extension_i / IntervalNumpyPS.extension_i(description, base_objects_i) *)
Definition ps_extension (K : mvctx) (ps : nat) (d : descr) (base : list nat) : res (list nat) :=
  match d with
  | DNone => ROk []
  | DIv lo hi => ROk (filter (in_iv K ps lo hi) base)
  | DNum x => if mv_numpy K then RErr E_Type      (* min_, max_ = description *)
              else ROk (filter (in_iv K ps x x) base)
  end.

Definition ddict := list (nat * descr).

(* MVContext.extension_i(descriptions_i, base_objects_i) *)
Fixpoint mv_ext_loop (K : mvctx) (items : ddict) (extent : list nat) : res (list nat) :=
  match items with
  | [] => ROk extent
  | (ps, d) :: items' =>
      rbind (ps_extension K ps d extent) (fun e =>
      match e with
      | [] => ROk []                              (* if len(extent_i) == 0: break *)
      | _ => mv_ext_loop K items' e
      end)
  end.

Definition mv_extension (K : mvctx) (items : ddict) (base : option (list nat)) : res (list nat) :=
  match base with
  | Some [] => ROk []
  | Some bo => mv_ext_loop K items bo
  | None => mv_ext_loop K items (seq 0 (mv_n K))
  end.

(* description_to_generators(description, projection_num) *)
Definition description_to_generators (d : descr) (p : nat) : list descr :=
  match d with
  | DNone => [DNone]
  | _ =>
      let lohi := match d with DIv lo hi => (lo, hi) | DNum x => (x, x) | DNone => (NegInf, PosInf) end in
      match p with
      | 0 => [DIv NegInf PosInf]
      | 1 => [DIv NegInf (snd lohi); DIv (fst lohi) PosInf]
      | _ => [DIv (fst lohi) (snd lohi)]
      end
  end.

(* generators_to_description(generators) *)
Definition gen_lo (g : descr) : bound := match g with DIv lo _ => lo | DNum x => x | DNone => NegInf end.
Definition gen_hi (g : descr) : bound := match g with DIv _ hi => hi | DNum x => x | DNone => PosInf end.
Definition is_dnone (g : descr) : bool := match g with DNone => true | _ => false end.

Definition generators_to_description (gens : list descr) : res descr :=
  if existsb is_dnone gens then ROk DNone
  else match gens with
       | [] => RErr 8                              (* generators[0] on an empty zip: IndexError *)
       | g :: gs =>
           let lo := fold_left bmax (map gen_lo gs) (gen_lo g) in
           let hi := fold_left bmin (map gen_hi gs) (gen_hi g) in
           if bleb lo hi then ROk (if beqb lo hi then DNum lo else DIv lo hi)
           else RErr E_Assertion
       end.

(* IntervalPS.generators_by_intent_difference(new_intent, old_intent) on pairs / None *)
Definition ps_gens_by_diff (new old : descr) : res (list descr) :=
  match new with
  | DNone => ROk [DNone]
  | DNum _ => RErr E_Type
  | DIv nlo nhi =>
      match old with
      | DIv olo ohi =>
          let left_eq := beqb olo nlo in
          let right_eq := beqb ohi nhi in
          if left_eq && right_eq then ROk []
          else if left_eq then ROk [DIv NegInf nhi]
          else if right_eq then ROk [DIv nlo PosInf]
          else rbind (generators_to_description [new; old]) (fun d => ROk [d])
      | _ => RErr E_Type
      end
  end.

Definition dd_get (d : ddict) (ps : nat) : descr :=
  match find (fun kv => Nat.eqb (fst kv) ps) d with Some kv => snd kv | None => DNone end.

(* MVContext.generators_by_intent_difference(new_intent, old_intent): one single-column
   generator per entry, in column order *)
Fixpoint gens_by_diff_from (ps n_ps : nat) (new old : ddict) : res (list ddict) :=
  match n_ps with
  | 0 => ROk []
  | S n' =>
      rbind (ps_gens_by_diff (dd_get new ps) (dd_get old ps)) (fun gs =>
      rbind (gens_by_diff_from (S ps) n' new old) (fun rest =>
      ROk (map (fun g => [(ps, g)]) gs ++ rest)))
  end.
Definition generators_by_intent_difference (K : mvctx) (new old : ddict) : res (list ddict) :=
  gens_by_diff_from 0 (length (mv_cols K)) new old.

(* ------------------------------------------------------------------ MVContext.get_minimal_generators *)

Definition pgen := (nat * descr)%type.        (* (ps_i, generator) *)

Definition pgen_eqb (a b : pgen) : bool := Nat.eqb (fst a) (fst b) && descr_eqb (snd a) (snd b).
Fixpoint dd_eqb (a b : ddict) : bool :=
  match a, b with
  | [], [] => true
  | x :: a', y :: b' => pgen_eqb x y && dd_eqb a' b'
  | _, _ => false
  end.

(* get_generators(ps_i, descr, max_projection_num) *)
Definition get_generators (d : descr) (pstart maxp : nat) : list descr :=
  flat_map (description_to_generators d) (seq pstart (S maxp - pstart)).

(* pss_i = set(gen[0] for gen in comb): small integers come out of a Python set in increasing
   order; each once *)
Definition ps_set (comb : list pgen) : list nat :=
  sort_nat (nodup Nat.eq_dec (map fst comb)).

(* descr = {ps_i: generators_to_description([gen[1] for gen in comb if gen[0] == ps_i])} *)
Fixpoint descr_of (comb : list pgen) (pss : list nat) : res ddict :=
  match pss with
  | [] => ROk []
  | ps :: pss' =>
      rbind (generators_to_description (map snd (filter (fun g => Nat.eqb (fst g) ps) comb))) (fun d =>
      rbind (descr_of comb pss') (fun rest => ROk ((ps, d) :: rest)))
  end.

(* one candidate: its description and its extension inside the base objects *)
Definition eval_comb (K : mvctx) (base_gen : list pgen) (base : list nat) (comb : list pgen)
  : res (ddict * list nat) :=
  let comb' := base_gen ++ comb in
  rbind (descr_of comb' (ps_set comb')) (fun d =>
  rbind (mv_extension K d (Some base)) (fun e => ROk (d, e))).

Definition add_gen (found : list ddict) (d : ddict) : list ddict :=
  if existsb (dd_eqb d) found then found else found ++ [d].

(* for comb in combinations(generators_to_iterate, comb_size): ... ; returns the found set and,
   for comb_size = 1, the volumes in candidate order *)
Fixpoint scan_combs (K : mvctx) (base_gen : list pgen) (base ext_true : list nat)
         (cs : list (list pgen)) (found : list ddict) (vols : list nat)
  : res (list ddict * list nat) :=
  match cs with
  | [] => ROk (found, vols)
  | c :: cs' =>
      rbind (eval_comb K base_gen base c) (fun de =>
      let found' := if nat_list_eqb (snd de) ext_true then add_gen found (fst de) else found in
      scan_combs K base_gen base ext_true cs' found' (vols ++ [length (snd de)]))
  end.

(* sorted(..., key=volume): stable *)
Fixpoint insert_by_vol (x : pgen * nat) (l : list (pgen * nat)) : list (pgen * nat) :=
  match l with
  | [] => [x]
  | y :: l' => if Nat.ltb (snd x) (snd y) then x :: l else y :: insert_by_vol x l'
  end.
Definition sort_by_vol (l : list (pgen * nat)) : list (pgen * nat) := fold_right insert_by_vol [] l.

(* the volume of a candidate is looked up in a dict keyed by the candidate itself: equal
   candidates (the same generator produced by two projection numbers) share the LAST value *)
Definition vol_of (gti : list pgen) (vols : list nat) (g : pgen) : nat :=
  match find (fun gv => pgen_eqb (fst gv) g) (rev (combine gti vols)) with
  | Some gv => snd gv
  | None => 0
  end.

(* for comb_size in range(1, len(generators_to_iterate)):  sizes 2, 3, ... on the pruned list *)
Fixpoint scan_sizes (K : mvctx) (base_gen : list pgen) (base ext_true : list nat)
         (gti : list pgen) (sizes : list nat) : res (list ddict) :=
  match sizes with
  | [] => ROk []
  | k :: sizes' =>
      rbind (scan_combs K base_gen base ext_true (combs k gti) [] []) (fun fv =>
      match fst fv with
      | [] => scan_sizes K base_gen base ext_true gti sizes'
      | found => ROk found
      end)
  end.

(* one iteration of the outer `while len(min_gens) == 0` *)
Definition mv_round (K : mvctx) (intent : ddict) (base_gen : list pgen) (base ext_true : list nat)
           (ps_to_iterate : list nat) (pstart maxp : nat) : res (list ddict) :=
  let gti := flat_map (fun ps => map (pair ps) (get_generators (dd_get intent ps) pstart maxp))
                      ps_to_iterate in
  let n := length gti in
  match n with
  | 0 | 1 => ROk []                                  (* range(1, n) is empty *)
  | _ =>
      rbind (scan_combs K base_gen base ext_true (combs 1 gti) [] []) (fun fv =>
      let vols := snd fv in
      let kept := filter (fun gv => Nat.ltb (snd gv) (length base))
                         (map (fun g => (g, vol_of gti vols g)) gti) in
      let gti' := map fst (sort_by_vol kept) in
      match fst fv with
      | [] => scan_sizes K base_gen base ext_true gti' (seq 2 (n - 2))
      | found => ROk found
      end)
  end.

Inductive mvres := MOk (l : list ddict) | MErr (kind : nat) | MOutOfFuel.

Fixpoint mv_loop (fuel : nat) (K : mvctx) (intent : ddict) (base_gen : list pgen)
         (base ext_true : list nat) (ps_to_iterate : list nat) (pstart maxp : nat) : mvres :=
  match fuel with
  | 0 => MOutOfFuel
  | S fuel' =>
      match mv_round K intent base_gen base ext_true ps_to_iterate pstart maxp with
      | RErr k => MErr k
      | ROk [] => mv_loop fuel' K intent base_gen base ext_true ps_to_iterate pstart (S maxp)
      | ROk found => MOk found
      end
  end.

(* MVContext.get_minimal_generators(intent, base_generator, base_objects, use_indexes=True,
   ps_to_iterate, projection_to_start) *)
Definition mv_get_minimal_generators (fuel : nat) (K : mvctx) (intent : ddict)
           (base_gen : option ddict) (base : option (list nat)) (ps_to_iterate : option (list nat))
           (pstart : nat) : mvres :=
  let bg := default [] base_gen in
  let bo := default (seq 0 (mv_n K)) base in
  let pti := default (seq 0 (length (mv_cols K))) ps_to_iterate in
  match mv_extension K intent None with
  | RErr k => MErr k
  | ROk ext_true => mv_loop fuel K intent bg bo ext_true pti pstart pstart
  end.

(* ------------------------------------------------------------------ the by-name entry point
   (use_indexes=False).  [snames] are the names of the pattern structures, in structure order
   (= the order of the `pattern_types` dict, NOT of attribute_names); dicts are keyed by names.
     intent_i       = {ps_i: intent[ps.name] for ps_i, ps in enumerate(structures) if ps.name in intent}
     base_generator = the same translation, then list(items())
     base_objects_i = [g_i for g_i, g in enumerate(object_names) if g in base_objects]
     ps_to_iterate  = [ps_name_i_map[name] for name in ps_to_iterate]
     result         = {structures[ps_i].name: descr ...} for every returned generator             *)
Definition lookup_name {V} (d : list (nat * V)) (nm : nat) : option V :=
  match find (fun kv => Nat.eqb (fst kv) nm) d with Some kv => Some (snd kv) | None => None end.

Definition by_struct_names {V} (snames : list nat) (d : list (nat * V)) : list (nat * V) :=
  flat_map (fun ps => match lookup_name d (nth ps snames 0) with Some v => [(ps, v)] | None => [] end)
           (seq 0 (length snames)).

Definition name_to_ps (snames : list nat) (nm : nat) : nat := default 0 (name_index snames nm).

Definition rename_dd (snames : list nat) (d : ddict) : ddict :=
  map (fun kv => (nth (fst kv) snames 0, snd kv)) d.

Definition mv_get_minimal_generators_named (fuel : nat) (K : mvctx) (snames onames : list nat)
           (intent : ddict) (base_gen : option ddict) (base : option (list nat))
           (ps_to_iterate : option (list nat)) (pstart : nat) : mvres :=
  let bg_i := match base_gen with Some d => Some (by_struct_names snames d) | None => None end in
  let base_i := match base with Some l => Some (idx_of_names onames l) | None => None end in
  let pti_i := match ps_to_iterate with Some l => Some (map (name_to_ps snames) l) | None => None end in
  match mv_get_minimal_generators fuel K (by_struct_names snames intent) bg_i base_i pti_i pstart with
  | MOk l => MOk (map (rename_dd snames) l)
  | r => r
  end.

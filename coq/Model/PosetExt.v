(* Model/PosetExt.v — the rest of POSet's public surface as operations over Model/Poset.v
   (definitions only): trace_element(element, direction) as a public call, the properties
   children_dict / parents_dict / descendants_dict / ancestors_dict, the aliases supremum /
   infimum.  (fill_up_*_cache and fill_up_caches are [OFill k] of the base vocabulary.)
   The cache-free meaning of the new calls is given next to them. *)
From FCA Require Export Model.Poset.

Section PosetExt.
  Variable E : Type.
  Variable leq : E -> E -> bool.
  Variable eqb : E -> E -> bool.

  Notation state := (state E).

  Inductive xop :=
  | XB (o : op E)                       (* a call of the base vocabulary *)
  | XTrace (e : E) (mv_up : bool)       (* trace_element(e, 'up' / 'down'); e need not be an element *)
  | XDict (cover_rel : bool) (up : bool) (* parents_dict / children_dict (cover_rel) or ancestors_dict / descendants_dict *)
  | XSup (up : bool) (l : list nat)     (* supremum / infimum *)
  | XEq2 (other : list E) (oc : bool) (leq2 : E -> E -> bool) (rev : bool).
      (* self == POSet(other, leq2, use_cache=oc)  (rev = false), or that poset == self (rev = true):
         __eq__ does not compare the comparison functions, it compares the down-sets *)

  Inductive xout :=
  | XO (o : out E)
  | XTwo (fin tr : list nat)            (* (final_elements, traced_elements), each listed ascending *)
  | XMap (l : list (list nat)).         (* {i: set} for i in range(len), as the list of the values *)

  (* {el_i: self.rel(el_i) for el_i in range(len(self))} *)
  Fixpoint collect (f : state -> nat -> state * list nat) (s : state) (js : list nat)
    : state * list (list nat) :=
    match js with
    | [] => (s, [])
    | j :: js' =>
        let '(s1, r) := f s j in
        let '(s2, rest) := collect f s1 js' in
        (s2, norm r :: rest)
    end.

  (* POSet.__eq__ with the left poset ordered by [la] and the right one by [lb] *)
  Fixpoint eq_loop2 (la lb : E -> E -> bool) (is : list nat) (s1 s2 : state) : state * state * bool :=
    match is with
    | [] => (s1, s2, true)
    | i :: is' =>
        match nth_error (els s1) i with
        | None => (s1, s2, true)
        | Some e =>
            match index_of E eqb e (els s2) with
            | None => (s1, s2, false)
            | Some i2 =>
                let '(s1', d1) := closed E la false s1 i in
                let '(s2', d2) := closed E lb false s2 i2 in
                if same_setb d1 (map_back E eqb (els s1) (els s2) d2) then eq_loop2 la lb is' s1' s2'
                else (s1', s2', false)
            end
        end
    end.

  Definition poset_eq2 (la lb : E -> E -> bool) (s1 s2 : state) : state * state * bool :=
    if set_eqE E eqb (els s1) (els s2) then eq_loop2 la lb (seq 0 (size E s1)) s1 s2 else (s1, s2, false).

  Definition xstep (s : state) (o : xop) : state * xout :=
    match o with
    | XB o => let '(s', r) := step E leq eqb s o in (s', XO r)
    | XTrace e mv =>
        let '(s', r) := trace E leq (extremes_q E leq) mv s e in
        (s', match r with Some (fin, tr) => XTwo (norm fin) (norm tr) | None => XO (OErr EFuel) end)
    | XDict cv up =>
        let '(s', l) := collect (if cv then cover E leq up else closed E leq up) s (seq 0 (size E s)) in
        (s', XMap l)
    | XSup up l => let '(s', r) := bound_q E leq up s l in (s', XO r)
    | XEq2 other oc leq2 rev =>
        if rev then let '(_, s', b) := poset_eq2 leq2 leq (init E other oc) s in (s', XO (OBool b))
        else let '(s', _, b) := poset_eq2 leq leq2 s (init E other oc) in (s', XO (OBool b))
    end.

  Fixpoint xrun (s : state) (ops : list xop) : state * list xout :=
    match ops with
    | [] => (s, [])
    | o :: ops' => let '(s1, r) := xstep s o in
                   let '(s2, rs) := xrun s1 ops' in (s2, r :: rs)
    end.

  (* ---- cache-free meaning ---- *)
  Definition cmp_elem (l : list E) (mv : bool) (e : E) (j : nat) : bool :=
    match nth_error l j with
    | Some x => if mv then leq x e else leq e x
    | None => false
    end.

  (* traced = the elements comparable with e on the side given by the direction (e itself
     included when it is an element); final = those among them with none of them strictly
     beyond in the walking direction *)
  Definition trace_spec (l : list E) (mv : bool) (e : E) : list nat * list nat :=
    let D := filter (cmp_elem l mv e) (idxs E l) in
    (filter (fun x => negb (existsb (fun y => ldir E leq l mv x y && negb (Nat.eqb y x)) D)) D, D).

  (* two posets are equal iff they have the same elements and order them the same way *)
  Definition spec_eq2 (la lb : E -> E -> bool) (l1 l2 : list E) : bool :=
    spec_eq E eqb l1 l2 &&
    forallb (fun x => forallb (fun y => eqb y x || Bool.eqb (la y x) (lb y x)) l1) l1.

  Definition xspec_step (l : list E) (uc : bool) (o : xop) : list E * xout :=
    match o with
    | XB o => let '(l', r) := spec_step E leq eqb l uc o in (l', XO r)
    | XTrace e mv => let '(fin, tr) := trace_spec l mv e in (l, XTwo fin tr)
    | XDict cv up => (l, XMap (map (if cv then covers E leq l up else strict_rel E leq l up) (idxs E l)))
    | XSup up l0 => (l, XO (spec_query E leq eqb l uc (QBound up l0)))
    | XEq2 other _ leq2 rev =>
        (l, XO (OBool (if rev then spec_eq2 leq2 leq other l else spec_eq2 leq leq2 l other)))
    end.

  Fixpoint xspec_run (l : list E) (uc : bool) (ops : list xop) : list E * list xout :=
    match ops with
    | [] => (l, [])
    | o :: ops' => let '(l1, r) := xspec_step l uc o in
                   let '(l2, rs) := xspec_run l1 uc ops' in (l2, r :: rs)
    end.

  (* ---- the raw cache dictionaries of an object, judged against the cache-free meaning:
     every key in range, every stored value equal (as a set) to the spec value.  Executable
     form of the invariant [Sound] (Lemmas/C09Query.v), applied by the correspondence check to
     the dictionaries read from the implementation. *)
  Definition raw_sound (l : list E) (cl : lcache) (cdesc canc cch cpar : cache) : bool :=
    let n := length l in
    forallb (fun kv : (nat * nat) * bool =>
               Nat.ltb (fst (fst kv)) n && Nat.ltb (snd (fst kv)) n &&
               Bool.eqb (snd kv) (lq E leq l (fst (fst kv)) (snd (fst kv)))) cl &&
    forallb (fun kv : nat * list nat => Nat.ltb (fst kv) n && same_setb (snd kv) (strict_rel E leq l false (fst kv))) cdesc &&
    forallb (fun kv : nat * list nat => Nat.ltb (fst kv) n && same_setb (snd kv) (strict_rel E leq l true (fst kv))) canc &&
    forallb (fun kv : nat * list nat => Nat.ltb (fst kv) n && same_setb (snd kv) (covers E leq l false (fst kv))) cch &&
    forallb (fun kv : nat * list nat => Nat.ltb (fst kv) n && same_setb (snd kv) (covers E leq l true (fst kv))) cpar.

  (* the same dictionaries compared with the model's caches: same keys, same values as sets *)
  Definition cache_same (raw model : cache) : bool :=
    Nat.eqb (length raw) (length model) &&
    forallb (fun kv : nat * list nat => match lk model (fst kv) with
                                        | Some v => same_setb v (snd kv) | None => false end) raw.
  Definition lcache_same (raw model : lcache) : bool :=
    Nat.eqb (length raw) (length model) &&
    forallb (fun kv : (nat * nat) * bool => match lkl model (fst kv) with
                                            | Some v => Bool.eqb v (snd kv) | None => false end) raw.
  Definition caches_same (cl : lcache) (cdesc canc cch cpar : cache) (s : state) : bool :=
    lcache_same cl (c_leq s) && cache_same cdesc (c_desc s) && cache_same canc (c_anc s) &&
    cache_same cch (c_ch s) && cache_same cpar (c_par s).
End PosetExt.

Arguments XB {E}. Arguments XTrace {E}. Arguments XDict {E}. Arguments XSup {E}. Arguments XEq2 {E}.
Arguments XO {E}. Arguments XTwo {E}. Arguments XMap {E}.

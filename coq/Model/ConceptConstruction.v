(* Model/ConceptConstruction.v — transcription of the exact concept miners of
   fcapy/algorithms/concept_construction.py, of FormalConcept.from_objects
   (fcapy/lattice/formal_concept.py) and of the algorithm choice of ConceptLattice.from_context
   (fcapy/lattice/concept_lattice.py).  Definitions only.

   A context is a back-end, a table and the two name tuples (names are opaque ids).  A concept
   carries the four views the Python dataclass stores: extent_i, extent (names), intent_i,
   intent (names), in the order in which the code builds the tuples.

   Conventions
   * the DFS of the two object-wise CbO generators (explicit LIFO stack; children pushed for
     g = n-1 .. last, popped in ascending g) is written as the equivalent pre-order recursion.
     The candidates of a node are range(last_added+1, n) - the object last added is itself in
     the node's extent and is filtered by the code - so the recursion is structural on the
     candidate list and needs no fuel; the found-intents set of the fbarray variant is threaded
     through the traversal as state.
   * Python set iteration (Lindig's [for g in set(reps)], [queue.pop()], Sofia's
     [sorted(set | set)]) is not part of the model: the orders are parameters ([ord], [pick])
     and the theorems hold for every choice; the executable instances use list order and the
     correspondence compares those results as sets.
   * Lindig's work-set loop is not structural: fuel 2^n + 1 (one iteration per concept),
     exhaustion yields [None].
   * Sofia is modelled in the exact regime of C02 (min_supp = 0): when the working set would
     exceed L_max the code prunes by a stability bound; that branch is the subject of C15 and
     is the distinguished value [None] here. *)
From FCA Require Export Model.FormalContext.

Record context := mkCtx {
  k_backend : backend;
  k_table : table;
  k_onames : list nat;
  k_anames : list nat
}.

Record fconcept := mkC {
  c_ext_i : list nat;
  c_ext : list nat;
  c_int_i : list nat;
  c_int : list nat
}.

Definition k_n (K : context) := height (k_table K).
Definition k_w (K : context) := width (k_table K).
Definition oname_of (K : context) (g : nat) := nth g (k_onames K) 0.
Definition aname_of (K : context) (m : nat) := nth m (k_anames K) 0.
Definition K_int (K : context) (objs : list nat) : list nat :=
  intention_i (k_backend K) (k_table K) objs None.
Definition K_ext (K : context) (attrs : list nat) (base : option (list nat)) : list nat :=
  extension_i (k_backend K) (k_table K) attrs base.

(* ------------------------------------------------------------ FormalConcept.from_objects *)

(* objects given by index *)
Definition from_objects (K : context) (objs : list nat) (is_extent : bool) : fconcept :=
  let intent_i := K_int K objs in
  let intent := map (aname_of K) intent_i in
  let objects_i := if is_extent then objs else K_ext K intent_i None in
  mkC objects_i (map (oname_of K) objects_i) intent_i intent.

(* objects given by name: K.object_names.index(g) is the FIRST occurrence; an unknown name
   raises ValueError (None here) *)
Fixpoint first_index_from (k : nat) (names : list nat) (x : nat) : option nat :=
  match names with
  | [] => None
  | y :: ys => if Nat.eqb x y then Some k else first_index_from (S k) ys x
  end.

Fixpoint names_to_first_idx (names xs : list nat) : option (list nat) :=
  match xs with
  | [] => Some []
  | x :: xs' =>
      match first_index_from 0 names x, names_to_first_idx names xs' with
      | Some i, Some l => Some (i :: l)
      | _, _ => None
      end
  end.

Definition from_objects_named (K : context) (names : list nat) (is_extent : bool)
  : option fconcept :=
  match names_to_first_idx (k_onames K) names with
  | Some objs => Some (from_objects K objs is_extent)
  | None => None
  end.

(* ------------------------------------------------------------ FormalContext.T *)

Definition column (t : table) (j : nat) : list bool := map (fun r => nth j r false) t.
Definition transpose (t : table) : table := map (column t) (seq 0 (width t)).
Definition ctx_T (K : context) : context :=
  mkCtx (k_backend K) (transpose (k_table K)) (k_anames K) (k_onames K).

(* ------------------------------------------------------------ close_by_one_objectwise *)

(* [extents_i_found] is never added to in the code, so its membership test is vacuous *)
Fixpoint cbo_obj_children (K : context) (E : list nat) (cands : list nat) {struct cands}
  : list fconcept :=
  match cands with
  | [] => []
  | g :: rest =>
      (if mem g E then [] else
         let comb := E ++ [g] in
         let intent_i := K_int K comb in
         let lex := filter (fun h => negb (mem h comb)) (seq 0 g) in
         match K_ext K intent_i (Some lex) with
         | _ :: _ => []
         | [] =>
             let base := filter (fun i => negb (mem i comb)) (seq (S g) (k_n K - S g)) in
             let E' := comb ++ K_ext K intent_i (Some base) in
             from_objects K E' true :: cbo_obj_children K E' rest
         end)
      ++ cbo_obj_children K E rest
  end.

Definition cbo_objectwise (K : context) : list fconcept :=
  let intent_i := K_int K [] in
  let E0 := K_ext K intent_i (Some (seq 0 (k_n K))) in
  from_objects K E0 true :: cbo_obj_children K E0 (seq 0 (k_n K)).

(* ------------------------------------------------------------ close_by_one_objectwise_fbarray *)

(* objs_descriptions = BinTableBitarray(context.data.data).data: the rows as bitarrays,
   whatever the back-end of the context *)
Definition intention_ba (t : table) (objs : list nat) : list bool :=
  fold_left (fun acc g => band acc (row t g)) objs (repeat true (width t)).

(* [g for g in base if intent_ba & objs_descriptions[g] == intent_ba] *)
Definition extension_iter (t : table) (intent : list bool) (base : list nat) : list nat :=
  filter (fun g => bool_list_eqb (band intent (row t g)) intent) base.

Definition found_mem (x : list bool) (found : list (list bool)) : bool :=
  existsb (bool_list_eqb x) found.

Fixpoint cbo_fb_children (K : context) (E : list nat) (cands : list nat)
         (found : list (list bool)) {struct cands} : list fconcept * list (list bool) :=
  match cands with
  | [] => ([], found)
  | g :: rest =>
      let '(ys1, found1) :=
        if mem g E then ([], found) else
          let comb := E ++ [g] in
          let intent := intention_ba (k_table K) comb in
          if found_mem intent found then ([], found) else
            let lex := filter (fun h => negb (mem h comb)) (seq 0 g) in
            match extension_iter (k_table K) intent lex with
            | _ :: _ => ([], found)
            | [] =>
                let base := filter (fun i => negb (mem i comb)) (seq (S g) (k_n K - S g)) in
                let E' := comb ++ extension_iter (k_table K) intent base in
                let '(ys, f') := cbo_fb_children K E' rest (intent :: found) in
                (from_objects K E' false :: ys, f')
            end in
      let '(ys2, found2) := cbo_fb_children K E rest found1 in
      (ys1 ++ ys2, found2)
  end.

Definition cbo_fbarray (K : context) : list fconcept :=
  let intent := intention_ba (k_table K) [] in
  let E0 := extension_iter (k_table K) intent (seq 0 (k_n K)) in
  from_objects K E0 false :: fst (cbo_fb_children K E0 (seq 0 (k_n K)) [intent]).

(* ------------------------------------------------------------ close_by_one *)

Definition close_by_one (K : context) : list fconcept :=
  if Nat.ltb (k_n K) (k_w K) then cbo_fbarray K
  else map (fun c => from_objects K (c_int_i c) true) (cbo_fbarray (ctx_T K)).

(* ------------------------------------------------------------ sofia (exact regime) *)

Definition bcount (r : list bool) : nat := length (filter id r).

Fixpoint insert_by_count (x : list bool) (l : list (list bool)) : list (list bool) :=
  match l with
  | [] => [x]
  | y :: l' => if Nat.ltb (bcount x) (bcount y) then x :: l else y :: insert_by_count x l'
  end.
(* sorted(..., key=count): stable; the order among equal counts comes from a Python set *)
Definition sort_by_count (l : list (list bool)) : list (list bool) :=
  fold_left (fun acc x => insert_by_count x acc) l [].

(* set(extents_proj) | new_extents, as a duplicate-free list *)
Fixpoint add_new (old news : list (list bool)) : list (list bool) :=
  match news with
  | [] => old
  | x :: news' => if found_mem x old then add_new old news' else add_new (old ++ [x]) news'
  end.

(* one projection: returns None when the pruning branch (len > L_max) would be taken *)
Definition sofia_step (lmax : nat) (acc : option (list (list bool))) (col : list bool)
  : option (list (list bool)) :=
  match acc with
  | None => None
  | Some extents =>
      if ball col then Some extents else
        let news := map (fun e => band e col) extents in
        let extents' := sort_by_count (add_new extents news) in
        if Nat.ltb lmax (length extents') then None else Some extents'
  end.

(* to_bin_attr_extents: fbarray([bool(v) for v in data[:, i]]) for every attribute *)
Definition attr_extents (t : table) : list (list bool) := map (column t) (seq 0 (width t)).

Definition sofia_extents (K : context) (lmax : nat) : option (list (list bool)) :=
  fold_left (sofia_step lmax) (attr_extents (k_table K)) (Some [repeat true (k_n K)]).

Definition sofia (K : context) (lmax : nat) : option (list fconcept) :=
  match sofia_extents K lmax with
  | None => None
  | Some exts => Some (map (fun e => from_objects K (search1 e) true) exts)
  end.

(* ------------------------------------------------------------ lindig_algorithm *)

(* The algorithm is written once over "objects"/"attributes"; with iterate_extents = False the
   code swaps the two derivation operators, the two sizes and the two name tuples, and swaps
   the fields of every concept back at the end. *)
Record lindig_side := mkSide {
  s_n : nat;                                 (* n_objects after the swap *)
  s_w : nat;                                 (* n_attributes after the swap *)
  s_int : list nat -> list nat;              (* intention_i after the swap *)
  s_ext : list nat -> list nat;              (* extension_i after the swap *)
  s_oname : nat -> nat;
  s_aname : nat -> nat
}.

Definition side_of (K : context) (iterate_extents : bool) : lindig_side :=
  if iterate_extents
  then mkSide (k_n K) (k_w K) (K_int K) (fun B => K_ext K B None) (oname_of K) (aname_of K)
  else mkSide (k_w K) (k_n K) (fun B => K_ext K B None) (K_int K) (aname_of K) (oname_of K).

Definition side_concept (sd : lindig_side) (G M : list nat) : fconcept :=
  mkC G (map (s_oname sd) G) M (map (s_aname sd) M).

(* direct_super_concepts: [ord] is the iteration order of set(reps) *)
Fixpoint dsc_loop (sd : lindig_side) (extent : list nat) (todo : list nat)
         (reps : list nat) (neighbors : list fconcept) : list fconcept :=
  match todo with
  | [] => neighbors
  | g :: todo' =>
      let M := s_int sd (extent ++ [g]) in
      let G := s_ext sd M in
      if Nat.eqb (length (filter (fun r => mem r G) reps)) 1
      then dsc_loop sd extent todo' reps (neighbors ++ [side_concept sd G M])
      else dsc_loop sd extent todo' (filter (fun r => negb (Nat.eqb r g)) reps) neighbors
  end.

Definition direct_super_concepts (sd : lindig_side) (ord : list nat -> list nat) (c : fconcept)
  : list fconcept :=
  let reps := filter (fun g => negb (mem g (c_ext_i c))) (seq 0 (s_n sd)) in
  dsc_loop sd (c_ext_i c) (ord reps) reps [].

(* index: dict keyed by concept; concepts hash and compare by extent_i *)
Definition known (concepts : list fconcept) (x : fconcept) : bool :=
  existsb (fun c => nat_list_eqb (c_ext_i c) (c_ext_i x)) concepts.

(* for x in dsups: if x not in index: queue.add(x); index[x] = len(concepts); concepts.append(x) *)
Fixpoint absorb (dsups : list fconcept) (concepts queue : list fconcept)
  : list fconcept * list fconcept :=
  match dsups with
  | [] => (concepts, queue)
  | x :: rest => if known concepts x then absorb rest concepts queue
                 else absorb rest (concepts ++ [x]) (queue ++ [x])
  end.

(* queue.pop() takes an arbitrary element: [pick] chooses its position *)
Definition remove_nth {A} (k : nat) (l : list A) : list A := firstn k l ++ skipn (S k) l.

Fixpoint lindig_loop (fuel : nat) (sd : lindig_side) (ord : list nat -> list nat)
         (pick : list fconcept -> nat) (concepts queue : list fconcept)
  : option (list fconcept) :=
  match queue with
  | [] => Some concepts
  | q0 :: _ =>
      match fuel with
      | 0 => None
      | S fuel' =>
          let k := pick queue in
          let c := nth k queue q0 in
          let queue' := remove_nth k queue in
          let '(concepts', queue'') := absorb (direct_super_concepts sd ord c) concepts queue' in
          lindig_loop fuel' sd ord pick concepts' queue''
      end
  end.

Definition swap_concept (c : fconcept) : fconcept :=
  mkC (c_int_i c) (c_int c) (c_ext_i c) (c_ext c).

Definition lindig_with (K : context) (iterate_extents : bool)
           (ord : list nat -> list nat) (pick : list fconcept -> nat) : option (list fconcept) :=
  let sd := side_of K iterate_extents in
  let M := seq 0 (s_w sd) in
  let G := s_ext sd M in
  let c := side_concept sd G M in
  match lindig_loop (2 ^ s_n sd + 1) sd ord pick [c] [c] with
  | None => None
  | Some cs => Some (if iterate_extents then cs else map swap_concept cs)
  end.

(* iterate_extents=None: True iff n_objects < n_attributes *)
Definition lindig_dir (K : context) (iterate_extents : option bool) : bool :=
  match iterate_extents with Some b => b | None => Nat.ltb (k_n K) (k_w K) end.

(* executable instance: ascending candidate order, first element of the work set *)
Definition lindig (K : context) (iterate_extents : option bool) : option (list fconcept) :=
  lindig_with K (lindig_dir K iterate_extents) (fun l => l) (fun _ => 0).

(* ------------------------------------------------------------ ConceptLattice.from_context *)

(* algo: 0 = None (default: Lindig for a FormalContext), 1 = 'CbO', 2 = 'Lindig', 3 = 'Sofia'.
   The concepts are then re-ordered by sort_concepts (Python's sorted: a permutation), which is
   not modelled here - the elements are compared as a set. *)
Definition from_context_concepts (K : context) (algo : nat) (iterate_extents : option bool)
           (lmax : nat) : option (list fconcept) :=
  match algo with
  | 0 => lindig K None
  | 1 => Some (close_by_one K)
  | 2 => lindig K iterate_extents
  | _ => sofia K lmax
  end.

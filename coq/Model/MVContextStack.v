(* Model/MVContextStack.v — close_by_one_objectwise on a many-valued context written LITERALLY
   as the code runs it: the generic stack machine of Model/ConceptConstructionStack.v (explicit
   deque, pop() from the right, children pushed for g = n-1 .. last, explicit fuel) with the
   loop body of the many-valued case.  Definitions only (C14).  Lemmas/C14_Stack.v proves that
   with enough fuel it yields exactly the sequence of the pre-order recursion mv_cbo_objectwise
   of Model/MVContext.v. *)
From FCA Require Export Model.ConceptConstructionStack Model.MVContext.

(* one iteration on the popped [comb_i]; [extents_i_found] stays empty in the code: no state *)
Definition mv_visit (K : mvctx) (st : unit) (comb : list nat)
  : option (pconcept * list nat * unit) :=
  let intent_i := mv_intention_i K comb in
  match rev comb with
  | [] =>
      let base := filter (fun i => negb (mem i comb)) (seq 0 (mv_n K)) in
      let extent_i := comb ++ mv_extension_i K intent_i (Some base) in
      Some (pc_from_objects K extent_i true, extent_i, st)
  | g :: _ =>
      let lex := filter (fun h => negb (mem h comb)) (seq 0 g) in
      match mv_extension_i K intent_i (Some lex) with
      | _ :: _ => None
      | [] =>
          let base := filter (fun i => negb (mem i comb)) (seq (Datatypes.S g) (mv_n K - Datatypes.S g)) in
          let extent_i := comb ++ mv_extension_i K intent_i (Some base) in
          Some (pc_from_objects K extent_i true, extent_i, st)
      end
  end.

Definition mv_cbo_objectwise_stack (K : mvctx) (fuel : nat) : stack_res pconcept :=
  dfs unit pconcept (mv_n K) (mv_visit K) fuel tt.

(* fuel that always suffices (Lemmas/C14_Stack.v): n_objs * (number of yielded concepts) + 1 *)
Definition mv_stack_fuel (K : mvctx) : nat := mv_n K * length (mv_cbo_objectwise K) + 1.

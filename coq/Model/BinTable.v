(* Model/BinTable.v — transcription of fcapy/context/bintable.py (the three registered
   back-ends) restricted to what the derivation operators use: all/any per row / per column,
   all_i / any_i.  Definitions only.  Rows are [list bool]; [row t i] is Python's data[i]
   (in range under the theorems' hypotheses). *)
From FCA Require Export Base.ListSet.

Definition table := list (list bool).
Definition height (t : table) : nat := length t.
Definition width (t : table) : nat := match t with [] => 0 | r :: _ => length r end.
Definition row (t : table) (i : nat) : list bool := nth i t [].
Definition cell (t : table) (i j : nat) : bool := nth j (row t i) false.
Definition wf (t : table) : Prop := Forall (fun r => length r = width t) t.
Definition wfb (t : table) : bool := forallb (fun r => Nat.eqb (length r) (width t)) t.

Definition rows_or (t : table) (rows : option (list nat)) := default (seq 0 (height t)) rows.
Definition cols_or (t : table) (cols : option (list nat)) := default (seq 0 (width t)) cols.

Inductive backend := BLists | BNumpy | BBitarray.

(* ---------------------------------------------------------------- BinTableLists *)

Definition L_all_per_row (t : table) (rows cols : option (list nat)) : list bool :=
  let rs := rows_or t rows in
  match cols with
  | None => map (fun i => forallb id (row t i)) rs
  | Some c => map (fun i => forallb id (map (fun j => cell t i j) c)) rs
  end.

(* for i in rows: vals = [v & row[c] ...]; if not any(vals): break *)
Fixpoint L_apc_loop (t : table) (cs : list nat) (rs : list nat) (vals : list bool) : list bool :=
  match rs with
  | [] => vals
  | i :: rs' =>
      let v' := map2 andb vals (map (cell t i) cs) in
      if negb (existsb id v') then v' else L_apc_loop t cs rs' v'
  end.

Definition L_all_per_column (t : table) (rows cols : option (list nat)) : list bool :=
  let cs := cols_or t cols in
  L_apc_loop t cs (rows_or t rows) (repeat true (length cs)).

Definition L_any_per_row (t : table) (rows cols : option (list nat)) : list bool :=
  let rs := rows_or t rows in
  match cols with
  | None => map (fun i => existsb id (row t i)) rs
  | Some c => map (fun i => existsb id (map (fun j => cell t i j) c)) rs
  end.

(* for i in rows: vals = [v | row[c] ...]; if all(vals): break *)
Fixpoint L_anypc_loop (t : table) (cs : list nat) (rs : list nat) (vals : list bool) : list bool :=
  match rs with
  | [] => vals
  | i :: rs' =>
      let v' := map2 orb vals (map (cell t i) cs) in
      if forallb id v' then v' else L_anypc_loop t cs rs' v'
  end.

Definition L_any_per_column (t : table) (rows cols : option (list nat)) : list bool :=
  let cs := cols_or t cols in
  L_anypc_loop t cs (rows_or t rows) (repeat false (length cs)).

(* AbstractBinTable.all_i / any_i: [i for i, flg in zip(idx, flags) if flg] *)
Definition abs_index (t : table) (axis : nat) (rows cols : option (list nat)) (flags : list bool)
  : list nat :=
  match axis with
  | 0 => match cols with Some c => select c flags | None => select (seq 0 (length flags)) flags end
  | _ => match rows with Some r => select r flags | None => select (seq 0 (length flags)) flags end
  end.

Definition L_all_i t axis rows cols :=
  abs_index t axis rows cols
    (match axis with 0 => L_all_per_column t rows cols | _ => L_all_per_row t rows cols end).
Definition L_any_i t axis rows cols :=
  abs_index t axis rows cols
    (match axis with 0 => L_any_per_column t rows cols | _ => L_any_per_row t rows cols end).

(* ---------------------------------------------------------------- BinTableBitarray *)

Definition mask_in (c : list nat) (w : nat) : list bool := map (fun j => mem j c) (seq 0 w).
Definition mask_not_in (c : list nat) (w : nat) : list bool := map (fun j => negb (mem j c)) (seq 0 w).
Definition band := map2 andb.
Definition bor := map2 orb.
Definition ball (r : list bool) := forallb id r.
Definition bany (r : list bool) := existsb id r.

Definition B_all_per_row (t : table) (rows cols : option (list nat)) : list bool :=
  let rs := rows_or t rows in
  match cols with
  | None => map (fun i => ball (row t i)) rs
  | Some c => let m := mask_not_in c (width t) in map (fun i => ball (bor (row t i) m)) rs
  end.

(* vals &= data[i]; if not brk(vals).any(): break   —  brk = id or (& mask) *)
Fixpoint B_apc_loop (t : table) (brk : list bool -> list bool) (rs : list nat) (vals : list bool)
  : list bool :=
  match rs with
  | [] => vals
  | i :: rs' =>
      let v' := band vals (row t i) in
      if negb (bany (brk v')) then v' else B_apc_loop t brk rs' v'
  end.

Definition B_all_per_column (t : table) (rows cols : option (list nat)) : list bool :=
  let rs := rows_or t rows in
  let w := width t in
  match cols with
  | None => B_apc_loop t (fun v => v) rs (repeat true w)
  | Some c =>
      let m := mask_in c w in
      let vals := B_apc_loop t (fun v => band v m) rs (repeat true w) in
      map (fun j => nth j vals false) c
  end.

Definition B_any_per_row (t : table) (rows cols : option (list nat)) : list bool :=
  let rs := rows_or t rows in
  match cols with
  | None => map (fun i => bany (row t i)) rs
  | Some c => let m := mask_in c (width t) in map (fun i => bany (band (row t i) m)) rs
  end.

(* vals |= data[i]; if brk(vals).all(): break   —  brk = id or (| mask) *)
Fixpoint B_anypc_loop (t : table) (brk : list bool -> list bool) (rs : list nat) (vals : list bool)
  : list bool :=
  match rs with
  | [] => vals
  | i :: rs' =>
      let v' := bor vals (row t i) in
      if ball (brk v') then v' else B_anypc_loop t brk rs' v'
  end.

Definition B_any_per_column (t : table) (rows cols : option (list nat)) : list bool :=
  let rs := rows_or t rows in
  let w := width t in
  match cols with
  | None => B_anypc_loop t (fun v => v) rs (repeat false w)
  | Some c =>
      let m := mask_not_in c w in
      let vals := B_anypc_loop t (fun v => bor v m) rs (repeat false w) in
      map (fun j => nth j vals false) c
  end.

(* idxs = flags.search(1); [columns[i] for i in idxs] / list(idxs) *)
Definition bit_index (axis : nat) (rows cols : option (list nat)) (flags : list bool) : list nat :=
  let idxs := search1 flags in
  match axis with
  | 0 => match cols with Some c => map (fun i => nth i c 0) idxs | None => idxs end
  | _ => match rows with Some r => map (fun i => nth i r 0) idxs | None => idxs end
  end.

Definition B_all_i t axis rows cols :=
  bit_index axis rows cols
    (match axis with 0 => B_all_per_column t rows cols | _ => B_all_per_row t rows cols end).
Definition B_any_i t axis rows cols :=
  bit_index axis rows cols
    (match axis with 0 => B_any_per_column t rows cols | _ => B_any_per_row t rows cols end).

(* ---------------------------------------------------------------- BinTableNumpy *)

(* data[rows][:, columns] *)
Definition N_slice (t : table) (rows cols : option (list nat)) : table :=
  let d1 := match rows with None => t | Some r => map (row t) r end in
  match cols with None => d1 | Some c => map (fun r => map (fun j => nth j r false) c) d1 end.

Definition N_ncols (t : table) (cols : option (list nat)) : nat :=
  match cols with None => width t | Some c => length c end.

(* data_slice.all(axis).flatten() / .any(axis) *)
Definition N_reduce (red : (bool -> bool) -> list bool -> bool)
           (t : table) (axis : nat) (rows cols : option (list nat)) : list bool :=
  let s := N_slice t rows cols in
  match axis with
  | 0 => map (fun k => red id (map (fun r => nth k r false) s)) (seq 0 (N_ncols t cols))
  | _ => map (red id) s
  end.

Definition N_all := N_reduce (@forallb bool).
Definition N_any := N_reduce (@existsb bool).

(* full_ar[flags] *)
Definition N_index (t : table) (axis : nat) (rows cols : option (list nat)) (flags : list bool)
  : list nat :=
  let full := match axis with 0 => cols_or t cols | _ => rows_or t rows end in
  select full flags.

Definition N_all_i t axis rows cols := N_index t axis rows cols (N_all t axis rows cols).
Definition N_any_i t axis rows cols := N_index t axis rows cols (N_any t axis rows cols).

(* ---------------------------------------------------------------- dispatch *)

Definition all_i (b : backend) :=
  match b with BLists => L_all_i | BNumpy => N_all_i | BBitarray => B_all_i end.
Definition any_i (b : backend) :=
  match b with BLists => L_any_i | BNumpy => N_any_i | BBitarray => B_any_i end.

(* Model/ConceptConstructionStack.v — the two object-wise Close-by-One generators of
   fcapy/algorithms/concept_construction.py written LITERALLY as the code runs them: an explicit
   stack (deque) of object combinations, [pop()] from the right end, the children of a yielded
   extent pushed with [extend] in the code's order (g = n-1 down to the last added object), the
   [intents_found] set as state, and explicit fuel (one unit per loop iteration) with a
   distinguished out-of-fuel value.  Definitions only.

   Representation: the deque is a list with its RIGHT end (the side pop() and extend() work on)
   first; [extend(new_combs)] therefore puts [rev new_combs] in front.

   The machine is generic in what one loop iteration does with the popped combination
   ([visit]: skip it - the code's [continue] - or yield a value, produce the extent tuple and a
   new state), so that other CbO variants (many-valued contexts) can instantiate it.
   Lemmas/C02_Stack.v proves that with fuel >= n * (number of yielded concepts) + 1 the machine
   ends and yields exactly the sequence of the pre-order recursion of Model/ConceptConstruction.v. *)
From FCA Require Export Model.ConceptConstruction.

Inductive stack_res (Y : Type) := SDone (ys : list Y) | SOutOfFuel.
Arguments SDone {Y} ys. Arguments SOutOfFuel {Y}.

Section Machine.
Variables S Y : Type.
Variable n : nat.                                   (* n_objs *)
Variable visit : S -> list nat -> option (Y * list nat * S).

(* comb_i[-1] if comb_i else 0 *)
Definition last_or_0 (comb : list nat) : nat := match rev comb with [] => 0 | g :: _ => g end.

(* possible_new_objects = range(n_objs - 1, (comb_i[-1] if comb_i else 0) - 1, -1)
   new_combs = [extent_i + (g_i,) for g_i in possible_new_objects if g_i not in extent_i_set] *)
Definition new_combs (extent_i comb : list nat) : list (list nat) :=
  let lo := last_or_0 comb in
  map (fun g => extent_i ++ [g])
      (filter (fun g => negb (mem g extent_i)) (rev (seq lo (n - lo)))).

(* while combinations_to_check: comb_i = combinations_to_check.pop(); ...; yield ...;
   combinations_to_check.extend(new_combs) *)
Fixpoint dfs_run (fuel : nat) (stack : list (list nat)) (st : S) (out : list Y) : stack_res Y :=
  match stack with
  | [] => SDone out
  | comb :: stack' =>
      match fuel with
      | 0 => SOutOfFuel
      | Datatypes.S fuel' =>
          match visit st comb with
          | None => dfs_run fuel' stack' st out                                   (* continue *)
          | Some (y, extent_i, st') =>
              dfs_run fuel' (rev (new_combs extent_i comb) ++ stack') st' (out ++ [y])
          end
      end
  end.

(* combinations_to_check = deque([tuple()]) *)
Definition dfs (fuel : nat) (st0 : S) : stack_res Y := dfs_run fuel [[]] st0 [].

End Machine.

Arguments last_or_0 comb : clear implicits.

(* ------------------------------------------------------------ close_by_one_objectwise_fbarray *)

(* one iteration on the popped [comb_i]; the state is intents_found *)
Definition visit_fb (K : context) (found : list (list bool)) (comb : list nat)
  : option (fconcept * list nat * list (list bool)) :=
  let t := k_table K in
  let intent := intention_ba t comb in
  if found_mem intent found then None else
    match rev comb with
    | [] =>
        let base := filter (fun i => negb (mem i comb)) (seq 0 (k_n K)) in
        let extent_i := comb ++ extension_iter t intent base in
        Some (from_objects K extent_i false, extent_i, intent :: found)
    | g :: _ =>
        let lex := filter (fun h => negb (mem h comb)) (seq 0 g) in
        match extension_iter t intent lex with
        | _ :: _ => None
        | [] =>
            let base := filter (fun i => negb (mem i comb)) (seq (Datatypes.S g) (k_n K - Datatypes.S g)) in
            let extent_i := comb ++ extension_iter t intent base in
            Some (from_objects K extent_i false, extent_i, intent :: found)
        end
    end.

Definition cbo_fbarray_stack (K : context) (fuel : nat) : stack_res fconcept :=
  dfs (list (list bool)) fconcept (k_n K) (visit_fb K) fuel [].

(* ------------------------------------------------------------ close_by_one_objectwise *)

(* [extents_i_found] stays empty in the code: no state *)
Definition visit_obj (K : context) (st : unit) (comb : list nat)
  : option (fconcept * list nat * unit) :=
  let intent_i := K_int K comb in
  match rev comb with
  | [] =>
      let base := filter (fun i => negb (mem i comb)) (seq 0 (k_n K)) in
      let extent_i := comb ++ K_ext K intent_i (Some base) in
      Some (from_objects K extent_i true, extent_i, st)
  | g :: _ =>
      let lex := filter (fun h => negb (mem h comb)) (seq 0 g) in
      match K_ext K intent_i (Some lex) with
      | _ :: _ => None
      | [] =>
          let base := filter (fun i => negb (mem i comb)) (seq (Datatypes.S g) (k_n K - Datatypes.S g)) in
          let extent_i := comb ++ K_ext K intent_i (Some base) in
          Some (from_objects K extent_i true, extent_i, st)
      end
  end.

Definition cbo_objectwise_stack (K : context) (fuel : nat) : stack_res fconcept :=
  dfs unit fconcept (k_n K) (visit_obj K) fuel tt.

(* ------------------------------------------------------------ close_by_one on top of the stack *)

Definition close_by_one_stack (K : context) (fuel : nat) : stack_res fconcept :=
  if Nat.ltb (k_n K) (k_w K) then cbo_fbarray_stack K fuel
  else match cbo_fbarray_stack (ctx_T K) fuel with
       | SDone cs => SDone (map (fun c => from_objects K (c_int_i c) true) cs)
       | SOutOfFuel => SOutOfFuel
       end.

(* fuel that always suffices (Lemmas/C02_Stack.v): n_objs * 2^n_objs + 1 *)
Definition stack_fuel (n : nat) : nat := n * 2 ^ n + 1.

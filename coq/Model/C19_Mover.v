(* Model/C19_Mover.v — fcapy/visualizer/mover.py: the Mover state machine.  Definitions only.

   State = the four attributes the class keeps (levels, peers_order, pos_levels, pos_peers) and
   the direction ('v' = true, 'h' = false).  [load] is the [pos] setter, [pos] the getter,
   [step] one of swap_nodes / shift_node / jitter_node / place_node / direction assignment.
   A step returns the new state and an exception code (0 none, 2 DifferentHierarchyLevelsError
   (a ValueError), 6 AssertionError "New node position overlaps another node"); both exceptions
   are raised before anything is written, so the state is unchanged then.
   Node indexes are assumed in range (Python would raise IndexError / wrap negatives). *)
From Coq Require Import ZArith QArith.
From FCA Require Export Model.C19_LineLayout.

Record mstate := {
  m_v : bool;                   (* direction == 'v' *)
  m_levels : list nat;          (* self.levels *)
  m_order : list nat;           (* self.peers_order *)
  m_plev : list Q;              (* self.pos_levels *)
  m_ppeers : list (list Q)      (* self.pos_peers *)
}.

Inductive mop :=
| Swap (a b : nat)
| Shift (i : nat) (k : Z)
| Jitter (i : nat) (dx : Q)
| Place (i : nat) (x : Q)
| SetDir (v : bool).

(* set(...) of floats: one representative per value *)
Definition qdedup (l : list Q) : list Q :=
  fold_right (fun x acc => if existsb (Qeq_bool x) acc then acc else x :: acc) [] l.

(* dict {coord: i}[y] / list.index *)
Fixpoint qindex (x : Q) (l : list Q) : nat :=
  match l with [] => O | y :: t => if Qeq_bool x y then O else S (qindex x t) end.
Fixpoint nindex (x : nat) (l : list nat) : nat :=
  match l with [] => O | y :: t => if Nat.eqb x y then O else S (nindex x t) end.

Definition level_of (s : mstate) (el : nat) : nat := nth el (m_levels s) O.
Definition slot_of (s : mstate) (el : nat) : nat := nth el (m_order s) O.

(* ---- the pos setter.  The code first runs the posx/posy setters and then recomputes and
   overwrites all four attributes from the (rotated, for 'h') dictionary; only that last part
   is observable:
        if direction == 'h': value = {el: (y, -x)}
        lvl_coords = sorted(set(value[el][1]), reverse=True)
        levels[el] = index of value[el][1] in lvl_coords
        peers_order[lvl] = sorted(elements of lvl, key=value[el][0])      (stable)
        pos_peers[lvl] = [value[el][0] for el in peers_order[lvl]]
        peers_order_flat[el] = peers_order[levels[el]].index(el)                              *)
Definition load (v : bool) (p : list (Q * Q)) : mstate :=
  let value := if v then p else map (fun xy => (snd xy, - fst xy)) p in
  let n := length p in
  let lvl_coords := isort (fun a b => Qle_bool b a) (qdedup (map snd value)) in
  let levels := map (fun xy => qindex (snd xy) lvl_coords) value in
  let xs := fun el => fst (nth el value (0, 0)) in
  let peers := map (fun l => isort (fun a b => Qle_bool (xs a) (xs b))
                                   (filter (fun el => Nat.eqb (nth el levels O) l) (seq 0 n)))
                   (seq 0 (length lvl_coords)) in
  {| m_v := v;
     m_levels := levels;
     m_order := map (fun el => nindex el (nth (nth el levels O) peers [])) (seq 0 n);
     m_plev := lvl_coords;
     m_ppeers := map (map xs) peers |}.

(* ---- the pos getter:  'v': (pos_peers[lvl][peer], pos_levels[lvl])
                         'h': (-pos_levels[lvl], pos_peers[lvl][peer])                        *)
Definition peer_coord (s : mstate) (el : nat) : Q :=
  nth (slot_of s el) (nth (level_of s el) (m_ppeers s) []) 0.
Definition level_coord (s : mstate) (el : nat) : Q := nth (level_of s el) (m_plev s) 0.
Definition pos_of (s : mstate) (el : nat) : Q * Q :=
  if m_v s then (peer_coord s el, level_coord s el) else (- level_coord s el, peer_coord s el).
Definition pos (s : mstate) : list (Q * Q) := map (pos_of s) (seq 0 (length (m_levels s))).

Definition with_order (s : mstate) (o : list nat) : mstate :=
  {| m_v := m_v s; m_levels := m_levels s; m_order := o; m_plev := m_plev s; m_ppeers := m_ppeers s |}.
Definition with_ppeers (s : mstate) (pp : list (list Q)) : mstate :=
  {| m_v := m_v s; m_levels := m_levels s; m_order := m_order s; m_plev := m_plev s; m_ppeers := pp |}.
Definition with_dir (s : mstate) (v : bool) : mstate :=
  {| m_v := v; m_levels := m_levels s; m_order := m_order s; m_plev := m_plev s; m_ppeers := m_ppeers s |}.

(* swap_nodes:  peers_order[a], peers_order[b] = peers_order[b], peers_order[a] *)
Definition swap_nodes (s : mstate) (a b : nat) : mstate * nat :=
  if Nat.eqb (level_of s a) (level_of s b)
  then (with_order s (set_nth b (slot_of s a) (set_nth a (slot_of s b) (m_order s))), O)
  else (s, 2%nat).

(* shift_node *)
Definition peers_sorted (s : mstate) (lvl : nat) : list nat :=
  isort (fun a b => Nat.leb (slot_of s a) (slot_of s b))
        (filter (fun j => Nat.eqb (level_of s j) lvl) (seq 0 (length (m_levels s)))).

Definition swap_all (s : mstate) (i : nat) (js : list nat) : mstate * nat :=
  fold_left (fun st j => if Nat.eqb (snd st) 0 then swap_nodes (fst st) i j else st) js (s, O).

Definition shift_node (s : mstate) (i : nat) (k : Z) : mstate * nat :=
  let pid := slot_of s i in
  let peers_ids := peers_sorted s (level_of s i) in
  let to_swap := if Z.leb 0 k then skipn (S pid) peers_ids else rev (firstn pid peers_ids) in
  swap_all s i (firstn (Z.abs_nat k) to_swap).

(* jitter_node *)
Definition jitter_node (s : mstate) (i : nat) (dx : Q) : mstate * nat :=
  let lvl := level_of s i in
  let pid := slot_of s i in
  let pp := nth lvl (m_ppeers s) [] in
  let new_x := nth pid pp 0 + dx in
  let nonneg := Qle_bool 0 dx in
  let on_border := if nonneg then Nat.eqb pid (length pp - 1) else Nat.eqb pid 0 in
  if on_border then (with_ppeers s (set_nth lvl (set_nth pid new_x pp) (m_ppeers s)), O)
  else
    let keeps_order := if nonneg then Qlt_bool new_x (nth (pid + 1) pp 0)
                       else Qlt_bool (nth (pid - 1) pp 0) new_x in
    if keeps_order then (with_ppeers s (set_nth lvl (set_nth pid new_x pp) (m_ppeers s)), O)
    else if existsb (fun x => Qeq_bool x new_x) pp then (s, 6%nat)
    else
      let k := if nonneg
               then Z.of_nat (length (filter (fun x => Qlt_bool x new_x) (skipn (S pid) pp)))
               else (- Z.of_nat (length (filter (fun x => Qlt_bool new_x x) (firstn pid pp))))%Z in
      let r := shift_node s i k in
      let s1 := fst r in
      if Nat.eqb (snd r) 0
      then (with_ppeers s1 (set_nth lvl (set_nth (slot_of s1 i) new_x (nth lvl (m_ppeers s1) []))
                                    (m_ppeers s1)), O)
      else r.

(* place_node:  self.jitter_node(node_i, x - self.pos[node_i][0]) *)
Definition place_node (s : mstate) (i : nat) (x : Q) : mstate * nat :=
  jitter_node s i (x - fst (pos_of s i)).

Definition step (s : mstate) (o : mop) : mstate * nat :=
  match o with
  | Swap a b => swap_nodes s a b
  | Shift i k => shift_node s i k
  | Jitter i dx => jitter_node s i dx
  | Place i x => place_node s i x
  | SetDir v => (with_dir s v, O)
  end.

(* a history: exceptions are caught by the caller and the run continues *)
Definition run (s : mstate) (ops : list mop) : mstate := fold_left (fun st o => fst (step st o)) ops s.

(* the trace the correspondence compares: (exception code, pos) after every operation *)
Fixpoint trace (s : mstate) (ops : list mop) : list (nat * list (Q * Q)) :=
  match ops with
  | [] => []
  | o :: os => let r := step s o in (snd r, pos (fst r)) :: trace (fst r) os
  end.

(* ------------------------------------------------------------------ the posx / posy setters
   (documented properties of the class; not among the four moving operations, so they are a
   separate layer [hop] and the theorems about [step] / [run] do not speak about them).
     _set_node_level_pos(value, reverse):  pos_levels = sorted(set(value), reverse=reverse)
                                           levels = [index of v in pos_levels for v in value]
        - peers_order and pos_peers are NOT recomputed
        - posy setter in 'v' uses reverse=True; posx setter in 'h' uses reverse=False and stores the
          x values as they are, although the getter returns -pos_levels[lvl]: reading posx back
          after assigning it in 'h' yields the negated values (the code as it is)
     _set_nodes_peers_pos(value):  per level (of the current self.levels) the nodes sorted by value;
                                   pos_peers and peers_order recomputed from scratch              *)
Definition set_level_pos (s : mstate) (value : list Q) (reverse : bool) : mstate :=
  let lv := isort (fun a b => if reverse then Qle_bool b a else Qle_bool a b) (qdedup value) in
  {| m_v := m_v s; m_levels := map (fun y => qindex y lv) value; m_order := m_order s;
     m_plev := lv; m_ppeers := m_ppeers s |}.

Definition set_peers_pos (s : mstate) (value : list Q) : mstate :=
  let n := length (m_levels s) in
  let xs := fun el => nth el value 0 in
  let peers := map (fun l => isort (fun a b => Qle_bool (xs a) (xs b))
                                   (filter (fun el => Nat.eqb (level_of s el) l) (seq 0 n)))
                   (seq 0 (length (m_plev s))) in
  {| m_v := m_v s; m_levels := m_levels s;
     m_order := map (fun el => nindex el (nth (level_of s el) peers [])) (seq 0 n);
     m_plev := m_plev s; m_ppeers := map (map xs) peers |}.

Inductive hop :=
| HOp (o : mop)
| HSetX (l : list Q)      (* mover.posx = l *)
| HSetY (l : list Q).     (* mover.posy = l *)

Definition hstep (s : mstate) (h : hop) : mstate * nat :=
  match h with
  | HOp o => step s o
  | HSetX l => (if m_v s then set_peers_pos s l else set_level_pos s l false, 0%nat)
  | HSetY l => (if m_v s then set_level_pos s l true else set_peers_pos s l, 0%nat)
  end.

Fixpoint htrace (s : mstate) (ops : list hop) : list (nat * list (Q * Q)) :=
  match ops with
  | [] => []
  | o :: os => let r := hstep s o in (snd r, pos (fst r)) :: htrace (fst r) os
  end.
Fixpoint hstates (s : mstate) (ops : list hop) : list mstate :=
  match ops with
  | [] => []
  | o :: os => let s' := fst (hstep s o) in s' :: hstates s' os
  end.

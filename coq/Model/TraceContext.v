(* Model/TraceContext.v — ConceptLattice.trace_context (fcapy/lattice/concept_lattice.py) with
   use_generators=False: the memoised stored_extension, the queue that starts at the top concept,
   the range(len(self)) bound, stopped objects, the enqueue rule, both key modes and the refusal
   for lattices of monotone concepts.  Definitions only.

   The lattice is seen through: the number of its concepts, its children_dict, its top index,
   the supports of its concepts (sort key of the queue), the is_monotone flag, and through
   [ext_of c] = context.extension_i(self[c].intent_i) on the TRACED context (formal context:
   attribute-index intents, Model/FormalContext.v; many-valued context: description dictionaries,
   Model/MVContext.v - the two instances are at the end of the file).  [h] = context.n_objects. *)
From FCA Require Export Model.FormalContext Model.OrderConstruction Model.MVContext.

Record lattice := {
  lt_len : nat;                     (* len(self) *)
  lt_children : imap;               (* self.children_dict *)
  lt_top : nat;                     (* self.top *)
  lt_support : nat -> nat;          (* self[i].support *)
  lt_monotone : bool                (* self.is_monotone *)
}.

(* concept_extents: the memo table of stored_extension *)
Definition cache := list (nat * list nat).
Fixpoint cache_get (k : nat) (c : cache) : option (list nat) :=
  match c with
  | [] => None
  | (k', v) :: c' => if Nat.eqb k k' then Some v else cache_get k c'
  end.

Section Trace.
Variable ext_of : nat -> list nat.  (* context.extension_i(self[c].intent_i) on the traced context *)
Variable L : lattice.
Variable h : nat.                   (* context.n_objects *)

(* stored_extension(concept_i, use_generators=False) *)
Definition stored (m : cache) (c : nat) : list nat * cache :=
  match cache_get c m with
  | Some e => (e, m)
  | None => let e := ext_of c in (e, (c, e) :: m)
  end.

(* subconcept_extents |= stored_extension(sub) for every child *)
Fixpoint stored_union (m : cache) (subs : list nat) (acc : list nat) : list nat * cache :=
  match subs with
  | [] => (acc, m)
  | s :: subs' => let '(e, m1) := stored m s in stored_union m1 subs' (union e acc)
  end.

(* [s for s in subs if len(stored(s)) > 0 and s not in visited and s not in queue] *)
Fixpoint new_concepts (m : cache) (subs visited queue : list nat) : list nat * cache :=
  match subs with
  | [] => ([], m)
  | s :: subs' =>
      let '(e, m1) := stored m s in
      let '(rest, m2) := new_concepts m1 subs' visited queue in
      (if negb (Nat.eqb (length e) 0) && negb (mem s visited) && negb (mem s queue)
       then s :: rest else rest, m2)
  end.

Record tstate := {
  ts_queue : list nat;       (* concepts_to_visit *)
  ts_visited : list nat;     (* visited_concepts *)
  ts_bottom : imap;          (* object_bottom_concepts : object index -> concepts *)
  ts_traced : imap;          (* object_traced_concepts *)
  ts_cache : cache
}.

Definition add_to (m : imap) (objs : list nat) (c : nat) : imap :=
  fun g => if mem g objs then add c (m g) else m g.

(* one iteration of the for loop (the queue is not empty: c_i = pop(0));
   [enum] = iteration order of the frozenset children_dict[c_i] *)
Definition trace_step (enum : list nat -> list nat) (s : tstate) (c : nat) (q : list nat) : tstate :=
  let '(extent, m1) := stored (ts_cache s) c in
  let visited := add c (ts_visited s) in
  let subs := enum (lt_children L c) in
  let '(sub_exts, m2) := stored_union m1 subs [] in
  let stopped := diff extent sub_exts in
  let '(new, m3) := new_concepts m2 subs visited q in
  {| ts_queue := q ++ sort_by_desc (lt_support L) new;
     ts_visited := visited;
     ts_bottom := add_to (ts_bottom s) stopped c;
     ts_traced := add_to (ts_traced s) extent c;
     ts_cache := m3 |}.

(* for i in range(len(self)): if not queue: break; ... *)
Fixpoint trace_loop (enum : list nat -> list nat) (fuel : nat) (s : tstate) : tstate :=
  match fuel with
  | 0 => s
  | S f => match ts_queue s with
           | [] => s
           | c :: q => trace_loop enum f (trace_step enum s c q)
           end
  end.

Definition trace_init : tstate :=
  {| ts_queue := [lt_top L]; ts_visited := []; ts_bottom := empty_map; ts_traced := empty_map;
     ts_cache := [] |}.

Definition trace_final (enum : list nat -> list nat) : tstate :=
  trace_loop enum (lt_len L) trace_init.

(* Err 9 = NotImplementedError.  By index: the two dictionaries as lists over range(n_objects);
   by name: {object_names[g]: set} as a list of (name, set) pairs in object order. *)
Definition trace_by_index (enum : list nat -> list nat) : res (list (list nat) * list (list nat)) :=
  if lt_monotone L then Fail 9
  else let s := trace_final enum in
       Done (tabulate h (ts_bottom s), tabulate h (ts_traced s)).

Definition trace_by_name (enum : list nat -> list nat) (names : list nat)
  : res (list (nat * list nat) * list (nat * list nat)) :=
  if lt_monotone L then Fail 9
  else let s := trace_final enum in
       Done (map (fun g => (nth g names 0, ts_bottom s g)) (seq 0 h),
             map (fun g => (nth g names 0, ts_traced s g)) (seq 0 h)).
End Trace.

(* ---- the two kinds of traced contexts *)
(* FormalContext.extension_i(intent_i) of a table, through back-end [b] *)
Definition formal_ext (b : backend) (intents : list (list nat)) (t : table) (c : nat) : list nat :=
  extension_i b t (nth c intents []) None.
(* MVContext.extension_i(intent_i): intents are description dictionaries {ps_i: description} *)
Definition mv_ext (K : mvctx) (intents : list ddict) (c : nat) : list nat :=
  mv_extension_i K (nth c intents []) None.

(* Model/PosetAlgebra.v — transcription of POSet.__and__/__or__/__xor__/__sub__,
   _combine_multiple_caches and _combine_caches (fcapy/poset/poset.py), definitions only,
   and the boolean guards of the recorded cache-merging defect D15 (property C10).
   The code is modelled AS IT IS: the merge of the cover caches (and, for |, of the closed
   caches) is wrong unless both operands cached the same things.
   Not modelled: the type sniffing on the first cache entry (every named cache holds values
   of one type, so it always finds the type the model fixes per cache). *)
From FCA Require Export Model.Poset.

Inductive setop := OpAnd | OpOr | OpXor | OpSub.

Section AlgebraModel.
  Variable E : Type.
  Variable leq : E -> E -> bool.
  Variable eqb : E -> E -> bool.

  Notation state := (state E).
  Notation memE := (memE E eqb).
  Notation index_of := (index_of E eqb).

  (* element combination: list comprehensions with the `x in list` membership tests *)
  Definition els_comb (o : setop) (a b : list E) : list E :=
    match o with
    | OpAnd => filter (fun x => memE x b) a
    | OpOr => a ++ filter (fun x => negb (memE x a)) b
    | OpXor => filter (fun x => negb (memE x b)) a ++ filter (fun x => negb (memE x a)) b
    | OpSub => filter (fun x => negb (memE x b)) a
    end.

  (* a_idx_comb_idx_map: index in the operand -> index in the combined list, if the element is kept *)
  Definition idx_map (src comb : list E) (i : nat) : option nat :=
    match nth_error src i with
    | Some e => index_of e comb
    | None => None
    end.

  Definition map_set (f : nat -> option nat) (v : list nat) : list nat :=
    flat_map (fun i => match f i with Some j => [j] | None => [] end) v.

  (* one pass of the loop "for key, value in base_cache.items()" for a set-valued cache *)
  Definition merge_rel (f : nat -> option nat) (c : cache) (acc : cache) : cache :=
    fold_left (fun acc (kv : nat * list nat) =>
                 match f (fst kv) with
                 | None => acc
                 | Some ck =>
                     let cv := map_set f (snd kv) in
                     upd ck (match lk acc ck with Some old => union cv old | None => cv end) acc
                 end) c acc.

  (* the same pass for the leq cache: tuple keys need both indexes kept, later value wins *)
  Definition merge_leq (f : nat -> option nat) (c : lcache) (acc : lcache) : lcache :=
    fold_left (fun acc (kv : (nat * nat) * bool) =>
                 match f (fst (fst kv)), f (snd (fst kv)) with
                 | Some x, Some y => updl (x, y) (snd kv) acc
                 | _, _ => acc
                 end) c acc.

  (* _combine_caches for one named cache *)
  Definition combine_rel (fa fb : nat -> option nat) (ca cb : cache) : cache :=
    merge_rel fb cb (merge_rel fa ca []).
  Definition combine_leq (fa fb : nat -> option nat) (ca cb : lcache) : lcache :=
    merge_leq fb cb (merge_leq fa ca []).

  (* the drop_notcommon_elements pass of | and ^ over the four relation caches *)
  Definition drop_notcommon (common comb : list E) (c : cache) : cache :=
    filter (fun kv => match nth_error comb (fst kv) with
                      | Some e => memE e common | None => false end) c.

  (* a ⊙ b.  `other.__dict__.get(cache_name, {})`: an operand built with use_cache=False
     contributes empty caches (repair 2f054d3 of the KeyError D21) *)
  Definition combine (o : setop) (a b : state) : state :=
    let comb := els_comb o (els a) (els b) in
    if use_cache a then
      let ob := fun {A} (c : list A) => if use_cache b then c else [] in
      let fa := idx_map (els a) comb in
      let fb := idx_map (els b) comb in
      let common := filter (fun x => memE x (els b)) (els a) in
      let post := match o with
                  | OpOr | OpXor => drop_notcommon common comb
                  | _ => fun c => c end in
      mk_state comb
        (combine_leq fa fb (c_leq a) (ob (c_leq b)))
        (post (combine_rel fa fb (c_desc a) (ob (c_desc b))))
        (post (combine_rel fa fb (c_anc a) (ob (c_anc b))))
        (post (combine_rel fa fb (c_ch a) (ob (c_ch b))))
        (post (combine_rel fa fb (c_par a) (ob (c_par b))))
        true
    else init E comb false.

  (* ---------------------------------------------------------------- guards (D15) *)
  (* every index listed in a cover entry of a kept element is itself kept *)
  Definition covers_kept (src : list E) (kept : E -> bool) (c : cache) : bool :=
    forallb (fun kv =>
               match nth_error src (fst kv) with
               | Some e => negb (kept e) ||
                           forallb (fun j => match nth_error src j with
                                             | Some x => kept x | None => false end) (snd kv)
               | None => true
               end) c.

  (* G_&, G_-: no cached cover entry (children or parents) of a kept element mentions a dropped
     element *)
  Definition G_and (a b : state) : bool :=
    let ka := fun x => memE x (els b) in
    let kb := fun x => memE x (els a) in
    covers_kept (els a) ka (c_ch a) && covers_kept (els a) ka (c_par a) &&
    covers_kept (els b) kb (c_ch b) && covers_kept (els b) kb (c_par b).

  Definition G_sub (a b : state) : bool :=
    let ka := fun x => negb (memE x (els b)) in
    covers_kept (els a) ka (c_ch a) && covers_kept (els a) ka (c_par a).

  (* G_|: for every common element, no operand holds a cover entry for it, and each closed cache
     holds it in both operands or in neither *)
  Definition G_or (a b : state) : bool :=
    forallb (fun ia =>
               match nth_error (els a) ia with
               | None => true
               | Some e =>
                   match index_of e (els b) with
                   | None => true
                   | Some ib =>
                       negb (has_key Nat.eqb (c_ch a) ia) && negb (has_key Nat.eqb (c_par a) ia) &&
                       negb (has_key Nat.eqb (c_ch b) ib) && negb (has_key Nat.eqb (c_par b) ib) &&
                       Bool.eqb (has_key Nat.eqb (c_desc a) ia) (has_key Nat.eqb (c_desc b) ib) &&
                       Bool.eqb (has_key Nat.eqb (c_anc a) ia) (has_key Nat.eqb (c_anc b) ib)
                   end
               end) (seq 0 (length (els a))).

  (* index of the guard that is false for this operation on these operands; 0 = all hold *)
  Definition guard_index (o : setop) (a b : state) : nat :=
    if negb (use_cache a) then 0
    else match o with
         | OpAnd => if G_and a b then 0 else 1
         | OpOr => if G_or a b then 0 else 2
         | OpSub => if G_sub a b then 0 else 3
         | OpXor => 0
         end.
End AlgebraModel.

(* Model/Duality.v — property C06: transcription of
     fcapy/context/bintable.py        AbstractBinTable.T, BinTableNumpy.T, __invert__ (3 back-ends)
     fcapy/context/formal_context.py  FormalContext.__init__ (the two length assertions), T,
                                      __invert__ ('not ' prefix toggle on attribute names), __eq__
     fcapy/poset/poset.py             POSet._transpose_hierarchy
     fcapy/lattice/concept_lattice.py ConceptLattice.T, _from_context_monotone
     fcapy/lattice/formal_concept.py  AbstractConcept.__le__ (operands swapped when monotone)
   Definitions only.  A string is the list of its code points.  Hash values stay abstract
   (an integer carried by the data; nothing is assumed about how it is computed). *)
From FCA Require Export Model.FormalContext.
From Coq Require Export ZArith.

(* ------------------------------------------------------------------ strings *)

Definition str := list nat.
Definition not_prefix : str := [110; 111; 116; 32].          (* 'not ' *)

(* str.startswith(p) *)
Fixpoint starts_with (p s : str) : bool :=
  match p, s with
  | [], _ => true
  | x :: p', y :: s' => Nat.eqb x y && starts_with p' s'
  | _ :: _, [] => false
  end.

(* m[4:] if m.startswith('not ') else 'not ' + m *)
Definition toggle_name (m : str) : str :=
  if starts_with not_prefix m then skipn 4 m else not_prefix ++ m.

Definition str_eqb : str -> str -> bool := nat_list_eqb.
Definition strs_eqb : list str -> list str -> bool := list_eqb str_eqb.

(* ------------------------------------------------------------------ tables *)

(* BinTableLists/BinTableBitarray._get_column(row_slicer, j) = [data[i][j] for i in row_slicer] *)
Definition get_column (t : table) (rs : list nat) (j : nat) : list bool :=
  map (fun i => cell t i j) rs.

(* AbstractBinTable.T: self.__class__([self._get_column(range(height), j) for j in range(width)])
   (re-wrapping an empty list gives the 0x0 table, which is [] here as well) *)
Definition A_transpose (t : table) : table :=
  map (get_column t (seq 0 (height t))) (seq 0 (width t)).

(* BinTableNumpy.T: self.__class__(self.data.T) *)
Definition N_transpose (t : table) : table :=
  map (fun j => map (fun r => nth j r false) t) (seq 0 (width t)).

Definition transpose (b : backend) : table -> table :=
  match b with BNumpy => N_transpose | _ => A_transpose end.

(* __invert__: [[not v for v in row] for row in data] / [~row for row in data] / ~data *)
Definition tbl_invert (t : table) : table := map (map negb) t.

Definition table_eqb : table -> table -> bool := list_eqb bool_list_eqb.

(* ------------------------------------------------------------------ contexts *)

(* error kinds as in harness/core.py ERR_KINDS *)
Definition E_Value := 2.
Definition E_UnmatchedContext := 3.
Definition E_UnmatchedMonotone := 4.
Definition E_Assertion := 6.

Inductive cres (A : Type) := COk (a : A) | CErr (kind : nat).
Arguments COk {A} a. Arguments CErr {A} kind.

Definition cbind {A B} (r : cres A) (f : A -> cres B) : cres B :=
  match r with COk a => f a | CErr k => CErr k end.

Record ctx := { k_tbl : table; k_on : list str; k_an : list str }.

(* FormalContext.__init__ with explicit names: the two setters assert
   len(object_names) == len(data) and len(attribute_names) == data.shape[1] *)
Definition mk_ctx (t : table) (on an : list str) : cres ctx :=
  if negb (Nat.eqb (length on) (height t)) then CErr E_Assertion
  else if negb (Nat.eqb (length an) (width t)) then CErr E_Assertion
  else COk {| k_tbl := t; k_on := on; k_an := an |}.

(* FormalContext.T: self.__class__(self.data.T.data, self.attribute_names, self.object_names, backend) *)
Definition ctx_T (b : backend) (K : ctx) : cres ctx :=
  mk_ctx (transpose b (k_tbl K)) (k_an K) (k_on K).

(* FormalContext.__invert__ *)
Definition ctx_invert (K : ctx) : cres ctx :=
  mk_ctx (tbl_invert (k_tbl K)) (k_on K) (map toggle_name (k_an K)).

(* FormalContext.__eq__ (no target): ValueError when the names differ, else data == data
   (the table comparison checks height and width first) *)
Definition ctx_eq (K1 K2 : ctx) : cres bool :=
  if negb (strs_eqb (k_on K1) (k_on K2)) then CErr E_Value
  else if negb (strs_eqb (k_an K1) (k_an K2)) then CErr E_Value
  else COk (Nat.eqb (height (k_tbl K1)) (height (k_tbl K2))
            && Nat.eqb (width (k_tbl K1)) (width (k_tbl K2))
            && table_eqb (k_tbl K1) (k_tbl K2)).

(* FormalContext.__getitem__ with two index lists, K[rows, cols] — the library's own way of
   permuting / selecting:  data = self.data[rows, cols]  ->  _get_subtable(rows, cols);
   names = slice_list(names, idx) = [names[x] for x in idx]  (given order) *)
(* BinTableLists: [[data[i][j] for j in cols] for i in rows];  BinTableBitarray: fbarray of the same *)
Definition A_subtable (t : table) (rs cs : list nat) : table :=
  map (fun i => map (fun j => cell t i j) cs) rs.
(* BinTableNumpy: self.data[rows][:, cols] *)
Definition N_subtable (t : table) (rs cs : list nat) : table := N_slice t (Some rs) (Some cs).
Definition subtable (b : backend) : table -> list nat -> list nat -> table :=
  match b with BNumpy => N_subtable | _ => A_subtable end.
Definition slice_names (names : list str) (idx : list nat) : list str := map (fun i => nth i names []) idx.
Definition ctx_getitem (b : backend) (K : ctx) (rs cs : list nat) : cres ctx :=
  mk_ctx (subtable b (k_tbl K) rs cs) (slice_names (k_on K) rs) (slice_names (k_an K) cs).

Definition ctx_TT (b : backend) (K : ctx) : cres ctx := cbind (ctx_T b K) (ctx_T b).
Definition ctx_invert2 (K : ctx) : cres ctx := cbind (ctx_invert K) ctx_invert.

(* ------------------------------------------------------------------ concepts and lattices *)

Record concept := {
  c_ext_i : list nat; c_ext : list str;
  c_int_i : list nat; c_int : list str;
  c_hash : option Z;                 (* context_hash, abstract *)
  c_mono : bool
}.

(* a ConceptLattice as far as C06 looks at it: the concepts in list order and the children
   dictionary {i: set of indexes}, position i of [l_children] being the entry of key i *)
Record lattice := { l_concepts : list concept; l_children : list (list nat); l_mono : bool }.

(* POSet._transpose_hierarchy:
     for k, vs in d.items():  new.setdefault(k, set());  for v in vs: new[v] = new.get(v, set()) | {k} *)
Fixpoint add_at (v k : nat) (d : list (list nat)) : list (list nat) :=
  match d, v with
  | [], _ => []
  | s :: d', 0 => (if mem k s then s else s ++ [k]) :: d'
  | s :: d', S v' => s :: add_at v' k d'
  end.

Definition transpose_hierarchy (ch : list (list nat)) : list (list nat) :=
  fst (fold_left (fun (st : list (list nat) * nat) vs =>
                    let (d, k) := st in (fold_left (fun d' v => add_at v k d') vs d, S k))
                 ch (repeat [] (length ch), 0)).

(* -c.context_hash if c.context_hash else None *)
Definition neg_hash (h : option Z) : option Z :=
  match h with
  | Some z => if Z.eqb z 0 then None else Some (- z)%Z
  | None => None
  end.

(* FormalConcept(c.intent_i, c.intent, c.extent_i, c.extent, context_hash=...)   [is_monotone defaults to False] *)
Definition concept_T (c : concept) : concept :=
  {| c_ext_i := c_int_i c; c_ext := c_int c; c_int_i := c_ext_i c; c_int := c_ext c;
     c_hash := neg_hash (c_hash c); c_mono := false |}.

(* ConceptLattice.T: ConceptLattice(concepts_t, children_dict=self.parents_dict).
   parents_dict is the transposed children dictionary (POSet.__init__ builds the parents cache
   exactly so; lattices whose caches were filled lazily agree with it by C09/C03). *)
Definition lattice_T (L : lattice) : lattice :=
  {| l_concepts := map concept_T (l_concepts L);
     l_children := transpose_hierarchy (l_children L);
     l_mono := false |}.

(* the loop body of _from_context_monotone *)
Definition mono_concept (n : nat) (on : list str) (h : option Z) (c : concept) : concept :=
  let e := filter (fun g => negb (mem g (c_ext_i c))) (seq 0 n) in   (* sorted(obj_idxs - set(extent_i)) *)
  {| c_ext_i := e; c_ext := map (fun g => nth g on []) e;
     c_int_i := c_int_i c; c_int := map toggle_name (c_int c);
     c_hash := h; c_mono := true |}.

(* given L = the lattice of ~context *)
Definition monotone_of (K : ctx) (h : option Z) (L : lattice) : lattice :=
  {| l_concepts := map (mono_concept (height (k_tbl K)) (k_on K) h) (l_concepts L);
     l_children := l_children L;
     l_mono := true |}.

(* _from_context_monotone with the (non-monotone) lattice builder and the hash as arguments *)
Definition from_context_monotone (build : ctx -> lattice) (hash : ctx -> option Z) (K : ctx)
  : cres lattice :=
  cbind (ctx_invert K) (fun Kc => COk (monotone_of K (hash K) (build Kc))).

Definition opt_Z_eqb (a b : option Z) : bool :=
  match a, b with
  | Some x, Some y => Z.eqb x y
  | None, None => true
  | _, _ => false
  end.

(* AbstractConcept.__le__ *)
Definition concept_le (a b : concept) : cres bool :=
  if negb (opt_Z_eqb (c_hash a) (c_hash b)) then CErr E_UnmatchedContext
  else if negb (Bool.eqb (c_mono a) (c_mono b)) then CErr E_UnmatchedMonotone
  else
    let lesser := if c_mono a then b else a in
    let greater := if c_mono a then a else b in
    if Nat.ltb (length (c_ext_i greater)) (length (c_ext_i lesser)) then COk false
    else COk (forallb (fun g => mem g (c_ext_i greater)) (c_ext_i lesser)).

(* Model/C20_DecisionLattice.v — fcapy/ml/decision_lattice.py (DecisionLatticeRegressor
   .from_decision_tree, predict with PredictFunctions.SUMDIFF, * and /) together with
   ConceptLattice.trace_context(use_generators=True, return_generators_extents=True).
   Definitions only.

   A regression tree is an arbitrary binary tree with a number at every node (sklearn's
   children_left / children_right / feature / threshold / value arrays describe exactly such a
   tree; nodes are identified by their place in the tree instead of sklearn's pre-order index).
   The data of the many-valued context are rows of numbers (IntervalPS / IntervalNumpyPS turn a
   number x into the interval [x, x]).

   What the code does, and where it is in the model:
   * _parse_dt_arrays_to_drules: direct premise of a left child (-inf, thr], of a right child
     [thr + eps, +inf) with eps = 1e-9                                   -> [left_ival] [right_ival]
     accumulated premises, generators_to_description asserts lo <= hi    -> [prem_add] [prems_ok]
     dtargets = value[child] - value[parent], root keeps its value       -> [deltas]
   * from_decision_tree: one pattern concept per node from the accumulated premise; with more
     than one leaf a bottom concept of empty extent is appended; ConceptLattice(...) demands a
     single top and a single bottom, which fails with ValueError as soon as some node has an
     empty extent (duplicate of the bottom concept)                      -> [all_reached]
     _decisions[(parent, child, direct premise)] = delta                 -> the delta tree
   * trace_context from the top: every visited node computes, for each child, the extension of
     the child's direct premise inside the node's own stored extension, records
     (parent, child, extension, premise), and enqueues the child iff that extension is non-empty
                                                                          -> [visit] [records]
   * _sum_difference_predictions: predictions[ext] += decision of the record  -> [predict]
   * __mul__/__imul__: every decision times the constant; __truediv__/__itruediv__: times 1/k
                                                                          -> [dl_mul] [dl_div]  *)
From Coq Require Import ZArith QArith.
From FCA Require Export Base.ListSet.
Local Open Scope nat_scope.

Inductive dres (A : Type) := DOk (a : A) | DErr (kind : nat).
Arguments DOk {A} a. Arguments DErr {A} kind.

Inductive rtree :=
| RLeaf (v : Q)
| RNode (v : Q) (f : nat) (thr : Q) (l r : rtree).

Definition rval (t : rtree) : Q := match t with RLeaf v => v | RNode v _ _ _ _ => v end.

Definition table := list (list Q).
Definition cell (X : table) (g f : nat) : Q := nth f (nth g X []) 0%Q.
Definition all_rows (X : table) : list nat := seq 0 (length X).

Definition eps : Q := (1 # 1000000000)%Q.

(* an interval description; None = the infinite end *)
Definition ival := (option Q * option Q)%type.
Definition left_ival (thr : Q) : ival := (None, Some thr).
Definition right_ival (thr : Q) : ival := (Some (thr + eps)%Q, None).
Definition in_ival (x : Q) (d : ival) : bool :=
  match fst d with None => true | Some lo => Qle_bool lo x end &&
  match snd d with None => true | Some hi => Qle_bool x hi end.

(* ---- accumulated premises: {feature: interval}, generators_to_description([old, new]) *)
Definition premise := list (nat * ival).
Fixpoint prem_get (p : premise) (f : nat) : option ival :=
  match p with [] => None | (f', d) :: t => if Nat.eqb f f' then Some d else prem_get t f end.
Fixpoint prem_set (p : premise) (f : nat) (d : ival) : premise :=
  match p with
  | [] => [(f, d)]
  | (f', d') :: t => if Nat.eqb f f' then (f, d) :: t else (f', d') :: prem_set t f d
  end.
Definition lo_max (a b : option Q) : option Q :=
  match a, b with
  | None, x | x, None => x
  | Some x, Some y => Some (if Qle_bool x y then y else x)
  end.
Definition hi_min (a b : option Q) : option Q :=
  match a, b with
  | None, x | x, None => x
  | Some x, Some y => Some (if Qle_bool x y then x else y)
  end.
Definition ival_nonempty (d : ival) : bool :=
  match fst d, snd d with Some lo, Some hi => Qle_bool lo hi | _, _ => true end.
(* None = AssertionError of generators_to_description *)
Definition prem_add (p : premise) (f : nat) (d : ival) : option premise :=
  match prem_get p f with
  | None => Some (prem_set p f d)
  | Some d' =>
      let d'' := (lo_max (fst d') (fst d), hi_min (snd d') (snd d)) in
      if ival_nonempty d'' then Some (prem_set p f d'') else None
  end.

Definition satisfies (X : table) (p : premise) (g : nat) : bool :=
  forallb (fun fd => in_ival (cell X g (fst fd)) (snd fd)) p.
(* MVContext.extension_i(premise) *)
Definition extension (X : table) (p : premise) (base : list nat) : list nat :=
  filter (satisfies X p) base.

(* every accumulated premise can be formed (no AssertionError) *)
Fixpoint prems_ok (p : premise) (t : rtree) : bool :=
  match t with
  | RLeaf _ => true
  | RNode _ f thr l r =>
      match prem_add p f (left_ival thr), prem_add p f (right_ival thr) with
      | Some pl, Some pr => prems_ok pl l && prems_ok pr r
      | _, _ => false
      end
  end.

(* every node's concept has a non-empty extent (else the lattice constructor raises) *)
Fixpoint all_reached (X : table) (p : premise) (t : rtree) : bool :=
  negb (Nat.eqb (length (extension X p (all_rows X))) 0) &&
  match t with
  | RLeaf _ => true
  | RNode _ f thr l r =>
      match prem_add p f (left_ival thr), prem_add p f (right_ival thr) with
      | Some pl, Some pr => all_reached X pl l && all_reached X pr r
      | _, _ => false
      end
  end.

(* ---- target deltas: the decision attached to every node *)
Fixpoint deltas_from (pv : Q) (t : rtree) : rtree :=
  match t with
  | RLeaf v => RLeaf (v - pv)
  | RNode v f thr l r => RNode (v - pv) f thr (deltas_from v l) (deltas_from v r)
  end.
Definition deltas (t : rtree) : rtree :=
  match t with
  | RLeaf v => RLeaf v
  | RNode v f thr l r => RNode v f thr (deltas_from v l) (deltas_from v r)
  end.

(* the decision lattice: the tree of decisions (premises are implied by the splits) *)
Definition from_tree (X : table) (t : rtree) : dres rtree :=
  if negb (prems_ok [] t) then DErr 6          (* AssertionError *)
  else if negb (all_reached X [] t) then DErr 2   (* ValueError: not a lattice *)
  else DOk (deltas t).

(* ---- tracing with generators *)
Definition nonempty (l : list nat) : bool := negb (Nat.eqb (length l) 0).
Definition sub_ext (X : table) (f : nat) (d : ival) (ext : list nat) : list nat :=
  filter (fun g => in_ival (cell X g f) d) ext.

Fixpoint visit (X : table) (dt : rtree) (ext : list nat) : list (list nat * Q) :=
  match dt with
  | RLeaf _ => []
  | RNode _ f thr l r =>
      let el := sub_ext X f (left_ival thr) ext in
      let er := sub_ext X f (right_ival thr) ext in
      (el, rval l) :: (er, rval r)
      :: (if nonempty el then visit X l el else []) ++ (if nonempty er then visit X r er else [])
  end.

(* generators_extents with their decisions: the root record first *)
Definition records (X : table) (dt : rtree) : list (list nat * Q) :=
  (all_rows X, rval dt) :: visit X dt (all_rows X).

Definition predict_row (recs : list (list nat * Q)) (g : nat) : Q :=
  fold_left (fun acc r => if mem g (fst r) then Qred (acc + snd r) else acc) recs 0%Q.
Definition predict (X : table) (dt : rtree) : list Q :=
  map (predict_row (records X dt)) (all_rows X).

(* ---- scaling *)
Fixpoint map_values (h : Q -> Q) (t : rtree) : rtree :=
  match t with
  | RLeaf v => RLeaf (h v)
  | RNode v f thr l r => RNode (h v) f thr (map_values h l) (map_values h r)
  end.
Definition dl_mul (dt : rtree) (k : Q) : rtree := map_values (fun v => (v * k)%Q) dt.
(* 1/k raises ZeroDivisionError for k = 0 *)
Definition dl_div (dt : rtree) (k : Q) : dres rtree :=
  if Qeq_bool k 0 then DErr 11 else DOk (dl_mul dt (1 / k)%Q).

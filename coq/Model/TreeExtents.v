(* Model/TreeExtents.v — fcapy/algorithms/concept_construction.py:
   parse_decision_tree_to_extents and random_forest_concepts (as repaired: node extents are
   closed and de-duplicated).  Definitions only.

   A fitted scikit-learn tree is [Leaf | Node feature threshold left right]; a row x goes left
   at a node iff x[feature] <= threshold.  The decision-path matrix (one row per object, one
   column per node, depth-first node numbering, trees of a forest side by side) is computed by
   the model; fitting is outside the model.  utils.sparse_unique_columns is not transcribed:
   its obligation "each distinct column exactly once" is [dedup]; the order of the result is
   not part of the model (the correspondence compares sets of extents). *)
From Coq Require Import QArith.
From FCA Require Export Model.C15Interval.
Local Open Scope nat_scope.

Inductive tree := Leaf | Node (feature : nat) (thr : Q) (l r : tree).

Definition xrow := list Z.
Definition goes_left (x : xrow) (f : nat) (thr : Q) : bool := Qle_bool (inject_Z (nth f x 0%Z)) thr.

(* one row of tree.decision_path(X): a flag per node, depth-first *)
Fixpoint path_row (t : tree) (reach : bool) (x : xrow) : list bool :=
  match t with
  | Leaf => [reach]
  | Node f thr l r =>
      reach :: path_row l (reach && goes_left x f thr) x
            ++ path_row r (reach && negb (goes_left x f thr)) x
  end.

Fixpoint n_nodes (t : tree) : nat :=
  match t with Leaf => 1 | Node _ _ l r => S (n_nodes l + n_nodes r) end.

(* decision_path of a single tree = a forest of one tree; of a forest = the trees' matrices hstacked *)
Definition path_matrix (ts : list tree) (X : list xrow) : list (list bool) :=
  map (fun x => flat_map (fun t => path_row t true x) ts) X.

(* .tocsc(): the columns *)
Definition matrix_columns (M : list (list bool)) (ncols : nat) : list (list bool) :=
  map (fun j => map (fun r => nth j r false) M) (seq 0 ncols).

(* unique columns, then the row indexes stored in each column *)
Definition tree_extents (ts : list tree) (X : list xrow) : list (list nat) :=
  map search1 (dedup (matrix_columns (path_matrix ts X) (list_sum (map n_nodes ts)))).

(* tree_.children_left / children_right / feature / threshold  ->  tree  (a leaf has child -1) *)
Fixpoint tree_of_arrays (fuel : nat) (cl cr feat : list Z) (thr : list Q) (node : Z) : option tree :=
  match fuel with
  | 0 => None
  | S fuel' =>
      let i := Z.to_nat node in
      let l := nth i cl (-1)%Z in
      if (l <? 0)%Z then Some Leaf
      else match tree_of_arrays fuel' cl cr feat thr l,
                 tree_of_arrays fuel' cl cr feat thr (nth i cr (-1)%Z) with
           | Some tl, Some tr => Some (Node (Z.to_nat (nth i feat 0%Z)) (nth i thr 0%Q) tl tr)
           | _, _ => None
           end
  end.

(* list(dict.fromkeys(concepts)): PatternConcept equality/hash look at the extent only *)
Fixpoint dedup_by_extent (l : list (list nat * descr)) (seen : list (list nat)) : list (list nat * descr) :=
  match l with
  | [] => []
  | c :: l' => if existsb (nat_list_eqb (fst c)) seen then dedup_by_extent l' seen
               else c :: dedup_by_extent l' (fst c :: seen)
  end.

(* random_forest_concepts after rf.fit:
     extents_i = parse_decision_tree_to_extents(rf, X)
     extents_i.append(context.extension_i(context.intention_i([])))
     concepts = [from_objects(e, context) for e in extents_i];  list(dict.fromkeys(concepts)) *)
Definition rf_concepts (K : mvctx) (ts : list tree) : list (list nat * descr) :=
  let exts := tree_extents ts (mv_to_numeric K) ++ [mv_extension K (mv_intention K [])] in
  dedup_by_extent (map (fun A => mv_from_objects K A false) exts) [].

(* the code before the repair (is_extent=True, no de-duplication); kept to state what was wrong *)
Definition rf_concepts_unrepaired (K : mvctx) (ts : list tree) : list (list nat * descr) :=
  let exts := tree_extents ts (mv_to_numeric K) ++ [mv_extension K (mv_intention K [])] in
  map (fun A => mv_from_objects K A true) exts.


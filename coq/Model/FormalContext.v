(* Model/FormalContext.v — FormalContext.extension_i / intention_i / monotone variants /
   by-name wrappers (fcapy/context/formal_context.py).  Definitions only. *)
From FCA Require Export Model.BinTable.

Definition extension_i (b : backend) (t : table) (attrs : list nat) (base : option (list nat))
  : list nat :=
  match attrs with
  | [] => default (seq 0 (height t)) base
  | _ => all_i b t 1 base (Some attrs)
  end.

Definition intention_i (b : backend) (t : table) (objs : list nat) (base : option (list nat))
  : list nat :=
  match objs with
  | [] => default (seq 0 (width t)) base
  | _ => all_i b t 0 (Some objs) base
  end.

Definition extension_monotone_i (b : backend) (t : table) (attrs : list nat)
           (base : option (list nat)) : list nat :=
  if Nat.eqb (length attrs) (width t) then default (seq 0 (height t)) base
  else any_i b t 1 base (Some attrs).

Definition intention_monotone_i (b : backend) (t : table) (objs : list nat)
           (base : option (list nat)) : list nat :=
  let attr_iter := default (seq 0 (width t)) base in
  if Nat.eqb (length objs) (height t) then attr_iter
  else
    let inv_objs := filter (fun g => negb (mem g objs)) (seq 0 (height t)) in
    let inv_attrs := any_i b t 0 (Some inv_objs) base in
    filter (fun m => negb (mem m inv_attrs)) attr_iter.

(* ------------------------------------------------------------ by-name wrappers.
   Names are opaque ids (nat); the name -> index dictionary is
   {name: idx for idx, name in enumerate(names)}: the LAST occurrence wins. *)

Inductive result (A : Type) := Ok (a : A) | ErrKey (name : nat).
Arguments Ok {A} a. Arguments ErrKey {A} name.

Fixpoint index_last_from (k : nat) (names : list nat) (x : nat) (acc : option nat) : option nat :=
  match names with
  | [] => acc
  | y :: ys => index_last_from (S k) ys x (if Nat.eqb x y then Some k else acc)
  end.
Definition name_index (names : list nat) (x : nat) : option nat := index_last_from 0 names x None.

Fixpoint names_to_idx (names : list nat) (xs : list nat) : result (list nat) :=
  match xs with
  | [] => Ok []
  | x :: xs' =>
      match name_index names x with
      | None => ErrKey x
      | Some i => match names_to_idx names xs' with Ok l => Ok (i :: l) | ErrKey e => ErrKey e end
      end
  end.

Definition extension_named (b : backend) (t : table) (onames anames : list nat)
           (attrs : list nat) (base : option (list nat)) (mono : bool) : result (list nat) :=
  match names_to_idx anames attrs with
  | ErrKey e => ErrKey e
  | Ok ai =>
      let rb := match base with
                | Some bs => names_to_idx onames bs
                | None => Ok (seq 0 (height t)) end in
      match rb with
      | ErrKey e => ErrKey e
      | Ok bi =>
          let ext := if mono then extension_monotone_i b t ai (Some bi)
                     else extension_i b t ai (Some bi) in
          Ok (map (fun g => nth g onames 0) ext)
      end
  end.

Definition intention_named (b : backend) (t : table) (onames anames : list nat)
           (objs : list nat) (mono : bool) : result (list nat) :=
  match names_to_idx onames objs with
  | ErrKey e => ErrKey e
  | Ok oi =>
      let int := if mono then intention_monotone_i b t oi None else intention_i b t oi None in
      Ok (map (fun m => nth m anames 0) int)
  end.

(* Model/C19_LineLayout.v — fcapy/visualizer/line_layouts.py: calc_levels and fcart_layout.
   Definitions only.  Numbers are in Q (coordinates) and Z (levels; -1 = "not levelled yet",
   exactly the sentinel of the code).

   The poset enters through what the code reads from it: [n = len(poset)], [parents v]
   (poset.parents_dict[v] / poset.parents(v)), [children v] (poset.children(v)) and [tops]
   (poset.tops).  The code iterates frozensets / a set there; the order of these lists is a
   parameter of the model and the theorems hold for every order (Lemmas/C19_Levels.v).
   multipartite_layout delegates to networkx and is not modelled (its contract is checked on
   the implementation by Corr/C19.v). *)
From Coq Require Import ZArith QArith.
From FCA Require Export Base.ListSet.

(* results: a value or an exception (2 ValueError, 1 KeyError, 99 loop bound exhausted) *)
Inductive lres (A : Type) := LOk (a : A) | LErr (kind : nat).
Arguments LOk {A} a. Arguments LErr {A} kind.

Fixpoint set_nth {A} (i : nat) (x : A) (l : list A) : list A :=
  match l, i with
  | [], _ => []
  | _ :: t, O => x :: t
  | h :: t, S k => h :: set_nth k x t
  end.

(* insertion sort; stable, like Python's sorted(): an element stays before later elements
   that compare equal *)
Fixpoint insert_by {A} (le : A -> A -> bool) (x : A) (l : list A) : list A :=
  match l with
  | [] => [x]
  | y :: t => if le x y then x :: l else y :: insert_by le x t
  end.
Definition isort {A} (le : A -> A -> bool) (l : list A) : list A := fold_right (insert_by le) [] l.

Definition Qlt_bool (a b : Q) : bool := negb (Qle_bool b a).

Section Layout.
Variable n : nat.
Variable parents children : nat -> list nat.
Variable tops : list nat.

Definition elems : list nat := seq 0 n.
Definition lev (levels : list Z) (i : nat) : Z := nth i levels (-1)%Z.

Definition zmax_list (l : list Z) : option Z :=
  match l with [] => None | x :: t => Some (fold_left Z.max t x) end.

(*  while len(nodes_to_visit) > 0:
        node_id = nodes_to_visit.pop(0)
        levels[node_id] = max([levels[p] for p in parents[node_id]])+1 if node_id not in top_els else 0
        nodes_to_visit += [c for c in poset.children(node_id)
                           if levels[c] == -1 and all(levels[p] >= 0 for p in parents[c])]      *)
Fixpoint calc_loop (fuel : nat) (levels : list Z) (queue : list nat) : lres (list Z) :=
  match fuel with
  | O => LErr 99
  | S f =>
      match queue with
      | [] => LOk levels
      | v :: q =>
          let lv := if mem v tops then Some 0%Z
                    else match zmax_list (map (lev levels) (parents v)) with
                         | Some m => Some (m + 1)%Z | None => None end in
          match lv with
          | None => LErr 2
          | Some l =>
              let levels' := set_nth v l levels in
              let new := filter (fun c => Z.eqb (lev levels' c) (-1)
                                          && forallb (fun p => Z.leb 0 (lev levels' p)) (parents c))
                                (children v) in
              calc_loop f levels' (q ++ new)
          end
      end
  end.

(*  levels_dict = {i: [] for i in range(max(levels, default=-1) + 1)}
    for c_i in range(len(poset)): levels_dict[levels[c_i]].append(c_i)                          *)
Definition calc_levels : lres (list Z * list (list nat)) :=
  match calc_loop (S n) (repeat (-1)%Z n) tops with
  | LErr e => LErr e
  | LOk levels =>
      (* max(levels, default=-1) *)
      let m := match zmax_list levels with Some m => m | None => (-1)%Z end in
      if existsb (fun z => Z.ltb z 0) levels then LErr 1
      else LOk (levels,
                map (fun k => filter (fun i => Z.eqb (lev levels i) (Z.of_nat k)) elems)
                    (seq 0 (Z.to_nat (m + 1))))
  end.

(* ------------------------------------------------------------------ fcart_layout *)
Variable c : Q.
Variable dpth : Z.

Definition cnt_on (ld : list (list nat)) (k : Z) : nat := length (nth (Z.to_nat k) ld []).
Definition q_of_nat (k : nat) : Q := inject_Z (Z.of_nat k).

(*  mp = 0
    for par in poset.parents(elem):
        if c_levels[elem] - c_levels[par] <= dpth:
            mp += c ** (c_levels[elem] - c_levels[par] - 1) * id_on_lvl[par] / len(levels_dict[c_levels[par]])
    priority += [mp / len(poset.parents(elem))]                                                  *)
Definition priority (levels : list Z) (ld : list (list nat)) (ids : list nat) (e : nat) : Q :=
  let mp := fold_left (fun acc par =>
              let d := (lev levels e - lev levels par)%Z in
              if Z.leb d dpth
              then acc + Qpower c (d - 1) * q_of_nat (nth par ids O) / q_of_nat (cnt_on ld (lev levels par))
              else acc) (parents e) 0 in
  mp / q_of_nat (length (parents e)).

(* sorted(zip(priority, elems)): tuples compare by priority, then by element index *)
Definition ple (a b : Q * nat) : bool :=
  match Qcompare (fst a) (fst b) with Lt => true | Eq => Nat.leb (snd a) (snd b) | Gt => false end.

Definition assign_ids (ids : list nat) (es : list nat) : list nat :=
  fold_left (fun acc ie => set_nth (snd ie) (fst ie) acc) (combine (seq 0 (length es)) es) ids.

Definition fcart_ids (levels : list Z) (ld : list (list nat)) : list nat :=
  fold_left (fun ids k =>
               let es := nth k ld [] in
               let es' := if Nat.eqb k 0 then es
                          else map snd (isort ple (map (fun e => (priority levels ld ids e, e)) es)) in
               assign_ids ids es')
            (seq 0 (length ld)) (repeat O n).

(*  x = 2 * (id_on_lvl[i] + 1) / (len(levels_dict[c_levels[i]]) + 1) - 1
    y = -2 * c_levels[i] / len(levels_dict) + 1                                                  *)
Definition fcart_x (levels : list Z) (ld : list (list nat)) (ids : list nat) (i : nat) : Q :=
  2 * (q_of_nat (nth i ids O) + 1) / (q_of_nat (cnt_on ld (lev levels i)) + 1) - 1.
Definition fcart_y (levels : list Z) (ld : list (list nat)) (i : nat) : Q :=
  (-(2)) * inject_Z (lev levels i) / q_of_nat (length ld) + 1.

Definition fcart_layout : lres (list (Q * Q)) :=
  match calc_levels with
  | LErr e => LErr e
  | LOk (levels, ld) =>
      let ids := fcart_ids levels ld in
      LOk (map (fun i => (fcart_x levels ld ids i, fcart_y levels ld i)) elems)
  end.

End Layout.

(* ------------------------------------------------------------------ the poset's answers
   What POSet.parents / children / tops return for an order given by a boolean comparison on
   indices 0..n-1 (the cover relation; proved to be what POSet computes in C03/C09).  Ascending
   index order is the executable instance used by the correspondence. *)
Section OfOrder.
Variable n : nat.
Variable leq : nat -> nat -> bool.
Definition ltb_of (i j : nat) : bool := leq i j && negb (Nat.eqb i j).
Definition covers_of (lo hi : nat) : bool :=
  ltb_of lo hi && negb (existsb (fun k => ltb_of lo k && ltb_of k hi) (seq 0 n)).
Definition parents_of (v : nat) : list nat := filter (covers_of v) (seq 0 n).
Definition children_of (v : nat) : list nat := filter (fun x => covers_of x v) (seq 0 n).
Definition tops_of : list nat := filter (fun i => negb (existsb (ltb_of i) (seq 0 n))) (seq 0 n).
End OfOrder.

Definition rel_leq (rel : list (list bool)) (i j : nat) : bool := nth j (nth i rel []) false.

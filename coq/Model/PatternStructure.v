(* Model/PatternStructure.v — transcription of fcapy/mvcontext/pattern_structure.py
   (IntervalPS, IntervalNumpyPS, SetPS, AttributePS) as it is in /repo after the two
   IntervalNumpyPS repairs (extension_i translates positions back through base_objects_i;
   to_bin_attr_extents tests right bounds on the right end).  Definitions only (C13, C14).

   Numbers: interval end points are order-theoretic, carried in Z (the harness scales a dyadic
   grid to integers).  A Python set of symbols is a [list nat] read as a set (comparisons use
   [same_setb]); "sorted(set)" / np.unique is the sorted duplicate-free list.
   Descriptions: interval = option (Z*Z) (None = the empty description, covers nothing),
   set-valued = option (list nat) (None covers nothing), attribute-like = bool. *)
From FCA Require Export Base.ListSet.
From Coq Require Export ZArith.

Definition iv := (Z * Z)%type.
Definition sset := list nat.

(* ------------------------------------------------------------------ IntervalPS._transform_data *)
Inductive raw_iv := RNum (x : Z) | RSeq (l : list Z).

(* number -> (x,x); 1-sequence -> (x,x); 2-sequence -> itself; anything else: TypeError (None) *)
Definition transform_iv1 (x : raw_iv) : option iv :=
  match x with
  | RNum x => Some (x, x)
  | RSeq [x] => Some (x, x)
  | RSeq [a; b] => Some (a, b)
  | RSeq _ => None
  end.

Fixpoint transform_iv (l : list raw_iv) : option (list iv) :=
  match l with
  | [] => Some []
  | x :: t =>
      match transform_iv1 x with
      | None => None
      | Some v => match transform_iv t with None => None | Some r => Some (v :: r) end
      end
  end.

(* ------------------------------------------------------------------ IntervalPS *)
Definition iv_at (data : list iv) (g : nat) : iv := nth g data (0%Z, 0%Z).

(* min_ = v_min if v_min < min_ else min_ ; max_ = v_max if v_max > max_ else max_ *)
Definition ivl_step (data : list iv) (acc : iv) (g : nat) : iv :=
  let '(mn, mx) := acc in
  let '(vmin, vmax) := iv_at data g in
  ((if (vmin <? mn)%Z then vmin else mn), (if (vmax >? mx)%Z then vmax else mx)).

Definition ivl_intention (data : list iv) (A : list nat) : option iv :=
  match A with
  | [] => None
  | g0 :: rest => Some (fold_left (ivl_step data) rest (iv_at data g0))
  end.

Definition ivl_test (d v : iv) : bool := ((fst d <=? fst v)%Z && (snd v <=? snd d)%Z)%bool.

Definition ivl_extension (data : list iv) (d : option iv) (base : option (list nat)) : list nat :=
  match d with
  | None => []
  | Some d => filter (fun g => ivl_test d (iv_at data g)) (default (seq 0 (length data)) base)
  end.

(* sorted(set(l)) and np.unique(l): increasing, duplicate-free *)
Fixpoint zinsert_uniq (x : Z) (l : list Z) : list Z :=
  match l with
  | [] => [x]
  | y :: t => if (x <? y)%Z then x :: l else if (x =? y)%Z then l else y :: zinsert_uniq x t
  end.
Definition zsort_uniq (l : list Z) : list Z := fold_right zinsert_uniq [] l.

(* np.sort *)
Fixpoint zinsert (x : Z) (l : list Z) : list Z :=
  match l with
  | [] => [x]
  | y :: t => if (x <=? y)%Z then x :: l else y :: zinsert x t
  end.
Definition zsort (l : list Z) : list Z := fold_right zinsert [] l.

(* min(...) / max(...) / ndarray.min() / ndarray.max() of a non-empty collection *)
Definition zmin_of (l : list Z) : Z := match l with [] => 0%Z | x :: t => fold_left Z.min t x end.
Definition zmax_of (l : list Z) : Z := match l with [] => 0%Z | x :: t => fold_left Z.max t x end.

Definition ivl_bin_attrs (data : list iv) : list (option iv * list bool) :=
  let ul := zsort_uniq (map fst data) in
  let ur := zsort_uniq (map snd data) in
  let minl := zmin_of ul in
  let maxr := zmax_of ur in
  [(Some (minl, maxr), map (fun _ => true) data)]
  ++ map (fun lb => (Some (lb, maxr), map (fun v : iv => (lb <=? fst v)%Z) data)) (tl ul)
  ++ map (fun rb => (Some (minl, rb), map (fun v : iv => (snd v <=? rb)%Z) data)) (tl (rev ur))
  ++ [(None, map (fun _ => false) data)].

Definition ivl_n_bin_attrs (data : list iv) : nat :=
  length (zsort_uniq (map fst data)) + length (zsort_uniq (map snd data)).

(* ------------------------------------------------------------------ IntervalNumpyPS *)
(* data[idx, k] : fancy indexing of one column *)
Definition np_take (col : list Z) (idx : list nat) : list Z := map (fun g => nth g col 0%Z) idx.

Definition ivn_intention (data : list iv) (A : list nat) : option iv :=
  match A with
  | [] => None
  | _ => Some (zmin_of (np_take (map fst data) A), zmax_of (np_take (map snd data) A))
  end.

Definition ivn_extension (data : list iv) (d : option iv) (base : option (list nat)) : list nat :=
  match d with
  | None => []
  | Some (mn, mx) =>
      match base with
      | None =>
          (* flg = (min_ <= data[:,0]) & (data[:,1] <= max_);  flg.nonzero()[0] *)
          search1 (map2 andb (map (fun l => (mn <=? l)%Z) (map fst data))
                             (map (fun r => (r <=? mx)%Z) (map snd data)))
      | Some b =>
          (* base = asarray(base); flg = ... data[base, 0] ... data[base, 1]; base[flg] *)
          select b (map2 andb (map (fun l => (mn <=? l)%Z) (np_take (map fst data) b))
                              (map (fun r => (r <=? mx)%Z) (np_take (map snd data) b)))
      end
  end.

Definition ivn_bin_attrs (data : list iv) : list (option iv * list bool) :=
  let ul := zsort_uniq (map fst data) in        (* np.unique *)
  let ur := zsort_uniq (map snd data) in
  let minl := zmin_of ul in
  let maxr := zmax_of ur in
  [(Some (minl, maxr), map (fun _ => true) data)]
  ++ map (fun lb => (Some (lb, maxr), map (fun l => (lb <=? l)%Z) (map fst data))) (tl (zsort ul))
  ++ map (fun rb => (Some (minl, rb), map (fun r => (r <=? rb)%Z) (map snd data))) (tl (rev (zsort ur)))
  ++ [(None, map (fun _ => false) data)].

Definition ivn_n_bin_attrs (data : list iv) : nat :=
  length (zsort_uniq (map fst data)) + length (zsort_uniq (map snd data)).

(* ------------------------------------------------------------------ SetPS *)
Inductive raw_set := RAtom (x : nat) | RIter (l : list nat).
(* set(v) if iterable and not a string, else {v} *)
Definition transform_set (l : list raw_set) : list sset :=
  map (fun r => match r with RAtom x => [x] | RIter l => l end) l.

Definition set_at (data : list sset) (g : nat) : sset := nth g data [].
(* intent |= row *)
Definition set_union (a b : sset) : sset := a ++ filter (fun x => negb (mem x a)) b.
Definition set_intention (data : list sset) (A : list nat) : sset :=
  fold_left (fun acc g => set_union acc (set_at data g)) A [].
(* row & description == row *)
Definition set_test (d row : sset) : bool := same_setb (inter row d) row.
Definition set_extension (data : list sset) (d : option sset) (base : option (list nat)) : list nat :=
  match d with
  | None => []
  | Some s => filter (fun g => set_test s (set_at data g)) (default (seq 0 (length data)) base)
  end.

Fixpoint ninsert_uniq (x : nat) (l : list nat) : list nat :=
  match l with
  | [] => [x]
  | y :: t => if x <? y then x :: l else if x =? y then l else y :: ninsert_uniq x t
  end.
Definition nsort_uniq (l : list nat) : list nat := fold_right ninsert_uniq [] l.

(* itertools.combinations(l, k), in its order *)
Fixpoint combinations (l : list nat) (k : nat) : list (list nat) :=
  match l with
  | [] => match k with 0 => [[]] | S _ => [] end
  | x :: t =>
      match k with
      | 0 => [[]]
      | S k' => map (cons x) (combinations t k') ++ combinations t k
      end
  end.

Definition set_uniq_vals (data : list sset) : list nat := nsort_uniq (concat data).

Definition set_bin_attrs (data : list sset) : list (option sset * list bool) :=
  let u := set_uniq_vals data in
  flat_map (fun size => map (fun comb => (Some comb, map (fun row => set_test comb row) data))
                            (combinations u size))
           (rev (seq 0 (S (length u)))).

Definition set_n_bin_attrs (data : list sset) : nat := 2 ^ length (set_uniq_vals data).

(* ------------------------------------------------------------------ AttributePS *)
Definition attr_at (data : list bool) (g : nat) : bool := nth g data false.
Definition attr_intention (data : list bool) (A : list nat) : bool :=
  match A with [] => false | _ => forallb (attr_at data) A end.
Definition attr_extension (data : list bool) (d : bool) (base : option (list nat)) : list nat :=
  let b := default (seq 0 (length data)) base in
  if negb d then b else filter (attr_at data) b.
(* bool(v) for every cell *)
Definition transform_attr (l : list nat) : list bool := map (fun v => negb (Nat.eqb v 0)) l.
Definition attr_bin_attrs (data : list bool) : list (bool * list bool) := [(true, data)].
Definition attr_n_bin_attrs (data : list bool) : nat := 1.

(* ------------------------------------------------------------------ the four structures together *)
Inductive column :=
| CInterval (data : list iv)
| CIntervalNp (data : list iv)
| CSet (data : list sset)
| CAttr (data : list bool).

Inductive desc := DIv (d : option iv) | DSet (d : option sset) | DAttr (d : bool).

Definition col_len (c : column) : nat :=
  match c with
  | CInterval d | CIntervalNp d => length d
  | CSet d => length d
  | CAttr d => length d
  end.

Definition desc_matches (c : column) (d : desc) : bool :=
  match c, d with
  | CInterval _, DIv _ | CIntervalNp _, DIv _ | CSet _, DSet _ | CAttr _, DAttr _ => true
  | _, _ => false
  end.

Definition ps_intention (c : column) (A : list nat) : desc :=
  match c with
  | CInterval data => DIv (ivl_intention data A)
  | CIntervalNp data => DIv (ivn_intention data A)
  | CSet data => DSet (Some (set_intention data A))
  | CAttr data => DAttr (attr_intention data A)
  end.

(* a description of the wrong kind is outside the quantifier; the model answers [] there *)
Definition ps_extension (c : column) (d : desc) (base : option (list nat)) : list nat :=
  match c, d with
  | CInterval data, DIv d => ivl_extension data d base
  | CIntervalNp data, DIv d => ivn_extension data d base
  | CSet data, DSet d => set_extension data d base
  | CAttr data, DAttr d => attr_extension data d base
  | _, _ => []
  end.

Definition ps_bin_attrs (c : column) : list (desc * list bool) :=
  match c with
  | CInterval data => map (fun p => (DIv (fst p), snd p)) (ivl_bin_attrs data)
  | CIntervalNp data => map (fun p => (DIv (fst p), snd p)) (ivn_bin_attrs data)
  | CSet data => map (fun p => (DSet (fst p), snd p)) (set_bin_attrs data)
  | CAttr data => map (fun p => (DAttr (fst p), snd p)) (attr_bin_attrs data)
  end.

Definition ps_n_bin_attrs (c : column) : nat :=
  match c with
  | CInterval data => ivl_n_bin_attrs data
  | CIntervalNp data => ivn_n_bin_attrs data
  | CSet data => set_n_bin_attrs data
  | CAttr data => attr_n_bin_attrs data
  end.

(* what a column is built from: the cells handed to the constructor *)
Inductive raw_col := RawIv (l : list raw_iv) | RawSet (l : list raw_set) | RawAttr (l : list nat).

(* the pure-python twin of a column (identity except for the numpy engine) *)
Definition pure_twin (c : column) : column :=
  match c with CIntervalNp d => CInterval d | c => c end.

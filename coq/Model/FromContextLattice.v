(* Model/FromContextLattice.v — ConceptLattice.from_context end to end: the object a user gets.
   Composition of
     - the algorithm choice and the miners (Model/ConceptConstruction.v),
     - for 'CbO' / 'Sofia': sort_concepts, then ConceptLattice(concepts=..., subconcepts_dict=...)
       whose constructor ignores subconcepts_dict, so that children / parents / descendants /
       ancestors / top / bottom are computed lazily from __le__ by POSet's cache-free routines
       (Model/LatticeOrder.v),
     - for the default / 'Lindig': lindig_algorithm's index / children_dict / parents_dict
       bookkeeping (transcribed here: the work-set loop of Model/ConceptConstruction.v extended
       with the two dictionaries), ConceptLattice(concepts, children_dict=...) i.e. the closure
       of the cover dictionary and its transposes, then the re-sorting of from_context
       ([lindig_resorted] of Model/LatticeOrder.v).
   Definitions only. *)
From FCA Require Export Model.ConceptConstruction Model.LatticeOrder.

Definition pair_c (c : fconcept) : concept := (c_ext_i c, c_int_i c).

(* what is observable of the returned lattice *)
Record lattice_view := mkView {
  lv_concepts : list concept;
  lv_children : nat -> list nat;
  lv_parents : nat -> list nat;
  lv_descendants : nat -> list nat;
  lv_ancestors : nat -> list nat;
  lv_top : option nat;
  lv_bottom : option nat
}.

Inductive lattice_res := LView (v : lattice_view) | LOutOfFuel | LPruned | LBroken (r : cres).

(* ------------------------------------------------------------ 'CbO' / 'Sofia' path *)
Definition lazy_view (concepts : list fconcept) : lattice_view :=
  let cs := sort_concepts (map pair_c concepts) in
  mkView cs (children_nocache cs) (parents_nocache cs) (descendants_nocache cs) (ancestors_nocache cs)
         (top_index cs) (bottom_index cs).

(* ------------------------------------------------------------ lindig_algorithm with its dictionaries *)

(* index[x]: concepts are hashed / compared by extent_i *)
Fixpoint index_in_from (k : nat) (concepts : list fconcept) (x : fconcept) : nat :=
  match concepts with
  | [] => k
  | c :: r => if nat_list_eqb (c_ext_i c) (c_ext_i x) then k else index_in_from (S k) r x
  end.
Definition index_in (concepts : list fconcept) (x : fconcept) : nat := index_in_from 0 concepts x.

(* for x in dsups:
       if x not in index: queue.add(x); index[x] = len(concepts); concepts.append(x)
       x_id = index[x]
       children_dict.setdefault(x_id, []).append(c_id)
       parents_dict.setdefault(c_id, []).append(x_id) *)
Fixpoint absorb_d (c_id : nat) (dsups : list fconcept) (concepts queue : list fconcept)
         (ch pa : assoc) : list fconcept * list fconcept * assoc * assoc :=
  match dsups with
  | [] => (concepts, queue, ch, pa)
  | x :: rest =>
      let '(concepts1, queue1) :=
        if known concepts x then (concepts, queue) else (concepts ++ [x], queue ++ [x]) in
      let x_id := index_in concepts1 x in
      absorb_d c_id rest concepts1 queue1
               (upd x_id (get ch x_id ++ [c_id]) ch) (upd c_id (get pa c_id ++ [x_id]) pa)
  end.

(* while len(queue) != 0: c = queue.pop(); c_id = index[c]; dsups = direct_super_concepts(c)
       if len(dsups) == 0: parents_dict[c_id] = []; continue
       for x in dsups: ... *)
Fixpoint lindig_loop_d (fuel : nat) (sd : lindig_side) (ord : list nat -> list nat)
         (pick : list fconcept -> nat) (concepts queue : list fconcept) (ch pa : assoc)
  : option (list fconcept * assoc * assoc) :=
  match queue with
  | [] => Some (concepts, ch, pa)
  | q0 :: _ =>
      match fuel with
      | 0 => None
      | S fuel' =>
          let k := pick queue in
          let c := nth k queue q0 in
          let queue' := remove_nth k queue in
          let c_id := index_in concepts c in
          match direct_super_concepts sd ord c with
          | [] => lindig_loop_d fuel' sd ord pick concepts queue' ch (upd c_id [] pa)
          | dsups =>
              let '(concepts', queue'', ch', pa') := absorb_d c_id dsups concepts queue' ch pa in
              lindig_loop_d fuel' sd ord pick concepts' queue'' ch' pa'
          end
      end
  end.

(* concepts = [c]; children_dict = {0: []}; parents_dict = {}; ... ;
   if not iterate_extents: swap the fields of every concept and the two dictionaries;
   ConceptLattice(concepts, children_dict=children_dict) *)
Definition lindig_dicts (K : context) (iterate_extents : bool)
           (ord : list nat -> list nat) (pick : list fconcept -> nat)
  : option (list fconcept * assoc) :=
  let sd := side_of K iterate_extents in
  let M := seq 0 (s_w sd) in
  let c := side_concept sd (s_ext sd M) M in
  match lindig_loop_d (2 ^ s_n sd + 1) sd ord pick [c] [c] [(0, [])] [] with
  | None => None
  | Some (cs, ch, pa) =>
      Some (if iterate_extents then (cs, ch) else (map swap_concept cs, pa))
  end.

(* from_context's Lindig branch: the lattice built from (concepts, children_dict), re-sorted.
   [cord] is the order in which the constructor iterates the transposed cover sets, [k] bounds
   the closure loop by 2^k rounds *)
Definition lindig_view (K : context) (iterate_extents : bool)
           (ord : list nat -> list nat) (pick : list fconcept -> nat)
           (cord : list nat -> list nat) (k : nat) : lattice_res :=
  match lindig_dicts K iterate_extents ord pick with
  | None => LOutOfFuel
  | Some (concepts, dict) =>
      match lindig_resorted cord k (map pair_c concepts) dict with
      | LOk l => LView (mkView (ll_concepts l) (get (ll_children l)) (get (ll_parents l))
                               (get (ll_descendants l)) (get (ll_ancestors l))
                               (ll_top l) (ll_bottom l))
      | LErr COutOfFuel => LOutOfFuel
      | LErr r => LBroken r
      end
  end.

(* ------------------------------------------------------------ ConceptLattice.from_context
   algo: 0 = None (default: Lindig), 1 = 'CbO', 2 = 'Lindig', 3 = 'Sofia' *)
Definition from_context_lattice_with (K : context) (algo : nat) (iterate_extents : option bool)
           (lmax : nat) (ord : list nat -> list nat) (pick : list fconcept -> nat)
           (cord : list nat -> list nat) (k : nat) : lattice_res :=
  match algo with
  | 0 => lindig_view K (lindig_dir K None) ord pick cord k
  | 1 => LView (lazy_view (close_by_one K))
  | 2 => lindig_view K (lindig_dir K iterate_extents) ord pick cord k
  | _ => match sofia K lmax with Some l => LView (lazy_view l) | None => LPruned end
  end.

(* executable instance: list order for every set iteration, first element of the work set *)
Definition from_context_lattice (K : context) (algo : nat) (iterate_extents : option bool)
           (lmax : nat) (k : nat) : lattice_res :=
  from_context_lattice_with K algo iterate_extents lmax (fun l => l) (fun _ => 0) (fun l => l) k.

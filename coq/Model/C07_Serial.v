(* Model/C07_Serial.v — transcription of the serialisation code of FCApy.  Definitions only.

   TEXT LEVEL  (the library formats / parses the text itself; strings are lists of code points)
     fcapy/context/converters.py : write_cxt / read_cxt, write_csv / read_csv
   VALUE LEVEL (the library builds a Python value and hands it to json / pandas; the model
     builds the same value as a [jv]; json.dumps/loads, pandas and file I/O are outside the model)
     converters.py : write_json / read_json, to_pandas / from_pandas
     mvcontext.py  : MVContext.write_json / read_json with the per-structure codecs of
                     pattern_structure.py (IntervalPS, IntervalNumpyPS, SetPS, AttributePS)
     formal_concept.py  : FormalConcept.to_dict / from_dict (write_json / read_json = the same value)
     pattern_concept.py : PatternConcept.to_dict(json_ready=True) / from_dict(json_ready=True)
     concept_lattice.py : ConceptLattice.write_json / read_json

   [JDoc v] is a JSON *string* whose content is json.dumps(v): the pattern-structure codecs nest
   JSON text inside JSON.  A float is an [fnum]: the finite value z / 1024, or +inf / -inf (Python's
   json writes the latter as Infinity / -Infinity and reads them back); floats are never computed with. *)
From FCA Require Export Base.C07_Str.
From Coq Require Export ZArith.

(* FBits b : any other float, named by its IEEE-754 bit pattern (only ever compared for identity) *)
Inductive fnum := FFin (z : Z) | FPosInf | FNegInf | FBits (b : Z).
Definition fnum_eqb (a b : fnum) : bool :=
  match a, b with
  | FFin x, FFin y => Z.eqb x y
  | FBits x, FBits y => Z.eqb x y
  | FPosInf, FPosInf | FNegInf, FNegInf => true
  | _, _ => false
  end.

Inductive jv :=
| JNull | JBool (b : bool) | JInt (z : Z) | JFlt (x : fnum) | JStr (s : str)
| JArr (l : list jv) | JObj (l : list (str * jv)) | JDoc (v : jv).

Fixpoint jv_eqb (a b : jv) : bool :=
  match a, b with
  | JNull, JNull => true
  | JBool x, JBool y => Bool.eqb x y
  | JInt x, JInt y => Z.eqb x y
  | JFlt x, JFlt y => fnum_eqb x y
  | JStr x, JStr y => str_eqb x y
  | JArr x, JArr y =>
      (fix go (x y : list jv) : bool :=
         match x, y with
         | [], [] => true
         | u :: x', v :: y' => jv_eqb u v && go x' y'
         | _, _ => false
         end) x y
  | JObj x, JObj y =>
      (fix go (x y : list (str * jv)) : bool :=
         match x, y with
         | [], [] => true
         | (k, u) :: x', (k', v) :: y' => str_eqb k k' && jv_eqb u v && go x' y'
         | _, _ => false
         end) x y
  | JDoc x, JDoc y => jv_eqb x y
  | _, _ => false
  end.

Inductive serr := EValue | EAssert | EKey | EType | EOther.
Inductive sres (A : Type) := SOk (a : A) | SErr (e : serr).
Arguments SOk {A} a. Arguments SErr {A} e.

Definition sbind {A B} (r : sres A) (f : A -> sres B) : sres B :=
  match r with SOk a => f a | SErr e => SErr e end.

Fixpoint smap {A B} (f : A -> sres B) (l : list A) : sres (list B) :=
  match l with
  | [] => SOk []
  | x :: l' => sbind (f x) (fun y => sbind (smap f l') (fun ys => SOk (y :: ys)))
  end.

Notation "'do' x <- a ; b" := (sbind a (fun x => b)) (at level 200, x name, a at level 100, b at level 200).

(* ---- Python dict as an association list: d[k] (first entry; keys are unique in every dict the
   code builds or json.loads returns), d.get(k), k in d, d[k] = v (replace in place or append) *)
Fixpoint dget (k : str) (d : list (str * jv)) : option jv :=
  match d with
  | [] => None
  | (k', v) :: d' => if str_eqb k k' then Some v else dget k d'
  end.
Fixpoint dset (k : str) (v : jv) (d : list (str * jv)) : list (str * jv) :=
  match d with
  | [] => [(k, v)]
  | (k', v') :: d' => if str_eqb k k' then (k, v) :: d' else (k', v') :: dset k v d'
  end.
Definition dkey (k : str) (d : list (str * jv)) : sres jv :=
  match dget k d with Some v => SOk v | None => SErr EKey end.

Definition as_obj (v : jv) : sres (list (str * jv)) := match v with JObj d => SOk d | _ => SErr EType end.
Definition as_arr (v : jv) : sres (list jv) := match v with JArr l => SOk l | _ => SErr EType end.
Definition as_str (v : jv) : sres str := match v with JStr s => SOk s | _ => SErr EType end.
Definition as_nat (v : jv) : sres nat :=
  match v with JInt z => if Z.leb 0 z then SOk (Z.to_nat z) else SErr EOther | _ => SErr EType end.

Definition s_Description : str := [68; 101; 115; 99; 114; 105; 112; 116; 105; 111; 110]%N.
Definition s_ObjNames : str := [79; 98; 106; 78; 97; 109; 101; 115]%N.
Definition s_Params : str := [80; 97; 114; 97; 109; 115]%N.
Definition s_AttrNames : str := [65; 116; 116; 114; 78; 97; 109; 101; 115]%N.
Definition s_PTypes : str := [80; 84; 121; 112; 101; 115]%N.
Definition s_Count : str := [67; 111; 117; 110; 116]%N.
Definition s_Data : str := [68; 97; 116; 97]%N.
Definition s_Inds : str := [73; 110; 100; 115]%N.
Definition s_PValues : str := [80; 86; 97; 108; 117; 101; 115]%N.
Definition s_Ext : str := [69; 120; 116]%N.
Definition s_Int : str := [73; 110; 116]%N.
Definition s_Names : str := [78; 97; 109; 101; 115]%N.
Definition s_Supp : str := [83; 117; 112; 112]%N.
Definition s_Context_Hash : str := [67; 111; 110; 116; 101; 120; 116; 95; 72; 97; 115; 104]%N.
Definition s_Monotone : str := [77; 111; 110; 111; 116; 111; 110; 101]%N.
Definition s_Top : str := [84; 111; 112]%N.
Definition s_Bottom : str := [66; 111; 116; 116; 111; 109]%N.
Definition s_NodesCount : str := [78; 111; 100; 101; 115; 67; 111; 117; 110; 116]%N.
Definition s_ArcsCount : str := [65; 114; 99; 115; 67; 111; 117; 110; 116]%N.
Definition s_Nodes : str := [78; 111; 100; 101; 115]%N.
Definition s_Arcs : str := [65; 114; 99; 115]%N.
Definition s_S : str := [83]%N.
Definition s_D : str := [68]%N.
Definition s_IntervalPS : str := [73; 110; 116; 101; 114; 118; 97; 108; 80; 83]%N.
Definition s_SetPS : str := [83; 101; 116; 80; 83]%N.
Definition s_AttributePS : str := [65; 116; 116; 114; 105; 98; 117; 116; 101; 80; 83]%N.
Definition s_IntervalNumpyPS : str := [73; 110; 116; 101; 114; 118; 97; 108; 78; 117; 109; 112; 121; 80; 83]%N.
Definition s_BOTTOM : str := [66; 79; 84; 84; 79; 77]%N.
Definition s_True : str := [84; 114; 117; 101]%N.
Definition s_False : str := [70; 97; 108; 115; 101]%N.

(* ================================================================== formal contexts *)

Record sctx := mk_sctx {
  sc_onames : list str; sc_anames : list str; sc_desc : option str; sc_table : list (list bool)
}.

Definition t_width (t : list (list bool)) : nat := match t with [] => 0 | r :: _ => length r end.

(* FormalContext(data, object_names, attribute_names, description): rows of one length
   (UnmatchedLengthError, a ValueError), then the two length assertions of the name setters *)
Definition make_ctx (data : list (list bool)) (onames anames : list str) (desc : option str)
  : sres sctx :=
  if negb (forallb (fun r => Nat.eqb (length r) (t_width data)) data) then SErr EValue
  else if negb (Nat.eqb (length onames) (length data)) then SErr EAssert
  else if negb (Nat.eqb (length anames) (t_width data)) then SErr EAssert
  else SOk (mk_sctx onames anames desc data).

(* ---------------------------------------------------------------- cxt (text) *)

Definition ch_X : N := 88%N.
Definition ch_dot : N := 46%N.
Definition row_str (r : list bool) : str := map (fun b : bool => if b then ch_X else ch_dot) r.

Definition write_cxt (K : sctx) : str :=
  [66; 10; 10]%N ++ nat_str (length (sc_table K)) ++ [NL] ++ nat_str (t_width (sc_table K)) ++ [NL]
  ++ [NL]
  ++ join_char NL (sc_onames K) ++ [NL]
  ++ join_char NL (sc_anames K) ++ [NL]
  ++ join_char NL (map row_str (sc_table K)) ++ [NL].

Definition read_cxt (s : str) : sres sctx :=
  match split_nn s with
  | [_; ns; data] =>
      match map parse_nat (split_char NL ns) with
      | [Some n_objs; Some n_attrs] =>
          let lines := split_char NL (strip data) in
          let obj_names := firstn n_objs lines in
          let rest := skipn n_objs lines in
          let attr_names := firstn n_attrs rest in
          let rows := skipn n_attrs rest in
          make_ctx (map (map (fun c => N.eqb c ch_X)) rows) obj_names attr_names None
      | _ => SErr EValue
      end
  | _ => SErr EValue
  end.

(* ---------------------------------------------------------------- csv (text), one-character sep *)

Definition word (wt wf : str) (b : bool) : str := if b then wt else wf.

Fixpoint zip_lines (sep : N) (wt wf : str) (onames : list str) (t : list (list bool)) : str :=
  match onames, t with
  | g :: onames', r :: t' =>
      g ++ sep :: join_char sep (map (word wt wf) r) ++ [NL] ++ zip_lines sep wt wf onames' t'
  | _, _ => []
  end.

Definition write_csv (sep : N) (wt wf : str) (K : sctx) : str :=
  sep :: join_char sep (sc_anames K) ++ [NL] ++ zip_lines sep wt wf (sc_onames K) (sc_table K).

Fixpoint parse_vals (wt wf : str) (vals : list str) : sres (list bool) :=
  match vals with
  | [] => SOk []
  | v :: vs =>
      if str_eqb v wt || str_eqb v wf
      then sbind (parse_vals wt wf vs) (fun bs => SOk (str_eqb v wt :: bs))
      else SErr EValue
  end.

Fixpoint parse_lines (sep : N) (wt wf : str) (lines : list str) : sres (list str * list (list bool)) :=
  match lines with
  | [] => SOk ([], [])
  | line :: ls =>
      let parts := split_char sep line in
      sbind (parse_vals wt wf (tl parts)) (fun row =>
      sbind (parse_lines sep wt wf ls) (fun r =>
      SOk (hd [] parts :: fst r, row :: snd r)))
  end.

Definition read_csv (sep : N) (wt wf : str) (s : str) : sres sctx :=
  match split_char NL (strip_c NL s) with     (* f.read().strip('\n').split('\n') *)
  | [] => SErr EOther
  | header :: body =>
      let attr_names := tl (split_char sep header) in
      sbind (parse_lines sep wt wf body) (fun r => make_ctx (snd r) (fst r) attr_names None)
  end.

(* ---------------------------------------------------------------- json (value) *)

Definition true_inds (r : list bool) : list nat := filter (fun j => nth j r false) (seq 0 (length r)).
Definition jnat (n : nat) : jv := JInt (Z.of_nat n).
Definition jstrs (l : list str) : jv := JArr (map JStr l).

Definition row_obj (w : nat) (r : list bool) : jv :=
  JObj [(s_Count, jnat (length (filter (fun b : bool => b) r)));
        (s_Inds, JArr (map jnat (filter (fun j => nth j r false) (seq 0 w))))].

Definition meta_obj (desc : option str) (onames anames : list str) (extra : list (str * jv)) : jv :=
  JObj ((match desc with Some d => [(s_Description, JStr d)] | None => [] end)
        ++ [(s_ObjNames, jstrs onames); (s_Params, JObj ((s_AttrNames, jstrs anames) :: extra))]).

Definition write_ctx_json (K : sctx) : jv :=
  JArr [meta_obj (sc_desc K) (sc_onames K) (sc_anames K) [];
        JObj [(s_Count, jnat (length (sc_table K)));
              (s_Data, JArr (map (row_obj (t_width (sc_table K))) (sc_table K)))]].

Definition opt_strs (v : option jv) : sres (option (list str)) :=
  match v with
  | None => SOk None
  | Some a => sbind (as_arr a) (fun l => sbind (smap as_str l) (fun ss => SOk (Some ss)))
  end.
Definition opt_str (v : option jv) : sres (option str) :=
  match v with
  | None | Some JNull => SOk None
  | Some a => sbind (as_str a) (fun s => SOk (Some s))
  end.

(* names None -> the default names '0', '1', ... *)
Definition default_names (n : nat) : list str := map nat_str (seq 0 n).

Definition mem_nat (x : nat) (l : list nat) : bool := existsb (Nat.eqb x) l.

Definition read_ctx_json (v : jv) : sres sctx :=
  match v with
  | JArr (meta :: info :: _) =>
      sbind (as_obj meta) (fun m =>
      sbind (as_obj info) (fun oi =>
      sbind (opt_strs (dget s_ObjNames m)) (fun onames =>
      sbind (match dget s_Params m with
             | None => SOk None
             | Some p => sbind (as_obj p) (fun pd => opt_strs (dget s_AttrNames pd))
             end) (fun anames =>
      sbind (opt_str (dget s_Description m)) (fun desc =>
      match anames with
      | None => SErr EType           (* len(None) *)
      | Some an =>
          sbind (dkey s_Data oi) (fun d =>
          sbind (as_arr d) (fun lines =>
          sbind (smap (fun line => sbind (as_obj line) (fun ld => sbind (dkey s_Inds ld) (fun i =>
                       sbind (as_arr i) (smap as_nat)))) lines) (fun inds =>
          let data := map (fun is_ => map (fun j => mem_nat j is_) (seq 0 (length an))) inds in
          make_ctx data (match onames with Some o => o | None => default_names (length data) end)
                   an desc)))
      end)))))
  | _ => SErr EType
  end.

(* ---------------------------------------------------------------- pandas (value):
   DataFrame(values, columns, index)  <->  (index, columns, values) *)
Record frame := mk_frame { fr_index : list str; fr_columns : list str; fr_values : list (list bool) }.
Definition to_pandas (K : sctx) : frame := mk_frame (sc_onames K) (sc_anames K) (sc_table K).
Definition from_pandas (f : frame) : sres sctx := make_ctx (fr_values f) (fr_index f) (fr_columns f) None.

(* ================================================================== many-valued contexts *)

Inductive ptype := PInterval | PSet | PAttr | PIntervalNp.
Definition ptype_eqb (a b : ptype) : bool :=
  match a, b with
  | PInterval, PInterval | PSet, PSet | PAttr, PAttr | PIntervalNp, PIntervalNp => true
  | _, _ => false
  end.
Definition ptype_name (p : ptype) : str :=
  match p with
  | PInterval => s_IntervalPS | PSet => s_SetPS | PAttr => s_AttributePS | PIntervalNp => s_IntervalNumpyPS
  end.
Definition ptype_of_name (s : str) : sres ptype :=
  if str_eqb s s_IntervalPS then SOk PInterval else if str_eqb s s_SetPS then SOk PSet
  else if str_eqb s s_AttributePS then SOk PAttr else if str_eqb s s_IntervalNumpyPS then SOk PIntervalNp
  else SErr EType.     (* pattern_types[v] with pattern_types = None *)

(* a description / a data cell: interval (end points on the 1/1024 grid or infinite, of either sign
   on either side: (inf, inf) is the value +inf), set of integers (kept as a
   strictly increasing list), boolean, or None (only as an interval description) *)
Inductive cellv := CNone | CInterval (lo hi : fnum) | CSet (l : list Z) | CBool (b : bool).

Definition cellv_eqb (a b : cellv) : bool :=
  match a, b with
  | CNone, CNone => true
  | CInterval a1 a2, CInterval b1 b2 => fnum_eqb a1 b1 && fnum_eqb a2 b2
  | CSet x, CSet y =>
      (fix go (x y : list Z) : bool :=
         match x, y with
         | [], [] => true
         | u :: x', v :: y' => Z.eqb u v && go x' y'
         | _, _ => false
         end) x y
  | CBool x, CBool y => Bool.eqb x y
  | _, _ => false
  end.

(* set(list) on integers, as its canonical strictly increasing list *)
Fixpoint zinsert (x : Z) (l : list Z) : list Z :=
  match l with
  | [] => [x]
  | y :: l' => if Z.ltb x y then x :: l else if Z.eqb x y then l else y :: zinsert x l'
  end.
Definition zset (l : list Z) : list Z := fold_right zinsert [] l.

(* ps.to_json(x) *)
Definition cell_to_json (p : ptype) (c : cellv) : sres jv :=
  match p, c with
  | (PInterval | PIntervalNp), CInterval lo hi => SOk (JDoc (JArr [JFlt lo; JFlt hi]))
  | (PInterval | PIntervalNp), CNone => SOk (JDoc JNull)
  | PSet, CSet l => SOk (JDoc (JArr (map JInt l)))            (* sorted(x) *)
  | PAttr, CBool b => SOk (JDoc (JBool b))
  | _, _ => SErr EType
  end.

Definition as_int (v : jv) : sres Z := match v with JInt z => SOk z | _ => SErr EType end.

(* ps.from_json(x_json) *)
Definition cell_from_json (p : ptype) (v : jv) : sres cellv :=
  match v with
  | JDoc d =>
      match p with
      | PInterval | PIntervalNp =>
          match d with
          | JNull => SOk CNone
          | JArr [JFlt lo; JFlt hi] => SOk (CInterval lo hi)
          | _ => SErr EOther
          end
      | PSet => sbind (as_arr d) (fun l => sbind (smap as_int l) (fun zs => SOk (CSet (zset zs))))
      | PAttr => match d with JBool b => SOk (CBool b) | _ => SErr EOther end
      end
  | _ => SErr EType
  end.

Record smv := mk_smv {
  sm_onames : list str; sm_anames : list str; sm_desc : option str;
  sm_ptypes : list ptype; sm_rows : list (list cellv)
}.

(* what the constructors of the pattern structures accept as a data cell *)
Definition cell_ok (p : ptype) (c : cellv) : bool :=
  match p, c with
  | (PInterval | PIntervalNp), CInterval _ _ => true
  | PSet, CSet _ => true
  | PAttr, CBool _ => true
  | _, _ => false
  end.

Fixpoint smap2 {A B C} (f : A -> B -> sres C) (a : list A) (b : list B) : sres (list C) :=
  match a, b with
  | x :: a', y :: b' => sbind (f x y) (fun z => sbind (smap2 f a' b') (fun zs => SOk (z :: zs)))
  | _, _ => SOk []
  end.

Definition write_mv_json (K : smv) : sres jv :=
  sbind (smap (fun row => sbind (smap2 cell_to_json (sm_ptypes K) row)
                                (fun vs => SOk (JObj [(s_PValues, JArr vs)]))) (sm_rows K)) (fun data =>
  SOk (JArr [meta_obj (sm_desc K) (sm_onames K) (sm_anames K)
                      [(s_PTypes, jstrs (map ptype_name (sm_ptypes K)))];
             JObj [(s_Count, jnat (length (sm_rows K))); (s_Data, JArr data)]])).

(* {k: ... for k, v in zip(attribute_names, ptype_names)} then [pattern_types[m] for m in names] *)
Fixpoint sdict_last {A} (k : str) (d : list (str * A)) (acc : option A) : option A :=
  match d with
  | [] => acc
  | (k', v) :: d' => sdict_last k d' (if str_eqb k k' then Some v else acc)
  end.

Definition make_mv (data : list (list cellv)) (ptypes : list ptype) (onames anames : list str)
           (desc : option str) : sres smv :=
  if negb (Nat.eqb (length onames) (length data)) then SErr EAssert
  else if negb (Nat.eqb (length anames) (match data with [] => 0 | r :: _ => length r end)) then SErr EAssert
  else if negb (forallb (fun row => Nat.eqb (length row) (length ptypes)
                                    && forallb (fun pc => cell_ok (fst pc) (snd pc)) (combine ptypes row)) data)
       then SErr EType
  else SOk (mk_smv onames anames desc ptypes data).

Definition read_mv_json (v : jv) : sres smv :=
  match v with
  | JArr [meta; info] =>
      sbind (as_obj meta) (fun m =>
      sbind (as_obj info) (fun oi =>
      sbind (opt_str (dget s_Description m)) (fun desc =>
      sbind (opt_strs (dget s_ObjNames m)) (fun onames =>
      match dget s_Params m with
      | None => SErr EType       (* zip(None, None) *)
      | Some p =>
          sbind (as_obj p) (fun pd =>
          sbind (opt_strs (dget s_AttrNames pd)) (fun anames =>
          sbind (dkey s_PTypes pd) (fun pt =>
          sbind (as_arr pt) (fun ptl =>
          sbind (smap as_str ptl) (fun ptnames =>
          match anames with
          | None => SErr EType
          | Some an =>
              sbind (smap ptype_of_name ptnames) (fun pts =>
              let pdict := combine an pts in      (* zip truncates *)
              sbind (smap (fun a => match sdict_last a pdict None with
                                    | Some p => SOk p | None => SErr EKey end) an) (fun plist =>
              sbind (dkey s_Data oi) (fun d =>
              sbind (as_arr d) (fun lines =>
              sbind (smap (fun line => sbind (as_obj line) (fun ld => sbind (dkey s_PValues ld) (fun pv =>
                           sbind (as_arr pv) (fun vs => smap2 cell_from_json plist vs)))) lines) (fun data =>
              make_mv data plist (match onames with Some o => o | None => default_names (length data) end)
                      an desc)))))
          end)))))
      end))))
  | _ => SErr EValue     (* metadata, objects_info = file_data *)
  end.

(* ================================================================== concepts *)

(* FormalConcept as a value: indexes, names, measures (a dict), context hash, monotonicity *)
Record fcv := mk_fcv {
  fv_extent_i : list nat; fv_extent : list str; fv_intent_i : list nat; fv_intent : list str;
  fv_measures : list (str * jv); fv_hash : option Z; fv_mono : bool
}.

(* {g: i for i, g in enumerate(order)} : the last occurrence wins; KeyError when absent *)
Fixpoint sindex_last_from (k : nat) (order : list str) (x : str) (acc : option nat) : option nat :=
  match order with
  | [] => acc
  | y :: ys => sindex_last_from (S k) ys x (if str_eqb x y then Some k else acc)
  end.
Definition sindex (order : list str) (x : str) : sres nat :=
  match sindex_last_from 0 order x None with Some i => SOk i | None => SErr EKey end.

(* sorted(...) : stable insertion sort on a natural key *)
Fixpoint insert_key {A} (k : nat) (x : A) (l : list (nat * A)) : list (nat * A) :=
  match l with
  | [] => [(k, x)]
  | (k', y) :: l' => if Nat.ltb k k' then (k, x) :: l else (k', y) :: insert_key k x l'
  end.
Definition sort_keyed {A} (l : list (nat * A)) : list (nat * A) :=
  fold_right (fun kx acc => insert_key (fst kx) (snd kx) acc) [] l.

Definition sorted_names (order names : list str) : sres (list str) :=
  sbind (smap (fun g => sbind (sindex order g) (fun i => SOk (i, g))) names)
        (fun keyed => SOk (map snd (sort_keyed keyed))).
Definition sorted_nats (l : list nat) : list nat := map fst (sort_keyed (map (fun i => (i, tt)) l)).

Definition jhash (h : option Z) : jv := match h with Some z => JInt z | None => JNull end.

(* FormalConcept.to_dict(objs_order, attrs_order) *)
Definition fc_to_dict (objs_order attrs_order : list str) (c : fcv) : sres jv :=
  sbind (sorted_names objs_order (fv_extent c)) (fun enames =>
  sbind (sorted_names attrs_order (fv_intent c)) (fun inames =>
  let base :=
      [(s_Ext, JObj [(s_Inds, JArr (map jnat (sorted_nats (fv_extent_i c))));
                     (s_Names, jstrs enames); (s_Count, jnat (length (fv_extent_i c)))]);
       (s_Int, JObj [(s_Inds, JArr (map jnat (sorted_nats (fv_intent_i c))));
                     (s_Names, jstrs inames); (s_Count, jnat (length (fv_intent_i c)))]);
       (s_Supp, jnat (length (fv_extent_i c)))] in
  let with_meas := fold_left (fun d kv => dset (fst kv) (snd kv) d) (fv_measures c) base in
  SOk (JObj (dset s_Monotone (JBool (fv_mono c)) (dset s_Context_Hash (jhash (fv_hash c)) with_meas))))).

Definition names_or_empty (d : list (str * jv)) : sres (list str) :=
  match dget s_Names d with
  | None => SOk []
  | Some a => sbind (as_arr a) (smap as_str)
  end.

(* FormalConcept.from_dict(data); the legacy "BOTTOM" placeholder (negative index) is not modelled *)
Definition fc_from_dict (v : jv) : sres fcv :=
  do d <- as_obj v;
  do iv <- dkey s_Int d;
  match iv with
  | JStr _ => SErr EOther
  | _ =>
      do ev <- dkey s_Ext d;
      do ed <- as_obj ev;
      do idd <- as_obj iv;
      do ei <- dkey s_Inds ed;
      do eil <- as_arr ei;
      do ext_i <- smap as_nat eil;
      do ext <- names_or_empty ed;
      do ii <- dkey s_Inds idd;
      do iil <- as_arr ii;
      do int_i <- smap as_nat iil;
      do int_ <- names_or_empty idd;
      do h <- match dget s_Context_Hash d with
              | None | Some JNull => SOk None
              | Some (JInt z) => SOk (Some z)
              | Some _ => SErr EOther end;
      do mono <- match dget s_Monotone d with
                 | None => SOk false
                 | Some (JBool b) => SOk b
                 | Some _ => SErr EOther end;
      SOk (mk_fcv ext_i ext int_i int_
                  (filter (fun kv => negb (str_eqb (fst kv) s_Int || str_eqb (fst kv) s_Ext)) d) h mono)
  end.

(* PatternConcept as a value; the intent is one description per pattern structure *)
Record pcv := mk_pcv {
  pv_extent_i : list nat; pv_extent : list str; pv_intent : list cellv;
  pv_ptypes : list ptype; pv_anames : list str;
  pv_measures : list (str * jv); pv_hash : option Z
}.

(* what intention_i of each structure can return *)
Definition desc_ok (p : ptype) (c : cellv) : bool :=
  match p, c with
  | (PInterval | PIntervalNp), (CInterval _ _ | CNone) => true
  | PSet, CSet _ => true
  | PAttr, CBool _ => true
  | _, _ => false
  end.

(* PatternConcept.to_dict(json_ready=True) *)
Definition pc_to_dict (c : pcv) : sres jv :=
  sbind (smap2 cell_to_json (pv_ptypes c) (pv_intent c)) (fun docs =>
  let idx_keys := map nat_str (seq 0 (length docs)) in      (* int keys -> json object keys *)
  let base :=
      [(s_Ext, JObj [(s_Inds, JArr (map jnat (pv_extent_i c))); (s_Names, jstrs (pv_extent c));
                     (s_Count, jnat (length (pv_extent_i c)))]);
       (s_Int, JObj [(s_Inds, JObj (combine idx_keys docs));
                     (s_Names, JObj (combine (pv_anames c) docs));
                     (s_Count, jnat (length docs));
                     (s_PTypes, JObj (combine (pv_anames c) (map (fun p => JStr (ptype_name p)) (pv_ptypes c))));
                     (s_AttrNames, jstrs (pv_anames c))]);
       (s_Supp, jnat (length (pv_extent_i c)))] in
  let with_meas := fold_left (fun d kv => dset (fst kv) (snd kv) d) (pv_measures c) base in
  SOk (JObj (dset s_Context_Hash (jhash (pv_hash c)) with_meas))).

(* PatternConcept.from_dict(data, json_ready=True) *)
Definition read_hash (d : list (str * jv)) : sres (option Z) :=
  match dget s_Context_Hash d with
  | None | Some JNull => SOk None
  | Some (JInt z) => SOk (Some z)
  | Some _ => SErr EOther
  end.

Definition nat_list_of (v : jv) : sres (list nat) := do l <- as_arr v; smap as_nat l.

(* {int(k): PTypes[AttrNames[int(k)]].from_json(v)} *)
Definition decode_by_idx (ptypes : list (str * ptype)) (anames : list str) (kv : str * jv)
  : sres (nat * (ptype * cellv)) :=
  match parse_nat (fst kv) with
  | None => SErr EValue
  | Some k =>
      match nth_error anames k with
      | None => SErr EOther
      | Some a =>
          match sdict_last a ptypes None with
          | None => SErr EKey
          | Some p => do c <- cell_from_json p (snd kv); SOk (k, (p, c))
          end
      end
  end.

(* {k: PTypes[k].from_json(v)} *)
Definition decode_by_name (ptypes : list (str * ptype)) (kv : str * jv) : sres (str * cellv) :=
  match sdict_last (fst kv) ptypes None with
  | None => SErr EKey
  | Some p => do c <- cell_from_json p (snd kv); SOk (fst kv, c)
  end.

Definition not_int_ext (kv : str * jv) : bool := negb (str_eqb (fst kv) s_Int || str_eqb (fst kv) s_Ext).

Definition pc_from_dict (v : jv) : sres pcv :=
  do d <- as_obj v;
  do iv <- dkey s_Int d;
  match iv with
  | JStr _ => SErr EOther
  | _ =>
      do ev <- dkey s_Ext d;
      do ed <- as_obj ev;
      do idd <- as_obj iv;
      do pt <- dkey s_PTypes idd;
      do ptd <- as_obj pt;
      do ptypes <- smap (fun kv => do n <- as_str (snd kv); do p <- ptype_of_name n; SOk (fst kv, p)) ptd;
      do an <- dkey s_AttrNames idd;
      do anl <- as_arr an;
      do anames <- smap as_str anl;
      do ii <- dkey s_Inds idd;
      do iid <- as_obj ii;
      do by_idx <- smap (decode_by_idx ptypes anames) iid;
      do ni <- dkey s_Names idd;
      do nid <- as_obj ni;
      do by_name <- smap (decode_by_name ptypes) nid;
      do ei <- dkey s_Inds ed;
      do ext_i <- nat_list_of ei;
      do ext <- names_or_empty ed;
      do h <- read_hash d;
      (* the constructor's assertions; the value keeps intent_i in key order 0..n-1 *)
      if negb (Nat.eqb (length ext_i) (length ext)) then SErr EAssert
      else if negb (Nat.eqb (length by_idx) (length by_name)) then SErr EAssert
      else if negb (forallb (fun ik => Nat.eqb (fst ik) (fst (snd ik)))
                            (combine (seq 0 (length by_idx)) by_idx)) then SErr EOther
      else SOk (mk_pcv ext_i ext (map (fun x => snd (snd x)) by_idx) (map snd ptypes) anames
                       (filter not_int_ext d) h)
  end.

(* ================================================================== lattices *)

Inductive conceptv := FC (c : fcv) | PC (c : pcv).

Record latv := mk_latv {
  lv_concepts : list conceptv;
  lv_children : list (nat * list nat);    (* children_dict: concept index -> lower covers (a set) *)
  lv_top : nat; lv_bottom : nat
}.

Definition arcs_of (children : list (nat * list nat)) : list jv :=
  flat_map (fun sd => map (fun d => JObj [(s_S, jnat (fst sd)); (s_D, jnat d)]) (snd sd)) children.

(* ConceptLattice.write_json(objs_order, attrs_order); the class of the first concept decides *)
Definition write_lattice_json (objs_order attrs_order : list str) (L : latv) : sres jv :=
  if Nat.ltb (length (lv_concepts L)) 3 then SErr EAssert
  else
    let arcs := arcs_of (lv_children L) in
    sbind (match lv_concepts L with
           | PC _ :: _ => smap (fun c => match c with PC p => pc_to_dict p | FC _ => SErr EType end)
                               (lv_concepts L)
           | _ => smap (fun c => match c with FC f => fc_to_dict objs_order attrs_order f
                                            | PC _ => SErr EType end) (lv_concepts L)
           end) (fun nodes =>
    SOk (JArr [JObj [(s_Top, JArr [jnat (lv_top L)]); (s_Bottom, JArr [jnat (lv_bottom L)]);
                     (s_NodesCount, jnat (length (lv_concepts L))); (s_ArcsCount, jnat (length arcs))];
               JObj [(s_Nodes, JArr nodes)];
               JObj [(s_Arcs, JArr arcs)]])).

(* ConceptLattice.read_json: the concepts are decoded; Top/Bottom/Arcs are read (a malformed file
   fails) but ConceptLattice.__init__ ignores subconcepts_dict / top_concept_i / bottom_concept_i,
   so the object holds ONLY the concepts and derives order, covers, top and bottom from them *)
Definition read_lattice_json (v : jv) : sres (list conceptv) :=
  match v with
  | JArr [meta; nodes; arcs] =>
      sbind (as_obj meta) (fun md =>
      sbind (dkey s_Top md) (fun t => sbind (as_arr t) (fun tl_ =>
      sbind (dkey s_Bottom md) (fun b => sbind (as_arr b) (fun bl =>
      match tl_, bl with
      | _ :: _, _ :: _ =>
          sbind (as_obj nodes) (fun nd => sbind (dkey s_Nodes nd) (fun ns => sbind (as_arr ns) (fun nl =>
          match nl with
          | [] => SErr EOther        (* nodes_data['Nodes'][0] *)
          | n0 :: _ =>
              sbind (as_obj n0) (fun n0d => sbind (dkey s_Int n0d) (fun n0i =>
              let is_pattern := match n0i with
                                | JObj idd => match dget s_PTypes idd with Some _ => true | None => false end
                                | _ => false     (* 'PTypes' in "BOTTOM" *)
                                end in
              sbind (smap (fun c => if is_pattern then sbind (pc_from_dict c) (fun p => SOk (PC p))
                                    else sbind (fc_from_dict c) (fun f => SOk (FC f))) nl) (fun cs =>
              sbind (as_obj arcs) (fun ad => sbind (dkey s_Arcs ad) (fun al => sbind (as_arr al) (fun all =>
              sbind (smap (fun a => sbind (as_obj a) (fun d_ => sbind (dkey s_S d_) (fun _ => dkey s_D d_))) all)
                    (fun _ => SOk cs)))))))
          end)))
      | _, _ => SErr EOther
      end)))))
  | _ => SErr EValue
  end.

(* Model/PosetLattice.v — transcription of fcapy/poset/lattice.py: UpperSemiLattice,
   LowerSemiLattice, Lattice (MRO: Upper -> Lower -> POSet) on top of the POSet machine of
   Model/Poset.v.  Definitions only.
   State = the POSet state + the class + the cached indexes _cache_top / _cache_bottom.
   The classes override the properties tops / bottoms ([self.top] / [self.bottom]); POSet.add
   reads them through trace_element, which is why [add_with] takes them as a parameter. *)
From FCA Require Export Model.Poset.

Inductive sl_kind := KUpper | KLower | KLattice.
Definition has_ext (k : sl_kind) (up : bool) : bool :=
  match k, up with
  | KUpper, true | KLower, false | KLattice, _ => true
  | _, _ => false
  end.

Section LatticeModel.
  Variable E : Type.
  Variable leq : E -> E -> bool.
  Variable eqb : E -> E -> bool.

  Notation state := (state E).
  Notation op := (op E).
  Notation out := (out E).

  Record sl_state := mk_sl {
    ps : state;
    kind : sl_kind;
    c_top : option nat;       (* _cache_top, only assigned when use_cache *)
    c_bot : option nat
  }.
  Definition with_ps (sl : sl_state) (s : state) := mk_sl s (kind sl) (c_top sl) (c_bot sl).
  Definition cached_ext (sl : sl_state) (up : bool) := if up then c_top sl else c_bot sl.
  Definition set_ext (sl : sl_state) (up : bool) (v : option nat) :=
    if up then mk_sl (ps sl) (kind sl) v (c_bot sl) else mk_sl (ps sl) (kind sl) (c_top sl) v.

  Inductive sl_op := SP (o : op) | SExt (up : bool).     (* SExt true = .top, SExt false = .bottom *)

  (* the property top / bottom: cached index, or super().tops[0] on an uncached instance *)
  Definition sl_ext (sl : sl_state) (up : bool) (s : state) : state * option nat :=
    if use_cache s then
      match cached_ext sl up with
      | Some t => (s, Some t)
      | None => let '(s', l) := extremes_q E leq up s in (s', hd_error l)
      end
    else let '(s', l) := extremes_q E leq up s in (s', hd_error l).

  (* self.tops / self.bottoms as seen by any code running on this object *)
  Definition sl_starts (sl : sl_state) (up : bool) (s : state) : state * list nat :=
    if has_ext (kind sl) up then
      let '(s', t) := sl_ext sl up s in
      (s', match t with Some t => [t] | None => [] end)
    else extremes_q E leq up s.

  (* constructors.  Lattice: LowerSemiLattice's check (bottoms) runs before UpperSemiLattice's *)
  Definition sl_check (up : bool) (r : option sl_state) : option sl_state :=
    match r with
    | None => None
    | Some sl =>
        if has_ext (kind sl) up then
          let '(s', l) := extremes_q E leq up (ps sl) in
          match l with
          | [t] => Some (set_ext (with_ps sl s') up (if use_cache s' then Some t else None))
          | _ => None
          end
        else Some sl
    end.

  Definition sl_make (k : sl_kind) (l : list E) (uc : bool) (cd : option cache) : option sl_state :=
    match l with
    | [] => None                              (* ValueError: zero elements *)
    | _ =>
        let s0 := match cd with
                  | Some cd => if uc then init_cd E l cd else Some (init E l false)
                  | None => Some (init E l uc) end in
        match s0 with
        | None => None
        | Some s0 => sl_check true (sl_check false (Some (mk_sl s0 k None None)))
        end
    end.

  Definition el_at (s : state) (i : nat) : option E := nth_error (els s) i.

  (* comparability test of add against one extreme element: (is_smaller, is_bigger) *)
  Definition cmp_ext (sl : sl_state) (up : bool) (e : E) : option (bool * bool) :=
    if has_ext (kind sl) up then
      match snd (sl_ext sl up (ps sl)) with
      | Some t => match el_at (ps sl) t with
                  | Some x => Some (leq e x, leq x e)
                  | None => None end
      | None => None
      end
    else Some (true, true).

  Definition sl_add (sl : sl_state) (e : E) (fill_up : bool) : sl_state * out :=
    match cmp_ext sl true e, cmp_ext sl false e with
    | Some (small_t, big_t), Some (small_b, big_b) =>
        if negb (small_t || big_t) then (sl, OErr EValue)
        else if negb (small_b || big_b) then (sl, OErr EValue)
        else
          let '(s', r) := add_with E leq eqb (sl_starts sl) (ps sl) e fill_up in
          match r with
          | OErr k => (sl, OErr k)
          | _ =>
              let idx := index_of E eqb e (els s') in
              let sl1 := with_ps sl s' in
              let sl2 := if use_cache s' && has_ext (kind sl) false && small_b
                         then set_ext sl1 false idx else sl1 in
              let sl3 := if use_cache s' && has_ext (kind sl) true && big_t
                         then set_ext sl2 true idx else sl2 in
              (sl3, r)
          end
    | _, _ => (sl, OErr EIndex)
    end.

  Definition dec_opt (key : nat) (o : option nat) : option nat :=
    match o with Some t => Some (if Nat.ltb key t then t - 1 else t) | None => None end.

  Definition sl_del (sl : sl_state) (key : nat) : sl_state * out :=
    let is_ext := fun up => has_ext (kind sl) up &&
                            match snd (sl_ext sl up (ps sl)) with
                            | Some t => Nat.eqb t key | None => false end in
    if is_ext true then (sl, OErr EKey)
    else if is_ext false then (sl, OErr EKey)
    else
      let '(s', r) := delitem E leq (ps sl) key in
      match r with
      | OErr k => (sl, OErr k)
      | _ =>
          let sl1 := with_ps sl s' in
          (if use_cache s' then mk_sl s' (kind sl) (dec_opt key (c_top sl)) (dec_opt key (c_bot sl))
           else sl1, r)
      end.

  Definition sl_remove (sl : sl_state) (e : E) : sl_state * out :=
    let is_ext := fun up => has_ext (kind sl) up &&
                            match snd (sl_ext sl up (ps sl)) with
                            | Some t => match el_at (ps sl) t with Some x => eqb x e | None => false end
                            | None => false end in
    if is_ext true then (sl, OErr EValue)
    else if is_ext false then (sl, OErr EValue)
    else match index_of E eqb e (els (ps sl)) with
         | None => (sl, OErr EKey)
         | Some i => sl_del sl i
         end.

  Definition sl_step (sl : sl_state) (o : sl_op) : sl_state * out :=
    match o with
    | SExt up =>
        if has_ext (kind sl) up then
          match snd (sl_ext sl up (ps sl)) with
          | Some t => (sl, ONat t)
          | None => (sl, OErr EIndex)
          end
        else (sl, OErr 5)
    | SP (QExtremes up) =>
        let '(s', l) := sl_starts sl up (ps sl) in (with_ps sl s', OList l)
    | SP (OAdd e f) => sl_add sl e f
    | SP (ODel i) => sl_del sl i
    | SP (ORemove e) => sl_remove sl e
    | SP q => let '(s', r) := step E leq eqb (ps sl) q in (with_ps sl s', r)
    end.

  Fixpoint sl_run (sl : sl_state) (ops : list sl_op) : sl_state * list out :=
    match ops with
    | [] => (sl, [])
    | o :: ops' => let '(s1, r) := sl_step sl o in
                   let '(s2, rs) := sl_run s1 ops' in (s2, r :: rs)
    end.

  (* ---- the cache-free meaning: a list with a unique maximal / minimal element ---- *)
  Definition spec_ext (l : list E) (up : bool) : option nat := hd_error (extremes E leq l up).

  Definition sl_spec_ok (k : sl_kind) (l : list E) : bool :=
    negb (is_nil l) &&
    forallb (fun up => negb (has_ext k up) || Nat.eqb (length (extremes E leq l up)) 1) [true; false].

  Definition comparable_ext (k : sl_kind) (l : list E) (e : E) (up : bool) : bool :=
    negb (has_ext k up) ||
    match spec_ext l up with
    | Some t => match nth_error l t with Some x => leq e x || leq x e | None => false end
    | None => false
    end.

  Definition is_spec_ext (k : sl_kind) (l : list E) (i : nat) : bool :=
    existsb (fun up => has_ext k up && match spec_ext l up with Some t => Nat.eqb t i | None => false end)
            [true; false].

  Definition sl_spec_step (k : sl_kind) (l : list E) (uc : bool) (o : sl_op) : list E * out :=
    match o with
    | SExt up => if has_ext k up then
                   (l, match spec_ext l up with Some t => ONat t | None => OErr EIndex end)
                 else (l, OErr 5)
    | SP (OAdd e f) =>
        if comparable_ext k l e true && comparable_ext k l e false
        then spec_step E leq eqb l uc (OAdd e f) else (l, OErr EValue)
    | SP (ODel i) => if is_spec_ext k l i then (l, OErr EKey) else spec_step E leq eqb l uc (ODel i)
    | SP (ORemove e) =>
        match index_of E eqb e l with
        | Some i => if is_spec_ext k l i then (l, OErr EValue) else spec_step E leq eqb l uc (ORemove e)
        | None => (l, OErr EKey)
        end
    | SP q => spec_step E leq eqb l uc q
    end.

  Fixpoint sl_spec_run (k : sl_kind) (l : list E) (uc : bool) (ops : list sl_op) : list E * list out :=
    match ops with
    | [] => (l, [])
    | o :: ops' => let '(l1, r) := sl_spec_step k l uc o in
                   let '(l2, rs) := sl_spec_run k l1 uc ops' in (l2, r :: rs)
    end.
End LatticeModel.

Arguments mk_sl {E}. Arguments ps {E}. Arguments kind {E}. Arguments c_top {E}. Arguments c_bot {E}.
Arguments SP {E}. Arguments SExt {E}.

(* Model/MVContext.v — transcription of fcapy/mvcontext/mvcontext.py (extension_i, intention_i,
   the by-name wrappers, to_bin_attr_extents, binarize, n_bin_attrs), of
   PatternConcept.from_objects (fcapy/lattice/pattern_concept.py), of the many-valued branch of
   close_by_one and of close_by_one_objectwise (fcapy/algorithms/concept_construction.py), and of
   the duplicate-extent failure of ConceptLattice.from_context's ordering step.
   Definitions only (C14).

   * numpy/array plumbing of extension_i is reduced to lists: the candidate set is narrowed
     through the structures in the order of the description dict, with the early exit on an
     empty candidate set.
   * a description dict {ps_index: description} is an association list in dict order.
   * the DFS of close_by_one_objectwise (explicit LIFO stack, children pushed for g = n-1 ..
     last and popped in ascending g) is written as the equivalent pre-order recursion, as in
     Model/ConceptConstruction.v; [extents_i_found] is never added to in the code, so its
     membership test is vacuous.
   * the binarising path runs close_by_one_objectwise_fbarray (Model/ConceptConstruction.v) on
     the binarised formal context (or on its transpose, reading the intents).
   * names are opaque ids. *)
From FCA Require Export Model.ConceptConstruction Model.LatticeOrder Model.PatternStructure.

Record mvctx := mkMV {
  mv_n : nat;                                  (* _n_objects = len(data) *)
  mv_cols : list PatternStructure.column;      (* pattern_structures *)
  mv_onames : list nat;
  mv_pnames : list nat;                        (* ps.name of every structure (pattern_types order) *)
  mv_anames : list nat                         (* attribute_names (the order of the data columns); no
                                                  modelled function reads it since the D62 repair *)
}.

Definition ddict := list (nat * desc).
Definition mv_col (K : mvctx) (i : nat) : PatternStructure.column := nth i (mv_cols K) (CAttr []).

(* for ps_i, description in descriptions_i.items():
       extent_i = ps.extension_i(description, base_objects_i=extent_i)
       if len(extent_i) == 0: break *)
Fixpoint mv_narrow (K : mvctx) (ds : ddict) (ext : list nat) : list nat :=
  match ds with
  | [] => ext
  | (i, d) :: rest =>
      match ps_extension (mv_col K i) d (Some ext) with
      | [] => []
      | e => mv_narrow K rest e
      end
  end.

Definition mv_extension_i (K : mvctx) (ds : ddict) (base : option (list nat)) : list nat :=
  match base with
  | Some [] => []
  | _ => mv_narrow K ds (default (seq 0 (mv_n K)) base)
  end.

(* {ps_i: ps.intention_i(object_indexes) for ps_i, ps in enumerate(pattern_structures)} *)
Definition mv_intention_i (K : mvctx) (A : list nat) : ddict :=
  combine (seq 0 (length (mv_cols K))) (map (fun c => ps_intention c A) (mv_cols K)).

(* ---- by-name wrappers.  {name: idx}: the LAST occurrence wins; a missing name is KeyError *)
Fixpoint names_to_ddict (pnames : list nat) (ds : list (nat * desc)) : result ddict :=
  match ds with
  | [] => Ok []
  | (nm, d) :: rest =>
      match name_index pnames nm with
      | None => ErrKey nm
      | Some i => match names_to_ddict pnames rest with
                  | Ok l => Ok ((i, d) :: l)
                  | ErrKey e => ErrKey e
                  end
      end
  end.

(* {g_i for g_i, g in enumerate(object_names) if g in base_objects}: a set; modelled ascending,
   compared as a set; names the context does not have are ignored *)
Definition objs_named (onames : list nat) (names : list nat) : list nat :=
  filter (fun g => mem (nth g onames 0) names) (seq 0 (length onames)).

Definition mv_extension (K : mvctx) (ds : list (nat * desc)) (base : option (list nat))
  : result (list nat) :=
  match names_to_ddict (mv_pnames K) ds with
  | ErrKey e => ErrKey e
  | Ok dsi =>
      let base_i := match base with None => None | Some b => Some (objs_named (mv_onames K) b) end in
      Ok (map (fun g => nth g (mv_onames K) 0) (mv_extension_i K dsi base_i))
  end.

Definition mv_intention (K : mvctx) (objs : list nat) : list (nat * desc) :=
  map (fun p => (nth (fst p) (mv_pnames K) 0, snd p))
      (mv_intention_i K (objs_named (mv_onames K) objs)).

(* ---- binarisation *)
Definition mv_bin_attrs (K : mvctx) : list (desc * list bool) := flat_map ps_bin_attrs (mv_cols K).

(* FormalContext(list(attr_extents)).T : one row per object *)
Definition mv_binarize (K : mvctx) : table :=
  map (fun g => map (fun p => nth g (snd p) false) (mv_bin_attrs K)) (seq 0 (mv_n K)).

Definition mv_n_bin_attrs (K : mvctx) : nat := list_sum (map ps_n_bin_attrs (mv_cols K)).

(* ---- PatternConcept.from_objects (objects by index) *)
Record pconcept := mkPC { pc_ext : list nat; pc_int : ddict }.

Definition pc_from_objects (K : mvctx) (objs : list nat) (is_extent : bool) : pconcept :=
  let intent := mv_intention_i K objs in
  mkPC (if is_extent then objs else mv_extension_i K intent None) intent.

(* ---- close_by_one_objectwise on a many-valued context *)
Fixpoint mv_cbo_children (K : mvctx) (E : list nat) (cands : list nat) {struct cands}
  : list pconcept :=
  match cands with
  | [] => []
  | g :: rest =>
      (if mem g E then [] else
         let comb := E ++ [g] in
         let intent := mv_intention_i K comb in
         let lex := filter (fun h => negb (mem h comb)) (seq 0 g) in
         match mv_extension_i K intent (Some lex) with
         | _ :: _ => []
         | [] =>
             let base := filter (fun i => negb (mem i comb)) (seq (S g) (mv_n K - S g)) in
             let E' := comb ++ mv_extension_i K intent (Some base) in
             pc_from_objects K E' true :: mv_cbo_children K E' rest
         end)
      ++ mv_cbo_children K E rest
  end.

Definition mv_cbo_objectwise (K : mvctx) : list pconcept :=
  let intent := mv_intention_i K [] in
  let E0 := mv_extension_i K intent (Some (seq 0 (mv_n K))) in
  pc_from_objects K E0 true :: mv_cbo_children K E0 (seq 0 (mv_n K)).

(* ---- close_by_one, many-valued branch *)
Definition mv_bin_context (K : mvctx) : context :=
  mkCtx BBitarray (mv_binarize K) (mv_onames K) (seq 0 (length (mv_bin_attrs K))).

(* the extents the binarising path iterates over *)
Definition mv_bin_extents (K : mvctx) : list (list nat) :=
  let Kb := mv_bin_context K in
  if mv_n K <=? mv_n_bin_attrs K
  then map c_ext_i (cbo_fbarray Kb)
  else map c_int_i (cbo_fbarray (ctx_T Kb)).

Definition mv_close_by_one (K : mvctx) (n_projections_to_binarize : nat) : list pconcept :=
  if n_projections_to_binarize <? mv_n_bin_attrs K
  then mv_cbo_objectwise K
  else map (fun e => pc_from_objects K e false) (mv_bin_extents K).

(* ---- ConceptLattice.from_context(MVContext): sort_concepts is a permutation; the ordering
   step (order_extents_comparison) indexes the concepts by extent and raises KeyError as soon
   as two concepts have the same extent *)
Fixpoint has_dup_extent (l : list pconcept) : bool :=
  match l with
  | [] => false
  | c :: rest =>
      existsb (fun c' => same_setb (pc_ext c) (pc_ext c')) rest || has_dup_extent rest
  end.

Definition mv_from_context (K : mvctx) (thr : nat) : option (list pconcept) :=   (* None = KeyError *)
  let cs := mv_close_by_one K thr in
  if has_dup_extent cs then None else Some cs.

(* ---- the closure of an object set, and the guards of the two recorded findings (C14) *)
Definition mv_cl (K : mvctx) (A : list nat) : list nat := mv_extension_i K (mv_intention_i K A) None.

Definition is_nil {A} (l : list A) : bool := match l with [] => true | _ => false end.

(* D16: the object-wise path is sound and complete when the conventional closure of the empty
   set lies inside every object's closure *)
Definition guard_D16 (K : mvctx) : bool :=
  forallb (fun g => subsetb (mv_cl K []) (mv_cl K [g])) (seq 0 (mv_n K)).

(* the bottom extent of the binarised context: the objects having every binary attribute *)
Definition bin_bottom (K : mvctx) : list nat :=
  filter (fun g => forallb (fun x => x) (nth g (mv_binarize K) [])) (seq 0 (mv_n K)).

(* D17: the binarising path yields no duplicate unless the binarised bottom is empty while the
   conventional closure of the empty set is not *)
Definition guard_D17 (K : mvctx) : bool :=
  negb (is_nil (bin_bottom K) && negb (is_nil (mv_cl K []))).

(* ---- the by-name views.  The structures are kept in the order of the pattern_types dict,
   attribute_names in the order of the data columns; the two orders may differ. *)

(* PatternConcept.from_objects, all four views (objects by index):
     intent_i = K.intention_i(objects_i)
     intent   = {K.pattern_structures[m_i].name: v for m_i, v in intent_i.items()}   (after the D62 repair)
     objects  = [K.object_names[i] for i in objects_i] *)
Record pconcept_views := mkPCV {
  pv_ext_i : list nat; pv_ext : list nat; pv_int_i : ddict; pv_int : list (nat * desc)
}.
Definition pc_from_objects_views (K : mvctx) (objs : list nat) (is_extent : bool) : pconcept_views :=
  let c := pc_from_objects K objs is_extent in
  mkPCV (pc_ext c) (map (fun g => nth g (mv_onames K) 0) (pc_ext c)) (pc_int c)
        (map (fun p => (nth (fst p) (mv_pnames K) 0, snd p)) (pc_int c)).

(* MVContext.describe_pattern(data: {name: description}):
     pattern_names = [ps.name ...]; data_i = {pattern_names.index(k): v}   (first occurrence, ValueError)
     one text per entry, empty texts (AttributePS with False) dropped.
   The model returns the (structure name, description) pairs that are printed; None = ValueError *)
Fixpoint describe_entries (K : mvctx) (data : list (nat * desc)) : option (list (nat * desc)) :=
  match data with
  | [] => Some []
  | (nm, d) :: rest =>
      match first_index_from 0 (mv_pnames K) nm, describe_entries K rest with
      | Some i, Some l =>
          Some (match mv_col K i, d with
                | CAttr _, DAttr false => l
                | _, _ => (nth i (mv_pnames K) 0, d) :: l
                end)
      | _, _ => None
      end
  end.

(* ---- the order of the lattice object: PatternConcept.__le__ reads the extents exactly as
   AbstractConcept.__le__ does (support shortcut, then membership), and ConceptLattice is the
   POSet of Model/LatticeOrder.v over the concept list *)
Definition pc_concept (p : pconcept) : concept := (pc_ext p, []).
Definition mv_children (L : list pconcept) (i : nat) : list nat := children_nocache (map pc_concept L) i.
Definition mv_parents (L : list pconcept) (i : nat) : list nat := parents_nocache (map pc_concept L) i.
Definition mv_leq (L : list pconcept) (i j : nat) : bool := leq_i (map pc_concept L) i j.

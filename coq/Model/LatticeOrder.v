(* Model/LatticeOrder.v — transcription of the order-related code of a ConceptLattice:
     fcapy/lattice/formal_concept.py   AbstractConcept.__le__
     fcapy/poset/poset.py              _descendants_nocache/_ancestors_nocache, _children_nocache/
                                       _parents_nocache, tops/bottoms, meet/join (= infimum/supremum),
                                       _transpose_hierarchy, _closed_relation_cache_by_direct_cache,
                                       the children_dict constructor path
     fcapy/poset/lattice.py            top / bottom (single extreme element, cached index)
     fcapy/lattice/concept_lattice.py  sort_concepts, the re-sorting of the Lindig lattice in
                                       from_context, _get_chains, get_concept_new_extent_i / new_intent_i
   Definitions only.  A lattice is given by its list of concepts (extent_i, intent_i) in the
   implementation's listing order; elements are addressed by index.  Python sets are lists in
   ascending index order (filters of [seq 0 n]); wherever the code iterates a set the visiting
   order is a parameter or irrelevant (see Lemmas/C03*.v). *)
From Coq Require Import Decimal.
From FCA Require Export Base.ListSet Base.Order.

Definition concept := (list nat * list nat)%type.
Definition cdefault : concept := ([], []).
Definition cnth (cs : list concept) (i : nat) : concept := nth i cs cdefault.
Definition extent (cs : list concept) (i : nat) : list nat := fst (cnth cs i).
Definition intent (cs : list concept) (i : nat) : list nat := snd (cnth cs i).
Definition support (c : concept) : nat := length (fst c).
Definition idxs (cs : list concept) : list nat := seq 0 (length cs).

(* AbstractConcept.__le__ (antimonotone concepts of one context):
     if lesser.support > greater.support: return False
     for g_i in lesser.extent_i: if g_i not in greater_ext_i: return False
     return True *)
Definition concept_le (c d : concept) : bool :=
  if Nat.ltb (support d) (support c) then false
  else forallb (fun g => mem g (fst d)) (fst c).

Definition leq_i (cs : list concept) (i j : nat) : bool := concept_le (cnth cs i) (cnth cs j).

(* ------------------------------------------------------------------ POSet, cache-free answers *)
(* {i for i in range(len(self)) if self.leq_elements(i, e) and i != e} *)
Definition descendants_nocache (cs : list concept) (e : nat) : list nat :=
  strict_down Nat.eqb (leq_i cs) (idxs cs) e.
(* {i for i in range(len(self)) if self.leq_elements(e, i) and i != e} *)
Definition ancestors_nocache (cs : list concept) (e : nat) : list nat :=
  strict_up Nat.eqb (leq_i cs) (idxs cs) e.

(* subelement_idxs = self.descendants(e)
   for el_idx in list(subelement_idxs):
       if el_idx in subelement_idxs: subelement_idxs -= self.descendants(el_idx)
   [down] is self.descendants (a cache look-up or the cache-free computation, same answers) *)
Definition children_of (down : nat -> list nat) (e : nat) : list nat :=
  sub_loop Nat.eqb down (down e) (down e).
Definition children_nocache (cs : list concept) (e : nat) : list nat :=
  children_of (descendants_nocache cs) e.
Definition parents_nocache (cs : list concept) (e : nat) : list nat :=
  children_of (ancestors_nocache cs) e.

(* tops = [el_i for el_i in range(len(self)) if len(self.ancestors(el_i)) == 0] *)
Definition extremes_of (n : nat) (up : nat -> list nat) : list nat :=
  filter (fun i => match up i with [] => true | _ => false end) (seq 0 n).
(* UpperSemiLattice.__init__: exactly one top, else ValueError; its index is cached *)
Definition single (l : list nat) : option nat := match l with [k] => Some k | _ => None end.
Definition top_index (cs : list concept) : option nat :=
  single (extremes_of (length cs) (ancestors_nocache cs)).
Definition bottom_index (cs : list concept) : option nat :=
  single (extremes_of (length cs) (descendants_nocache cs)).

(* POSet.meet (join is the same code with ancestors):
     if element_indexes is None or empty: element_indexes = all
     meet_indexes = descendants(S[0]) | {S[0]}
     for el_idx in S[1:]: meet_indexes &= descendants(el_idx) | {el_idx}
     for el_idx in copy(meet_indexes): meet_indexes -= descendants(el_idx)
     return the single element, or None *)
Definition with_self (n : nat) (down : nat -> list nat) (s : nat) : list nat :=
  let d := down s in filter (fun y => Nat.eqb y s || mem y d) (seq 0 n).
Definition bound_candidates (n : nat) (down : nat -> list nat) (S : list nat) : list nat :=
  match S with
  | [] => []
  | s0 :: rest => fold_left (fun acc s => interE Nat.eqb acc (with_self n down s)) rest (with_self n down s0)
  end.
Definition meet_of (n : nat) (down : nat -> list nat) (S : list nat) : option nat :=
  let S' := match S with [] => seq 0 n | _ => S end in
  let cand := bound_candidates n down S' in
  single (extremes_loop Nat.eqb down cand cand).
Definition meet_nocache (cs : list concept) (S : list nat) : option nat :=
  meet_of (length cs) (descendants_nocache cs) S.
Definition join_nocache (cs : list concept) (S : list nat) : option nat :=
  meet_of (length cs) (ancestors_nocache cs) S.

(* ------------------------------------------------------------------ sort_concepts
   sorted(concepts, key=lambda c: (-len(c.extent_i), ','.join([str(g) for g in c.extent_i])))
   strings are lists of code points; Python compares them lexicographically *)
Fixpoint uint_codes (d : Decimal.uint) : list nat :=
  match d with
  | Decimal.Nil => []
  | Decimal.D0 d => 48 :: uint_codes d | Decimal.D1 d => 49 :: uint_codes d
  | Decimal.D2 d => 50 :: uint_codes d | Decimal.D3 d => 51 :: uint_codes d
  | Decimal.D4 d => 52 :: uint_codes d | Decimal.D5 d => 53 :: uint_codes d
  | Decimal.D6 d => 54 :: uint_codes d | Decimal.D7 d => 55 :: uint_codes d
  | Decimal.D8 d => 56 :: uint_codes d | Decimal.D9 d => 57 :: uint_codes d
  end.
Definition str_of_nat (n : nat) : list nat := uint_codes (Nat.to_uint n).
Fixpoint join_comma (l : list (list nat)) : list nat :=
  match l with
  | [] => []
  | [s] => s
  | s :: l' => s ++ 44 :: join_comma l'
  end.
Definition sort_key (c : concept) : list nat := join_comma (map str_of_nat (fst c)).
Fixpoint str_leb (a b : list nat) : bool :=
  match a, b with
  | [], _ => true
  | _ :: _, [] => false
  | x :: a', y :: b' => if Nat.ltb x y then true else if Nat.ltb y x then false else str_leb a' b'
  end.
(* key c <= key d for the tuple key (-support, string) *)
Definition key_le (c d : concept) : bool :=
  if Nat.ltb (support d) (support c) then true
  else if Nat.ltb (support c) (support d) then false
  else str_leb (sort_key c) (sort_key d).
(* stable insertion sort (sorted() is stable) *)
Fixpoint insert_concept (x : concept) (l : list concept) : list concept :=
  match l with
  | [] => [x]
  | y :: l' => if key_le x y then x :: l else y :: insert_concept x l'
  end.
Definition sort_concepts (cs : list concept) : list concept := fold_right insert_concept [] cs.

(* AbstractConcept.__eq__ / __hash__: same support and sorted(extent_i) equal -- equality of the
   extent SETS, whatever the order in which extent_i lists them *)
Fixpoint insert_nat (x : nat) (l : list nat) : list nat :=
  match l with [] => [x] | y :: l' => if Nat.leb x y then x :: l else y :: insert_nat x l' end.
Definition sort_nat (l : list nat) : list nat := fold_right insert_nat [] l.
Definition same_extent (c d : concept) : bool :=
  Nat.eqb (support c) (support d) && nat_list_eqb (sort_nat (fst c)) (sort_nat (fst d)).

(* position of a concept in a list: the dictionaries {c: i} are keyed by concept *)
Fixpoint index_of_from (k : nat) (c : concept) (l : list concept) : nat :=
  match l with
  | [] => k
  | d :: l' => if same_extent c d then k else index_of_from (S k) c l'
  end.
Definition index_of (c : concept) (l : list concept) : nat := index_of_from 0 c l.

(* ------------------------------------------------------------------ dictionaries of index sets *)
Definition assoc := list (nat * list nat).
Fixpoint lookup (k : nat) (a : assoc) : option (list nat) :=
  match a with
  | [] => None
  | (k', v) :: a' => if Nat.eqb k k' then Some v else lookup k a'
  end.
Definition get (a : assoc) (k : nat) : list nat := default [] (lookup k a).
Fixpoint upd (k : nat) (v : list nat) (a : assoc) : assoc :=
  match a with
  | [] => [(k, v)]
  | (k', v') :: a' => if Nat.eqb k k' then (k, v) :: a' else (k', v') :: upd k v a'
  end.
Definition set_add (x : nat) (l : list nat) : list nat := if mem x l then l else l ++ [x].
Definition set_union (a b : list nat) : list nat := a ++ diff b a.

(* POSet._transpose_hierarchy:
     for k, vs in h.items():
        if k not in new: new[k] = set()
        for v in vs: new[v] = new.get(v, set()) | {k} *)
Definition transpose_hierarchy (h : assoc) : assoc :=
  fold_left (fun new kv =>
               let k := fst kv in
               let new1 := match lookup k new with None => upd k [] new | Some _ => new end in
               fold_left (fun nw v => upd v (set_add k (get nw v)) nw) (snd kv) new1)
            h [].

(* POSet._closed_relation_cache_by_direct_cache: one iteration of the while loop.
     for i, el_i in enumerate(to_visit): if direct[el_i] & visited == direct[el_i]: idx = i; break
     el_i = to_visit.pop(idx)
     closed[el_i] = direct[el_i] | U closed[r] for r in direct[el_i]
     to_visit += list(direct_trans[el_i]);  visited.add(el_i)
   A round in which no element is ready would reuse a stale idx (or raise NameError): CStuck. *)
Inductive cres := CDone (closed : assoc) | CStuck | CKeyErr | COutOfFuel.
Record cstate := { cs_to_visit : list nat; cs_visited : list nat; cs_closed : assoc }.

Fixpoint find_ready (direct : assoc) (visited : list nat) (tv : list nat) : option nat :=
  match tv with
  | [] => None
  | e :: tv' => if subsetb (get direct e) visited then Some e else find_ready direct visited tv'
  end.
Fixpoint remove_first (x : nat) (l : list nat) : list nat :=
  match l with
  | [] => []
  | y :: l' => if Nat.eqb x y then l' else y :: remove_first x l'
  end.
Fixpoint union_closed (closed : assoc) (rels : list nat) (acc : list nat) : option (list nat) :=
  match rels with
  | [] => Some acc
  | r :: rels' => match lookup r closed with
                  | None => None
                  | Some v => union_closed closed rels' (set_union acc v)
                  end
  end.
(* inl: the loop goes on; inr: it ended (normally or not) *)
Definition closed_step (ord : list nat -> list nat) (direct trans : assoc) (s : cstate) : cstate + cres :=
  match cs_to_visit s with
  | [] => inr (CDone (cs_closed s))
  | _ =>
      match find_ready direct (cs_visited s) (cs_to_visit s) with
      | None => inr CStuck
      | Some e =>
          match union_closed (cs_closed s) (get direct e) (get direct e) with
          | None => inr CKeyErr
          | Some v =>
              match lookup e trans with
              | None => inr CKeyErr
              | Some ps =>
                  inl {| cs_to_visit := remove_first e (cs_to_visit s) ++ ord ps;
                         cs_visited := set_add e (cs_visited s);
                         cs_closed := upd e v (cs_closed s) |}
              end
          end
      end
  end.
(* 2^k iterations at most, structurally in k; stops as soon as the loop ends *)
Fixpoint closed_run (ord : list nat -> list nat) (direct trans : assoc) (k : nat) (s : cstate)
  : cstate + cres :=
  match k with
  | 0 => closed_step ord direct trans s
  | S k' => match closed_run ord direct trans k' s with
            | inl s' => closed_run ord direct trans k' s'
            | r => r
            end
  end.
Definition closed_relation (ord : list nat -> list nat) (k : nat) (direct : assoc) : cres :=
  let trans := transpose_hierarchy direct in
  let start := map fst (filter (fun kv => match snd kv with [] => true | _ => false end) direct) in
  match closed_run ord direct trans k
                   {| cs_to_visit := start; cs_visited := []; cs_closed := [] |} with
  | inl _ => COutOfFuel
  | inr r => r
  end.

(* ------------------------------------------------------------------ the children_dict constructor
   path (POSet.__init__) followed by the re-sorting of from_context(algo='Lindig') *)
Record lindig_lattice := {
  ll_concepts : list concept;
  ll_children : assoc; ll_descendants : assoc; ll_parents : assoc; ll_ancestors : assoc;
  ll_top : option nat; ll_bottom : option nat
}.
Inductive lres := LOk (l : lindig_lattice) | LErr (r : cres).

Definition remap_cache (m : list nat) (c : assoc) : assoc :=
  map (fun kv => (nth (fst kv) m 0, map (fun r => nth r m 0) (snd kv))) c.

Definition lindig_resorted (ord : list nat -> list nat) (fuel : nat)
           (pre : list concept) (children_dict : assoc) : lres :=
  match closed_relation ord fuel children_dict with
  | CDone descendants_dict =>
      let parents_dict := transpose_hierarchy children_dict in
      let ancestors_dict := transpose_hierarchy descendants_dict in
      let n := length pre in
      let bottom := single (extremes_of n (get descendants_dict)) in
      let top := single (extremes_of n (get ancestors_dict)) in
      let sorted := sort_concepts pre in
      let map_i_isort := map (fun c => index_of c sorted) pre in
      LOk {| ll_concepts := sorted;
             ll_children := remap_cache map_i_isort children_dict;
             ll_descendants := remap_cache map_i_isort descendants_dict;
             ll_parents := remap_cache map_i_isort parents_dict;
             ll_ancestors := remap_cache map_i_isort ancestors_dict;
             ll_top := option_map (fun i => nth i map_i_isort 0) top;
             ll_bottom := option_map (fun i => nth i map_i_isort 0) bottom |}
  | r => LErr r
  end.

(* POSet._leq_elements_cache on the re-sorted lattice (the leq table was emptied):
   a != b and b in descendants cache -> a in descendants[b]; otherwise the concepts are compared *)
Definition leq_cached (cs : list concept) (descendants : assoc) (a b : nat) : bool :=
  if Nat.eqb a b then leq_i cs a b
  else match lookup b descendants with
       | Some d => mem a d
       | None => leq_i cs a b
       end.

(* ------------------------------------------------------------------ ConceptLattice._get_chains
   (called by get_chains with is_concepts_sorted=False: the concepts are sorted again) *)
Fixpoint min_list (l : list nat) : option nat :=
  match l with
  | [] => None
  | x :: l' => match min_list l' with None => Some x | Some m => Some (Nat.min x m) end
  end.
(* chain.append(c_i); visited.add(c_i); if c_sort_i == 0: break;
   c_i = sorted(parents[c_i])[0]; c_sort_i = map_i_isort[c_i]   -- consing reverses the chain *)
Fixpoint chain_walk (fuel : nat) (parents : nat -> list nat) (i_isort : nat -> nat)
         (c_i c_sort_i : nat) (acc : list nat) : option (list nat) :=
  match fuel with
  | 0 => None
  | S f =>
      let acc' := c_i :: acc in
      if Nat.eqb c_sort_i 0 then Some acc'
      else match min_list (parents c_i) with
           | None => None                       (* IndexError *)
           | Some p => chain_walk f parents i_isort p (i_isort p) acc'
           end
  end.
Fixpoint chains_loop (fuel : nat) (n : nat) (parents : nat -> list nat) (isort_i i_isort : nat -> nat)
         (visited : list nat) (chains : list (list nat)) : option (list (list nat)) :=
  match fuel with
  | 0 => None
  | S f =>
      if Nat.leb n (length visited) then Some chains
      else
        match find (fun k => negb (mem (isort_i k) visited)) (rev (seq 0 n)) with
        | None => None
        | Some c_sort_i =>
            match chain_walk (S n) parents i_isort (isort_i c_sort_i) c_sort_i [] with
            | None => None
            | Some chain =>
                chains_loop f n parents isort_i i_isort
                            (fold_left (fun v x => set_add x v) chain visited) (chains ++ [chain])
            end
        end
  end.
Definition get_chains_of (cs : list concept) (parents : nat -> list nat) : option (list (list nat)) :=
  let n := length cs in
  let sorted := sort_concepts cs in
  let isort_i := fun k => index_of (cnth sorted k) cs in
  let i_isort := fun i => index_of (cnth cs i) sorted in
  chains_loop (S n) n parents isort_i i_isort [] [].
Definition get_chains_nocache (cs : list concept) : option (list (list nat)) :=
  get_chains_of cs (parents_nocache cs).
(* _get_chains(..., is_concepts_sorted=True): positions are taken for sort positions *)
Definition get_chains_sorted_of (cs : list concept) (parents : nat -> list nat) : option (list (list nat)) :=
  let n := length cs in chains_loop (S n) n parents (fun k => k) (fun i => i) [] [].

(* ------------------------------------------------------------------ reduced labels (C04)
   new_extent_i = set(extent_i) - {g for child in children for g in child.extent_i}
   new_intent_i = set(intent_i) - {m for parent in parents for m in parent.intent_i} *)
Definition new_extent_of (cs : list concept) (children : nat -> list nat) (i : nat) : list nat :=
  diff (extent cs i) (concat (map (extent cs) (children i))).
Definition new_intent_of (cs : list concept) (parents : nat -> list nat) (i : nat) : list nat :=
  diff (intent cs i) (concat (map (intent cs) (parents i))).
Definition new_extent_i (cs : list concept) (i : nat) : list nat :=
  new_extent_of cs (children_nocache cs) i.
Definition new_intent_i (cs : list concept) (i : nat) : list nat :=
  new_intent_of cs (parents_nocache cs) i.

(* Model/C08_Concept.v — transcription of fcapy/lattice/formal_concept.py
   (AbstractConcept.__eq__/__hash__/__le__/__lt__, __setattr__, FormalConcept.from_objects)
   and fcapy/lattice/pattern_concept.py (PatternConcept.__eq__/__hash__/__le__/__lt__,
   read-only properties, from_objects on interval pattern structures), with Python's derived
   comparisons (!=  >=  >).  Definitions only.

   hash_fixed (zlib.adler32 of a rendering of the context) is NOT modelled here: it is the
   Section variable [H] (an arbitrary function) of the from_objects models.  A concrete
   adler32 over the default-name rendering is defined at the end; it is used only to exhibit a
   real collision (finding D18) and is cross-checked against zlib by the correspondence. *)
From FCA Require Export Model.FormalContext.
From Coq Require Export ZArith.

Inductive cerr :=
| UnmatchedContext | UnmatchedMonotone | Frozen | ValueErr | AssertErr | NotImpl.

Inductive cres (A : Type) := COk (a : A) | CErr (e : cerr).
Arguments COk {A} a. Arguments CErr {A} e.

Definition cres_map {A B} (f : A -> B) (r : cres A) : cres B :=
  match r with COk a => COk (f a) | CErr e => CErr e end.

(* Optional[int] != Optional[int] *)
Definition ohash_eqb (a b : option Z) : bool :=
  match a, b with
  | Some x, Some y => Z.eqb x y
  | None, None => true
  | _, _ => false
  end.

(* ------------------------------------------------------------------ FormalConcept *)

Record fconcept := mk_fc {
  fc_extent_i : list nat;      (* Tuple[int, ...] *)
  fc_extent : list nat;        (* names, as opaque ids *)
  fc_intent_i : list nat;
  fc_intent : list nat;
  fc_measures : list (nat * Z);
  fc_hash : option Z;          (* context_hash *)
  fc_mono : bool               (* is_monotone *)
}.

Definition fc_support (c : fconcept) : nat := length (fc_extent_i c).

(* the two guards every comparison starts with *)
Definition fc_guard {A} (a b : fconcept) (k : cres A) : cres A :=
  if negb (ohash_eqb (fc_hash a) (fc_hash b)) then CErr UnmatchedContext
  else if negb (Bool.eqb (fc_mono a) (fc_mono b)) then CErr UnmatchedMonotone
  else k.

(* sorted(extent_i) : insertion sort *)
Fixpoint insert_sorted (x : nat) (l : list nat) : list nat :=
  match l with
  | [] => [x]
  | y :: l' => if Nat.leb x y then x :: l else y :: insert_sorted x l'
  end.
Definition sort_nat (l : list nat) : list nat := fold_right insert_sorted [] l.

(* __eq__ (after repair 0ac2495): guards; support shortcut; equality of the SORTED extents *)
Definition fc_eq (a b : fconcept) : cres bool :=
  fc_guard a b
    (if negb (Nat.eqb (fc_support a) (fc_support b)) then COk false
     else COk (nat_list_eqb (sort_nat (fc_extent_i a)) (sort_nat (fc_extent_i b)))).

(* for g_i in lesser.extent_i: if g_i not in set(greater.extent_i): return False *)
Definition subset_loop (lesser greater : list nat) : bool :=
  forallb (fun g => mem g greater) lesser.

(* __le__ : guards; swap for monotone concepts; support shortcut; membership loop *)
Definition fc_le (a b : fconcept) : cres bool :=
  fc_guard a b
    (let lesser := if fc_mono a then b else a in
     let greater := if fc_mono a then a else b in
     if Nat.ltb (fc_support greater) (fc_support lesser) then COk false
     else COk (subset_loop (fc_extent_i lesser) (fc_extent_i greater))).

(* __lt__ (after the D14 repair): guards first; equal supports -> False; else self <= other *)
Definition fc_lt (a b : fconcept) : cres bool :=
  fc_guard a b
    (if Nat.eqb (fc_support a) (fc_support b) then COk false else fc_le a b).

(* __hash__ : hash(tuple(sorted(self.extent_i))); the tuple hash is an arbitrary function [TH] *)
Definition fc_hashv (TH : list nat -> Z) (c : fconcept) : Z := TH (sort_nat (fc_extent_i c)).

(* Python's derived operators: a != b inverts __eq__; a >= b and a > b are the reflected
   calls b.__le__(a), b.__lt__(a) (AbstractConcept defines neither __ne__, __ge__ nor __gt__) *)
Definition fc_ne (a b : fconcept) : cres bool := cres_map negb (fc_eq a b).
Definition fc_ge (a b : fconcept) : cres bool := fc_le b a.
Definition fc_gt (a b : fconcept) : cres bool := fc_lt b a.

(* __setattr__ : the state is returned together with the exception, if any *)
Inductive fkey :=
| KExtentI | KExtent | KIntentI | KIntent | KHash | KMono | KMeasures | KOther (name : nat).

Inductive fval :=
| VList (l : list nat) | VHash (h : option Z) | VBool (b : bool) | VMeasures (m : list (nat * Z)).

Definition fkey_defining (k : fkey) : bool :=
  match k with
  | KExtentI | KExtent | KIntentI | KIntent | KHash | KMono => true
  | _ => false
  end.

(* an instance also has an open __dict__ : attributes outside the dataclass fields *)
Record fobject := mk_fo { fo_concept : fconcept; fo_extra : list (nat * fval) }.

Definition set_measures (c : fconcept) (m : list (nat * Z)) : fconcept :=
  mk_fc (fc_extent_i c) (fc_extent c) (fc_intent_i c) (fc_intent c) m (fc_hash c) (fc_mono c).

(* after construction every field is in __dict__, so the test
   [key in self.__dict__ and key in {six names}] is [fkey_defining] *)
Definition fc_setattr (o : fobject) (k : fkey) (v : fval) : fobject * option cerr :=
  if fkey_defining k then (o, Some Frozen)
  else match k, v with
       | KMeasures, VMeasures m => (mk_fo (set_measures (fo_concept o) m) (fo_extra o), None)
       | KOther n, _ => (mk_fo (fo_concept o) ((n, v) :: fo_extra o), None)
       | _, _ => (o, None)      (* measures := a non-dict value: not modelled further *)
       end.

(* ------------------------------------------------------------------ PatternConcept *)

Definition desc := option (Z * Z).     (* IntervalPS description: None or (min, max) *)

Record pconcept := mk_pc {
  pc_extent_i : list nat;
  pc_extent : list nat;
  pc_intent_i : list desc;       (* {ps_i: description}, in the order of the structures *)
  pc_measures : list (nat * Z);
  pc_hash : option Z
}.

Definition pc_support (c : pconcept) : nat := length (pc_extent_i c).

Definition pc_guard {A} (a b : pconcept) (k : cres A) : cres A :=
  if negb (ohash_eqb (pc_hash a) (pc_hash b)) then CErr NotImpl else k.

Definition pc_le (a b : pconcept) : cres bool :=
  pc_guard a b
    (if Nat.ltb (pc_support b) (pc_support a) then COk false
     else COk (subset_loop (pc_extent_i a) (pc_extent_i b))).

(* __eq__ : guard; support shortcut; return self <= other *)
Definition pc_eq (a b : pconcept) : cres bool :=
  pc_guard a b
    (if negb (Nat.eqb (pc_support a) (pc_support b)) then COk false else pc_le a b).

(* __lt__ : guard; support >= -> False; return self <= other *)
Definition pc_lt (a b : pconcept) : cres bool :=
  pc_guard a b
    (if Nat.leb (pc_support b) (pc_support a) then COk false else pc_le a b).

Definition pc_ne (a b : pconcept) : cres bool := cres_map negb (pc_eq a b).
Definition pc_ge (a b : pconcept) : cres bool := pc_le b a.
Definition pc_gt (a b : pconcept) : cres bool := pc_lt b a.

(* __hash__ : hash((tuple(sorted(self._extent_i)), self._context_hash)) *)
Definition pc_hashv (PH : list nat * option Z -> Z) (c : pconcept) : Z :=
  PH (sort_nat (pc_extent_i c), pc_hash c).

(* the public names of a PatternConcept are read-only properties; measures is a plain attribute *)
Inductive pkey :=
| PExtentI | PExtent | PIntentI | PIntent | PPatternTypes | PSupport | PHash | PMeasures.

Definition pkey_readonly (k : pkey) : bool := match k with PMeasures => false | _ => true end.

Definition pc_setattr (c : pconcept) (k : pkey) (m : list (nat * Z)) : pconcept * option cerr :=
  if pkey_readonly k then (c, Some Frozen)
  else (mk_pc (pc_extent_i c) (pc_extent c) (pc_intent_i c) m (pc_hash c), None).

(* ------------------------------------------------------------------ from_objects *)

Record fctx := mk_ctx { k_onames : list nat; k_anames : list nat; k_table : table }.

Inductive objs_arg := ByIndex (l : list nat) | ByName (l : list nat).

(* list.index : first occurrence, ValueError when absent *)
Fixpoint first_index_from (k : nat) (names : list nat) (x : nat) : option nat :=
  match names with
  | [] => None
  | y :: ys => if Nat.eqb x y then Some k else first_index_from (S k) ys x
  end.
Definition first_index := first_index_from 0.

Fixpoint names_index (names xs : list nat) : cres (list nat) :=
  match xs with
  | [] => COk []
  | x :: xs' =>
      match first_index names x with
      | None => CErr ValueErr
      | Some i => match names_index names xs' with COk l => COk (i :: l) | CErr e => CErr e end
      end
  end.

Definition name_of (names : list nat) (i : nat) : nat := nth i names 0.

Section FromObjects.
Variable H : fctx -> Z.     (* hash_fixed : arbitrary *)

Definition fc_from_objects (b : backend) (K : fctx) (arg : objs_arg) (is_extent is_monotone : bool)
  : cres fconcept :=
  if is_monotone then CErr AssertErr
  else
    let t := k_table K in
    match (match arg with ByIndex l => COk l | ByName l => names_index (k_onames K) l end) with
    | CErr e => CErr e
    | COk objects_i =>
        let intent_i := intention_i b t objects_i None in
        let intent := map (name_of (k_anames K)) intent_i in
        let objects_i' := if is_extent then objects_i else extension_i b t intent_i None in
        let objects := map (name_of (k_onames K)) objects_i' in
        COk (mk_fc objects_i' objects intent_i intent [] (Some (H K)) false)
    end.
End FromObjects.

(* many-valued context restricted to IntervalPS columns: data[g][j] = (lo, hi) *)
Record mvctx := mk_mv { mv_onames : list nat; mv_anames : list nat; mv_data : list (list (Z * Z)) }.

Definition mv_height (K : mvctx) : nat := length (mv_data K).
Definition mv_width (K : mvctx) : nat := length (mv_anames K).
Definition mv_cell (K : mvctx) (g j : nat) : Z * Z := nth j (nth g (mv_data K) []) (0%Z, 0%Z).

(* IntervalPS.intention_i : None for no objects; running min / max otherwise *)
Definition ips_intention (K : mvctx) (j : nat) (objs : list nat) : desc :=
  match objs with
  | [] => None
  | g0 :: rest =>
      Some (fold_left (fun (acc : Z * Z) g =>
                         let v := mv_cell K g j in
                         ((if Z.ltb (fst v) (fst acc) then fst v else fst acc),
                          (if Z.ltb (snd acc) (snd v) then snd v else snd acc)))
                      rest (mv_cell K g0 j))
  end.

(* IntervalPS.extension_i *)
Definition ips_extension (K : mvctx) (j : nat) (d : desc) (base : list nat) : list nat :=
  match d with
  | None => []
  | Some (lo, hi) =>
      filter (fun g => Z.leb lo (fst (mv_cell K g j)) && Z.leb (snd (mv_cell K g j)) hi) base
  end.

Definition mv_intention_i (K : mvctx) (objs : list nat) : list desc :=
  map (fun j => ips_intention K j objs) (seq 0 (mv_width K)).

(* for ps_i, description in descriptions_i.items(): extent = ps.extension_i(...); break if empty *)
Fixpoint mv_ext_loop (K : mvctx) (j : nat) (ds : list desc) (ext : list nat) : list nat :=
  match ds with
  | [] => ext
  | d :: ds' =>
      let ext' := ips_extension K j d ext in
      match ext' with [] => [] | _ => mv_ext_loop K (S j) ds' ext' end
  end.

Definition mv_extension_i (K : mvctx) (ds : list desc) : list nat :=
  mv_ext_loop K 0 ds (seq 0 (mv_height K)).

Section PFromObjects.
Variable HM : mvctx -> Z.

Definition pc_from_objects (K : mvctx) (arg : objs_arg) (is_extent is_monotone : bool)
  : cres pconcept :=
  if is_monotone then CErr AssertErr
  else
    match (match arg with ByIndex l => COk l | ByName l => names_index (mv_onames K) l end) with
    | CErr e => CErr e
    | COk objects_i =>
        let intent_i := mv_intention_i K objects_i in
        let objects_i' := if is_extent then objects_i else mv_extension_i K intent_i in
        COk (mk_pc objects_i' (map (name_of (mv_onames K)) objects_i') intent_i [] (Some (HM K)))
    end.
End PFromObjects.

(* ------------------------------------------------------------------ a concrete hash_fixed:
   zlib.adler32(str(object_names) + str(attribute_names) + str(data.to_list())) for a context
   whose names are the default ones (decimal strings).  Strings are lists of code points. *)

Fixpoint digits_aux (fuel n : nat) (acc : list nat) : list nat :=
  match fuel with
  | 0 => acc
  | S f => let acc' := (48 + n mod 10) :: acc in
           if Nat.eqb (n / 10) 0 then acc' else digits_aux f (n / 10) acc'
  end.
Definition digits (n : nat) : list nat := digits_aux (S n) n [].

Fixpoint join_with (sep : list nat) (parts : list (list nat)) : list nat :=
  match parts with
  | [] => []
  | [p] => p
  | p :: ps => p ++ sep ++ join_with sep ps
  end.

Definition quote (s : list nat) : list nat := 39 :: s ++ [39].        (* 'name' *)
(* str(tuple of str): ()  ('a',)  ('a', 'b') *)
Definition render_names (names : list nat) : list nat :=
  match names with
  | [n] => 40 :: quote (digits n) ++ [44; 41]
  | _ => 40 :: join_with [44; 32] (map (fun n => quote (digits n)) names) ++ [41]
  end.
Definition render_bool (b : bool) : list nat :=
  if b then [84; 114; 117; 101] else [70; 97; 108; 115; 101].
Definition render_row (r : list bool) : list nat := 91 :: join_with [44; 32] (map render_bool r) ++ [93].
Definition render_table (t : table) : list nat := 91 :: join_with [44; 32] (map render_row t) ++ [93].
Definition render_ctx (K : fctx) : list nat :=
  render_names (k_onames K) ++ render_names (k_anames K) ++ render_table (k_table K).

Definition adler32 (s : list nat) : Z :=
  let '(a, b) := fold_left (fun (ab : Z * Z) c =>
                              let a' := ((fst ab + Z.of_nat c) mod 65521)%Z in
                              (a', ((snd ab + a') mod 65521)%Z)) s (1%Z, 0%Z) in
  (b * 65536 + a)%Z.

Definition H_adler (K : fctx) : Z := adler32 (render_ctx K).

(* Lemmas/C16_SpecBounds.v — the bounds written in the specification (over the true lower covers,
   UStab through the minimal difference) are the transcribed bounds, hence bracket the stability. *)
From FCA Require Import Base.C16_Dyadic Model.C16_Stability Spec.C16_StabilitySpec.
From FCA Require Import Lemmas.C16_Dyadic Lemmas.C16.
From Coq Require Import ZArith QArith Lia.
Local Open Scope nat_scope.

Lemma Qle_bool_inv_pow2 a b : Qle_bool (inv_pow2 a) (inv_pow2 b) = Nat.leb b a.
Proof.
  unfold Qle_bool, inv_pow2. cbn [Qnum Qden]. rewrite !Z.mul_1_l, !pow2p_Z.
  apply bool_eq_iff. rewrite Z.leb_le, Nat.leb_le, <- Nat2Z.inj_le.
  symmetry. apply Nat.pow_le_mono_r_iff. lia.
Qed.

Lemma qmax_inv_pow2 a b : qmax (inv_pow2 a) (inv_pow2 b) = inv_pow2 (Nat.min a b).
Proof.
  unfold qmax. rewrite Qle_bool_inv_pow2. destruct (Nat.leb b a) eqn:E.
  - apply Nat.leb_le in E. rewrite Nat.min_r by exact E. reflexivity.
  - apply Nat.leb_gt in E. rewrite Nat.min_l by lia. reflexivity.
Qed.

Lemma fold_qmax_inv_pow2 ds : forall d0,
  fold_left qmax (map inv_pow2 ds) (inv_pow2 d0) = inv_pow2 (fold_left Nat.min ds d0).
Proof.
  induction ds as [|d ds IH]; intros d0; cbn [map fold_left]; [reflexivity|].
  rewrite qmax_inv_pow2. apply IH.
Qed.

Section SpecBounds.
Variable t : table.
Variable exts : list (list nat).
Variable A : list nat.
Let ch := lower_covers exts A.

Local Open Scope Q_scope.

Lemma lstab_model_spec : fst (stability_bounds_m A ch) == lstab_spec exts A.
Proof.
  unfold stability_bounds_m, lstab_spec, inv_diffs. cbn [fst]. fold ch.
  destruct ch as [|C l]; [cbn; ring|]. reflexivity.
Qed.

Lemma ustab_model_spec : snd (stability_bounds_m A ch) == ustab_spec exts A.
Proof.
  unfold stability_bounds_m, ustab_spec, min_delta_spec, inv_diffs. cbn [snd]. fold ch.
  destruct ch as [|C l]; [cbn; ring|].
  cbn [map nmin_list qmax_list].
  change (map (fun C0 => inv_pow2 (delta A C0)) l) with (map (fun C0 => inv_pow2 (sdelta A C0)) l).
  rewrite <- (map_map (sdelta A) inv_pow2). unfold delta at 1. fold (sdelta A C).
  rewrite fold_qmax_inv_pow2. reflexivity.
Qed.

Lemma log_model_spec : log_lbound_m A ch = min_delta_spec exts A.
Proof. reflexivity. Qed.

End SpecBounds.

Theorem spec_bracket b t exts A B :
  wf t -> all_extents t exts -> NoDup exts -> is_concept t A B ->
  Qeq (stability_m b t A B) (stab_spec t A B) /\
  Qle (lstab_spec exts A) (stab_spec t A B) /\
  Qle (stab_spec t A B) (ustab_spec exts A) /\
  log_bound_holds (stab_spec t A B) (min_delta_spec exts A) (width t).
Proof.
  intros Hwf He Hnd Hc.
  pose proof (stability_def b t Hwf A B Hc) as Hd.
  split; [exact Hd|]. split; [|split].
  - rewrite <- lstab_model_spec, <- Hd. apply (lower_bound b t exts Hwf He A B Hc). intros C HC. exact HC.
  - rewrite <- ustab_model_spec, <- Hd. apply (upper_bound b t exts Hwf He A B Hc).
    intros C HC. apply lower_covers_In in HC. tauto.
  - rewrite <- (log_model_spec exts A).
    pose proof (log_bound b t exts Hwf He A B Hc (lower_covers exts A)
                          (lower_covers_NoDup exts A Hnd) (fun C => conj (fun H => H) (fun H => H))) as HL.
    unfold log_bound_holds in *. destruct (log_lbound_m A (lower_covers exts A)); [|exact Logic.I].
    rewrite <- Hd. exact HL.
Qed.

(* In a PRUNED lattice (a family of extents from which a lower cover has been removed) the children
   are the covers inside the family and the lower bound is NOT promised: the 3-chain without its
   middle concept has LStab = 3/4 > Stab = 1/2 at the top.  (The upper bound still holds there:
   upper_bound only needs the children to be extents strictly below A.) *)
Definition pruned_t : table := [[true; true; true]; [true; true; false]; [true; false; false]].
Definition pruned_family : list (list nat) := [[0; 1; 2]; [0]].

Theorem lower_bound_pruned_refuted :
  wf pruned_t /\ is_concept pruned_t [0; 1; 2] [0] /\
  (forall C, In C pruned_family -> In C (extents_spec pruned_t)) /\
  lower_covers pruned_family [0; 1; 2] = [[0]] /\
  ~ Qle (fst (stability_bounds_m [0; 1; 2] (lower_covers pruned_family [0; 1; 2])))
        (stability_m BBitarray pruned_t [0; 1; 2] [0]) /\
  Qle (stability_m BBitarray pruned_t [0; 1; 2] [0])
      (snd (stability_bounds_m [0; 1; 2] (lower_covers pruned_family [0; 1; 2]))).
Proof.
  split; [repeat constructor|]. split; [split; vm_compute; reflexivity|].
  split; [intros C [<-|[<-|[]]]; vm_compute; tauto|].
  split; [vm_compute; reflexivity|]. split.
  - vm_compute. intros H. apply H. reflexivity.
  - vm_compute. discriminate.
Qed.

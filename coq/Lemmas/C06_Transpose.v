(* Lemmas/C06_Transpose.v — transposition: involution, swaps the prime operators, concepts of
   the transposed table are the swapped concepts, order reversed. *)
From FCA Require Import Model.Duality Spec.DualitySpec Lemmas.BitRow Lemmas.C01.

(* ------------------------------------------------------------------ table level *)

Lemma N_transpose_eq t : N_transpose t = A_transpose t.
Proof.
  unfold N_transpose, A_transpose, get_column. apply map_ext. intros j.
  rewrite <- (map_row_seq t) at 1. rewrite map_map. reflexivity.
Qed.

Lemma transpose_backend b t : transpose b t = A_transpose t.
Proof. destruct b; simpl; auto using N_transpose_eq. Qed.

Lemma A_transpose_height t : height (A_transpose t) = width t.
Proof. unfold A_transpose, height. rewrite map_length, seq_length. reflexivity. Qed.

Lemma A_transpose_rows t : Forall (fun r => length r = height t) (A_transpose t).
Proof.
  unfold A_transpose. apply Forall_forall. intros r Hr. apply in_map_iff in Hr.
  destruct Hr as [j [E _]]. subst. unfold get_column. rewrite map_length, seq_length. reflexivity.
Qed.

Lemma A_transpose_width t : 0 < width t -> width (A_transpose t) = height t.
Proof.
  intros Hw. unfold A_transpose. destruct (width t) as [|w] eqn:E; [lia|].
  simpl. unfold get_column. rewrite map_length, seq_length. reflexivity.
Qed.

Lemma A_transpose_width_nondeg t : nondegenerate t -> width (A_transpose t) = height t.
Proof.
  intros Hn. destruct (Nat.eq_dec (width t) 0) as [E|E].
  - rewrite (Hn E). unfold A_transpose. rewrite E. reflexivity.
  - apply A_transpose_width. lia.
Qed.

Lemma A_transpose_wf t : wf (A_transpose t).
Proof.
  unfold wf. destruct (Nat.eq_dec (width t) 0) as [E|E].
  - unfold A_transpose. rewrite E. constructor.
  - rewrite A_transpose_width by lia. apply A_transpose_rows.
Qed.

Lemma row_A_transpose t j : j < width t -> row (A_transpose t) j = get_column t (seq 0 (height t)) j.
Proof.
  intros Hj. unfold row, A_transpose.
  rewrite (nth_map_in _ _ _ _ 0) by (rewrite seq_length; exact Hj).
  rewrite seq_nth by exact Hj. reflexivity.
Qed.

Lemma cell_out_of_width t i j : wf t -> width t <= j -> cell t i j = false.
Proof.
  intros Hwf Hj. unfold cell. destruct (Nat.lt_ge_cases i (height t)) as [Hi|Hi].
  - apply nth_overflow. rewrite wf_row_length by assumption. exact Hj.
  - replace (row t i) with (@nil bool) by (symmetry; apply nth_overflow; exact Hi).
    destruct j; reflexivity.
Qed.

Lemma cell_out_of_height t i j : height t <= i -> cell t i j = false.
Proof.
  intros Hi. unfold cell. replace (row t i) with (@nil bool) by (symmetry; apply nth_overflow; exact Hi).
  destruct j; reflexivity.
Qed.

(* cell (T t) j i = cell t i j, for ALL i j (both sides are false outside the table) *)
Lemma cell_A_transpose t i j : wf t -> cell (A_transpose t) j i = cell t i j.
Proof.
  intros Hwf. destruct (Nat.lt_ge_cases j (width t)) as [Hj|Hj].
  - unfold cell at 1. rewrite row_A_transpose by exact Hj. unfold get_column.
    destruct (Nat.lt_ge_cases i (height t)) as [Hi|Hi].
    + rewrite (nth_map_in _ _ _ _ 0) by (rewrite seq_length; exact Hi).
      rewrite seq_nth by exact Hi. reflexivity.
    + rewrite nth_overflow by (rewrite map_length, seq_length; exact Hi).
      symmetry. apply cell_out_of_height. exact Hi.
  - rewrite cell_out_of_height by (rewrite A_transpose_height; exact Hj).
    symmetry. apply cell_out_of_width; assumption.
Qed.

Lemma map_ext_seq {A} (f g : nat -> A) n :
  (forall k, k < n -> f k = g k) -> map f (seq 0 n) = map g (seq 0 n).
Proof. intros H. apply map_ext_in. intros k Hk. apply in_seq in Hk. apply H. lia. Qed.

Lemma table_rebuild t : wf t ->
  map (fun i => map (fun j => cell t i j) (seq 0 (width t))) (seq 0 (height t)) = t.
Proof.
  intros Hwf. transitivity (map (row t) (seq 0 (height t))); [|apply map_row_seq].
  apply map_ext_seq. intros i Hi.
  unfold cell. rewrite <- (wf_row_length t i Hwf Hi). apply map_nth_seq.
Qed.

Theorem A_transpose_involutive t : wf t -> nondegenerate t -> A_transpose (A_transpose t) = t.
Proof.
  intros Hwf Hn. unfold A_transpose at 1. rewrite A_transpose_height, A_transpose_width_nondeg by exact Hn.
  transitivity (map (fun i => map (fun j => cell t i j) (seq 0 (width t))) (seq 0 (height t)));
    [|apply table_rebuild; exact Hwf].
  apply map_ext_seq. intros i Hi.
  unfold get_column. apply map_ext_seq. intros j Hj. apply cell_A_transpose. exact Hwf.
Qed.

Theorem transpose_involutive b t : wf t -> nondegenerate t -> transpose b (transpose b t) = t.
Proof. intros. rewrite !transpose_backend. apply A_transpose_involutive; assumption. Qed.

Theorem transpose_is_transpose b t : wf t -> nondegenerate t -> is_transpose t (transpose b t).
Proof.
  intros Hwf Hn. rewrite transpose_backend. split; [apply A_transpose_height|]. split.
  - apply A_transpose_rows.
  - intros i j _ _. unfold I. apply cell_A_transpose. exact Hwf.
Qed.

Lemma nondegenerate_A_transpose t : wf t -> nondegenerate t -> nondegenerate (A_transpose t).
Proof.
  intros Hwf Hn. unfold nondegenerate. rewrite A_transpose_height, A_transpose_width_nondeg by exact Hn.
  intros Hh. destruct t as [|r t']; [reflexivity|discriminate].
Qed.

(* ------------------------------------------------------------------ prime operators *)

Theorem ext_transpose t B : wf t -> ext (A_transpose t) B = int t B.
Proof.
  intros Hwf. unfold ext, int, ext_spec, int_spec, all_objs, all_attrs. rewrite A_transpose_height.
  apply filter_ext. intros g. apply forallb_ext_in. intros m _. unfold I. apply cell_A_transpose. exact Hwf.
Qed.

Theorem int_transpose t A : wf t -> nondegenerate t -> int (A_transpose t) A = ext t A.
Proof.
  intros Hwf Hn. unfold ext, int, ext_spec, int_spec, all_objs, all_attrs.
  rewrite A_transpose_width_nondeg by exact Hn.
  apply filter_ext. intros g. apply forallb_ext_in. intros m _. unfold I. apply cell_A_transpose. exact Hwf.
Qed.

(* at the level of the C01 models of extension_i / intention_i, every back-end *)
Theorem extension_i_transpose b t X :
  wf t -> nondegenerate t -> in_range (height t) X ->
  extension_i b (transpose b t) X None = intention_i b t X None.
Proof.
  intros Hwf Hn HX. rewrite transpose_backend.
  rewrite extension_i_correct; [|apply A_transpose_wf| |exact Logic.I].
  - rewrite intention_i_correct; [|exact Hwf|exact HX|exact Logic.I].
    simpl. apply (ext_transpose t X Hwf).
  - rewrite A_transpose_width_nondeg by exact Hn. exact HX.
Qed.

Theorem intention_i_transpose b t Y :
  wf t -> nondegenerate t -> in_range (width t) Y ->
  intention_i b (transpose b t) Y None = extension_i b t Y None.
Proof.
  intros Hwf Hn HY. rewrite transpose_backend.
  rewrite intention_i_correct; [|apply A_transpose_wf| |exact Logic.I].
  - rewrite extension_i_correct; [|exact Hwf|exact HY|exact Logic.I].
    simpl. apply (int_transpose t Y Hwf Hn).
  - rewrite A_transpose_height. exact HY.
Qed.

(* the base-set forms: extension_i(X, base_objects_i=B) / intention_i(X, base_attrs_i=B) *)
Theorem ext_spec_transpose t X B : wf t -> ext_spec (A_transpose t) X B = int_spec t X B.
Proof.
  intros Hwf. unfold ext_spec, int_spec. apply filter_ext. intros g. apply forallb_ext_in.
  intros m _. unfold I. apply cell_A_transpose. exact Hwf.
Qed.

Theorem int_spec_transpose t Y B : wf t -> int_spec (A_transpose t) Y B = ext_spec t Y B.
Proof.
  intros Hwf. unfold ext_spec, int_spec. apply filter_ext. intros g. apply forallb_ext_in.
  intros m _. unfold I. apply cell_A_transpose. exact Hwf.
Qed.

Theorem extension_i_transpose_base b t X B :
  wf t -> nondegenerate t -> in_range (height t) X -> in_range (width t) B ->
  extension_i b (transpose b t) X (Some B) = intention_i b t X (Some B).
Proof.
  intros Hwf Hn HX HB. rewrite transpose_backend.
  rewrite extension_i_correct; [|apply A_transpose_wf| |].
  - rewrite intention_i_correct; [|exact Hwf|exact HX|exact HB].
    simpl. apply (ext_spec_transpose t X B Hwf).
  - rewrite A_transpose_width_nondeg by exact Hn. exact HX.
  - simpl. rewrite A_transpose_height. exact HB.
Qed.

Theorem intention_i_transpose_base b t Y B :
  wf t -> nondegenerate t -> in_range (width t) Y -> in_range (height t) B ->
  intention_i b (transpose b t) Y (Some B) = extension_i b t Y (Some B).
Proof.
  intros Hwf Hn HY HB. rewrite transpose_backend.
  rewrite intention_i_correct; [|apply A_transpose_wf| |].
  - rewrite extension_i_correct; [|exact Hwf|exact HY|exact HB].
    simpl. apply (int_spec_transpose t Y B Hwf).
  - rewrite A_transpose_height. exact HY.
  - simpl. rewrite A_transpose_width_nondeg by exact Hn. exact HB.
Qed.

(* ------------------------------------------------------------------ concepts *)

Theorem is_concept_transpose t A B :
  wf t -> nondegenerate t -> (is_concept (A_transpose t) A B <-> is_concept t B A).
Proof.
  intros Hwf Hn. unfold is_concept. rewrite ext_transpose, int_transpose by assumption. tauto.
Qed.

Theorem concepts_of_transpose t A B :
  wf t -> nondegenerate t ->
  (In (A, B) (concepts_spec (A_transpose t)) <-> In (B, A) (concepts_spec t)).
Proof.
  intros Hwf Hn. rewrite !concepts_spec_complete, is_concept_transpose by assumption.
  rewrite A_transpose_width_nondeg by exact Hn. split; intros [Hc Hr]; split; try exact Hc.
  - destruct Hc as [_ HA]. rewrite HA. apply int_in_range.
  - destruct Hc as [HB _]. rewrite HB. apply ext_in_range.
Qed.

(* the order on concepts is reversed: bigger extent <-> smaller intent *)
Theorem concept_order_dual t A1 B1 A2 B2 :
  is_concept t A1 B1 -> is_concept t A2 B2 -> (incl A1 A2 <-> incl B2 B1).
Proof.
  intros [HA1 HB1] [HA2 HB2]. split; intros H.
  - rewrite HB1, HB2. apply int_antitone. exact H.
  - rewrite HA1, HA2. apply ext_antitone. exact H.
Qed.

(* ------------------------------------------------------------------ contexts *)

Definition ctx_wf (K : ctx) : Prop :=
  wf (k_tbl K) /\ length (k_on K) = height (k_tbl K) /\ length (k_an K) = width (k_tbl K).

Lemma mk_ctx_ok t on an :
  length on = height t -> length an = width t ->
  mk_ctx t on an = COk {| k_tbl := t; k_on := on; k_an := an |}.
Proof. intros H1 H2. unfold mk_ctx. rewrite H1, H2, !Nat.eqb_refl. reflexivity. Qed.

Theorem ctx_T_ok b K : ctx_wf K -> nondegenerate (k_tbl K) ->
  ctx_T b K = COk {| k_tbl := transpose b (k_tbl K); k_on := k_an K; k_an := k_on K |}.
Proof.
  intros [Hwf [Ho Ha]] Hn. unfold ctx_T. apply mk_ctx_ok; rewrite transpose_backend.
  - rewrite A_transpose_height. exact Ha.
  - rewrite A_transpose_width_nondeg by exact Hn. exact Ho.
Qed.

Lemma ctx_wf_T b K : ctx_wf K -> nondegenerate (k_tbl K) ->
  ctx_wf {| k_tbl := transpose b (k_tbl K); k_on := k_an K; k_an := k_on K |}.
Proof.
  intros [Hwf [Ho Ha]] Hn. unfold ctx_wf. cbn [k_tbl k_on k_an]. rewrite transpose_backend.
  split; [apply A_transpose_wf|]. split.
  - rewrite A_transpose_height. exact Ha.
  - rewrite A_transpose_width_nondeg by exact Hn. exact Ho.
Qed.

Theorem ctx_T_involutive b K : ctx_wf K -> nondegenerate (k_tbl K) -> ctx_TT b K = COk K.
Proof.
  intros HK Hn. unfold ctx_TT. rewrite ctx_T_ok by assumption. cbn [cbind].
  rewrite ctx_T_ok.
  - cbn [k_tbl k_on k_an]. destruct HK as [Hwf _].
    rewrite transpose_involutive by assumption. destruct K; reflexivity.
  - apply ctx_wf_T; assumption.
  - cbn [k_tbl]. rewrite transpose_backend. apply nondegenerate_A_transpose; [apply HK | exact Hn].
Qed.

(* FormalContext.T raises on a table with rows but no columns *)
Theorem ctx_T_rejects_degenerate b K :
  ctx_wf K -> 0 < height (k_tbl K) -> width (k_tbl K) = 0 -> ctx_T b K = CErr E_Assertion.
Proof.
  intros [Hwf [Ho Ha]] Hh Hw. unfold ctx_T, mk_ctx. rewrite transpose_backend.
  rewrite A_transpose_height, Ha, Nat.eqb_refl. simpl.
  unfold A_transpose. rewrite Hw. simpl. rewrite Ho.
  destruct (height (k_tbl K)); [lia|reflexivity].
Qed.

Lemma strs_eqb_refl l : strs_eqb l l = true.
Proof.
  unfold strs_eqb. apply list_eqb_eq; [|reflexivity].
  intros x y. apply nat_list_eqb_eq.
Qed.

Lemma table_eqb_refl t : table_eqb t t = true.
Proof.
  unfold table_eqb. apply list_eqb_eq; [|reflexivity]. intros x y. apply bool_list_eqb_eq.
Qed.

Lemma ctx_eq_refl K : ctx_eq K K = COk true.
Proof. unfold ctx_eq. rewrite !strs_eqb_refl, !Nat.eqb_refl, table_eqb_refl. reflexivity. Qed.

(* K.T.T == K evaluates to True *)
Theorem ctx_TT_eq b K : ctx_wf K -> nondegenerate (k_tbl K) ->
  cbind (ctx_TT b K) (fun K2 => ctx_eq K2 K) = COk true.
Proof. intros HK Hn. rewrite ctx_T_involutive by assumption. simpl. apply ctx_eq_refl. Qed.

(* Lemmas/C15Forest.v — boxes are closed on point-valued data; the (repaired) random-forest
   miner returns distinct genuine pattern concepts including the top one; what the code did
   before the repair. *)
From Coq Require Import QArith.
From FCA Require Import Base.ListSet Model.BinTable Lemmas.BitRow Spec.Closure.
From FCA Require Import Model.Sofia Model.C15Interval Model.TreeExtents Spec.C15 Lemmas.C15Bits Lemmas.C15Formal Lemmas.C15Tree Lemmas.C15Interval.
Local Open Scope nat_scope.

Definition numrow (K : mvctx) (g : nat) : list Z :=
  flat_map (fun c => let v := cellv c g in [fst v; snd v]) K.

Lemma mv_to_numeric_length K : length (mv_to_numeric K) = mv_nobj K.
Proof. unfold mv_to_numeric. rewrite map_length, seq_length. reflexivity. Qed.

Lemma mv_to_numeric_nth K g : g < mv_nobj K -> nth g (mv_to_numeric K) [] = numrow K g.
Proof. intros H. unfold mv_to_numeric. apply (nth_map_seq (numrow K)). exact H. Qed.

(* feature f of the numeric table is the left end of a column, the right end of a column, or
   does not exist (reads as 0 for every row) *)
Lemma feature_cases K f :
  (exists c, In c K /\ forall g, nth f (numrow K g) 0%Z = fst (cellv c g)) \/
  (exists c, In c K /\ forall g, nth f (numrow K g) 0%Z = snd (cellv c g)) \/
  (forall g, nth f (numrow K g) 0%Z = 0%Z).
Proof.
  revert f. induction K as [|c K IH]; intros f.
  - right. right. intros g. destruct f; reflexivity.
  - destruct f as [|[|f]].
    + left. exists c. split; [left; reflexivity|]. intros g. reflexivity.
    + right. left. exists c. split; [left; reflexivity|]. intros g. reflexivity.
    + destruct (IH f) as [[c' [Hc H]]|[[c' [Hc H]]|H]].
      * left. exists c'. split; [right; exact Hc|]. intros g. apply H.
      * right. left. exists c'. split; [right; exact Hc|]. intros g. apply H.
      * right. right. intros g. apply H.
Qed.

Lemma point_cell c g : Forall (fun v : ival => fst v = snd v) c -> fst (cellv c g) = snd (cellv c g).
Proof.
  intros H. unfold cellv. destruct (Nat.lt_ge_cases g (length c)) as [L|L].
  - rewrite Forall_forall in H. apply H. apply nth_In. exact L.
  - rewrite nth_overflow by exact L. reflexivity.
Qed.

(* on point-valued data every feature value of a covered row lies between the values of two
   rows of the set *)
Lemma covered_between K A g f :
  mv_points K -> A <> [] -> covered K A g ->
  exists a1 a2, In a1 A /\ In a2 A /\
    (nth f (numrow K a1) 0 <= nth f (numrow K g) 0)%Z /\ (nth f (numrow K g) 0 <= nth f (numrow K a2) 0)%Z.
Proof.
  intros Hp Hne Hcov. unfold mv_points in Hp. rewrite Forall_forall in Hp.
  destruct (feature_cases K f) as [[c [Hc H]]|[[c [Hc H]]|H]].
  - destruct (col_int_some c A Hne) as [mn [mx E]].
    apply covered_iff with (c := c) in Hcov; [|exact Hc]. rewrite E in Hcov. simpl in Hcov.
    apply andb_true_iff in Hcov. destruct Hcov as [C1 C2]. apply Z.leb_le in C1. apply Z.leb_le in C2.
    destruct (col_int_attained c A mn mx E) as [[g1 [Hg1 E1]] [g2 [Hg2 E2]]].
    exists g1, g2. rewrite !H. pose proof (point_cell c g (Hp c Hc)). pose proof (point_cell c g2 (Hp c Hc)).
    repeat split; try assumption; lia.
  - destruct (col_int_some c A Hne) as [mn [mx E]].
    apply covered_iff with (c := c) in Hcov; [|exact Hc]. rewrite E in Hcov. simpl in Hcov.
    apply andb_true_iff in Hcov. destruct Hcov as [C1 C2]. apply Z.leb_le in C1. apply Z.leb_le in C2.
    destruct (col_int_attained c A mn mx E) as [[g1 [Hg1 E1]] [g2 [Hg2 E2]]].
    exists g1, g2. rewrite !H. pose proof (point_cell c g (Hp c Hc)). pose proof (point_cell c g1 (Hp c Hc)).
    repeat split; try assumption; lia.
  - destruct A as [|a A]; [congruence|]. exists a, a. rewrite !H.
    repeat split; try (left; reflexivity); lia.
Qed.

Lemma goes_left_mono x1 x2 f thr :
  (nth f x1 0 <= nth f x2 0)%Z -> goes_left x2 f thr = true -> goes_left x1 f thr = true.
Proof.
  unfold goes_left. intros H H2. apply Qle_bool_iff in H2. apply Qle_bool_iff.
  eapply Qle_trans; [|exact H2]. rewrite <- Zle_Qle. exact H.
Qed.

(* if all rows of A reach a node and g is covered by the description of A, g reaches it too *)
Lemma reaches_convex K A g :
  mv_points K -> A <> [] -> covered K A g ->
  forall p t, (forall a, In a A -> reaches t p (numrow K a) = true) -> reaches t p (numrow K g) = true.
Proof.
  intros Hp Hne Hcov. induction p as [|dir p IH]; intros t Hall; [reflexivity|].
  destruct t as [|f thr l r].
  - destruct A as [|a A]; [congruence|]. specialize (Hall a (or_introl eq_refl)). discriminate.
  - destruct (covered_between K A g f Hp Hne Hcov) as [a1 [a2 [Ha1 [Ha2 [B1 B2]]]]].
    cbn [reaches] in *. destruct dir.
    + apply andb_true_iff. split.
      * pose proof (Hall a2 Ha2) as H2. apply andb_true_iff in H2. destruct H2 as [H2 _].
        eapply goes_left_mono; eassumption.
      * apply IH. intros a Ha. specialize (Hall a Ha). apply andb_true_iff in Hall. tauto.
    + apply andb_true_iff. split.
      * pose proof (Hall a1 Ha1) as H1. apply andb_true_iff in H1. destruct H1 as [H1 _].
        apply negb_true_iff in H1. apply negb_true_iff.
        destruct (goes_left (numrow K g) f thr) eqn:E; [|reflexivity].
        rewrite (goes_left_mono _ _ f thr B1 E) in H1. discriminate.
      * apply IH. intros a Ha. specialize (Hall a Ha). apply andb_true_iff in Hall. tauto.
Qed.

(* box_closed: point-valued columns => the rows reaching any node form a closed set *)
Theorem box_closed K t p :
  mv_points K ->
  let A := rows_reaching t p (mv_to_numeric K) in
  mv_cl K A = A /\ mv_is_concept K A (mv_int_spec K A).
Proof.
  intros Hp A.
  assert (Hr : in_range (mv_nobj K) A).
  { intros g Hg. apply rows_reaching_in_range in Hg. rewrite mv_to_numeric_length in Hg. exact Hg. }
  assert (E : mv_cl K A = A).
  { unfold A at 2. unfold rows_reaching, mv_cl, mv_ext_spec. rewrite mv_to_numeric_length.
    apply filter_seq_ext. intros g Hg. apply bool_eq_iff. split.
    - intros Hcov. rewrite mv_to_numeric_nth by exact Hg.
      assert (HK : K = [] \/ exists c, In c K)
        by (destruct K as [|c K']; [left; reflexivity|right; exists c; left; reflexivity]).
      destruct HK as [HK|[c Hc]].
      + subst K. unfold mv_nobj in Hg. simpl in Hg. lia.
      + apply (reaches_convex K A g Hp (covered_nonempty K A g c Hc Hcov) Hcov).
        intros a Ha. pose proof (Hr a Ha) as La. unfold A, rows_reaching in Ha. apply filter_In in Ha.
        destruct Ha as [_ Ha]. rewrite mv_to_numeric_nth in Ha by exact La. exact Ha.
    - intros Hreach. apply covered_extensive. unfold A, rows_reaching. apply filter_In.
      split; [apply in_seq; rewrite mv_to_numeric_length; lia|exact Hreach]. }
  split; [exact E|]. rewrite <- E at 1. apply mv_closure_is_concept. exact Hr.
Qed.

(* ------------------------------------------------------------ the forest miner *)

Lemma dedup_by_extent_In l seen c : In c (dedup_by_extent l seen) -> In c l.
Proof.
  revert seen. induction l as [|x l IH]; intros seen; simpl; [tauto|].
  destruct (existsb (nat_list_eqb (fst x)) seen); simpl; intros H.
  - right. eapply IH. exact H.
  - destruct H as [H|H]; [left; exact H|right; eapply IH; exact H].
Qed.

Lemma dedup_by_extent_fst l seen A :
  In A (map fst (dedup_by_extent l seen)) <-> In A (map fst l) /\ ~ In A seen.
Proof.
  revert seen. induction l as [|x l IH]; intros seen; simpl; [tauto|].
  destruct (existsb (nat_list_eqb (fst x)) seen) eqn:E.
  - rewrite IH. apply existsb_exists in E. destruct E as [y [Hy Ey]]. apply nat_list_eqb_eq in Ey. subst y.
    split; [tauto|]. intros [[H|H] Hn]; [subst; contradiction|tauto].
  - assert (Hn : ~ In (fst x) seen).
    { intros H. assert (X : existsb (nat_list_eqb (fst x)) seen = true).
      { apply existsb_exists. exists (fst x). split; [exact H|apply nat_list_eqb_eq; reflexivity]. }
      congruence. }
    simpl. rewrite IH. simpl. split.
    + intros [H|[H1 H2]]; [subst; tauto|]. split; [tauto|]. intros H. apply H2. right. exact H.
    + intros [[H|H] H2]; [left; exact H|].
      destruct (list_eq_dec Nat.eq_dec (fst x) A) as [Eq|Ne]; [left; exact Eq|right].
      split; [exact H|]. intros [H3|H3]; [contradiction|contradiction].
Qed.

Lemma dedup_by_extent_NoDup l seen : NoDup (map fst (dedup_by_extent l seen)).
Proof.
  revert seen. induction l as [|x l IH]; intros seen; simpl; [constructor|].
  destruct (existsb (nat_list_eqb (fst x)) seen); [apply IH|].
  simpl. constructor; [|apply IH]. rewrite dedup_by_extent_fst. intros [_ H]. apply H. left. reflexivity.
Qed.

Definition rf_seeds (K : mvctx) (ts : list tree) : list (list nat) :=
  tree_extents ts (mv_to_numeric K) ++ [mv_extension K (mv_intention K [])].

Lemma rf_seeds_in_range K ts A : In A (rf_seeds K ts) -> in_range (mv_nobj K) A.
Proof.
  unfold rf_seeds. intros H. apply in_app_or in H. destruct H as [H|[H|[]]].
  - apply tree_extents_char in H. destruct H as [t [p [_ [_ E]]]]. subst.
    intros g Hg. apply rows_reaching_in_range in Hg. rewrite mv_to_numeric_length in Hg. exact Hg.
  - subst. rewrite mv_extension_spec. intros g Hg. apply mv_ext_spec_In in Hg. tauto.
Qed.

Lemma rf_concepts_eq K ts :
  rf_concepts K ts
  = dedup_by_extent (map (fun A => (mv_cl K A, mv_int_spec K A)) (rf_seeds K ts)) [].
Proof.
  unfold rf_concepts. fold (rf_seeds K ts). f_equal. apply map_ext. intros A.
  unfold mv_from_objects. rewrite mv_intention_spec, mv_extension_spec. reflexivity.
Qed.

(* rf_genuine: for every many-valued context of interval columns and every forest *)
Theorem rf_genuine K ts : forall A d, In (A, d) (rf_concepts K ts) -> mv_is_concept K A d.
Proof.
  intros A d H. rewrite rf_concepts_eq in H. apply dedup_by_extent_In in H.
  apply in_map_iff in H. destruct H as [A0 [E H]]. inversion E; subst.
  apply mv_closure_is_concept. eapply rf_seeds_in_range. exact H.
Qed.

Theorem rf_distinct K ts : NoDup (map fst (rf_concepts K ts)).
Proof. rewrite rf_concepts_eq. apply dedup_by_extent_NoDup. Qed.

Lemma mv_cl_all K : mv_cl K (seq 0 (mv_nobj K)) = seq 0 (mv_nobj K).
Proof.
  unfold mv_cl, mv_ext_spec.
  rewrite (filter_ext_in' _ (fun _ => true)); [apply Lemmas.C01.filter_true_id|].
  intros g Hg. apply covered_extensive. exact Hg.
Qed.

Theorem rf_top K ts : ts <> [] -> In (seq 0 (mv_nobj K)) (map fst (rf_concepts K ts)).
Proof.
  intros Hne. rewrite rf_concepts_eq. apply dedup_by_extent_fst. split; [|intros []].
  rewrite map_map. simpl. apply in_map_iff. exists (seq 0 (mv_nobj K)). split; [apply mv_cl_all|].
  unfold rf_seeds. apply in_or_app. left. apply tree_extents_char.
  destruct ts as [|t ts']; [congruence|]. exists t, []. split; [left; reflexivity|].
  split; [apply node_paths_root|]. rewrite rows_reaching_root, mv_to_numeric_length. reflexivity.
Qed.

(* the extents returned are exactly the closures of the node extents and of the empty set's closure *)
Theorem rf_extents K ts A :
  In A (map fst (rf_concepts K ts)) <-> exists A0, In A0 (rf_seeds K ts) /\ A = mv_cl K A0.
Proof.
  rewrite rf_concepts_eq, dedup_by_extent_fst, map_map. simpl. rewrite in_map_iff. split.
  - intros [[A0 [E H]] _]. exists A0. auto.
  - intros [A0 [H E]]. split; [exists A0; auto|intros []].
Qed.

(* ---- before the repair (is_extent=True): node extents were returned as they are.  They are
   genuine when every cell is a point ... *)
Theorem rf_unrepaired_points_genuine K ts :
  mv_points K ->
  forall A d, In (A, d) (rf_concepts_unrepaired K ts) -> mv_is_concept K A d.
Proof.
  intros Hp A d H. unfold rf_concepts_unrepaired in H. apply in_map_iff in H.
  destruct H as [A0 [E H]]. unfold mv_from_objects in E. inversion E; subst A d; clear E.
  rewrite mv_intention_spec. apply in_app_or in H. destruct H as [H|[H|[]]].
  - apply tree_extents_char in H. destruct H as [t [p [_ [_ E]]]]. subst A0.
    apply (box_closed K t p Hp).
  - subst A0. rewrite mv_intention_spec, mv_extension_spec.
    fold (mv_cl K []).
    assert (X : mv_is_concept K (mv_cl K []) (mv_int_spec K [])) by (apply mv_closure_is_concept; intros x []).
    destruct X as [X1 X2]. split; [|reflexivity]. rewrite <- X2. exact X1.
Qed.

(* ... and not in general: two objects with proper intervals, one split on the left end *)
Definition d20_K : mvctx := [[(0, 3); (1, 1)]%Z].
Definition d20_tree : tree := Node 0 (1 # 2) Leaf Leaf.

Theorem rf_unrepaired_refuted :
  exists K ts, mv_wf K /\ exists A d, In (A, d) (rf_concepts_unrepaired K ts) /\ ~ mv_is_concept K A d.
Proof.
  exists d20_K, [d20_tree]. split.
  - split; [discriminate|]. repeat constructor.
  - exists [0], [Some (0, 3)%Z]. split.
    + vm_compute. right. left. reflexivity.
    + intros [H _]. vm_compute in H. discriminate.
Qed.

(* ------------------------------------------------------------ the two measures of the code
   give one value per extent *)
Lemma casp_from_length all nobj k l : length (fst (casp_from all nobj k l)) = length l.
Proof. revert k. induction l as [|e l IH]; intros k; simpl; [reflexivity|]. rewrite IH. reflexivity. Qed.

Theorem measure_of_length use_log l : length (measure_of use_log l) = length l.
Proof.
  destruct use_log; simpl.
  - unfold stability_lbounds_log. rewrite map_length, combine_length, seq_length. apply Nat.min_id.
  - unfold stability_lbounds_delta. rewrite map_length, combine_length.
    unfold inverse_order. rewrite map_length, seq_length.
    unfold sort_intents_inclusion. rewrite casp_from_length. apply Nat.min_id.
Qed.

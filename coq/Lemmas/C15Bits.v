(* Lemmas/C15Bits.v — bit rows, [search1], de-duplication, the two insertion sorts and the
   pruning filter of Sofia: the list lemmas behind property C15. *)
From Coq Require Import QArith Permutation.
From FCA Require Import Base.ListSet Model.BinTable Lemmas.BitRow Spec.Closure.
From FCA Require Import Model.Sofia.
Local Open Scope nat_scope.

(* ------------------------------------------------------------ search1 *)

Lemma In_search1_from k e g :
  In g (search1_from k e) <-> k <= g /\ nth (g - k) e false = true.
Proof.
  revert k. induction e as [|f e IH]; intros k; simpl.
  - split; [tauto|]. intros [_ H]. destruct (g - k); discriminate.
  - assert (X : In g (search1_from (S k) e) <-> S k <= g /\ nth (g - S k) e false = true) by apply IH.
    destruct f; simpl; rewrite X; split.
    + intros [H|[H1 H2]]; [subst; rewrite Nat.sub_diag; auto|].
      split; [lia|]. replace (g - k) with (S (g - S k)) by lia. exact H2.
    + intros [H1 H2]. destruct (Nat.eq_dec k g) as [E|E]; [left; exact E|right].
      split; [lia|]. replace (g - k) with (S (g - S k)) in H2 by lia. exact H2.
    + intros [H1 H2]. split; [lia|]. replace (g - k) with (S (g - S k)) by lia. exact H2.
    + intros [H1 H2]. destruct (Nat.eq_dec k g) as [E|E].
      * subst. rewrite Nat.sub_diag in H2. discriminate.
      * split; [lia|]. replace (g - k) with (S (g - S k)) in H2 by lia. exact H2.
Qed.

Lemma In_search1 e g : In g (search1 e) <-> nth g e false = true.
Proof.
  unfold search1. rewrite In_search1_from, Nat.sub_0_r. split; [tauto|]. intros H. split; [lia|exact H].
Qed.

Lemma search1_filter e : search1 e = filter (fun g => nth g e false) (seq 0 (length e)).
Proof.
  transitivity (select (seq 0 (length e)) (map (fun g => nth g e false) (seq 0 (length e)))).
  - rewrite map_nth_seq. apply search1_select.
  - apply select_map_filter.
Qed.

Lemma search1_lt e g : In g (search1 e) -> g < length e.
Proof.
  rewrite In_search1. intros H. destruct (Nat.lt_ge_cases g (length e)) as [L|L]; [exact L|].
  rewrite nth_overflow in H by exact L. discriminate.
Qed.

Lemma search1_inj e1 e2 : length e1 = length e2 -> search1 e1 = search1 e2 -> e1 = e2.
Proof.
  intros Hl H. apply (nth_ext _ _ false false); [exact Hl|]. intros k _.
  apply bool_eq_iff. rewrite <- !In_search1, H. tauto.
Qed.

Lemma search1_repeat_true n : search1 (repeat true n) = seq 0 n.
Proof.
  rewrite search1_filter, repeat_length.
  rewrite (filter_ext_in' _ (fun _ => true)).
  - induction (seq 0 n) as [|x l IH]; simpl; [reflexivity|]. rewrite IH. reflexivity.
  - intros x Hx. apply in_seq in Hx. apply nth_repeat_lt. lia.
Qed.

Lemma band_length a b : length (band a b) = Nat.min (length a) (length b).
Proof. apply map2_length. Qed.

Lemma nth_band a b k : length a = length b -> nth k (band a b) false = nth k a false && nth k b false.
Proof.
  intros Hl. destruct (Nat.lt_ge_cases k (length a)) as [L|L].
  - unfold band. apply nth_map2; lia.
  - rewrite !nth_overflow; try reflexivity; try lia. rewrite band_length. lia.
Qed.

Lemma search1_band e a : length e = length a ->
  search1 (band e a) = filter (fun g => nth g a false) (search1 e).
Proof.
  intros Hl. rewrite !search1_filter, band_length, <- Hl, Nat.min_id.
  rewrite filter_filter'. apply filter_ext_in'. intros g _. apply nth_band. exact Hl.
Qed.

(* ------------------------------------------------------------ count / subset *)

Lemma bcount_search1 e : bcount e = length (search1 e).
Proof.
  unfold bcount, search1. generalize 0 as k. induction e as [|f e IH]; intros k; simpl; [reflexivity|].
  destruct f; simpl; rewrite (IH (S k)); reflexivity.
Qed.

Lemma filter_length_le {A} (f : A -> bool) l : length (filter f l) <= length l.
Proof. induction l as [|x l IH]; simpl; [lia|]. destruct (f x); simpl; lia. Qed.

Lemma bcount_le_length e : bcount e <= length e.
Proof. unfold bcount. apply filter_length_le. Qed.

Lemma bcount_full e : bcount e = length e -> e = repeat true (length e).
Proof.
  unfold bcount. induction e as [|f e IH]; simpl; intros H; [reflexivity|].
  destruct f; simpl in *.
  - f_equal. apply IH. lia.
  - pose proof (filter_length_le id e). lia.
Qed.

Lemma bcount_repeat_true n : bcount (repeat true n) = n.
Proof. unfold bcount. induction n as [|n IH]; simpl; [reflexivity|]. rewrite IH. reflexivity. Qed.

Lemma subset_ba_spec p e : length p = length e ->
  (subset_ba p e = true <-> forall k, nth k p false = true -> nth k e false = true).
Proof.
  intros Hl. unfold subset_ba. rewrite bool_list_eqb_eq. split.
  - intros H k Hk. rewrite <- H in Hk. rewrite nth_band in Hk by exact Hl.
    apply andb_true_iff in Hk. tauto.
  - intros H. apply (nth_ext _ _ false false).
    + rewrite band_length. lia.
    + intros k _. rewrite nth_band by exact Hl.
      destruct (nth k p false) eqn:E; [|reflexivity]. rewrite (H k E). reflexivity.
Qed.

Lemma subset_ba_refl p : subset_ba p p = true.
Proof. apply subset_ba_spec; [reflexivity|]. auto. Qed.

Lemma subset_ba_full p n : length p = n -> subset_ba p (repeat true n) = true.
Proof.
  intros Hl. apply subset_ba_spec; [rewrite repeat_length; exact Hl|].
  intros k Hk. assert (k < n).
  { destruct (Nat.lt_ge_cases k n) as [L|L]; [exact L|]. rewrite nth_overflow in Hk by lia. discriminate. }
  apply nth_repeat_lt. exact H.
Qed.

Lemma subset_ba_incl p e : length p = length e -> subset_ba p e = true -> incl (search1 p) (search1 e).
Proof.
  intros Hl H g. rewrite !In_search1. apply (proj1 (subset_ba_spec p e Hl) H).
Qed.

(* a subset with at least as many members is the whole set *)
Lemma subset_count_eq p e :
  length p = length e -> (forall k, nth k p false = true -> nth k e false = true) ->
  bcount e <= bcount p -> p = e.
Proof.
  revert e. induction p as [|a p IH]; intros [|b e] Hl H Hc; simpl in *; try discriminate; [reflexivity|].
  assert (Hsub : forall k, nth k p false = true -> nth k e false = true) by (intros k; apply (H (S k))).
  assert (Hle : bcount p <= bcount e).
  { clear -Hsub Hl. revert e Hl Hsub. induction p as [|x p IHp]; intros [|y e] Hl Hs; simpl in *; try discriminate; [lia|].
    assert (bcount p <= bcount e).
    { apply IHp; [lia|]. intros k. apply (Hs (S k)). }
    unfold bcount in *. simpl. specialize (Hs 0). simpl in Hs. destruct x, y; simpl; try lia.
    all: try (specialize (Hs eq_refl); discriminate). }
  pose proof (H 0) as H0. simpl in H0. unfold bcount in *. simpl in Hc.
  destruct a, b; simpl in *.
  - f_equal. apply IH; [lia|exact Hsub|lia].
  - specialize (H0 eq_refl). discriminate.
  - lia.
  - f_equal. apply IH; [lia|exact Hsub|lia].
Qed.

Lemma subset_ba_antisym p e : length p = length e ->
  subset_ba p e = true -> subset_ba e p = true -> p = e.
Proof.
  intros Hl H1 H2. apply (nth_ext _ _ false false); [exact Hl|]. intros k _.
  apply bool_eq_iff. split.
  - apply (proj1 (subset_ba_spec p e Hl) H1).
  - apply (proj1 (subset_ba_spec e p (eq_sym Hl)) H2).
Qed.

Lemma subset_ba_trans a b c : length a = length b -> length b = length c ->
  subset_ba a b = true -> subset_ba b c = true -> subset_ba a c = true.
Proof.
  intros L1 L2 H1 H2. apply subset_ba_spec; [lia|]. intros k Hk.
  apply (proj1 (subset_ba_spec b c L2) H2). apply (proj1 (subset_ba_spec a b L1) H1). exact Hk.
Qed.

Lemma subset_ba_band_l e a : length e = length a -> subset_ba (band e a) e = true.
Proof.
  intros Hl. apply subset_ba_spec; [rewrite band_length; lia|].
  intros k. rewrite nth_band by exact Hl. intros H. apply andb_true_iff in H. tauto.
Qed.

Lemma subset_ba_band_mono p e a : length p = length e -> length e = length a ->
  subset_ba p e = true -> subset_ba (band p a) (band e a) = true.
Proof.
  intros L1 L2 H. apply subset_ba_spec; [rewrite !band_length; lia|].
  intros k. rewrite !nth_band by lia. intros Hk. apply andb_true_iff in Hk. destruct Hk as [H1 H2].
  rewrite H2, andb_true_r. apply (proj1 (subset_ba_spec p e L1) H). exact H1.
Qed.

Lemma subset_count_le p e : length p = length e -> subset_ba p e = true -> bcount p <= bcount e.
Proof.
  intros Hl H. rewrite !bcount_search1.
  apply NoDup_incl_length; [|apply subset_ba_incl; assumption].
  rewrite search1_filter. apply NoDup_filter, seq_NoDup.
Qed.

(* ------------------------------------------------------------ dedup *)

Lemma dedup_In l x : In x (dedup l) <-> In x l.
Proof.
  induction l as [|y l IH]; simpl; [tauto|].
  destruct (existsb (bool_list_eqb y) l) eqn:E.
  - rewrite IH. split; [auto|]. intros [H|H]; [|exact H]. subst.
    apply existsb_exists in E. destruct E as [z [Hz Ez]]. apply bool_list_eqb_eq in Ez. subst. exact Hz.
  - simpl. rewrite IH. tauto.
Qed.

Lemma dedup_NoDup l : NoDup (dedup l).
Proof.
  induction l as [|y l IH]; simpl; [constructor|].
  destruct (existsb (bool_list_eqb y) l) eqn:E; [exact IH|].
  constructor; [|exact IH]. rewrite dedup_In. intros H.
  assert (X : existsb (bool_list_eqb y) l = true).
  { apply existsb_exists. exists y. split; [exact H | apply bool_list_eqb_eq; reflexivity]. }
  congruence.
Qed.

(* ------------------------------------------------------------ stable sort by support *)

Fixpoint sorted_cnt (l : list extent) : Prop :=
  match l with
  | [] => True
  | x :: l' => (forall y, In y l' -> bcount x <= bcount y) /\ sorted_cnt l'
  end.

Lemma insert_by_count_perm e l : Permutation (e :: l) (insert_by_count e l).
Proof.
  induction l as [|x l IH]; simpl; [apply Permutation_refl|].
  destruct (bcount e <=? bcount x); [apply Permutation_refl|].
  eapply Permutation_trans; [apply perm_swap|]. apply perm_skip. exact IH.
Qed.

Lemma sort_by_count_perm l : Permutation l (sort_by_count l).
Proof.
  induction l as [|x l IH]; simpl; [constructor|].
  eapply Permutation_trans; [apply perm_skip; exact IH|]. apply insert_by_count_perm.
Qed.

Lemma insert_by_count_sorted e l : sorted_cnt l -> sorted_cnt (insert_by_count e l).
Proof.
  induction l as [|x l IH]; simpl; intros H.
  - split; [intros y []|exact Logic.I].
  - destruct H as [H1 H2]. destruct (bcount e <=? bcount x) eqn:E.
    + apply Nat.leb_le in E. simpl. split; [|split; assumption].
      intros y [Hy|Hy]; [subst; exact E|]. specialize (H1 y Hy). lia.
    + apply Nat.leb_gt in E. simpl. split; [|apply IH; exact H2].
      intros y Hy. apply (Permutation_in _ (Permutation_sym (insert_by_count_perm e l))) in Hy.
      destruct Hy as [Hy|Hy]; [subst; lia|apply H1; exact Hy].
Qed.

Lemma sort_by_count_sorted l : sorted_cnt (sort_by_count l).
Proof. induction l as [|x l IH]; simpl; [exact Logic.I|]. apply insert_by_count_sorted. exact IH. Qed.

Lemma sorted_cnt_filter f l : sorted_cnt l -> sorted_cnt (filter f l).
Proof.
  induction l as [|x l IH]; simpl; intros H; [exact Logic.I|]. destruct H as [H1 H2].
  destruct (f x); simpl; [split|]; try (apply IH; exact H2).
  intros y Hy. apply filter_In in Hy. apply H1. tauto.
Qed.

Lemma last_In {A} (l : list A) d : l <> [] -> In (last l d) l.
Proof.
  induction l as [|x l IH]; intros H; [congruence|].
  destruct l as [|y l']; [left; reflexivity|]. right. apply IH. discriminate.
Qed.

Lemma sorted_cnt_last l d x : sorted_cnt l -> In x l -> bcount x <= bcount (last l d).
Proof.
  induction l as [|y l IH]; simpl; intros Hs Hx; [contradiction|].
  destruct Hs as [H1 H2]. destruct l as [|z l'].
  - destruct Hx as [Hx|[]]. subst. lia.
  - destruct Hx as [Hx|Hx].
    + subst. apply H1. apply last_In. discriminate.
    + apply IH; assumption.
Qed.

(* ------------------------------------------------------------ sorting rationals, the threshold *)

Definition count_gt (th : Q) (l : list Q) : nat := length (filter (fun m => Qlt_b th m) l).

Fixpoint desc_sorted (l : list Q) : Prop :=
  match l with
  | [] => True
  | x :: l' => (forall y, In y l' -> (y <= x)%Q) /\ desc_sorted l'
  end.
Fixpoint asc_sorted (l : list Q) : Prop :=
  match l with
  | [] => True
  | x :: l' => (forall y, In y l' -> (x <= y)%Q) /\ asc_sorted l'
  end.

Lemma qinsert_perm v l : Permutation (v :: l) (qinsert v l).
Proof.
  induction l as [|x l IH]; simpl; [apply Permutation_refl|].
  destruct (Qle_bool v x); [apply Permutation_refl|].
  eapply Permutation_trans; [apply perm_swap|]. apply perm_skip. exact IH.
Qed.

Lemma qsort_perm l : Permutation l (qsort l).
Proof.
  induction l as [|x l IH]; simpl; [constructor|].
  eapply Permutation_trans; [apply perm_skip; exact IH|]. apply qinsert_perm.
Qed.

Lemma qinsert_sorted v l : asc_sorted l -> asc_sorted (qinsert v l).
Proof.
  induction l as [|x l IH]; simpl; intros H.
  - split; [intros y []|exact Logic.I].
  - destruct H as [H1 H2]. destruct (Qle_bool v x) eqn:E.
    + apply Qle_bool_iff in E. simpl. split; [|split; assumption].
      intros y [Hy|Hy]; [subst; exact E|]. eapply Qle_trans; [exact E|apply H1; exact Hy].
    + assert (Hx : (x <= v)%Q).
      { destruct (Qlt_le_dec x v) as [L|L]; [apply Qlt_le_weak; exact L|].
        apply Qle_bool_iff in L. congruence. }
      simpl. split; [|apply IH; exact H2].
      intros y Hy. apply (Permutation_in _ (Permutation_sym (qinsert_perm v l))) in Hy.
      destruct Hy as [Hy|Hy]; [subst; exact Hx|apply H1; exact Hy].
Qed.

Lemma qsort_sorted l : asc_sorted (qsort l).
Proof. induction l as [|x l IH]; simpl; [exact Logic.I|]. apply qinsert_sorted. exact IH. Qed.

Lemma desc_sorted_snoc l x : desc_sorted l -> (forall y, In y l -> (x <= y)%Q) -> desc_sorted (l ++ [x]).
Proof.
  induction l as [|z l IH]; simpl; intros Hs Hx.
  - split; [intros y []|exact Logic.I].
  - destruct Hs as [H1 H2]. split.
    + intros y Hy. apply in_app_or in Hy. destruct Hy as [Hy|[Hy|[]]]; [apply H1; exact Hy|].
      subst. apply Hx. left. reflexivity.
    + apply IH; [exact H2|]. intros y Hy. apply Hx. right. exact Hy.
Qed.

Lemma asc_rev_desc l : asc_sorted l -> desc_sorted (rev l).
Proof.
  induction l as [|x l IH]; simpl; intros H; [exact Logic.I|]. destruct H as [H1 H2].
  apply desc_sorted_snoc; [apply IH; exact H2|].
  intros y Hy. apply in_rev in Hy. apply H1. exact Hy.
Qed.

Lemma count_gt_perm th l1 l2 : Permutation l1 l2 -> count_gt th l1 = count_gt th l2.
Proof.
  unfold count_gt. induction 1; simpl; try reflexivity.
  - destruct (Qlt_b th x); simpl; rewrite IHPermutation; reflexivity.
  - destruct (Qlt_b th x), (Qlt_b th y); reflexivity.
  - congruence.
Qed.

Lemma count_gt_zero th l : (forall y, In y l -> (y <= th)%Q) -> count_gt th l = 0.
Proof.
  unfold count_gt. induction l as [|x l IH]; simpl; intros H; [reflexivity|].
  assert (E : Qlt_b th x = false).
  { unfold Qlt_b. apply negb_false_iff. apply Qle_bool_iff. apply H. left. reflexivity. }
  rewrite E. apply IH. intros y Hy. apply H. right. exact Hy.
Qed.

(* strictly greater than the (L+1)-th largest: at most L values *)
Lemma count_gt_desc l L : desc_sorted l -> L < length l -> count_gt (nth L l 0%Q) l <= L.
Proof.
  revert L. induction l as [|x l IH]; intros L Hs Hl; simpl in *; [lia|].
  destruct Hs as [H1 H2]. destruct L as [|L].
  - rewrite (count_gt_zero x (x :: l)); [lia|].
    intros y [Hy|Hy]; [subst; apply Qle_refl|apply H1; exact Hy].
  - unfold count_gt in *. simpl. specialize (IH L H2 ltac:(lia)).
    destruct (Qlt_b (nth L l 0%Q) x); simpl; lia.
Qed.

Theorem count_gt_threshold vals L : L < length vals -> count_gt (threshold vals L) vals <= L.
Proof.
  intros Hl. unfold threshold.
  assert (P : Permutation vals (rev (qsort vals))).
  { eapply Permutation_trans; [apply qsort_perm|apply Permutation_rev]. }
  rewrite (count_gt_perm _ _ _ P).
  apply count_gt_desc.
  - apply asc_rev_desc, qsort_sorted.
  - rewrite <- (Permutation_length P). exact Hl.
Qed.

(* ------------------------------------------------------------ the pruning filter *)

Lemma prune_from_In k last th evs e : In e (prune_from k last th evs) -> In e (map fst evs).
Proof.
  revert k. induction evs as [|[x m] r IH]; intros k; simpl; [tauto|].
  destruct (Qlt_b th m || (k =? 0) || (k =? last)); simpl; intros H.
  - destruct H as [H|H]; [left; exact H|right; eapply IH; exact H].
  - right. eapply IH; exact H.
Qed.

Lemma prune_from_NoDup k last th evs : NoDup (map fst evs) -> NoDup (prune_from k last th evs).
Proof.
  revert k. induction evs as [|[x m] r IH]; intros k; simpl; intros H; [constructor|].
  inversion H; subst.
  destruct (Qlt_b th m || (k =? 0) || (k =? last)); [|apply IH; assumption].
  constructor; [|apply IH; assumption]. intros Hx. apply prune_from_In in Hx. contradiction.
Qed.

Lemma prune_from_length k last th evs :
  length (prune_from k last th evs)
  <= count_gt th (map snd evs) + (if k =? 0 then 1 else 0)
     + (if (k <=? last) && (last <? k + length evs) then 1 else 0).
Proof.
  revert k. induction evs as [|[x m] r IH]; intros k; simpl; [lia|].
  specialize (IH (S k)). unfold count_gt in *. cbn [map snd filter length] in *.
  change (S k =? 0) with false in IH.
  destruct (Qlt_b th m); cbn [orb length];
    destruct (Nat.eqb_spec k 0); destruct (Nat.eqb_spec k last); cbn [orb length];
    repeat match goal with
           | H : context [?a <=? ?b] |- _ => destruct (Nat.leb_spec a b)
           | |- context [?a <=? ?b] => destruct (Nat.leb_spec a b)
           | H : context [?a <? ?b] |- _ => destruct (Nat.ltb_spec a b)
           | |- context [?a <? ?b] => destruct (Nat.ltb_spec a b)
           end; cbn [andb length] in *; lia.
Qed.

Lemma prune_from_keeps_last k last th evs d :
  evs <> [] -> k + length evs = S last -> In (fst (List.last evs d)) (prune_from k last th evs).
Proof.
  revert k. induction evs as [|[x m] r IH]; intros k Hne Hl; [congruence|].
  destruct r as [|p r'].
  - simpl in *. assert (E : k =? last = true) by (apply Nat.eqb_eq; lia).
    rewrite E, !orb_true_r. left. reflexivity.
  - assert (X : In (fst (List.last (p :: r') d)) (prune_from (S k) last th (p :: r'))).
    { apply IH; [discriminate|simpl in *; lia]. }
    change (List.last ((x, m) :: p :: r') d) with (List.last (p :: r') d).
    cbn [prune_from]. destruct (Qlt_b th m || (k =? 0) || (k =? last)); [right|]; exact X.
Qed.

Lemma prune_head e m r last th :
  prune_from 0 last th ((e, m) :: r) = e :: prune_from 1 last th r.
Proof. simpl. rewrite orb_true_r. reflexivity. Qed.

Lemma combine_map_fst {A B} (l : list A) (l' : list B) : length l = length l' -> map fst (combine l l') = l.
Proof.
  revert l'. induction l as [|x l IH]; intros [|y l'] H; simpl in *; try discriminate; [reflexivity|].
  f_equal. apply IH. lia.
Qed.
Lemma combine_map_snd {A B} (l : list A) (l' : list B) : length l = length l' -> map snd (combine l l') = l'.
Proof.
  revert l'. induction l as [|x l IH]; intros [|y l'] H; simpl in *; try discriminate; [reflexivity|].
  f_equal. apply IH. lia.
Qed.

Lemma last_combine_fst {A B} (l : list A) (l' : list B) d d' :
  length l = length l' -> l <> [] -> fst (last (combine l l') (d, d')) = last l d.
Proof.
  revert l'. induction l as [|x l IH]; intros [|y l'] H Hne; simpl in *; try discriminate; [congruence|].
  destruct l as [|x' l2]; destruct l' as [|y' l2']; simpl in *; try discriminate; [reflexivity|].
  apply (IH (y' :: l2')); [simpl; lia|discriminate].
Qed.

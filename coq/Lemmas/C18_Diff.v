(* Lemmas/C18_Diff.v — generators_by_intent_difference: each returned one-column generator selects,
   among the objects that satisfy the old (more general) intent on that column, exactly those that
   satisfy the new one. *)
From FCA Require Import Model.C18_MinGen Spec.C18_MinGenSpec Lemmas.C18_MV.
From Coq Require Import ZArith Lia.
Local Open Scope nat_scope.

Lemma beqb_eq a b : beqb a b = true <-> a = b.
Proof.
  destruct a, b; cbn; split; intros H; try reflexivity; try discriminate.
  - apply Z.eqb_eq in H. subst. reflexivity.
  - inversion H. apply Z.eqb_refl.
Qed.

Lemma bleb_refl a : bleb a a = true.
Proof. destruct a; cbn; try reflexivity. apply Z.leb_refl. Qed.

Lemma bleb_antisym a b : bleb a b = true -> bleb b a = true -> a = b.
Proof.
  destruct a, b; cbn; intros H1 H2; try reflexivity; try discriminate.
  apply Z.leb_le in H1. apply Z.leb_le in H2. f_equal. lia.
Qed.

Lemma bleb_trans a b c : bleb a b = true -> bleb b c = true -> bleb a c = true.
Proof.
  destruct a, b, c; cbn; intros H1 H2; try reflexivity; try discriminate.
  apply Z.leb_le in H1. apply Z.leb_le in H2. apply Z.leb_le. lia.
Qed.

(* value-level satisfaction of a one-column description *)
Definition sat_val (d : descr) (v : Z * Z) : bool :=
  match d with
  | DNone => false
  | DIv lo hi => within v lo hi
  | DNum x => within v x x
  end.

Lemma satisfies1_val K ps d g : satisfies1 K ps d g = sat_val d (cellv K ps g).
Proof. destruct d; reflexivity. Qed.

Theorem ps_gens_by_diff_sound nlo nhi olo ohi gs :
  bleb olo nlo = true -> bleb nhi ohi = true -> bleb nlo nhi = true ->
  ps_gens_by_diff (DIv nlo nhi) (DIv olo ohi) = ROk gs ->
  (gs = [] <-> (olo = nlo /\ ohi = nhi)) /\
  forall g v, In g gs -> within v olo ohi = true -> sat_val g v = within v nlo nhi.
Proof.
  intros Hlo Hhi Hn H. unfold ps_gens_by_diff in H.
  destruct (beqb olo nlo) eqn:El; destruct (beqb ohi nhi) eqn:Er; cbn [andb] in H.
  - apply beqb_eq in El. apply beqb_eq in Er. inversion H; subst. split; [tauto|]. intros g v [].
  - apply beqb_eq in El. inversion H; subst. split.
    + split; [discriminate|]. intros [_ E]. subst. rewrite (proj2 (beqb_eq nhi nhi) eq_refl) in Er. discriminate.
    + intros g v [<-|[]] Hv. cbn [sat_val]. unfold within in *. apply andb_true_iff in Hv.
      destruct Hv as [Hv _]. rewrite Hv. reflexivity.
  - apply beqb_eq in Er. inversion H; subst. split.
    + split; [discriminate|]. intros [E _]. subst. rewrite (proj2 (beqb_eq nlo nlo) eq_refl) in El. discriminate.
    + intros g v [<-|[]] Hv. cbn [sat_val]. unfold within in *. apply andb_true_iff in Hv.
      destruct Hv as [_ Hv]. rewrite Hv. cbn. rewrite andb_true_r. reflexivity.
  - (* both ends differ: the intersection of the two intervals, i.e. the new one *)
    unfold generators_to_description in H. cbn [existsb is_dnone orb map gen_lo gen_hi fold_left] in H.
    assert (Elo : bmax nlo olo = nlo).
    { unfold bmax. destruct (bleb nlo olo) eqn:E; [|reflexivity]. symmetry. apply bleb_antisym; assumption. }
    assert (Ehi : bmin nhi ohi = nhi).
    { unfold bmin. rewrite Hhi. reflexivity. }
    rewrite Elo, Ehi, Hn in H. cbn [rbind] in H. inversion H; subst. split.
    + split; [discriminate|]. intros [E _]. subst. rewrite (proj2 (beqb_eq nlo nlo) eq_refl) in El. discriminate.
    + intros g v [<-|[]] _. destruct (beqb nlo nhi) eqn:E; [|reflexivity].
      apply beqb_eq in E. subst. reflexivity.
Qed.

(* structure of the many-valued result: one single-column description per produced generator,
   in column order *)
Lemma gens_by_diff_from_In new old : forall n ps l,
  gens_by_diff_from ps n new old = ROk l ->
  forall d, In d l ->
    exists ps' g gs, ps <= ps' < ps + n /\ d = [(ps', g)] /\
                     ps_gens_by_diff (dd_get new ps') (dd_get old ps') = ROk gs /\ In g gs.
Proof.
  induction n as [|n IH]; intros ps l H d Hd; cbn [gens_by_diff_from] in H.
  - inversion H; subst. destruct Hd.
  - apply rbind_ok in H. destruct H as [gs [H1 H2]]. apply rbind_ok in H2. destruct H2 as [rest [H2 H3]].
    inversion H3; subst. apply in_app_or in Hd. destruct Hd as [Hd|Hd].
    + apply in_map_iff in Hd. destruct Hd as [g [E Hg]]. exists ps, g, gs. split; [lia|]. split; [symmetry; exact E|]. tauto.
    + destruct (IH (S ps) rest H2 d Hd) as [ps' [g [gs' [Hr X]]]]. exists ps', g, gs'. split; [lia | exact X].
Qed.

Theorem generators_by_intent_difference_sound K new old l :
  generators_by_intent_difference K new old = ROk l ->
  forall d, In d l ->
    exists ps g gs, ps < length (mv_cols K) /\ d = [(ps, g)] /\
                    ps_gens_by_diff (dd_get new ps) (dd_get old ps) = ROk gs /\ In g gs.
Proof.
  unfold generators_by_intent_difference. intros H d Hd.
  destruct (gens_by_diff_from_In new old _ _ _ H d Hd) as [ps [g [gs [Hr X]]]].
  exists ps, g, gs. split; [lia | exact X].
Qed.

(* Lemmas/C02_CbO.v — the object-wise Close-by-One traversal at the level of object tuples.
   [tuples t E cands] is the pre-order list of extent tuples the DFS yields below a node with
   extent tuple E whose remaining candidate objects are cands; it is written with the spec
   operators only.  Proved here, for every table:
     soundness     every yielded tuple is duplicate-free, in range and closed,
     no duplicates no two yielded tuples denote the same set,
     completeness  every closed object set is yielded (the canonical-prefix argument).
   Lemmas/C02_CbOModel.v shows that the two Python generators yield exactly these tuples. *)
From FCA Require Import Base.ListSet Model.BinTable Spec.Galois Spec.Closure.

Lemma NoDup_app_intro' {A} (l1 l2 : list A) :
  NoDup l1 -> NoDup l2 -> (forall x, In x l1 -> ~ In x l2) -> NoDup (l1 ++ l2).
Proof.
  induction l1 as [|a l1 IH]; intros H1 H2 H; simpl; [exact H2|].
  inversion H1; subst. constructor.
  - intros Hin. apply in_app_or in Hin. destruct Hin as [Hin|Hin]; [contradiction|].
    apply (H a); [left; reflexivity | exact Hin].
  - apply IH; [assumption | assumption |]. intros x Hx. apply H. right. exact Hx.
Qed.

Section CbO.
Variable t : table.
Let n := height t.

Definition newp (comb C : list nat) (h : nat) : bool := negb (mem h comb) && mem h C.

Definition child_tuple (E : list nat) (g : nat) : list nat :=
  let comb := E ++ [g] in
  comb ++ filter (newp comb (cl_obj t comb)) (seq (S g) (n - S g)).

Definition lex_fails (E : list nat) (g : nat) : bool :=
  let comb := E ++ [g] in existsb (newp comb (cl_obj t comb)) (seq 0 g).

Fixpoint tuples (E : list nat) (cands : list nat) {struct cands} : list (list nat) :=
  match cands with
  | [] => []
  | g :: rest =>
      (if mem g E then [] else
         if lex_fails E g then [] else
           child_tuple E g :: tuples (child_tuple E g) rest)
      ++ tuples E rest
  end.

Definition root_tuple : list nat := ext t (int t []).
Definition cbo_tuples : list (list nat) := root_tuple :: tuples root_tuple (seq 0 n).

Definition good (E : list nat) : Prop := in_range n E /\ NoDup E.
Definition closed (E : list nat) : Prop := same_set E (cl_obj t E).

(* ------------------------------------------------------------ helpers *)

Lemma cl_same_set X Y : same_set X Y -> cl_obj t X = cl_obj t Y.
Proof. intros H. unfold cl_obj. rewrite (int_same_set t X Y H). reflexivity. Qed.

Lemma same_set_mem X Y x : same_set X Y -> mem x X = mem x Y.
Proof. intros H. apply bool_eq_iff. rewrite !mem_In. apply H. Qed.

Lemma canon_set_closed X : in_range n X -> closed X -> canon_set n X = cl_obj t X.
Proof.
  intros Hr Hc. unfold canon_set, cl_obj at 1, ext, ext_spec, all_objs. apply filter_seq_ext.
  intros x Hx. rewrite (same_set_mem _ _ x Hc). unfold cl_obj. rewrite ext_canon.
  fold n. destruct (Nat.ltb_spec x n); [reflexivity | lia].
Qed.

Lemma canon_set_mem X x : x < n -> mem x (canon_set n X) = mem x X.
Proof.
  intros Hx. apply bool_eq_iff. rewrite !mem_In, canon_set_In. tauto.
Qed.

Lemma cl_in_range X : in_range n (cl_obj t X).
Proof. apply ext_in_range. Qed.

Lemma cl_closed X : in_range n X -> closed (cl_obj t X).
Proof. intros H. unfold closed. rewrite cl_obj_idempotent by exact H. intros x. tauto. Qed.

(* ------------------------------------------------------------ one child *)

Section Child.
Variables (E : list nat) (g : nat).
Hypothesis HE : good E.
Hypothesis Hg : g < n.
Hypothesis HgE : ~ In g E.

Let comb := E ++ [g].
Let C := cl_obj t comb.

Lemma comb_in_range : in_range n comb.
Proof.
  intros x Hx. apply in_app_or in Hx. destruct Hx as [Hx|[Hx|[]]]; [apply HE; exact Hx | lia].
Qed.

Lemma comb_in_C : incl comb C.
Proof. apply ext_int_extensive. apply comb_in_range. Qed.

Lemma child_incl : incl E (child_tuple E g).
Proof. intros x Hx. unfold child_tuple. apply in_or_app. left. apply in_or_app. left. exact Hx. Qed.

Lemma child_has_g : In g (child_tuple E g).
Proof. unfold child_tuple. apply in_or_app. left. apply in_or_app. right. left. reflexivity. Qed.

(* below g the child has nothing but E *)
Lemma child_below h : h < g -> In h (child_tuple E g) -> In h E.
Proof.
  intros Hh H. unfold child_tuple in H. apply in_app_or in H. destruct H as [H|H].
  - apply in_app_or in H. destruct H as [H|[H|[]]]; [exact H | lia].
  - apply filter_In in H. destruct H as [H _]. apply in_seq in H. lia.
Qed.

Lemma child_good : good (child_tuple E g).
Proof.
  destruct HE as [Hr Hnd]. split.
  - intros x Hx. unfold child_tuple in Hx. apply in_app_or in Hx. destruct Hx as [Hx|Hx].
    + apply comb_in_range. exact Hx.
    + apply filter_In in Hx. destruct Hx as [Hx _]. apply in_seq in Hx. unfold n in *. lia.
  - unfold child_tuple. apply NoDup_app_intro'.
    + apply NoDup_app_intro'; [exact Hnd | constructor; [intros [] | constructor] |].
      intros x Hx [Hy|[]]. subst. contradiction.
    + apply NoDup_filter. apply seq_NoDup.
    + intros x Hx Hy. apply filter_In in Hy. destruct Hy as [_ Hy]. unfold newp in Hy.
      apply andb_true_iff in Hy. destruct Hy as [Hy _]. apply negb_true_iff, mem_false_iff in Hy.
      apply Hy. exact Hx.
Qed.

Hypothesis Hlex : lex_fails E g = false.

Lemma lex_ok h : h < g -> In h C -> In h comb.
Proof.
  intros Hh HC. unfold lex_fails in Hlex. fold comb C in Hlex.
  destruct (mem h comb) eqn:Em; [apply mem_In; exact Em|]. exfalso.
  assert (X : existsb (newp comb C) (seq 0 g) = true).
  { apply existsb_exists. exists h. split; [apply in_seq; lia|]. unfold newp. rewrite Em. simpl.
    apply mem_In. exact HC. }
  congruence.
Qed.

(* as a set the child tuple is the closure of E + g *)
Lemma child_is_closure : same_set (child_tuple E g) C.
Proof.
  intros x. unfold child_tuple. fold comb C. split.
  - intros H. apply in_app_or in H. destruct H as [H|H]; [apply comb_in_C; exact H|].
    apply filter_In in H. destruct H as [_ H]. unfold newp in H. apply andb_true_iff in H.
    apply mem_In. tauto.
  - intros H. apply in_or_app. destruct (mem x comb) eqn:Em; [left; apply mem_In; exact Em|].
    right. apply filter_In. split.
    + apply in_seq. assert (x < n) by (apply (cl_in_range comb); exact H).
      assert (~ x < g). { intros Hlt. apply (lex_ok x Hlt) in H. apply mem_In in H. congruence. }
      assert (x <> g). { intros ->. assert (In g comb) by (apply in_or_app; right; left; reflexivity).
                         apply mem_In in H2. congruence. }
      unfold n in *. lia.
    + unfold newp. rewrite Em. simpl. apply mem_In. exact H.
Qed.

Lemma child_closed : closed (child_tuple E g).
Proof.
  unfold closed. rewrite (cl_same_set _ _ child_is_closure). unfold C.
  rewrite cl_obj_idempotent by apply comb_in_range. apply child_is_closure.
Qed.

End Child.

(* ------------------------------------------------------------ soundness *)

Lemma tuples_sound k : forall lo E, lo + k = n -> good E ->
  forall X, In X (tuples E (seq lo k)) -> good X /\ closed X.
Proof.
  induction k as [|k IH]; intros lo E Hlo HE X HX; simpl in HX; [destruct HX|].
  apply in_app_or in HX. destruct HX as [HX|HX].
  - destruct (mem lo E) eqn:Em; [destruct HX|]. apply mem_false_iff in Em.
    destruct (lex_fails E lo) eqn:El; [destruct HX|].
    assert (Hg : lo < n) by lia.
    destruct HX as [HX|HX].
    + subst X. split; [apply child_good | apply child_closed]; assumption.
    + apply (IH (S lo) (child_tuple E lo)); [lia | apply child_good; assumption | exact HX].
  - apply (IH (S lo) E); [lia | exact HE | exact HX].
Qed.

(* ------------------------------------------------------------ the prefix property *)

Definition below_node (E : list nat) (lo : nat) (X : list nat) : Prop :=
  incl E X /\ (forall h, h < lo -> In h X -> In h E) /\ (exists g, lo <= g /\ ~ In g E /\ In g X).

Lemma tuples_below k : forall lo E, lo + k = n -> good E ->
  forall X, In X (tuples E (seq lo k)) -> below_node E lo X.
Proof.
  induction k as [|k IH]; intros lo E Hlo HE X HX; simpl in HX; [destruct HX|].
  apply in_app_or in HX. destruct HX as [HX|HX].
  - destruct (mem lo E) eqn:Em; [destruct HX|]. apply mem_false_iff in Em.
    destruct (lex_fails E lo) eqn:El; [destruct HX|].
    assert (Hg : lo < n) by lia.
    destruct HX as [HX|HX].
    + subst X. split; [apply child_incl|]. split.
      * intros h Hh. apply (child_below E lo Hg h Hh).
      * exists lo. split; [lia|]. split; [exact Em | apply child_has_g].
    + destruct (IH (S lo) (child_tuple E lo) ltac:(lia) (child_good E lo HE Hg Em) X HX)
        as [Hi [Hb _]].
      split; [intros x Hx; apply Hi, child_incl, Hx|]. split.
      * intros h Hh Hx. apply (child_below E lo Hg h Hh). apply Hb; [lia | exact Hx].
      * exists lo. split; [lia|]. split; [exact Em | apply Hi, child_has_g].
  - destruct (IH (S lo) E ltac:(lia) HE X HX) as [Hi [Hb [g [Hg1 [Hg2 Hg3]]]]].
    split; [exact Hi|]. split.
    + intros h Hh. apply Hb. lia.
    + exists g. split; [lia|]. tauto.
Qed.

(* ------------------------------------------------------------ no duplicates *)

Lemma canon_neq X Y x : x < n -> In x X -> ~ In x Y -> canon_set n X <> canon_set n Y.
Proof.
  intros Hx HX HY E. assert (In x (canon_set n X)) by (apply canon_set_In; auto).
  rewrite E in H. apply canon_set_In in H. tauto.
Qed.

Lemma tuples_nodup k : forall lo E, lo + k = n -> good E ->
  NoDup (map (canon_set n) (tuples E (seq lo k))).
Proof.
  induction k as [|k IH]; intros lo E Hlo HE; simpl; [constructor|].
  rewrite map_app. apply NoDup_app_intro'.
  - destruct (mem lo E) eqn:Em; [constructor|]. apply mem_false_iff in Em.
    destruct (lex_fails E lo) eqn:El; [constructor|].
    assert (Hg : lo < n) by lia. simpl. constructor.
    + intros H. apply in_map_iff in H. destruct H as [X [EX HX]].
      destruct (tuples_below k (S lo) (child_tuple E lo) ltac:(lia) (child_good E lo HE Hg Em) X HX)
        as [_ [_ [g [Hg1 [Hg2 Hg3]]]]].
      assert (Hgn : g < n).
      { destruct (tuples_sound k (S lo) (child_tuple E lo) ltac:(lia) (child_good E lo HE Hg Em) X HX)
          as [[Hr _] _]. apply Hr. exact Hg3. }
      revert EX. apply (canon_neq X (child_tuple E lo) g); assumption.
    + apply IH; [lia | apply child_good; assumption].
  - apply IH; [lia | exact HE].
  - intros c Hc Hc'.
    destruct (mem lo E) eqn:Em; [destruct Hc|]. apply mem_false_iff in Em.
    destruct (lex_fails E lo) eqn:El; [destruct Hc|].
    assert (Hg : lo < n) by lia.
    apply in_map_iff in Hc'. destruct Hc' as [Y [EY HY]].
    destruct (tuples_below k (S lo) E ltac:(lia) HE Y HY) as [_ [Hb _]].
    assert (HloY : ~ In lo Y). { intros H. apply Em. apply Hb; [lia | exact H]. }
    assert (Hin : exists X, c = canon_set n X /\ In lo X).
    { simpl in Hc. destruct Hc as [Hc|Hc].
      - exists (child_tuple E lo). split; [auto | apply child_has_g].
      - apply in_map_iff in Hc. destruct Hc as [X [EX HX]]. exists X. split; [auto|].
        destruct (tuples_below k (S lo) (child_tuple E lo) ltac:(lia) (child_good E lo HE Hg Em) X HX)
          as [Hi _]. apply Hi, child_has_g. }
    destruct Hin as [X [EX HX]]. rewrite EX in EY.
    symmetry in EY. revert EY. apply (canon_neq X Y lo); assumption.
Qed.

(* ------------------------------------------------------------ completeness *)

Lemma tuples_complete k : forall lo E A, lo + k = n -> good E ->
  in_range n A -> closed A -> incl E A -> (forall h, h < lo -> In h A -> In h E) ->
  ~ same_set E A ->
  exists X, In X (tuples E (seq lo k)) /\ same_set X A.
Proof.
  induction k as [|k IH]; intros lo E A Hlo HE HA Hcl Hincl Hpre Hneq.
  - exfalso. apply Hneq. intros x. split; [apply Hincl|]. intros Hx. apply Hpre; [|exact Hx].
    specialize (HA x Hx). lia.
  - simpl. assert (Hg : lo < n) by lia.
    destruct (in_dec Nat.eq_dec lo A) as [HloA|HloA].
    + destruct (mem lo E) eqn:Em.
      * (* lo already in E: nothing to add *)
        apply mem_In in Em. simpl.
        destruct (IH (S lo) E A ltac:(lia) HE HA Hcl Hincl) as [X [HX HS]]; [|exact Hneq|].
        { intros h Hh Hh'. destruct (Nat.eq_dec h lo) as [->|ne]; [exact Em | apply Hpre; [lia | exact Hh']]. }
        exists X. split; [exact HX | exact HS].
      * apply mem_false_iff in Em.
        set (comb := E ++ [lo]).
        assert (HcombA : incl comb A).
        { intros x Hx. apply in_app_or in Hx. destruct Hx as [Hx|[Hx|[]]]; [apply Hincl; exact Hx | subst; exact HloA]. }
        assert (HCA : incl (cl_obj t comb) A).
        { intros x Hx. apply Hcl. revert x Hx. apply cl_obj_monotone. exact HcombA. }
        assert (El : lex_fails E lo = false).
        { unfold lex_fails. fold comb. destruct (existsb _ _) eqn:Ex; [|reflexivity]. exfalso.
          apply existsb_exists in Ex. destruct Ex as [h [Hh Hp]]. apply in_seq in Hh.
          unfold newp in Hp. apply andb_true_iff in Hp. destruct Hp as [Hp1 Hp2].
          apply negb_true_iff, mem_false_iff in Hp1. apply mem_In in Hp2.
          apply Hp1. apply in_or_app. left. apply Hpre; [lia | apply HCA; exact Hp2]. }
        rewrite El.
        pose proof (child_is_closure E lo HE Hg El) as Hchild.
        destruct (same_setb (child_tuple E lo) A) eqn:Es.
        -- apply same_setb_spec in Es. exists (child_tuple E lo). split; [left; reflexivity | exact Es].
        -- assert (Hns : ~ same_set (child_tuple E lo) A).
           { intros H. apply same_setb_spec in H. congruence. }
           destruct (IH (S lo) (child_tuple E lo) A ltac:(lia) (child_good E lo HE Hg Em) HA Hcl) as [X [HX HS]].
           ++ intros x Hx. apply HCA. apply Hchild. exact Hx.
           ++ intros h Hh Hh'. destruct (Nat.eq_dec h lo) as [->|ne]; [apply child_has_g|].
              apply child_incl. apply Hpre; [lia | exact Hh'].
           ++ exact Hns.
           ++ exists X. split; [|exact HS]. apply in_or_app. left. right. exact HX.
    + destruct (IH (S lo) E A ltac:(lia) HE HA Hcl Hincl) as [X [HX HS]]; [|exact Hneq|].
      { intros h Hh Hh'. destruct (Nat.eq_dec h lo) as [->|ne]; [contradiction | apply Hpre; [lia | exact Hh']]. }
      exists X. split; [|exact HS]. apply in_or_app. right. exact HX.
Qed.

(* ------------------------------------------------------------ the whole traversal *)

Lemma root_good : good root_tuple.
Proof.
  split; [apply ext_in_range|]. unfold root_tuple, ext, ext_spec. apply NoDup_filter, seq_NoDup.
Qed.

Lemma root_is_cl_nil : root_tuple = cl_obj t [].
Proof. reflexivity. Qed.

Lemma root_closed : closed root_tuple.
Proof. rewrite root_is_cl_nil. apply cl_closed. intros x []. Qed.

Theorem cbo_tuples_sound X : In X cbo_tuples -> good X /\ closed X.
Proof.
  intros [H|H].
  - subst. split; [apply root_good | apply root_closed].
  - apply (tuples_sound n 0 root_tuple); [lia | apply root_good | exact H].
Qed.

Theorem cbo_tuples_nodup : NoDup (map (canon_set n) cbo_tuples).
Proof.
  unfold cbo_tuples. simpl. constructor.
  - intros H. apply in_map_iff in H. destruct H as [X [EX HX]].
    destruct (tuples_below n 0 root_tuple ltac:(lia) root_good X HX) as [_ [_ [g [_ [Hg2 Hg3]]]]].
    assert (g < n).
    { destruct (tuples_sound n 0 root_tuple ltac:(lia) root_good X HX) as [[Hr _] _]. apply Hr, Hg3. }
    revert EX. apply (canon_neq X root_tuple g); assumption.
  - apply tuples_nodup; [lia | apply root_good].
Qed.

Theorem cbo_tuples_complete A :
  in_range n A -> closed A -> exists X, In X cbo_tuples /\ same_set X A.
Proof.
  intros HA Hcl.
  assert (Hincl : incl root_tuple A).
  { intros x Hx. apply Hcl. rewrite root_is_cl_nil in Hx. revert x Hx. apply cl_obj_monotone. intros y []. }
  destruct (same_setb root_tuple A) eqn:Es.
  - apply same_setb_spec in Es. exists root_tuple. split; [left; reflexivity | exact Es].
  - destruct (tuples_complete n 0 root_tuple A ltac:(lia) root_good HA Hcl Hincl) as [X [HX HS]].
    + intros h Hh. lia.
    + intros H. apply same_setb_spec in H. congruence.
    + exists X. split; [right; exact HX | exact HS].
Qed.

(* canonical form: the closures of the yielded tuples list every extent exactly once *)
Theorem cbo_tuples_exact :
  NoDup (map (cl_obj t) cbo_tuples) /\
  forall A, In A (map (cl_obj t) cbo_tuples) <-> In A (extents_spec t).
Proof.
  assert (Hmap : map (cl_obj t) cbo_tuples = map (canon_set n) cbo_tuples).
  { apply map_ext_in. intros X HX. destruct (cbo_tuples_sound X HX) as [[Hr _] Hc].
    symmetry. apply canon_set_closed; assumption. }
  split; [rewrite Hmap; apply cbo_tuples_nodup|].
  intros A. rewrite in_map_iff. split.
  - intros [X [E HX]]. subst A. apply extents_spec_complete. exists (int t X).
    split; [apply int_in_range | reflexivity].
  - intros H. apply extents_spec_complete in H. destruct H as [B [HB E]]. subst A.
    destruct (cbo_tuples_complete (ext t B)) as [X [HX HS]].
    + apply ext_in_range.
    + unfold closed, cl_obj. rewrite ext_int_ext by exact HB. intros x. tauto.
    + exists X. split; [|exact HX]. rewrite (cl_same_set _ _ HS). unfold cl_obj.
      apply ext_int_ext. exact HB.
Qed.

End CbO.

(* Lemmas/C19_Mover.v — proofs about the Mover state machine (Model/C19_Mover.v). *)
From Coq Require Import ZArith QArith Setoid Permutation Sorted.
From FCA Require Import Base.ListSet Model.C19_LineLayout Model.C19_Mover.
Local Open Scope nat_scope.

(* ------------------------------------------------------------------ lists *)
Lemma set_nth_length {A} i (x : A) l : length (set_nth i x l) = length l.
Proof. revert i; induction l as [|a l IH]; intros [|i]; cbn; auto. Qed.

Lemma nth_set_nth_eq {A} i (x : A) l d : i < length l -> nth i (set_nth i x l) d = x.
Proof. revert i; induction l as [|a l IH]; intros [|i] H; cbn in *; try lia; auto. apply IH; lia. Qed.

Lemma nth_set_nth_neq {A} i j (x : A) l d : i <> j -> nth j (set_nth i x l) d = nth j l d.
Proof.
  revert i j; induction l as [|a l IH]; intros [|i] [|j] H; cbn; auto; try lia.
Qed.

Lemma nth_map_seq {A} (f : nat -> A) n i d : i < n -> nth i (map f (seq 0 n)) d = f i.
Proof.
  intro H. rewrite (nth_indep _ d (f 0)) by (rewrite map_length, seq_length; exact H).
  rewrite (map_nth f (seq 0 n) 0 i). rewrite seq_nth by exact H. reflexivity.
Qed.

Lemma nth_map_in {A B} (f : A -> B) l i d d' : i < length l -> nth i (map f l) d = f (nth i l d').
Proof.
  intro H. rewrite (nth_indep _ d (f d')) by (rewrite map_length; exact H). apply map_nth.
Qed.

Lemma insert_by_in {A} (le : A -> A -> bool) x l z : In z (insert_by le x l) <-> z = x \/ In z l.
Proof.
  induction l as [|y l IH]; cbn.
  - intuition.
  - destruct (le x y); cbn; [intuition | rewrite IH; intuition].
Qed.

Lemma isort_cons {A} (le : A -> A -> bool) a l : isort le (a :: l) = insert_by le a (isort le l).
Proof. reflexivity. Qed.

Lemma isort_in {A} (le : A -> A -> bool) l z : In z (isort le l) <-> In z l.
Proof.
  induction l as [|a l IH]; [cbn; tauto|]. rewrite isort_cons, insert_by_in, IH. cbn. intuition.
Qed.

Lemma insert_by_length {A} (le : A -> A -> bool) x l : length (insert_by le x l) = S (length l).
Proof. induction l as [|y l IH]; cbn; [reflexivity|]. destruct (le x y); cbn; auto. Qed.

Lemma isort_length {A} (le : A -> A -> bool) l : length (isort le l) = length l.
Proof. induction l as [|a l IH]; [reflexivity|]. rewrite isort_cons, insert_by_length, IH. reflexivity. Qed.

Lemma nindex_nth x l d : In x l -> nindex x l < length l /\ nth (nindex x l) l d = x.
Proof.
  induction l as [|y l IH]; cbn; [contradiction|]. intro H.
  destruct (Nat.eqb x y) eqn:E.
  - apply Nat.eqb_eq in E. subst. split; [lia | reflexivity].
  - apply Nat.eqb_neq in E. destruct H as [H|H]; [congruence|]. destruct (IH H). split; [lia | assumption].
Qed.

Lemma qindex_nth y l :
  (exists z, In z l /\ (y == z)%Q) -> qindex y l < length l /\ (nth (qindex y l) l 0 == y)%Q.
Proof.
  induction l as [|a l IH]; cbn; [intros (z & [] & _)|]. intros (z & Hz & E).
  destruct (Qeq_bool y a) eqn:Ea.
  - apply Qeq_bool_iff in Ea. split; [lia | now symmetry].
  - destruct Hz as [Hz|Hz].
    + subst. apply Qeq_bool_iff in E. congruence.
    + destruct IH as [I1 I2]; [eauto|]. split; [lia | assumption].
Qed.

Lemma qdedup_cons a l :
  qdedup (a :: l) = if existsb (Qeq_bool a) (qdedup l) then qdedup l else a :: qdedup l.
Proof. reflexivity. Qed.

Lemma qdedup_in y l : In y l -> exists z, In z (qdedup l) /\ (y == z)%Q.
Proof.
  induction l as [|a l IH]; [contradiction|]. rewrite qdedup_cons. intros [H|H].
  - rewrite H. destruct (existsb (Qeq_bool y) (qdedup l)) eqn:E.
    + apply existsb_exists in E. destruct E as (z & Hz & Ez). apply Qeq_bool_iff in Ez. exists z. split; assumption.
    + exists y. split; [now left | reflexivity].
  - destruct (IH H) as (z & Hz & Ez). exists z. split; [|assumption].
    destruct (existsb (Qeq_bool a) (qdedup l)); [assumption | now right].
Qed.

(* ------------------------------------------------------------------ levels are never written *)
Definition same_levels (s s' : mstate) : Prop :=
  m_levels s' = m_levels s /\ m_plev s' = m_plev s.

Lemma same_levels_refl s : same_levels s s.
Proof. split; reflexivity. Qed.
Lemma same_levels_trans a b c : same_levels a b -> same_levels b c -> same_levels a c.
Proof. intros [A1 A2] [B1 B2]. split; congruence. Qed.

Lemma swap_levels s a b : same_levels s (fst (swap_nodes s a b)).
Proof. unfold swap_nodes. destruct (Nat.eqb _ _); split; reflexivity. Qed.

Lemma swap_all_levels i js : forall st, same_levels (fst st) (fst (fold_left
  (fun st j => if Nat.eqb (snd st) 0 then swap_nodes (fst st) i j else st) js st)).
Proof.
  induction js as [|j js IH]; intro st; cbn [fold_left]; [apply same_levels_refl|].
  eapply same_levels_trans; [|apply IH].
  destruct (Nat.eqb (snd st) 0); [apply swap_levels | apply same_levels_refl].
Qed.

Lemma shift_levels s i k : same_levels s (fst (shift_node s i k)).
Proof. unfold shift_node, swap_all. apply (swap_all_levels i _ (s, 0)). Qed.

Lemma jitter_levels s i dx : same_levels s (fst (jitter_node s i dx)).
Proof.
  unfold jitter_node.
  destruct (if Qle_bool 0 dx then _ else _); [split; reflexivity|].
  destruct (if Qle_bool 0 dx then _ else _); [split; reflexivity|].
  destruct (existsb _ _); [apply same_levels_refl|].
  match goal with |- context [shift_node s i ?k] => pose proof (shift_levels s i k) as H; destruct (shift_node s i k) as [s1 e] end.
  cbn [fst snd] in *. destruct (Nat.eqb e 0); cbn [fst]; [|exact H].
  destruct H as [H1 H2]. split; cbn; assumption.
Qed.

Lemma step_levels s o : same_levels s (fst (step s o)).
Proof.
  destruct o; cbn [step].
  - apply swap_levels.
  - apply shift_levels.
  - apply jitter_levels.
  - apply jitter_levels.
  - split; reflexivity.
Qed.

(* the invariant over ALL histories *)
Lemma run_levels ops : forall s, same_levels s (run s ops).
Proof.
  unfold run. induction ops as [|o ops IH]; intro s; cbn [fold_left]; [apply same_levels_refl|].
  eapply same_levels_trans; [apply step_levels | apply IH].
Qed.

Lemma level_of_same s s' el : same_levels s s' -> level_of s' el = level_of s el.
Proof. intros [H _]. unfold level_of. now rewrite H. Qed.
Lemma level_coord_same s s' el : same_levels s s' -> level_coord s' el = level_coord s el.
Proof. intros [H1 H2]. unfold level_coord, level_of. now rewrite H1, H2. Qed.

(* ------------------------------------------------------------------ nodes of other levels *)
(* [quiet lvl s s']: nothing outside level lvl has changed *)
Definition quiet (lvl : nat) (s s' : mstate) : Prop :=
  same_levels s s' /\ m_v s' = m_v s /\
  forall el, level_of s el <> lvl ->
             slot_of s' el = slot_of s el /\
             nth (level_of s el) (m_ppeers s') [] = nth (level_of s el) (m_ppeers s) [].

Lemma quiet_refl lvl s : quiet lvl s s.
Proof. split; [apply same_levels_refl|]. split; auto. Qed.

Lemma quiet_trans lvl a b c : quiet lvl a b -> quiet lvl b c -> quiet lvl a c.
Proof.
  intros (A1 & A2 & A3) (B1 & B2 & B3). split; [eapply same_levels_trans; eauto|]. split; [congruence|].
  intros el H. destruct (A3 el H) as [A4 A5].
  assert (H' : level_of b el <> lvl) by (rewrite (level_of_same a b el A1); exact H).
  destruct (B3 el H') as [B4 B5]. rewrite (level_of_same a b el A1) in B5. split; congruence.
Qed.

Lemma quiet_pos lvl s s' el : quiet lvl s s' -> level_of s el <> lvl -> pos_of s' el = pos_of s el.
Proof.
  intros (L & V & H) Hl. destruct (H el Hl) as [H1 H2].
  unfold pos_of, peer_coord. rewrite V, (level_coord_same s s' el L), (level_of_same s s' el L), H1, H2.
  reflexivity.
Qed.

Lemma swap_quiet s a b : quiet (level_of s a) s (fst (swap_nodes s a b)).
Proof.
  unfold swap_nodes. destruct (Nat.eqb (level_of s a) (level_of s b)) eqn:E; [|apply quiet_refl].
  apply Nat.eqb_eq in E. cbn [fst]. split; [split; reflexivity|]. split; [reflexivity|].
  intros el H. split; [|reflexivity].
  unfold slot_of at 1. cbn [m_order with_order].
  rewrite nth_set_nth_neq by (intro; subst; congruence).
  rewrite nth_set_nth_neq by (intro; subst; congruence). reflexivity.
Qed.

Lemma swap_all_quiet i js : forall s e,
  quiet (level_of s i) s (fst (fold_left
    (fun st j => if Nat.eqb (snd st) 0 then swap_nodes (fst st) i j else st) js (s, e))).
Proof.
  induction js as [|j js IH]; intros s e; cbn [fold_left]; [apply quiet_refl|].
  cbn [fst snd]. destruct (Nat.eqb e 0).
  - destruct (swap_nodes s i j) as [s1 e1] eqn:E.
    assert (Q : quiet (level_of s i) s s1) by (pose proof (swap_quiet s i j) as Q; rewrite E in Q; exact Q).
    eapply quiet_trans; [exact Q|].
    assert (L : level_of s1 i = level_of s i) by (apply level_of_same; apply Q).
    rewrite <- L. apply IH.
  - apply IH.
Qed.

Lemma shift_quiet s i k : quiet (level_of s i) s (fst (shift_node s i k)).
Proof. unfold shift_node, swap_all. apply swap_all_quiet. Qed.

Lemma with_ppeers_quiet s lvl row : quiet lvl s (with_ppeers s (set_nth lvl row (m_ppeers s))).
Proof.
  split; [split; reflexivity|]. split; [reflexivity|]. intros el H. split; [reflexivity|].
  cbn [m_ppeers with_ppeers]. apply nth_set_nth_neq. congruence.
Qed.

Lemma jitter_quiet s i dx : quiet (level_of s i) s (fst (jitter_node s i dx)).
Proof.
  unfold jitter_node.
  destruct (if Qle_bool 0 dx then _ else _); [apply with_ppeers_quiet|].
  destruct (if Qle_bool 0 dx then _ else _); [apply with_ppeers_quiet|].
  destruct (existsb _ _); [apply quiet_refl|].
  match goal with |- context [shift_node s i ?k] => pose proof (shift_quiet s i k) as H; destruct (shift_node s i k) as [s1 e] end.
  cbn [fst snd] in *. destruct (Nat.eqb e 0); cbn [fst]; [|exact H].
  eapply quiet_trans; [exact H|]. apply with_ppeers_quiet.
Qed.

Definition op_node (o : mop) : option nat :=
  match o with
  | Swap a _ | Shift a _ | Jitter a _ | Place a _ => Some a
  | SetDir _ => None
  end.

Lemma step_quiet s o i : op_node o = Some i -> quiet (level_of s i) s (fst (step s o)).
Proof.
  destruct o; cbn [op_node step]; intro H; inversion H; subst.
  - apply swap_quiet.
  - apply shift_quiet.
  - apply jitter_quiet.
  - apply jitter_quiet.
Qed.

(* one operation never moves a node that is on another level than the operated node *)
Lemma step_other_levels s o i el :
  op_node o = Some i -> level_of s el <> level_of s i -> pos_of (fst (step s o)) el = pos_of s el.
Proof. intros H Hl. eapply quiet_pos; [apply step_quiet; exact H | exact Hl]. Qed.

(* over a whole history: a node is only ever moved by operations on nodes of its own level
   (stated for histories without direction changes, which re-read every coordinate) *)
Lemma run_other_levels ops : forall s el,
  (forall o, In o ops -> exists i, op_node o = Some i /\ level_of s i <> level_of s el) ->
  pos_of (run s ops) el = pos_of s el.
Proof.
  unfold run. induction ops as [|o ops IH]; intros s el H; cbn [fold_left]; [reflexivity|].
  destruct (H o (or_introl eq_refl)) as (i & Hi & Hl).
  pose proof (step_levels s o) as L.
  rewrite IH.
  - apply step_other_levels with (i := i); [exact Hi | congruence].
  - intros o' Ho'. destruct (H o' (or_intror Ho')) as (i' & Hi' & Hl'). exists i'. split; [exact Hi'|].
    rewrite !(level_of_same s _ _ L). exact Hl'.
Qed.

(* ------------------------------------------------------------------ swap *)
Lemma swap_exact s a b :
  a < length (m_order s) -> b < length (m_order s) -> level_of s a = level_of s b ->
  let s' := fst (swap_nodes s a b) in
  snd (swap_nodes s a b) = 0 /\
  pos_of s' a = pos_of s b /\ pos_of s' b = pos_of s a /\
  forall el, el <> a -> el <> b -> pos_of s' el = pos_of s el.
Proof.
  intros Ha Hb E. unfold swap_nodes. rewrite E, Nat.eqb_refl. cbn [fst snd].
  split; [reflexivity|].
  assert (Sa : slot_of (with_order s (set_nth b (slot_of s a) (set_nth a (slot_of s b) (m_order s)))) a = slot_of s b).
  { unfold slot_of at 1. cbn [m_order with_order]. destruct (Nat.eq_dec a b) as [->|N].
    - rewrite nth_set_nth_eq by (rewrite set_nth_length; exact Hb). reflexivity.
    - rewrite nth_set_nth_neq by congruence. apply nth_set_nth_eq. exact Ha. }
  assert (Sb : slot_of (with_order s (set_nth b (slot_of s a) (set_nth a (slot_of s b) (m_order s)))) b = slot_of s a).
  { unfold slot_of at 1. cbn [m_order with_order]. apply nth_set_nth_eq. rewrite set_nth_length. exact Hb. }
  unfold pos_of, peer_coord, level_coord, level_of in *. cbn [m_v m_levels m_plev m_ppeers with_order] in *.
  unfold slot_of in *. cbn [m_order with_order] in *.
  repeat split.
  - rewrite Sa, E. reflexivity.
  - rewrite Sb, E. reflexivity.
  - intros el Na Nb. rewrite !nth_set_nth_neq by congruence. reflexivity.
Qed.

Lemma swap_rejected s a b :
  level_of s a <> level_of s b -> swap_nodes s a b = (s, 2).
Proof. intro H. unfold swap_nodes. apply Nat.eqb_neq in H. now rewrite H. Qed.

(* ------------------------------------------------------------------ well-formed states *)
Definition wf_state (s : mstate) : Prop :=
  length (m_order s) = length (m_levels s) /\
  forall el, el < length (m_levels s) ->
             level_of s el < length (m_ppeers s) /\
             slot_of s el < length (nth (level_of s el) (m_ppeers s) []).

Lemma swap_wf s a b : wf_state s -> wf_state (fst (swap_nodes s a b)).
Proof.
  intros [W1 W2]. unfold swap_nodes. destruct (Nat.eqb (level_of s a) (level_of s b)) eqn:E; [|split; assumption].
  apply Nat.eqb_eq in E. cbn [fst]. split.
  - cbn [m_order m_levels with_order]. now rewrite !set_nth_length.
  - intros el Hel. cbn [m_levels with_order] in Hel. destruct (W2 el Hel) as [L S].
    unfold level_of, slot_of in *. cbn [m_levels m_order m_ppeers with_order]. split; [exact L|].
    destruct (Nat.eq_dec el b) as [->|Nb].
    + rewrite nth_set_nth_eq by (rewrite set_nth_length, W1; exact Hel).
      destruct (le_lt_dec (length (m_levels s)) a) as [Ha|Ha].
      * rewrite (nth_overflow (m_order s)) by lia. rewrite <- E.
        rewrite (nth_overflow (m_levels s)) by lia.
        destruct (W2 b Hel) as [_ S']. rewrite <- E in S'. rewrite (nth_overflow (m_levels s)) in S' by lia. lia.
      * destruct (W2 a Ha) as [_ Sa]. rewrite <- E. exact Sa.
    + rewrite nth_set_nth_neq by congruence. destruct (Nat.eq_dec el a) as [->|Na].
      * rewrite nth_set_nth_eq by (rewrite W1; exact Hel).
        destruct (le_lt_dec (length (m_levels s)) b) as [Hb|Hb].
        -- rewrite (nth_overflow (m_order s)) by lia. rewrite E.
           rewrite (nth_overflow (m_levels s) 0 Hb).
           rewrite E in S. rewrite (nth_overflow (m_levels s) 0 Hb) in S. lia.
        -- destruct (W2 b Hb) as [_ Sb]. rewrite E. exact Sb.
      * rewrite nth_set_nth_neq by congruence. exact S.
Qed.

Lemma swap_all_wf i js : forall st, wf_state (fst st) -> wf_state (fst (fold_left
  (fun st j => if Nat.eqb (snd st) 0 then swap_nodes (fst st) i j else st) js st)).
Proof.
  induction js as [|j js IH]; intros st W; cbn [fold_left]; [exact W|].
  apply IH. destruct (Nat.eqb (snd st) 0); [apply swap_wf; exact W | exact W].
Qed.

Lemma shift_wf s i k : wf_state s -> wf_state (fst (shift_node s i k)).
Proof. intro W. unfold shift_node, swap_all. apply (swap_all_wf i _ (s, 0)). exact W. Qed.

Lemma with_ppeers_wf s lvl j x :
  wf_state s -> wf_state (with_ppeers s (set_nth lvl (set_nth j x (nth lvl (m_ppeers s) [])) (m_ppeers s))).
Proof.
  intros [W1 W2]. split; [exact W1|]. intros el Hel. cbn [m_levels with_ppeers] in Hel.
  destruct (W2 el Hel) as [L S]. unfold level_of, slot_of in *. cbn [m_levels m_order m_ppeers with_ppeers].
  rewrite set_nth_length. split; [exact L|].
  destruct (Nat.eq_dec (nth el (m_levels s) 0) lvl) as [<-|N].
  - rewrite nth_set_nth_eq by exact L. now rewrite set_nth_length.
  - rewrite nth_set_nth_neq by congruence. exact S.
Qed.

Lemma jitter_wf s i dx : wf_state s -> wf_state (fst (jitter_node s i dx)).
Proof.
  intro W. unfold jitter_node.
  destruct (if Qle_bool 0 dx then _ else _); [apply with_ppeers_wf; exact W|].
  destruct (if Qle_bool 0 dx then _ else _); [apply with_ppeers_wf; exact W|].
  destruct (existsb _ _); [exact W|].
  match goal with |- context [shift_node s i ?k] =>
    pose proof (shift_wf s i k W) as W1; pose proof (shift_levels s i k) as L1;
    destruct (shift_node s i k) as [s1 e] end.
  cbn [fst snd] in *. destruct (Nat.eqb e 0); cbn [fst]; [|exact W1].
  rewrite <- (level_of_same s s1 i L1). apply with_ppeers_wf. exact W1.
Qed.

Lemma step_wf s o : wf_state s -> wf_state (fst (step s o)).
Proof.
  intro W. destruct o; cbn [step].
  - apply swap_wf; exact W.
  - apply shift_wf; exact W.
  - apply jitter_wf; exact W.
  - apply jitter_wf; exact W.
  - exact W.
Qed.

Lemma run_wf ops : forall s, wf_state s -> wf_state (run s ops).
Proof.
  unfold run. induction ops as [|o ops IH]; intros s W; cbn [fold_left]; [exact W|].
  apply IH. apply step_wf. exact W.
Qed.

(* ------------------------------------------------------------------ jitter and place *)
Lemma level_of_with_ppeers s pp el : level_of (with_ppeers s pp) el = level_of s el.
Proof. reflexivity. Qed.
Lemma slot_of_with_ppeers s pp el : slot_of (with_ppeers s pp) el = slot_of s el.
Proof. reflexivity. Qed.
Lemma jitter_offset s i dx :
  wf_state s -> i < length (m_levels s) -> snd (jitter_node s i dx) = 0 ->
  peer_coord (fst (jitter_node s i dx)) i = (peer_coord s i + dx)%Q.
Proof.
  intros W Hi. destruct (proj2 W i Hi) as [L S].
  assert (border : forall s0, peer_coord (with_ppeers s
            (set_nth (level_of s i) (set_nth (slot_of s i) s0 (nth (level_of s i) (m_ppeers s) [])) (m_ppeers s))) i = s0).
  { intro s0. unfold peer_coord. rewrite level_of_with_ppeers, slot_of_with_ppeers. cbn [m_ppeers with_ppeers].
    rewrite nth_set_nth_eq by exact L. apply nth_set_nth_eq. exact S. }
  unfold jitter_node.
  destruct (if Qle_bool 0 dx then _ else _); [intros _; cbn [fst]; apply border|].
  destruct (if Qle_bool 0 dx then _ else _); [intros _; cbn [fst]; apply border|].
  destruct (existsb _ _); [cbn [snd]; discriminate|].
  match goal with |- context [shift_node s i ?k] =>
    pose proof (shift_wf s i k W) as W1; pose proof (shift_levels s i k) as L1;
    destruct (shift_node s i k) as [s1 e] end.
  cbn [fst snd] in *. destruct (Nat.eqb e 0) eqn:E; cbn [fst snd].
  - intros _. assert (Hi1 : i < length (m_levels s1)) by (destruct L1 as [-> _]; exact Hi).
    destruct (proj2 W1 i Hi1) as [La Sa]. rewrite (level_of_same s s1 i L1) in La, Sa.
    unfold peer_coord at 1. rewrite level_of_with_ppeers, slot_of_with_ppeers. cbn [m_ppeers with_ppeers].
    rewrite (level_of_same s s1 i L1).
    rewrite nth_set_nth_eq by exact La. apply nth_set_nth_eq. exact Sa.
  - intro H. apply Nat.eqb_neq in E. contradiction.
Qed.

Lemma place_exact s i x :
  wf_state s -> i < length (m_levels s) -> m_v s = true -> snd (place_node s i x) = 0 ->
  (fst (pos_of (fst (place_node s i x)) i) == x)%Q.
Proof.
  intros W Hi V E. unfold place_node in *.
  pose proof (jitter_offset s i _ W Hi E) as J.
  pose proof (jitter_quiet s i (x - fst (pos_of s i))) as (_ & V' & _).
  unfold pos_of at 1. rewrite V', V. cbn [fst]. rewrite J.
  unfold pos_of. rewrite V. cbn [fst]. ring.
Qed.

(* ------------------------------------------------------------------ load / read back *)
Definition pt_eq (a b : Q * Q) : Prop := (fst a == fst b)%Q /\ (snd a == snd b)%Q.

Lemma forall2_map_seq {A} (R : A -> (Q * Q) -> Prop) (f : nat -> A) (l : list (Q * Q)) :
  (forall i, i < length l -> R (f i) (nth i l (0, 0)%Q)) -> Forall2 R (map f (seq 0 (length l))) l.
Proof.
  assert (G : forall s, (forall i, i < length l -> R (f (s + i)) (nth i l (0, 0)%Q)) ->
                        Forall2 R (map f (seq s (length l))) l).
  { induction l as [|a l IH]; intros s H; cbn; constructor.
    - specialize (H 0). cbn in H. rewrite Nat.add_0_r in H. apply H. lia.
    - apply IH. intros i Hi. specialize (H (S i)). cbn in H. rewrite Nat.add_succ_r in H. apply H. lia. }
  intro H. apply (G 0). exact H.
Qed.

Lemma insert_by_perm {A} (le : A -> A -> bool) x l : Permutation (insert_by le x l) (x :: l).
Proof.
  induction l as [|y l IH]; cbn; [apply Permutation_refl|].
  destruct (le x y); [apply Permutation_refl|].
  eapply Permutation_trans; [apply perm_skip, IH | apply perm_swap].
Qed.

Lemma isort_perm {A} (le : A -> A -> bool) l : Permutation (isort le l) l.
Proof.
  induction l as [|a l IH]; [apply Permutation_refl|]. rewrite isort_cons.
  eapply Permutation_trans; [apply insert_by_perm | apply perm_skip, IH].
Qed.

Lemma nindex_self_from (l : list nat) : forall pre,
  NoDup (pre ++ l) -> map (fun j => nindex j (pre ++ l)) l = seq (length pre) (length l).
Proof.
  induction l as [|a l IH]; intros pre ND; [reflexivity|]. cbn [map length seq]. f_equal.
  - clear IH. induction pre as [|b pre IHp]; cbn [app nindex length].
    + now rewrite Nat.eqb_refl.
    + inversion ND as [|? ? Hb ND']; subst. destruct (Nat.eqb a b) eqn:E.
      * apply Nat.eqb_eq in E. subst. exfalso. apply Hb. apply in_or_app. right. now left.
      * f_equal. apply IHp. exact ND'.
  - specialize (IH (pre ++ [a])). rewrite <- app_assoc in IH. cbn [app] in IH.
    rewrite app_length in IH. cbn [length] in IH. rewrite Nat.add_1_r in IH. apply IH. exact ND.
Qed.

Lemma nindex_self (l : list nat) : NoDup l -> map (fun j => nindex j l) l = seq 0 (length l).
Proof. intro ND. apply (nindex_self_from l []). exact ND. Qed.

Definition level_nodes (s : mstate) (lvl : nat) : list nat :=
  filter (fun j => Nat.eqb (level_of s j) lvl) (seq 0 (length (m_levels s))).

(* in every level the slots of its nodes are exactly 0 .. (number of coordinates of the level) - 1 *)
Definition slots_ok (s : mstate) : Prop :=
  wf_state s /\
  forall lvl, lvl < length (m_ppeers s) ->
    Permutation (map (slot_of s) (level_nodes s lvl)) (seq 0 (length (nth lvl (m_ppeers s) []))).

(* ---- sorting with any total comparison *)
Section GSort.
Variable A : Type.
Variable le : A -> A -> bool.
Hypothesis le_total : forall a b, le a b = false -> le b a = true.
Let R := fun a b => le a b = true.

Lemma insert_hdrel_g x y l : R y x -> HdRel R y l -> HdRel R y (insert_by le x l).
Proof.
  intros Hyx H. destruct l as [|a l]; cbn; [constructor; exact Hyx|].
  inversion H; subst. destruct (le x a); constructor; assumption.
Qed.

Lemma insert_sorted_g x l : Sorted R l -> Sorted R (insert_by le x l).
Proof.
  induction l as [|y t IH]; intro Hso; cbn.
  - constructor; constructor.
  - inversion Hso as [|? ? St Hd]; subst. destruct (le x y) eqn:E.
    + constructor; [exact Hso|]. constructor. exact E.
    + constructor; [apply IH; exact St|]. apply insert_hdrel_g; [apply le_total; exact E | exact Hd].
Qed.

Lemma isort_sorted_g l : Sorted R (isort le l).
Proof. induction l as [|a l IH]; [constructor|]. rewrite isort_cons. apply insert_sorted_g, IH. Qed.
End GSort.

Lemma strongly_sorted_nth {A} (R : A -> A -> Prop) (l : list A) d :
  StronglySorted R l -> forall a b, a < b -> b < length l -> R (nth a l d) (nth b l d).
Proof.
  induction l as [|x l IH]; intros SS a b Hab Hb; [cbn in Hb; lia|].
  inversion SS as [|? ? SSl Fx]; subst. destruct b as [|b]; [lia|]. cbn [length] in Hb.
  destruct a as [|a]; cbn [nth].
  - rewrite Forall_forall in Fx. apply Fx. apply nth_In. lia.
  - apply IH; [exact SSl | lia | lia].
Qed.

(* coordinates of a level in strictly increasing slot order *)
Definition qsorted (l : list Q) : Prop :=
  forall a b, a < b -> b < length l -> (nth a l 0 < nth b l 0)%Q.
Definition rows_sorted (s : mstate) : Prop :=
  forall lvl, lvl < length (m_ppeers s) -> qsorted (nth lvl (m_ppeers s) []).
(* a picture without two nodes on one point *)
Definition distinct_pts (p : list (Q * Q)) : Prop :=
  forall a b, a < length p -> b < length p -> a <> b ->
    ~ ((fst (nth a p (0, 0)) == fst (nth b p (0, 0))) /\ (snd (nth a p (0, 0)) == snd (nth b p (0, 0))))%Q.

Section Load.
Variable v : bool.
Variable p : list (Q * Q).
Let value := if v then p else map (fun xy => (snd xy, - fst xy)%Q) p.
Let n := length p.
Let lvl_coords := isort (fun a b => Qle_bool b a) (qdedup (map snd value)).
Let levels := map (fun xy => qindex (snd xy) lvl_coords) value.
Let xs := fun el => fst (nth el value (0, 0)%Q).
Let peers := map (fun l => isort (fun a b => Qle_bool (xs a) (xs b))
                                 (filter (fun el => Nat.eqb (nth el levels 0) l) (seq 0 n)))
                 (seq 0 (length lvl_coords)).

Lemma value_length : length value = n.
Proof. unfold value, n. destruct v; [reflexivity | apply map_length]. Qed.

Lemma load_levels : m_levels (load v p) = levels.
Proof. reflexivity. Qed.

Lemma level_found el : el < n ->
  nth el levels 0 < length lvl_coords /\
  (nth (nth el levels 0%nat) lvl_coords 0 == snd (nth el value (0, 0)))%Q.
Proof.
  intro H. unfold levels.
  rewrite (nth_map_in (fun xy => qindex (snd xy) lvl_coords) value el 0 (0, 0)%Q) by (rewrite value_length; exact H).
  apply qindex_nth.
  destruct (qdedup_in (snd (nth el value (0, 0)%Q)) (map snd value)) as (z & Hz & Ez).
  { apply in_map. apply nth_In. rewrite value_length. exact H. }
  exists z. split; [|exact Ez]. unfold lvl_coords. apply isort_in. exact Hz.
Qed.

Lemma peers_row el : el < n ->
  let row := nth (nth el levels 0) peers [] in
  In el row /\ nth (nth el levels 0) (m_ppeers (load v p)) [] = map xs row.
Proof.
  intro H. destruct (level_found el H) as [L _]. cbn zeta. split.
  - unfold peers. rewrite nth_map_seq by exact L. apply isort_in. apply filter_In. split.
    + apply in_seq. lia.
    + apply Nat.eqb_refl.
  - change (m_ppeers (load v p)) with (map (map xs) peers).
    rewrite (nth_map_in (map xs) peers _ [] []); [reflexivity|].
    unfold peers. rewrite map_length, seq_length. exact L.
Qed.

Lemma load_slot el : el < n -> slot_of (load v p) el = nindex el (nth (nth el levels 0) peers []).
Proof.
  intro H. unfold slot_of.
  assert (E : m_order (load v p) = map (fun e => nindex e (nth (nth e levels 0) peers [])) (seq 0 n)) by reflexivity.
  rewrite E. apply (nth_map_seq (fun e => nindex e (nth (nth e levels 0) peers [])) n el 0 H).
Qed.

Lemma load_peer_coord el : el < n -> peer_coord (load v p) el = xs el.
Proof.
  intro H. unfold peer_coord. unfold level_of. rewrite load_levels, load_slot by exact H.
  destruct (peers_row el H) as [Hin ->].
  destruct (nindex_nth el _ 0 Hin) as [I1 I2].
  rewrite (nth_map_in xs _ _ 0%Q 0) by exact I1. now rewrite I2.
Qed.

Lemma load_level_coord el : el < n -> (level_coord (load v p) el == snd (nth el value (0, 0)%Q))%Q.
Proof.
  intro H. unfold level_coord, level_of. rewrite load_levels.
  change (m_plev (load v p)) with lvl_coords. apply level_found. exact H.
Qed.

Lemma load_wf : wf_state (load v p).
Proof.
  split.
  - cbn [m_order m_levels load]. rewrite !map_length, seq_length. fold value. now rewrite value_length.
  - intros el Hel. rewrite load_levels in Hel. unfold levels in Hel. rewrite map_length, value_length in Hel.
    destruct (level_found el Hel) as [L _]. destruct (peers_row el Hel) as [Hin Hrow].
    unfold level_of. rewrite load_levels. split.
    + change (m_ppeers (load v p)) with (map (map xs) peers). unfold peers. now rewrite !map_length, seq_length.
    + rewrite Hrow, load_slot, map_length by exact Hel. apply (nindex_nth el _ 0 Hin).
Qed.

Lemma load_roundtrip : Forall2 pt_eq (pos (load v p)) p.
Proof.
  unfold pos. rewrite load_levels. unfold levels. rewrite map_length, value_length.
  apply forall2_map_seq. intros i Hi. fold n in Hi.
  unfold pos_of. change (m_v (load v p)) with v.
  rewrite (load_peer_coord i Hi). pose proof (load_level_coord i Hi) as LC.
  unfold xs in *. unfold value in *. destruct v; unfold pt_eq; cbn [fst snd].
  - split; [reflexivity | exact LC].
  - rewrite (nth_map_in (fun xy => (snd xy, - fst xy)%Q) p i (0, 0)%Q (0, 0)%Q) in * by exact Hi.
    cbn [fst snd] in *. split; [|reflexivity]. rewrite LC. ring.
Qed.

Lemma load_slots_ok : slots_ok (load v p).
Proof.
  split; [apply load_wf|]. intros lvl Hl.
  change (m_ppeers (load v p)) with (map (map xs) peers) in *.
  assert (Hl' : lvl < length lvl_coords) by (unfold peers in Hl; now rewrite !map_length, seq_length in Hl).
  set (nodes := filter (fun el => Nat.eqb (nth el levels 0) lvl) (seq 0 n)).
  assert (EN : level_nodes (load v p) lvl = nodes).
  { unfold level_nodes, level_of. rewrite load_levels. unfold levels at 2. rewrite map_length, value_length. reflexivity. }
  assert (EP : nth lvl peers [] = isort (fun a b => Qle_bool (xs a) (xs b)) nodes).
  { unfold peers. exact (nth_map_seq (fun l => isort (fun a b => Qle_bool (xs a) (xs b))
      (filter (fun el => Nat.eqb (nth el levels 0) l) (seq 0 n))) (length lvl_coords) lvl [] Hl'). }
  set (PL := isort (fun a b => Qle_bool (xs a) (xs b)) nodes) in *.
  rewrite EN. rewrite (nth_map_in (map xs) peers lvl [] []) by (unfold peers; now rewrite map_length, seq_length).
  rewrite EP, map_length.
  assert (P : Permutation PL nodes) by apply isort_perm.
  assert (ND : NoDup PL) by (apply (Permutation_NoDup (Permutation_sym P)); apply NoDup_filter, seq_NoDup).
  rewrite <- (nindex_self PL ND).
  eapply Permutation_trans; [|apply Permutation_map, Permutation_sym, P].
  rewrite (map_ext_in (slot_of (load v p)) (fun j => nindex j PL)); [apply Permutation_refl|].
  intros el Hel. apply filter_In in Hel. destruct Hel as [Hs He]. apply in_seq in Hs. apply Nat.eqb_eq in He.
  rewrite load_slot by lia. rewrite He, EP. reflexivity.
Qed.

Lemma value_distinct : distinct_pts p -> distinct_pts value.
Proof.
  intros D a b Ha Hb Nab. rewrite value_length in Ha, Hb. fold n in D. specialize (D a b Ha Hb Nab).
  unfold value. destruct v; [exact D|].
  rewrite !(nth_map_in (fun xy => (snd xy, - fst xy)%Q) p _ (0, 0)%Q (0, 0)%Q) by assumption.
  cbn [fst snd]. intros [E1 E2]. apply D. split; [|exact E1].
  rewrite <- (Qopp_involutive (fst (nth a p (0, 0)%Q))), <- (Qopp_involutive (fst (nth b p (0, 0)%Q))).
  now rewrite E2.
Qed.

Lemma load_rows_sorted : distinct_pts p -> rows_sorted (load v p).
Proof.
  intros D lvl Hl.
  change (m_ppeers (load v p)) with (map (map xs) peers) in *.
  assert (Hl' : lvl < length lvl_coords) by (unfold peers in Hl; now rewrite !map_length, seq_length in Hl).
  set (nodes := filter (fun el => Nat.eqb (nth el levels 0) lvl) (seq 0 n)).
  assert (EP : nth lvl peers [] = isort (fun a b => Qle_bool (xs a) (xs b)) nodes).
  { unfold peers. exact (nth_map_seq (fun l => isort (fun a b => Qle_bool (xs a) (xs b))
      (filter (fun el => Nat.eqb (nth el levels 0) l) (seq 0 n))) (length lvl_coords) lvl [] Hl'). }
  rewrite (nth_map_in (map xs) peers lvl [] []) by (unfold peers; now rewrite map_length, seq_length).
  rewrite EP. set (PL := isort (fun a b => Qle_bool (xs a) (xs b)) nodes).
  assert (P : Permutation PL nodes) by apply isort_perm.
  assert (ND : NoDup PL) by (apply (Permutation_NoDup (Permutation_sym P)); apply NoDup_filter, seq_NoDup).
  assert (SS : StronglySorted (fun a b => Qle_bool (xs a) (xs b) = true) PL).
  { apply Sorted_StronglySorted.
    - intros x y z H1 H2. apply Qle_bool_iff in H1. apply Qle_bool_iff in H2. apply Qle_bool_iff. eapply Qle_trans; eauto.
    - apply isort_sorted_g. intros a b H. apply Qle_bool_iff. apply Qlt_le_weak.
      apply Qnot_le_lt. intro L. apply Qle_bool_iff in L. congruence. }
  intros a b Hab Hb. rewrite map_length in Hb.
  rewrite !(nth_map_in xs PL _ 0%Q 0) by lia.
  pose proof (strongly_sorted_nth _ PL 0 SS a b Hab Hb) as LE. cbn beta in LE. apply Qle_bool_iff in LE.
  destruct (Qle_lt_or_eq _ _ LE) as [LT|EQ]; [exact LT|]. exfalso.
  set (ea := nth a PL 0) in *. set (eb := nth b PL 0) in *.
  assert (Ia : In ea nodes) by (apply (Permutation_in _ P); apply nth_In; lia).
  assert (Ib : In eb nodes) by (apply (Permutation_in _ P); apply nth_In; lia).
  apply filter_In in Ia. destruct Ia as [Sa La]. apply in_seq in Sa. apply Nat.eqb_eq in La.
  apply filter_In in Ib. destruct Ib as [Sb Lb]. apply in_seq in Sb. apply Nat.eqb_eq in Lb.
  assert (Nab : ea <> eb).
  { intro E. assert (a = b); [|lia]. apply (proj1 (NoDup_nth PL 0) ND); [lia | lia | exact E]. }
  apply (value_distinct D ea eb); [rewrite value_length; lia | rewrite value_length; lia | exact Nab |].
  split; [exact EQ|].
  destruct (level_found ea ltac:(lia)) as [_ Ya]. destruct (level_found eb ltac:(lia)) as [_ Yb].
  rewrite <- Ya, <- Yb, La, Lb. reflexivity.
Qed.
End Load.

(* ------------------------------------------------------------------ shift = rotation of slots *)
Lemma last_cons' {A} (a : A) l d : last (a :: l) d = last l a.
Proof.
  revert a d. induction l as [|b l IH]; intros a d; [reflexivity|].
  change (last (a :: b :: l) d) with (last (b :: l) d). rewrite (IH b d), (IH b a). reflexivity.
Qed.

Lemma last_in {A} (l : list A) d : l <> [] -> In (last l d) l.
Proof.
  induction l as [|a l IH]; [congruence|]. intros _. destruct l as [|b l]; [now left|].
  right. change (last (a :: b :: l) d) with (last (b :: l) d). apply IH. discriminate.
Qed.

Lemma swap_slots s i j :
  i < length (m_order s) -> j < length (m_order s) -> i <> j -> level_of s j = level_of s i ->
  let s1 := fst (swap_nodes s i j) in
  snd (swap_nodes s i j) = 0 /\ m_ppeers s1 = m_ppeers s /\ m_v s1 = m_v s /\
  m_levels s1 = m_levels s /\ length (m_order s1) = length (m_order s) /\
  slot_of s1 i = slot_of s j /\ slot_of s1 j = slot_of s i /\
  forall el, el <> i -> el <> j -> slot_of s1 el = slot_of s el.
Proof.
  intros Hi Hj N L. unfold swap_nodes. rewrite L, Nat.eqb_refl. cbn [fst snd].
  repeat split; try reflexivity.
  - cbn [m_order with_order]. now rewrite !set_nth_length.
  - unfold slot_of at 1. cbn [m_order with_order]. rewrite nth_set_nth_neq by congruence. now apply nth_set_nth_eq.
  - unfold slot_of at 1. cbn [m_order with_order]. apply nth_set_nth_eq. now rewrite set_nth_length.
  - intros el N1 N2. unfold slot_of at 1. cbn [m_order with_order]. rewrite !nth_set_nth_neq by congruence. reflexivity.
Qed.

Lemma swap_all_rot : forall js s i,
  NoDup js -> ~ In i js -> i < length (m_order s) ->
  (forall j, In j js -> j < length (m_order s) /\ level_of s j = level_of s i) ->
  let r := swap_all s i js in
  snd r = 0 /\ m_ppeers (fst r) = m_ppeers s /\ m_v (fst r) = m_v s /\
  slot_of (fst r) i = slot_of s (last js i) /\
  (forall u, u < length js ->
     slot_of (fst r) (nth u js 0) = slot_of s (match u with O => i | S u' => nth u' js 0 end)) /\
  (forall el, el <> i -> ~ In el js -> slot_of (fst r) el = slot_of s el).
Proof.
  induction js as [|j js IH]; intros s i ND Ni Hi Hjs; cbn zeta.
  - cbn. repeat split; auto. intros u Hu. lia.
  - inversion ND as [|? ? Hj ND']; subst.
    assert (Nij : i <> j) by (intro; subst; apply Ni; now left).
    destruct (Hjs j (or_introl eq_refl)) as [Hjl Lj].
    destruct (swap_slots s i j Hi Hjl Nij Lj) as (E0 & P1 & V1 & L1 & Len1 & Si & Sj & So).
    unfold swap_all. cbn [fold_left fst snd]. rewrite Nat.eqb_refl.
    destruct (swap_nodes s i j) as [s1 e1] eqn:ES. cbn [fst snd] in *. subst e1.
    assert (Lev1 : forall el, level_of s1 el = level_of s el) by (intro el; unfold level_of; now rewrite L1).
    specialize (IH s1 i ND' (fun H => Ni (or_intror H))).
    destruct IH as (R0 & R1 & R2 & R3 & R4 & R5).
    { now rewrite Len1. }
    { intros x Hx. destruct (Hjs x (or_intror Hx)) as [A B]. rewrite Len1, !Lev1. auto. }
    unfold swap_all in *. cbn zeta in *.
    split; [exact R0|]. split; [congruence|]. split; [congruence|]. split; [|split].
    + rewrite R3. rewrite last_cons'. destruct js as [|b js'].
      * cbn [last]. exact Si.
      * assert (In (last (b :: js') i) (b :: js')) by (apply last_in; discriminate).
        assert (E : last (b :: js') i = last (b :: js') j).
        { clear. revert b. induction js' as [|c js' IHl]; intro b; [reflexivity|].
          change (last (b :: c :: js') i) with (last (c :: js') i).
          change (last (b :: c :: js') j) with (last (c :: js') j). apply IHl. }
        rewrite <- E. apply So.
        -- intro X. apply Ni. right. rewrite <- X. exact H.
        -- intro X. apply Hj. rewrite <- X. exact H.
    + intros [|u] Hu.
      * cbn [nth]. rewrite R5; [exact Sj | congruence | exact Hj].
      * cbn [nth length] in *. rewrite R4 by lia. destruct u as [|u'].
        -- exact Si.
        -- assert (In (nth u' js 0) js) by (apply nth_In; lia).
           apply So; intro X.
           ++ apply Ni. right. rewrite <- X. exact H.
           ++ apply Hj. rewrite <- X. exact H.
    + intros el N1 N2. rewrite R5; [|exact N1 | intro X; apply N2; now right].
      apply So; [exact N1 | intro; subst; apply N2; now left].
Qed.

(* Lemmas/C05_Reduce.v — all / any / sum (axis None, 0, 1; optional row and column selections)
   and all_i / any_i of the three back-end models equal the spec folds. *)
From FCA Require Import Base.ListSet Model.BinTable Model.BinTableOps Spec.Galois
     Spec.BinTableOpsSpec Lemmas.BitRow Lemmas.C01.
From FCA Require Import Lemmas.C05_Base.

Section Reduce.
Variable t : table.
Hypothesis Hwf : wf t.
Variables rows cols : option (list nat).
Hypothesis Hr : opt_in_range (height t) rows.
Hypothesis Hc : opt_in_range (width t) cols.

Lemma rs_lt i : In i (rows_or t rows) -> i < height t.
Proof. apply (rows_or_in_range t rows Hr). Qed.
Lemma cs_lt j : In j (cols_or t cols) -> j < width t.
Proof. apply (cols_or_in_range t cols Hc). Qed.

Lemma row_forallb i : i < height t -> forallb id (row t i) = forallb (fun j => cell t i j) (cols_of t).
Proof. intros Hi. rewrite (row_cells t i Hwf Hi) at 1. rewrite forallb_map. reflexivity. Qed.
Lemma row_existsb i : i < height t -> existsb id (row t i) = existsb (fun j => cell t i j) (cols_of t).
Proof. intros Hi. rewrite (row_cells t i Hwf Hi) at 1. rewrite existsb_map. reflexivity. Qed.

(* ------------------------------------------------ flags per row *)

Definition F_all_row := map (fun i => forallb (fun j => cell t i j) (cols_or t cols)) (rows_or t rows).
Definition F_any_row := map (fun i => existsb (fun j => cell t i j) (cols_or t cols)) (rows_or t rows).
Definition F_all_col := map (fun j => forallb (fun i => cell t i j) (rows_or t rows)) (cols_or t cols).
Definition F_any_col := map (fun j => existsb (fun i => cell t i j) (rows_or t rows)) (cols_or t cols).

Lemma L_all_per_row_gen : L_all_per_row t rows cols = F_all_row.
Proof.
  unfold F_all_row. destruct cols as [c|]; simpl cols_or.
  - apply L_all_per_row_flags.
  - unfold L_all_per_row. apply map_ext_in. intros i Hi. apply row_forallb, rs_lt, Hi.
Qed.

Lemma L_any_per_row_gen : L_any_per_row t rows cols = F_any_row.
Proof.
  unfold F_any_row. destruct cols as [c|]; simpl cols_or.
  - apply L_any_per_row_flags.
  - unfold L_any_per_row. apply map_ext_in. intros i Hi. apply row_existsb, rs_lt, Hi.
Qed.

Lemma B_all_per_row_gen : B_all_per_row t rows cols = F_all_row.
Proof.
  unfold F_all_row. destruct cols as [c|]; simpl cols_or.
  - apply B_all_per_row_flags; assumption.
  - unfold B_all_per_row, ball. apply map_ext_in. intros i Hi. apply row_forallb, rs_lt, Hi.
Qed.

Lemma B_any_per_row_gen : B_any_per_row t rows cols = F_any_row.
Proof.
  unfold F_any_row. destruct cols as [c|]; simpl cols_or.
  - apply B_any_per_row_flags; assumption.
  - unfold B_any_per_row, bany. apply map_ext_in. intros i Hi. apply row_existsb, rs_lt, Hi.
Qed.

(* numpy: data[rows][:, cols] is the sub-table *)
Lemma N_slice_sub : N_slice t rows cols = sub t (rows_or t rows) (cols_or t cols).
Proof.
  unfold N_slice. rewrite N_slice_rows. destruct cols as [c|]; simpl cols_or.
  - rewrite map_map. reflexivity.
  - apply rows_sub; [exact Hwf|]. apply rows_or_in_range. exact Hr.
Qed.

Lemma N_all_row_gen : N_all t 1 rows cols = F_all_row.
Proof.
  unfold N_all, N_reduce. rewrite N_slice_sub. unfold sub, F_all_row. rewrite map_map.
  apply map_ext. intros i. rewrite forallb_map; reflexivity.
Qed.

Lemma N_any_row_gen : N_any t 1 rows cols = F_any_row.
Proof.
  unfold N_any, N_reduce. rewrite N_slice_sub. unfold sub, F_any_row. rewrite map_map.
  apply map_ext. intros i. rewrite existsb_map; reflexivity.
Qed.

(* ------------------------------------------------ flags per column *)

Lemma L_all_per_column_gen : L_all_per_column t rows cols = F_all_col.
Proof.
  replace (L_all_per_column t rows cols) with (L_all_per_column t (Some (rows_or t rows)) cols)
    by (destruct rows; reflexivity).
  apply L_all_per_column_flags.
Qed.

Lemma L_any_per_column_gen : L_any_per_column t rows cols = F_any_col.
Proof.
  replace (L_any_per_column t rows cols) with (L_any_per_column t (Some (rows_or t rows)) cols)
    by (destruct rows; reflexivity).
  apply L_any_per_column_flags.
Qed.

Lemma B_all_per_column_gen : B_all_per_column t rows cols = F_all_col.
Proof.
  replace (B_all_per_column t rows cols) with (B_all_per_column t (Some (rows_or t rows)) cols)
    by (destruct rows; reflexivity).
  apply B_all_per_column_flags; [exact Hwf | apply rows_or_in_range; exact Hr | exact Hc].
Qed.

Lemma B_any_per_column_gen : B_any_per_column t rows cols = F_any_col.
Proof.
  replace (B_any_per_column t rows cols) with (B_any_per_column t (Some (rows_or t rows)) cols)
    by (destruct rows; reflexivity).
  apply B_any_per_column_flags; [exact Hwf | apply rows_or_in_range; exact Hr | exact Hc].
Qed.

Lemma N_slice_rows_some : N_slice t rows cols = N_slice t (Some (rows_or t rows)) cols.
Proof. destruct rows as [r|]; [reflexivity|]. unfold N_slice. simpl. rewrite map_row_seq. reflexivity. Qed.

Lemma N_all_col_gen : N_all t 0 rows cols = F_all_col.
Proof.
  replace (N_all t 0 rows cols) with (N_all t 0 (Some (rows_or t rows)) cols)
    by (unfold N_all, N_reduce; rewrite <- N_slice_rows_some; reflexivity).
  apply N_all_col_flags.
Qed.

Lemma N_any_col_gen : N_any t 0 rows cols = F_any_col.
Proof.
  replace (N_any t 0 rows cols) with (N_any t 0 (Some (rows_or t rows)) cols)
    by (unfold N_any, N_reduce; rewrite <- N_slice_rows_some; reflexivity).
  apply N_any_col_flags.
Qed.

(* ------------------------------------------------ all / any over the whole selection *)

Definition F_all := forallb (fun i => forallb (fun j => cell t i j) (cols_or t cols)) (rows_or t rows).
Definition F_any := existsb (fun i => existsb (fun j => cell t i j) (cols_or t cols)) (rows_or t rows).

Lemma L_all_gen : L_all t rows cols = F_all.
Proof.
  unfold L_all, F_all. destruct cols as [c|]; simpl cols_or; [reflexivity|].
  apply forallb_ext_in. intros i Hi. apply row_forallb, rs_lt, Hi.
Qed.

Lemma L_any_gen : L_any t rows cols = F_any.
Proof.
  unfold L_any, F_any. destruct cols as [c|]; simpl cols_or; [reflexivity|].
  apply existsb_ext_in. intros i Hi. apply row_existsb, rs_lt, Hi.
Qed.

Lemma B_all_gen : B_all t rows cols = F_all.
Proof.
  unfold B_all, F_all. destruct cols as [c|]; simpl cols_or.
  - apply forallb_ext_in. intros i Hi. apply ball_bor_mask; [|exact Hc].
    apply wf_row_length; [exact Hwf | apply rs_lt, Hi].
  - unfold ball. apply forallb_ext_in. intros i Hi. apply row_forallb, rs_lt, Hi.
Qed.

Lemma B_any_gen : B_any t rows cols = F_any.
Proof.
  unfold B_any, F_any. destruct cols as [c|]; simpl cols_or.
  - apply existsb_ext_in. intros i Hi. apply bany_band_mask; [|exact Hc].
    apply wf_row_length; [exact Hwf | apply rs_lt, Hi].
  - unfold bany. apply existsb_ext_in. intros i Hi. apply row_existsb, rs_lt, Hi.
Qed.

Lemma N_all_none_gen : N_all_none t rows cols = F_all.
Proof.
  unfold N_all_none, F_all. rewrite N_slice_sub. unfold sub. rewrite forallb_map.
  apply forallb_ext_in. intros i _. rewrite forallb_map; reflexivity.
Qed.

Lemma N_any_none_gen : N_any_none t rows cols = F_any.
Proof.
  unfold N_any_none, F_any. rewrite N_slice_sub. unfold sub. rewrite existsb_map.
  apply existsb_ext_in. intros i _. rewrite existsb_map; reflexivity.
Qed.

(* ------------------------------------------------ sums *)

Definition F_sum_row := map (fun i => count_true (fun j => cell t i j) (cols_or t cols)) (rows_or t rows).
Definition F_sum_col := map (fun j => count_true (fun i => cell t i j) (rows_or t rows)) (cols_or t cols).
Definition F_sum := list_sum F_sum_row.

Lemma row_count i : i < height t ->
  list_sum (map b2n (row t i)) = count_true (fun j => cell t i j) (cols_of t).
Proof. intros Hi. rewrite (row_cells t i Hwf Hi) at 1. apply list_sum_b2n_map. Qed.

Lemma L_sum_per_row_gen : L_sum_per_row t rows cols = F_sum_row.
Proof.
  unfold L_sum_per_row, F_sum_row. destruct cols as [c|]; simpl cols_or.
  - apply map_ext. intros i. rewrite py_sum_list_sum. apply list_sum_b2n_map.
  - apply map_ext_in. intros i Hi. rewrite py_sum_list_sum. apply row_count, rs_lt, Hi.
Qed.

Lemma L_sum_gen : L_sum t rows cols = F_sum.
Proof. unfold L_sum, F_sum. rewrite py_sum_list_sum, L_sum_per_row_gen. reflexivity. Qed.

Lemma L_sum_per_column_gen : L_sum_per_column t rows cols = F_sum_col.
Proof. unfold L_sum_per_column, F_sum_col. apply sum_columns_loop0. Qed.

Lemma fold_left_ext_in {A B} (f g : A -> B -> A) l a :
  (forall a x, In x l -> f a x = g a x) -> fold_left f l a = fold_left g l a.
Proof.
  revert a. induction l as [|x l IH]; intros a H; simpl; [reflexivity|].
  rewrite H by (left; reflexivity). apply IH. intros a' y Hy. apply H. right. exact Hy.
Qed.

Lemma fold_left_inv {A B} (P : A -> Prop) (f : A -> B -> A) l a :
  P a -> (forall a x, P a -> In x l -> P (f a x)) -> P (fold_left f l a).
Proof.
  revert a. induction l as [|x l IH]; intros a Ha H; simpl; [exact Ha|].
  apply IH; [apply H; [exact Ha | left; reflexivity]|]. intros a' y Ha' Hy. apply H; [exact Ha' | right; exact Hy].
Qed.

Lemma B_sum_per_column_gen : B_sum_per_column t rows cols = F_sum_col.
Proof.
  unfold B_sum_per_column, F_sum_col. destruct cols as [c|]; simpl cols_or.
  - rewrite <- (sum_columns_loop0 (fun i j => cell t i j)).
    generalize (repeat_length 0 (length c)). generalize (repeat 0 (length c)) as vals.
    induction (rows_or t rows) as [|i rs IH]; intros vals Hv; simpl; [reflexivity|].
    pose proof (enum_add_fold (fun j => b2n (nth j (row t i) false)) c vals [] 0 eq_refl Hv) as E.
    cbn [app] in E. rewrite E. apply IH. rewrite map2_length, map_length, Hv. apply Nat.min_id.
  - rewrite <- (sum_columns_loop0 (fun i j => cell t i j)).
    unfold cols_of. rewrite seq_length.
    generalize (repeat_length 0 (width t)). generalize (repeat 0 (width t)) as vals.
    assert (Hin : forall i, In i (rows_or t rows) -> i < height t) by (intros i Hi; apply rs_lt, Hi).
    induction (rows_or t rows) as [|i rs IH]; intros vals Hv; simpl; [reflexivity|].
    assert (Hi : i < height t) by (apply Hin; left; reflexivity).
    unfold search1.
    assert (Hv' : length vals = length (row t i))
      by (rewrite Hv; symmetry; apply wf_row_length; assumption).
    pose proof (search_add_fold (row t i) vals [] 0 eq_refl Hv') as E.
    cbn [app] in E. rewrite E. rewrite (row_cells t i Hwf Hi) at 1. rewrite map_map. unfold cols_of.
    apply IH; [intros k Hk; apply Hin; right; exact Hk|].
    rewrite map2_length, map_length, seq_length, Hv. apply Nat.min_id.
Qed.

Lemma N_sum_none_gen : N_sum_none t rows cols = F_sum.
Proof.
  unfold N_sum_none, F_sum, F_sum_row. rewrite N_slice_sub. unfold sub. rewrite map_map.
  f_equal. apply map_ext. intros i. apply list_sum_b2n_map.
Qed.

Lemma N_sum_row_gen : N_sum_axis t 1 rows cols = F_sum_row.
Proof.
  unfold N_sum_axis, F_sum_row. rewrite N_slice_sub. unfold sub. rewrite map_map.
  apply map_ext. intros i. apply list_sum_b2n_map.
Qed.

Lemma N_ncols_length : N_ncols t cols = length (cols_or t cols).
Proof. destruct cols as [c|]; simpl; [reflexivity|]. rewrite seq_length. reflexivity. Qed.

Lemma N_sum_col_gen : N_sum_axis t 0 rows cols = F_sum_col.
Proof.
  unfold N_sum_axis, F_sum_col. rewrite N_slice_sub, N_ncols_length.
  rewrite <- (map_over_nth_seq (fun j => count_true (fun i => cell t i j) (rows_or t rows)) (cols_or t cols) 0).
  apply map_ext_in. intros k Hk. apply in_seq in Hk. unfold sub. rewrite map_map.
  rewrite <- list_sum_b2n_map'. f_equal. apply map_ext. intros i. f_equal.
  apply (nth_map_in (fun j => cell t i j) (cols_or t cols) k false 0). lia.
Qed.

(* only the bitarray row sums (a mask and count) need a duplicate-free column selection *)
Hypothesis Hnd : match cols with None => True | Some c => NoDup c end.

Lemma B_sum_per_row_gen : B_sum_per_row t rows cols = F_sum_row.
Proof.
  unfold B_sum_per_row, F_sum_row. destruct cols as [c|]; simpl cols_or.
  - apply map_ext_in. intros i Hi. apply count_mask; [|exact Hc|exact Hnd].
    apply wf_row_length; [exact Hwf | apply rs_lt, Hi].
  - apply map_ext_in. intros i Hi. unfold bcount. apply row_count, rs_lt, Hi.
Qed.

Lemma B_sum_gen : B_sum t rows cols = F_sum.
Proof. unfold B_sum, F_sum. rewrite py_sum_list_sum, B_sum_per_row_gen. reflexivity. Qed.

End Reduce.

(* ------------------------------------------------------------------ the operations *)

(* selections only have to be in range: they may be unsorted and may repeat an index *)
Definition red_ok (t : table) (rows cols : option (list nat)) : Prop :=
  opt_in_range (height t) rows /\ opt_in_range (width t) cols.

(* ... except for sums over a column selection along axis None / 1: the bitarray back-end counts
   through a mask, i.e. treats the selection as a set *)
Definition nodup_opt (o : option (list nat)) : Prop :=
  match o with None => True | Some c => NoDup c end.
Definition sum_ok (axis : option nat) (cols : option (list nat)) : Prop :=
  axis = Some 0 \/ nodup_opt cols.

Lemma opt_sel_ok_nodup n o : opt_sel_ok n o -> match o with None => True | Some c => NoDup c end.
Proof. destruct o; simpl; [intros [_ H]; exact H | auto]. Qed.

Theorem all_op_correct b t axis rows cols :
  wf t -> red_ok t rows cols ->
  all_op b t axis rows cols
  = if axis_ok axis then ROk (S_all t axis (rows_or t rows) (cols_or t cols)) else RErr E_Type.
Proof.
  intros Hwf [Hr Hc]. unfold all_op.
  destruct axis as [[|[|a]]|]; simpl; try reflexivity; destruct b; simpl; f_equal; f_equal.
  - apply L_all_per_column_gen; assumption.
  - apply N_all_col_gen; assumption.
  - apply B_all_per_column_gen; assumption.
  - apply L_all_per_row_gen; assumption.
  - apply N_all_row_gen; assumption.
  - apply B_all_per_row_gen; assumption.
  - apply L_all_gen; assumption.
  - apply N_all_none_gen; assumption.
  - apply B_all_gen; assumption.
Qed.

Theorem any_op_correct b t axis rows cols :
  wf t -> red_ok t rows cols ->
  any_op b t axis rows cols
  = if axis_ok axis then ROk (S_any t axis (rows_or t rows) (cols_or t cols)) else RErr E_Type.
Proof.
  intros Hwf [Hr Hc]. unfold any_op.
  destruct axis as [[|[|a]]|]; simpl; try reflexivity; destruct b; simpl; f_equal; f_equal.
  - apply L_any_per_column_gen; assumption.
  - apply N_any_col_gen; assumption.
  - apply B_any_per_column_gen; assumption.
  - apply L_any_per_row_gen; assumption.
  - apply N_any_row_gen; assumption.
  - apply B_any_per_row_gen; assumption.
  - apply L_any_gen; assumption.
  - apply N_any_none_gen; assumption.
  - apply B_any_gen; assumption.
Qed.

Theorem sum_op_correct b t axis rows cols :
  wf t -> red_ok t rows cols -> sum_ok axis cols ->
  sum_op b t axis rows cols
  = if axis_ok axis then ROk (S_sum t axis (rows_or t rows) (cols_or t cols)) else RErr E_Type.
Proof.
  intros Hwf [Hr Hc] Hs. unfold sum_op.
  destruct axis as [[|[|a]]|]; simpl; try reflexivity; destruct b; simpl; f_equal; f_equal.
  - apply L_sum_per_column_gen; assumption.
  - apply N_sum_col_gen; assumption.
  - apply B_sum_per_column_gen; assumption.
  - apply L_sum_per_row_gen; assumption.
  - apply N_sum_row_gen; assumption.
  - destruct Hs as [E|Hnd]; [discriminate|]. apply B_sum_per_row_gen; assumption.
  - apply L_sum_gen; assumption.
  - apply N_sum_none_gen; assumption.
  - destruct Hs as [E|Hnd]; [discriminate|]. apply B_sum_gen; assumption.
Qed.

(* all_i / any_i: flags, then the index translation of each back-end (Lemmas/C01.v) *)
Theorem all_i_correct b t axis rows cols :
  wf t -> red_ok t rows cols ->
  all_i_op b t axis rows cols
  = if axis_ok (Some axis) then ROk (S_all_i t axis (rows_or t rows) (cols_or t cols)) else RErr E_Type.
Proof.
  intros Hwf [Hr Hc]. unfold all_i_op.
  destruct axis as [|[|a]]; simpl; try reflexivity; destruct b; simpl; f_equal; f_equal.
  - unfold L_all_i. rewrite L_all_per_column_gen by assumption. apply (abs_index_cols t rows cols).
  - unfold N_all_i. rewrite N_all_col_gen by assumption. apply (N_index_cols t rows cols).
  - unfold B_all_i. rewrite B_all_per_column_gen by assumption. apply (bit_index_cols t rows cols).
  - unfold L_all_i. rewrite L_all_per_row_gen by assumption. apply (abs_index_rows t rows cols).
  - unfold N_all_i. rewrite N_all_row_gen by assumption. apply (N_index_rows t rows cols).
  - unfold B_all_i. rewrite B_all_per_row_gen by assumption. apply (bit_index_rows t rows cols).
Qed.

Theorem any_i_correct b t axis rows cols :
  wf t -> red_ok t rows cols ->
  any_i_op b t axis rows cols
  = if axis_ok (Some axis) then ROk (S_any_i t axis (rows_or t rows) (cols_or t cols)) else RErr E_Type.
Proof.
  intros Hwf [Hr Hc]. unfold any_i_op.
  destruct axis as [|[|a]]; simpl; try reflexivity; destruct b; simpl; f_equal; f_equal.
  - unfold L_any_i. rewrite L_any_per_column_gen by assumption. apply (abs_index_cols t rows cols).
  - unfold N_any_i. rewrite N_any_col_gen by assumption. apply (N_index_cols t rows cols).
  - unfold B_any_i. rewrite B_any_per_column_gen by assumption. apply (bit_index_cols t rows cols).
  - unfold L_any_i. rewrite L_any_per_row_gen by assumption. apply (abs_index_rows t rows cols).
  - unfold N_any_i. rewrite N_any_row_gen by assumption. apply (N_index_rows t rows cols).
  - unfold B_any_i. rewrite B_any_per_row_gen by assumption. apply (bit_index_rows t rows cols).
Qed.

(* Lemmas/C17.v — proofs about the model of trace_context (Model/TraceContext.v):
   the breadth-first descent visits exactly the concepts that are reachable from the top through
   children with a non-empty extension; satisfied concepts are upward closed, hence all reached. *)
From Coq Require Import Permutation.
From FCA Require Export Model.TraceContext Spec.Trace Lemmas.C12Order.
From FCA Require Import Lemmas.C01 Lemmas.C14.

Lemma monotone_refused_index ext_of L h enum :
  lt_monotone L = true -> trace_by_index ext_of L h enum = Fail 9.
Proof. intros H. unfold trace_by_index. rewrite H. reflexivity. Qed.

Lemma monotone_refused_name ext_of L h enum names :
  lt_monotone L = true -> trace_by_name ext_of L h enum names = Fail 9.
Proof. intros H. unfold trace_by_name. rewrite H. reflexivity. Qed.

(* ------------------------------------------------------------------ sorting keeps the elements *)
Lemma insert_by_desc_perm key x l : Permutation (insert_by_desc key x l) (x :: l).
Proof.
  induction l as [|y l IH]; simpl; [apply Permutation_refl|].
  destruct (Nat.leb (key y) (key x)); [apply Permutation_refl|].
  eapply Permutation_trans; [apply perm_skip; exact IH | apply perm_swap].
Qed.
Lemma sort_by_desc_perm key l : Permutation (sort_by_desc key l) l.
Proof.
  induction l as [|x l IH]; simpl; [apply Permutation_refl|].
  eapply Permutation_trans; [apply insert_by_desc_perm | apply perm_skip; exact IH].
Qed.

Lemma add_to_In m objs c g x : In x (add_to m objs c g) <-> (In g objs /\ x = c) \/ In x (m g).
Proof.
  unfold add_to. destruct (mem g objs) eqn:E.
  - apply mem_In in E. rewrite add_In. tauto.
  - apply mem_false_iff in E. tauto.
Qed.

Lemma NoDup_bounded_length l n : NoDup l -> (forall x, In x l -> x < n) -> length l <= n.
Proof.
  intros Hnd Hb. rewrite <- (seq_length n 0). apply NoDup_incl_length; [exact Hnd|].
  intros x Hx. apply in_seq. specialize (Hb x Hx). lia.
Qed.

Section TraceProofs.
Variable ext_of : nat -> list nat.
Variable L : lattice.
Variable h : nat.
Variable enum : list nat -> list nat.
Variable lt : nat -> nat -> bool.
Variable sat : nat -> nat -> bool.

Let n := lt_len L.
Let ext (c : nat) := ext_of c.
Let children := lt_children L.
Let top := lt_top L.

Hypothesis Henum_In : forall l x, In x (enum l) <-> In x l.
Hypothesis Henum_nd : forall l, NoDup l -> NoDup (enum l).
Hypothesis SO : strict_order lt n.
Hypothesis Htop : is_top lt n top.
Hypothesis Hch : forall i, i < n -> forall x, In x (children i) <-> In x (lower_covers lt n i).
Hypothesis Hch_nd : forall i, i < n -> NoDup (children i).
(* the extension on the traced context is the satisfaction filter, and satisfaction is antitone *)
Hypothesis Hext : forall c, c < n -> forall g, In g (ext_of c) <-> g < h /\ sat c g = true.
Hypothesis Hanti : antitone_sat lt sat n.

Lemma ext_In c g : c < n -> (In g (ext c) <-> g < h /\ sat c g = true).
Proof. intros Hc. apply (Hext c Hc g). Qed.

Lemma children_lt c x : c < n -> In x (children c) -> x < n /\ lt x c = true.
Proof.
  intros Hc Hx. apply (Hch c Hc) in Hx. apply (lower_covers_In lt n) in Hx. tauto.
Qed.

(* below in the lattice => satisfied by fewer objects *)
Lemma ext_antitone_lt i j g : i < n -> j < n -> lt i j = true -> In g (ext i) -> In g (ext j).
Proof.
  intros Hi Hj Hlt. rewrite (ext_In i g Hi), (ext_In j g Hj). intros [Hg Hs]. split; [exact Hg|].
  apply (Hanti i j Hi Hj Hlt g Hs).
Qed.

(* ---------------------------------------------------------------- the memo table *)
Definition cache_ok (m : cache) : Prop := forall c e, cache_get c m = Some e -> c < n /\ e = ext c.

Lemma stored_ok m c : c < n -> cache_ok m ->
  fst (stored ext_of m c) = ext c /\ cache_ok (snd (stored ext_of m c)).
Proof.
  intros Hc Hm. unfold stored. destruct (cache_get c m) as [e|] eqn:E; simpl.
  - split; [apply (Hm c e E) | exact Hm].
  - split; [reflexivity|].
    intros c' e'. simpl. destruct (Nat.eqb c' c) eqn:E'.
    + apply Nat.eqb_eq in E'. subst c'. intros H. inversion H. split; [exact Hc | reflexivity].
    + apply Hm.
Qed.

Lemma stored_union_ok subs : forall m acc, (forall s, In s subs -> s < n) -> cache_ok m ->
  cache_ok (snd (stored_union ext_of m subs acc)) /\
  forall g, In g (fst (stored_union ext_of m subs acc)) <-> In g acc \/ exists s, In s subs /\ In g (ext s).
Proof.
  induction subs as [|s subs IH]; intros m acc Hb Hm; simpl.
  - split; [exact Hm|]. intros g. split; [auto|]. intros [H|[s [[] _]]]. exact H.
  - destruct (stored ext_of m s) as [e m1] eqn:E.
    assert (Hs := stored_ok m s (Hb s (or_introl eq_refl)) Hm). rewrite E in Hs. simpl in Hs.
    destruct Hs as [He Hm1]. subst e.
    destruct (IH m1 (union (ext s) acc) (fun x H => Hb x (or_intror H)) Hm1) as [IH1 IH2].
    split; [exact IH1|]. intros g. rewrite IH2, union_In. split.
    + intros [[H|H]|[x [Hx Hg]]]; auto.
      * right. exists s. auto.
      * right. exists x. auto.
    + intros [H|[x [[Hx|Hx] Hg]]]; auto.
      * subst x. auto.
      * right. exists x. auto.
Qed.

Lemma new_concepts_ok subs : forall m V Q, (forall s, In s subs -> s < n) -> cache_ok m ->
  cache_ok (snd (new_concepts ext_of m subs V Q)) /\
  (forall s, In s (fst (new_concepts ext_of m subs V Q)) <->
             In s subs /\ ext s <> [] /\ ~ In s V /\ ~ In s Q) /\
  (NoDup subs -> NoDup (fst (new_concepts ext_of m subs V Q))).
Proof.
  induction subs as [|s subs IH]; intros m V Q Hb Hm; simpl.
  - split; [exact Hm|]. split; [|intros; constructor]. intros s. simpl. tauto.
  - destruct (stored ext_of m s) as [e m1] eqn:E.
    assert (Hs := stored_ok m s (Hb s (or_introl eq_refl)) Hm). rewrite E in Hs. simpl in Hs.
    destruct Hs as [He Hm1]. subst e.
    destruct (IH m1 V Q (fun x H => Hb x (or_intror H)) Hm1) as [IH1 [IH2 IH3]].
    destruct (new_concepts ext_of m1 subs V Q) as [rest m2] eqn:E2. simpl in *.
    split; [exact IH1|].
    assert (Hcond : negb (Nat.eqb (length (ext s)) 0) && negb (mem s V) && negb (mem s Q) = true
                    <-> ext s <> [] /\ ~ In s V /\ ~ In s Q).
    { rewrite !andb_true_iff, !negb_true_iff, !mem_false_iff, Nat.eqb_neq.
      destruct (ext s); simpl; split; intros [[H1 H2] H3] || intros [H1 [H2 H3]]; repeat split; auto; congruence. }
    split.
    + intros x. destruct (negb (Nat.eqb (length (ext s)) 0) && negb (mem s V) && negb (mem s Q)) eqn:C.
      * simpl. rewrite IH2. split.
        -- intros [H|H]; [subst x; split; [left; reflexivity | apply Hcond; reflexivity] | ].
           destruct H as [H1 H2]. split; [right; exact H1 | exact H2].
        -- intros [[H|H] H2]; [left; exact H | right; split; assumption].
      * rewrite IH2. split.
        -- intros [H1 H2]. split; [right; exact H1 | exact H2].
        -- intros [[H|H] H2]; [|split; assumption]. subst x. apply Hcond in H2. congruence.
    + intros Hnd. inversion Hnd as [|? ? Hnot Hnd']; subst.
      destruct (negb (Nat.eqb (length (ext s)) 0) && negb (mem s V) && negb (mem s Q)).
      * constructor; [|apply IH3; exact Hnd']. intros H. apply IH2 in H. tauto.
      * apply IH3. exact Hnd'.
Qed.

(* ---------------------------------------------------------------- the loop invariant *)
Definition Inv (f : nat) (s : tstate) : Prop :=
  let V := ts_visited s in let Q := ts_queue s in
  cache_ok (ts_cache s) /\
  NoDup (V ++ Q) /\
  (forall c, In c (V ++ Q) -> c < n) /\
  (forall g c, In c (ts_traced s g) <-> In c V /\ In g (ext c)) /\
  (forall g c, In c (ts_bottom s g) <->
               In c V /\ In g (ext c) /\ forall x, In x (children c) -> ~ In g (ext x)) /\
  In top (V ++ Q) /\
  (forall c, In c V -> forall x, In x (children c) -> ext x <> [] -> In x (V ++ Q)) /\
  length V + f = n.

Lemma Inv_init : n <> 0 -> Inv n (trace_init L).
Proof.
  intros Hn. unfold Inv, trace_init. simpl.
  split; [intros c e H; discriminate|].
  split; [constructor; [intros [] | constructor]|].
  split; [intros c [H|[]]; subst c; apply Htop|].
  split; [intros g c; split; [intros [] | intros [[] _]]|].
  split; [intros g c; split; [intros [] | intros [[] _]]|].
  split; [left; reflexivity|].
  split; [intros c []|]. reflexivity.
Qed.

Lemma Inv_step f s c q :
  Inv (S f) s -> ts_queue s = c :: q -> Inv f (trace_step ext_of L enum s c q).
Proof.
  intros [Hc [Hnd [Hb [Htr [Hbo [Htp [Hcl Hlen]]]]]]] Hq. rewrite Hq in *.
  set (V := ts_visited s) in *.
  assert (Hcn : c < n) by (apply Hb; apply in_or_app; right; left; reflexivity).
  assert (HcV : ~ In c V).
  { intros H. apply NoDup_remove_2 in Hnd. apply Hnd. apply in_or_app. left. exact H. }
  assert (Hcq : ~ In c q).
  { intros H. apply NoDup_remove_2 in Hnd. apply Hnd. apply in_or_app. right. exact H. }
  assert (Hadd : add c V = c :: V).
  { unfold add. apply mem_false_iff in HcV. rewrite HcV. reflexivity. }
  unfold trace_step. fold V. rewrite Hadd.
  destruct (stored ext_of (ts_cache s) c) as [extent m1] eqn:E1.
  assert (S1 := stored_ok (ts_cache s) c Hcn Hc). rewrite E1 in S1. simpl in S1. destruct S1 as [Hextc Hm1].
  subst extent.
  assert (Hsubs : forall x, In x (enum (lt_children L c)) -> x < n).
  { intros x Hx. apply (proj1 (Henum_In _ _)) in Hx. apply (children_lt c x Hcn Hx). }
  destruct (stored_union ext_of m1 (enum (lt_children L c)) []) as [sub_exts m2] eqn:E2.
  assert (S2 := stored_union_ok (enum (lt_children L c)) m1 [] Hsubs Hm1). rewrite E2 in S2. simpl in S2.
  destruct S2 as [Hm2 Hsub].
  destruct (new_concepts ext_of m2 (enum (lt_children L c)) (c :: V) q) as [new m3] eqn:E3.
  assert (S3 := new_concepts_ok (enum (lt_children L c)) m2 (c :: V) q Hsubs Hm2). rewrite E3 in S3. simpl in S3.
  destruct S3 as [Hm3 [Hnew Hnewnd]].
  assert (Hnewnd' : NoDup new) by (apply Hnewnd, Henum_nd, (Hch_nd c Hcn)).
  set (snew := sort_by_desc (lt_support L) new).
  assert (Hperm : Permutation snew new) by apply sort_by_desc_perm.
  assert (Hsnew : forall x, In x snew <-> In x new).
  { intros x. split; intros H; [apply (Permutation_in _ Hperm H) | apply (Permutation_in _ (Permutation_sym Hperm) H)]. }
  unfold Inv. cbn [ts_visited ts_queue ts_cache ts_traced ts_bottom].
  split; [exact Hm3|].
  split.
  { (* NoDup *)
    assert (P1 : NoDup (c :: V ++ q)).
    { apply (Permutation_NoDup (l := V ++ c :: q)); [|exact Hnd].
      apply Permutation_sym. apply Permutation_middle. }
    change ((c :: V) ++ q ++ snew) with (c :: (V ++ q ++ snew)). rewrite app_assoc.
    change (NoDup ((c :: V ++ q) ++ snew)).
    assert (NoDup snew) by (apply (Permutation_NoDup (Permutation_sym Hperm) Hnewnd')).
    clear - P1 H Hsnew Hnew.
    assert (G : forall l, NoDup l -> (forall x, In x snew -> ~ In x l) -> NoDup (l ++ snew)).
    { induction l as [|y l IHl]; intros Hl Hd; simpl; [exact H|].
      inversion Hl; subst. constructor.
      - intros Hin. apply in_app_or in Hin. destruct Hin as [Hin|Hin]; [contradiction|].
        apply (Hd y Hin). left. reflexivity.
      - apply IHl; [assumption|]. intros x Hx Hxl. apply (Hd x Hx). right. exact Hxl. }
    apply G; [exact P1|]. intros x Hx Hin. apply Hsnew in Hx. apply Hnew in Hx.
    destruct Hx as [_ [_ [H1 H2]]]. destruct Hin as [Hin|Hin]; [apply H1; left; exact Hin|].
    apply in_app_or in Hin. destruct Hin as [Hin|Hin]; [apply H1; right; exact Hin | apply H2; exact Hin]. }
  split.
  { intros x Hx. simpl in Hx. destruct Hx as [Hx|Hx]; [subst; exact Hcn|].
    apply in_app_or in Hx. destruct Hx as [Hx|Hx]; [apply Hb; apply in_or_app; left; exact Hx|].
    apply in_app_or in Hx. destruct Hx as [Hx|Hx]; [apply Hb; apply in_or_app; right; right; exact Hx|].
    apply Hsnew in Hx. apply Hnew in Hx. apply Hsubs. tauto. }
  split.
  { intros g c'. rewrite add_to_In, Htr. simpl. split.
    - intros [[H1 H2]|[H1 H2]]; [subst c'; split; [left; reflexivity | exact H1] | split; [right; exact H1 | exact H2]].
    - intros [[H|H] H2]; [subst c'; left; split; [exact H2 | reflexivity] | right; split; assumption]. }
  split.
  { intros g c'. rewrite add_to_In, Hbo, diff_In, Hsub. simpl. split.
    - intros [[[H1 H2] H3]|[H1 H2]].
      + subst c'. split; [left; reflexivity|]. split; [exact H1|].
        intros x Hx Hg. apply H2. right. exists x. split; [apply (proj2 (Henum_In _ _)); exact Hx | exact Hg].
      + split; [right; exact H1 | exact H2].
    - intros [[H|H] [H2 H3]].
      + subst c'. left. split; [|reflexivity]. split; [exact H2|].
        intros [[]|[x [Hx Hg]]]. apply (proj1 (Henum_In _ _)) in Hx. apply (H3 x Hx Hg).
      + right. split; [exact H | split; assumption]. }
  split.
  { apply in_app_or in Htp. destruct Htp as [H|[H|H]].
    - right. apply in_or_app. left. exact H.
    - left. exact H.
    - right. apply in_or_app. right. apply in_or_app. left. exact H. }
  split.
  { intros c' Hc' x Hx Hne. destruct Hc' as [Hc'|Hc'].
    - subst c'.
      destruct (in_dec Nat.eq_dec x (c :: V)) as [D1|D1]; [apply in_or_app; left; exact D1|].
      destruct (in_dec Nat.eq_dec x q) as [D2|D2].
      + apply in_or_app. right. apply in_or_app. left. exact D2.
      + apply in_or_app. right. apply in_or_app. right. apply Hsnew. apply Hnew.
        split; [apply (proj2 (Henum_In _ _)); exact Hx|]. auto.
    - specialize (Hcl c' Hc' x Hx Hne). apply in_app_or in Hcl. destruct Hcl as [H|[H|H]].
      + right. apply in_or_app. left. exact H.
      + left. exact H.
      + right. apply in_or_app. right. apply in_or_app. left. exact H. }
  simpl. lia.
Qed.

Lemma Inv_loop f : forall s, Inv f s ->
  exists f', Inv f' (trace_loop ext_of L enum f s) /\ ts_queue (trace_loop ext_of L enum f s) = [].
Proof.
  induction f as [|f IH]; intros s HI.
  - simpl. exists 0. split; [exact HI|].
    destruct HI as [_ [Hnd [Hb [_ [_ [_ [_ Hlen]]]]]]].
    assert (Hl := NoDup_bounded_length _ n Hnd Hb). rewrite app_length in Hl.
    destruct (ts_queue s); [reflexivity | simpl in Hl; lia].
  - simpl. destruct (ts_queue s) as [|c q] eqn:Hq.
    + exists (S f). split; [exact HI | exact Hq].
    + apply IH. apply Inv_step; assumption.
Qed.

Lemma Hn : n <> 0.
Proof. destruct Htop as [H _]. lia. Qed.

Lemma final_inv : exists f, Inv f (trace_final ext_of L enum) /\ ts_queue (trace_final ext_of L enum) = [].
Proof. unfold trace_final. apply Inv_loop. apply Inv_init. exact Hn. Qed.

Theorem loop_bound_ok : ts_queue (trace_final ext_of L enum) = [].
Proof. destruct final_inv as [f [_ H]]. exact H. Qed.

(* every concept whose extension on the traced context contains g is visited *)
Lemma reach_aux m : forall c g, c < n -> length (strict_up lt n c) <= m -> In g (ext c) ->
  In c (ts_visited (trace_final ext_of L enum)).
Proof.
  destruct final_inv as [f [HI HQ]].
  destruct HI as [_ [_ [Hb [_ [_ [Htp [Hcl _]]]]]]]. rewrite HQ, !app_nil_r in *.
  induction m as [|m IH]; intros c g Hc Hlen Hg.
  - (* nothing above c: c is the top *)
    destruct (Nat.eq_dec c top) as [E|E]; [subst; exact Htp|].
    assert (X : In top (strict_up lt n c)).
    { apply (strict_up_In lt n). split; [apply Htop | apply Htop; assumption]. }
    destruct (strict_up lt n c); [contradiction | simpl in Hlen; lia].
  - destruct (Nat.eq_dec c top) as [E|E]; [subst; exact Htp|].
    assert (Hct : lt c top = true) by (apply Htop; assumption).
    assert (Htn : top < n) by apply Htop.
    destruct (cover_above lt n SO c top Hc Htn Hct) as [p [Hp [Hcov Hr]]].
    assert (Hcp : lt c p = true) by (apply (is_lower_cover_lt lt n p c Hcov)).
    assert (Hgp : In g (ext p)) by (apply (ext_antitone_lt c p g Hc Hp Hcp Hg)).
    assert (HpV : In p (ts_visited (trace_final ext_of L enum))).
    { apply (IH p g Hp); [|exact Hgp].
      assert (Lt : length (strict_up lt n p) < length (strict_up lt n c)).
      { unfold strict_up. apply (filter_length_lt _ _ _ p).
        - intros x Hx Hpx. apply in_seq in Hx. apply (lt_trans lt n SO c p x); try assumption; lia.
        - apply in_seq. lia.
        - exact Hcp.
        - apply (lt_irrefl lt n SO p Hp). }
      lia. }
    assert (Hchild : In c (children p)).
    { apply (Hch p Hp). unfold lower_covers. apply filter_In. split; [apply in_seq; lia | exact Hcov]. }
    apply (Hcl p HpV c Hchild). intros Hnil. rewrite Hnil in Hg. contradiction.
Qed.

Lemma reach c g : c < n -> In g (ext c) -> In c (ts_visited (trace_final ext_of L enum)).
Proof. intros Hc Hg. apply (reach_aux (length (strict_up lt n c)) c g Hc (le_n _) Hg). Qed.

Theorem traced_exact g : g < h ->
  same_set (ts_traced (trace_final ext_of L enum) g) (traced_gen sat n g).
Proof.
  intros Hg c. destruct final_inv as [f [HI HQ]].
  destruct HI as [_ [_ [Hb [Htr _]]]]. rewrite HQ, !app_nil_r in *.
  rewrite Htr. unfold traced_gen. rewrite filter_In, in_seq. split.
  - intros [HV Hgc]. assert (Hc := Hb c HV). apply (ext_In c g Hc) in Hgc. split; [lia | tauto].
  - intros [Hc Hs]. assert (Hcn : c < n) by lia.
    assert (Hgc : In g (ext c)) by (apply (ext_In c g Hcn); auto).
    split; [apply (reach c g Hcn Hgc) | exact Hgc].
Qed.

Theorem bottom_exact g : g < h ->
  same_set (ts_bottom (trace_final ext_of L enum) g) (bottoms_gen lt sat n g).
Proof.
  intros Hg c. destruct final_inv as [f [HI HQ]].
  destruct HI as [_ [_ [Hb [_ [Hbo _]]]]]. rewrite HQ, !app_nil_r in *.
  rewrite Hbo. unfold bottoms_gen. rewrite filter_In, in_seq, andb_true_iff, negb_true_iff. split.
  - intros [HV [Hgc Hno]]. assert (Hc : c < n) by (apply Hb; exact HV).
    split; [lia|]. split; [apply (ext_In c g Hc) in Hgc; tauto|].
    destruct (existsb (fun j => lt j c && sat j g) (seq 0 n)) eqn:E; [|reflexivity].
    exfalso. apply existsb_exists in E. destruct E as [j [Hj Hjs]]. apply in_seq in Hj.
    apply andb_true_iff in Hjs. destruct Hjs as [Hjc Hjs].
    assert (Hjn : j < n) by lia.
    destruct (cover_below lt n SO j c Hjn Hc Hjc) as [y [Hy [Hcov Hr]]].
    assert (Hgj : In g (ext j)) by (apply (ext_In j g Hjn); split; [exact Hg | exact Hjs]).
    assert (Hgy : In g (ext y)).
    { destruct Hr as [Hr|Hr]; [subst; exact Hgj | apply (ext_antitone_lt j y g Hjn Hy Hr Hgj)]. }
    apply (Hno y); [|exact Hgy].
    apply (Hch c Hc). unfold lower_covers. apply filter_In. split; [apply in_seq; lia | exact Hcov].
  - intros [Hc [Hs Hno]]. assert (Hcn : c < n) by lia.
    assert (Hgc : In g (ext c)) by (apply (ext_In c g Hcn); auto).
    split; [apply (reach c g Hcn Hgc)|]. split; [exact Hgc|].
    intros x Hx Hgx. destruct (children_lt c x Hcn Hx) as [Hxn Hxc].
    assert (E : existsb (fun j => lt j c && sat j g) (seq 0 n) = true).
    { apply existsb_exists. exists x. split; [apply in_seq; lia|].
      rewrite Hxc. simpl. apply (ext_In x g Hxn) in Hgx. tauto. }
    congruence.
Qed.

End TraceProofs.

(* ------------------------------------------------------------------ the hypotheses in one place *)
(* [lt] is the order of the lattice, the children dictionary is its cover relation (complete or
   pruned list of concepts alike), [ext_of] is the satisfaction filter of an antitone [sat] on the
   h objects of the traced context; [enum] is the (arbitrary) iteration order of a frozenset *)
Definition trace_hyps_gen (ext_of : nat -> list nat) (L : lattice) (h : nat)
           (enum : list nat -> list nat) (lt sat : nat -> nat -> bool) : Prop :=
  (forall l x, In x (enum l) <-> In x l) /\ (forall l, NoDup l -> NoDup (enum l)) /\
  strict_order lt (lt_len L) /\ is_top lt (lt_len L) (lt_top L) /\
  (forall i, i < lt_len L -> forall x, In x (lt_children L i) <-> In x (lower_covers lt (lt_len L) i)) /\
  (forall i, i < lt_len L -> NoDup (lt_children L i)) /\
  (forall c, c < lt_len L -> forall g, In g (ext_of c) <-> g < h /\ sat c g = true) /\
  antitone_sat lt sat (lt_len L).

Theorem traced_exact_gen ext_of L h enum lt sat : trace_hyps_gen ext_of L h enum lt sat ->
  forall g, g < h -> same_set (ts_traced (trace_final ext_of L enum) g) (traced_gen sat (lt_len L) g).
Proof. intros [H1 [H2 [H3 [H4 [H5 [H6 [H7 H8]]]]]]]. apply (traced_exact ext_of L h enum lt sat); assumption. Qed.

Theorem bottom_exact_gen ext_of L h enum lt sat : trace_hyps_gen ext_of L h enum lt sat ->
  forall g, g < h -> same_set (ts_bottom (trace_final ext_of L enum) g) (bottoms_gen lt sat (lt_len L) g).
Proof. intros [H1 [H2 [H3 [H4 [H5 [H6 [H7 H8]]]]]]]. apply (bottom_exact ext_of L h enum lt sat); assumption. Qed.

Theorem loop_bound_ok_gen ext_of L h enum lt sat : trace_hyps_gen ext_of L h enum lt sat ->
  ts_queue (trace_final ext_of L enum) = [].
Proof. intros [H1 [H2 [H3 [H4 [H5 [H6 [H7 H8]]]]]]]. apply (loop_bound_ok ext_of L h enum lt); assumption. Qed.

(* the public result in the by-index key mode *)
Theorem trace_by_index_exact_gen ext_of L h enum lt sat :
  trace_hyps_gen ext_of L h enum lt sat -> lt_monotone L = false ->
  exists bs trs, trace_by_index ext_of L h enum = Done (bs, trs) /\
    length bs = h /\ length trs = h /\
    forall g, g < h ->
      same_set (nth g bs []) (bottoms_gen lt sat (lt_len L) g) /\
      same_set (nth g trs []) (traced_gen sat (lt_len L) g).
Proof.
  intros H Hm. unfold trace_by_index. rewrite Hm.
  exists (tabulate h (ts_bottom (trace_final ext_of L enum))),
         (tabulate h (ts_traced (trace_final ext_of L enum))).
  split; [reflexivity|]. unfold tabulate. rewrite !map_length, seq_length.
  split; [reflexivity|]. split; [reflexivity|]. intros g Hg.
  assert (E : forall f : nat -> list nat, nth g (map f (seq 0 h)) [] = f g).
  { intros f. rewrite (nth_indep _ [] (f 0)) by (rewrite map_length, seq_length; exact Hg).
    rewrite map_nth, seq_nth by exact Hg. reflexivity. }
  rewrite !E. split; [apply (bottom_exact_gen ext_of L h enum lt sat H g Hg) | apply (traced_exact_gen ext_of L h enum lt sat H g Hg)].
Qed.

(* ------------------------------------------------------------------ instance 1: formal contexts *)
Definition trace_hyps (L : lattice) (intents : list (list nat)) (t : table)
           (enum : list nat -> list nat) (lt : nat -> nat -> bool) : Prop :=
  lt_len L = length intents /\
  (forall l x, In x (enum l) <-> In x l) /\ (forall l, NoDup l -> NoDup (enum l)) /\
  strict_order lt (lt_len L) /\ is_top lt (lt_len L) (lt_top L) /\
  (forall i, i < lt_len L -> forall x, In x (lt_children L i) <-> In x (lower_covers lt (lt_len L) i)) /\
  (forall i, i < lt_len L -> NoDup (lt_children L i)) /\
  antitone_intents lt intents /\ wf t /\
  (forall i, i < lt_len L -> in_range (width t) (nth i intents [])).

Lemma formal_hyps b L intents t enum lt : trace_hyps L intents t enum lt ->
  trace_hyps_gen (formal_ext b intents t) L (height t) enum lt (sat_formal intents t).
Proof.
  intros [Hlen [H1 [H2 [H3 [H4 [H5 [H6 [H7 [H8 H9]]]]]]]]].
  split; [exact H1|]. split; [exact H2|]. split; [exact H3|]. split; [exact H4|]. split; [exact H5|].
  split; [exact H6|]. split.
  - intros c Hc g. unfold formal_ext.
    rewrite (extension_i_correct b t (nth c intents []) None H8 (H9 c Hc) Logic.I).
    unfold ext_spec, all_objs, sat_formal, satisfies. simpl. rewrite filter_In, in_seq. split; intros H; intuition lia.
  - intros i j Hi Hj Hlt g. unfold sat_formal, satisfies. rewrite !forallb_forall. intros Hs m Hm.
    apply Hs. rewrite Hlen in Hi, Hj. apply (H7 i j Hi Hj Hlt). exact Hm.
Qed.

Theorem traced_exact' b L intents t enum lt : trace_hyps L intents t enum lt -> forall g, g < height t ->
  same_set (ts_traced (trace_final (formal_ext b intents t) L enum) g) (traced_spec intents t g).
Proof.
  intros H g Hg. unfold traced_spec. rewrite <- (proj1 H).
  apply (traced_exact_gen _ L (height t) enum lt _ (formal_hyps b L intents t enum lt H) g Hg).
Qed.

Theorem bottom_exact' b L intents t enum lt : trace_hyps L intents t enum lt -> forall g, g < height t ->
  same_set (ts_bottom (trace_final (formal_ext b intents t) L enum) g) (bottoms_spec lt intents t g).
Proof.
  intros H g Hg. unfold bottoms_spec. rewrite <- (proj1 H).
  apply (bottom_exact_gen _ L (height t) enum lt _ (formal_hyps b L intents t enum lt H) g Hg).
Qed.

Theorem loop_bound_ok' b L intents t enum lt : trace_hyps L intents t enum lt ->
  ts_queue (trace_final (formal_ext b intents t) L enum) = [].
Proof. intros H. apply (loop_bound_ok_gen _ L (height t) enum lt _ (formal_hyps b L intents t enum lt H)). Qed.

Theorem trace_by_index_exact b L intents t enum lt : trace_hyps L intents t enum lt -> lt_monotone L = false ->
  exists bs trs, trace_by_index (formal_ext b intents t) L (height t) enum = Done (bs, trs) /\
    length bs = height t /\ length trs = height t /\
    forall g, g < height t ->
      same_set (nth g bs []) (bottoms_spec lt intents t g) /\
      same_set (nth g trs []) (traced_spec intents t g).
Proof.
  intros H Hm. unfold bottoms_spec, traced_spec. rewrite <- (proj1 H).
  apply (trace_by_index_exact_gen _ L (height t) enum lt _ (formal_hyps b L intents t enum lt H) Hm).
Qed.

(* ------------------------------------------------------------------ instance 2: many-valued contexts *)
Lemma desc_leb_covers d1 d2 v : desc_leb d1 d2 = true -> covers d1 v = true -> covers d2 v = true.
Proof.
  destruct d1 as [[[a b]|]|[s|]|d], d2 as [[[a' b']|]|[s'|]|d'], v as [[l r]|row|x]; simpl; intros H1 H2;
    try discriminate; try reflexivity.
  - apply andb_true_iff in H1. apply andb_true_iff in H2. destruct H1 as [A1 A2]. destruct H2 as [B1 B2].
    apply Z.leb_le in A1, A2, B1, B2. apply andb_true_iff. split; apply Z.leb_le; lia.
  - apply subsetb_incl in H1, H2. apply subsetb_incl. intros y Hy. apply H1, H2, Hy.
  - destruct d, d', x; simpl in *; congruence.
Qed.

Lemma unsat_intent_sat cols ds g : unsat_intent ds = true -> sat_desc cols ds g = false.
Proof.
  unfold unsat_intent, sat_desc. induction ds as [|[i d] ds IH]; simpl; [discriminate|].
  intros H. apply orb_true_iff in H. destruct H as [H|H].
  - destruct d as [[?|]|[?|]|?]; try discriminate; simpl; destruct (value_at (nth i cols (CAttr [])) g); reflexivity.
  - rewrite (IH H). apply andb_false_r.
Qed.

Lemma intent_leb_sat cols ds1 ds2 g : intent_leb ds1 ds2 = true ->
  sat_desc cols ds1 g = true -> sat_desc cols ds2 g = true.
Proof.
  unfold intent_leb. intros H Hs. apply orb_true_iff in H. destruct H as [H|H].
  { rewrite (unsat_intent_sat cols ds1 g H) in Hs. discriminate. }
  revert H Hs. unfold sat_desc. revert ds2. induction ds1 as [|[i d] ds1 IH]; intros [|[i' d'] ds2]; simpl;
    intros H1 H2; try discriminate; [reflexivity|].
  apply andb_true_iff in H1. destruct H1 as [H1 H1']. apply andb_true_iff in H1. destruct H1 as [Hi Hd].
  apply Nat.eqb_eq in Hi. subst i'. apply andb_true_iff in H2. destruct H2 as [H2 H2'].
  apply andb_true_iff. split; [apply (desc_leb_covers d d' _ Hd H2) | apply (IH ds2 H1' H2')].
Qed.

Definition trace_hyps_mv (L : lattice) (intents : list mv_intent) (K : mvctx)
           (enum : list nat -> list nat) (lt : nat -> nat -> bool) : Prop :=
  lt_len L = length intents /\
  (forall l x, In x (enum l) <-> In x l) /\ (forall l, NoDup l -> NoDup (enum l)) /\
  strict_order lt (lt_len L) /\ is_top lt (lt_len L) (lt_top L) /\
  (forall i, i < lt_len L -> forall x, In x (lt_children L i) <-> In x (lower_covers lt (lt_len L) i)) /\
  (forall i, i < lt_len L -> NoDup (lt_children L i)) /\
  antitone_mv lt intents /\
  (* every intent addresses existing structures with descriptions of their kind *)
  (forall i, i < lt_len L -> ddict_ok K (nth i intents [])).

Lemma mv_hyps L intents K enum lt : trace_hyps_mv L intents K enum lt ->
  trace_hyps_gen (mv_ext K intents) L (mv_n K) enum lt (sat_mv intents (mv_cols K)).
Proof.
  intros [Hlen [H1 [H2 [H3 [H4 [H5 [H6 [H7 H8]]]]]]]].
  split; [exact H1|]. split; [exact H2|]. split; [exact H3|]. split; [exact H4|]. split; [exact H5|].
  split; [exact H6|]. split.
  - intros c Hc g. unfold mv_ext. assert (E := extension_conj_any K (nth c intents []) None (H8 c Hc)).
    unfold mv_intent, ddict in *. rewrite E.
    simpl. rewrite filter_In, in_seq. unfold sat_mv, sat_desc, covers_ddict, mv_col.
    split; intros H; intuition lia.
  - intros i j Hi Hj Hlt g. unfold sat_mv. rewrite Hlen in Hi, Hj.
    apply (intent_leb_sat (mv_cols K) _ _ g (H7 i j Hi Hj Hlt)).
Qed.

Theorem traced_exact_mv L intents K enum lt : trace_hyps_mv L intents K enum lt -> forall g, g < mv_n K ->
  same_set (ts_traced (trace_final (mv_ext K intents) L enum) g)
           (traced_gen (sat_mv intents (mv_cols K)) (length intents) g).
Proof.
  intros H g Hg. rewrite <- (proj1 H).
  apply (traced_exact_gen _ L (mv_n K) enum lt _ (mv_hyps L intents K enum lt H) g Hg).
Qed.

Theorem bottom_exact_mv L intents K enum lt : trace_hyps_mv L intents K enum lt -> forall g, g < mv_n K ->
  same_set (ts_bottom (trace_final (mv_ext K intents) L enum) g)
           (bottoms_gen lt (sat_mv intents (mv_cols K)) (length intents) g).
Proof.
  intros H g Hg. rewrite <- (proj1 H).
  apply (bottom_exact_gen _ L (mv_n K) enum lt _ (mv_hyps L intents K enum lt H) g Hg).
Qed.

Theorem loop_bound_ok_mv L intents K enum lt : trace_hyps_mv L intents K enum lt ->
  ts_queue (trace_final (mv_ext K intents) L enum) = [].
Proof. intros H. apply (loop_bound_ok_gen _ L (mv_n K) enum lt _ (mv_hyps L intents K enum lt H)). Qed.

(* boolean versions of the hypotheses, for concrete instances *)
Lemma antitone_intentsb_spec lt intents :
  antitone_intentsb lt intents = true -> antitone_intents lt intents.
Proof.
  unfold antitone_intentsb, antitone_intents. rewrite forallb_forall. intros H i j Hi Hj Hlt.
  assert (Hi' : In i (seq 0 (length intents))) by (apply in_seq; lia).
  specialize (H i Hi'). rewrite forallb_forall in H.
  assert (Hj' : In j (seq 0 (length intents))) by (apply in_seq; lia).
  specialize (H j Hj'). rewrite Hlt in H. simpl in H. apply subsetb_incl. exact H.
Qed.

Lemma antitone_mvb_spec lt intents : antitone_mvb lt intents = true -> antitone_mv lt intents.
Proof.
  unfold antitone_mvb, antitone_mv. rewrite forallb_forall. intros H i j Hi Hj Hlt.
  assert (Hi' : In i (seq 0 (length intents))) by (apply in_seq; lia).
  specialize (H i Hi'). rewrite forallb_forall in H.
  assert (Hj' : In j (seq 0 (length intents))) by (apply in_seq; lia).
  specialize (H j Hj'). rewrite Hlt in H. simpl in H. exact H.
Qed.

(* ------------------------------------------------------------------ key modes *)
Lemma keys_rekey ext_of L h enum names bs trs :
  trace_by_index ext_of L h enum = Done (bs, trs) ->
  trace_by_name ext_of L h enum names =
    Done (combine (map (fun g => nth g names 0) (seq 0 h)) bs,
          combine (map (fun g => nth g names 0) (seq 0 h)) trs).
Proof.
  unfold trace_by_index, trace_by_name. destruct (lt_monotone L); [discriminate|].
  intros H. inversion H; subst. unfold tabulate. f_equal. f_equal.
  - induction (seq 0 h) as [|g l IH]; simpl; [reflexivity | rewrite IH; reflexivity].
  - induction (seq 0 h) as [|g l IH]; simpl; [reflexivity | rewrite IH; reflexivity].
Qed.

(* Lemmas/C12par.v — the chunked (parallel) sweep: the sequentialised schedule equals the
   sequential routine for every chunk size, and every interleaving of the threads' atomic loop
   iterations keeps the shared sets sound. *)
From Coq Require Import Permutation Sorted.
From FCA Require Export Lemmas.C12sweep.

Section Chunks.
Variable lt : nat -> nat -> bool.
Variable rank : nat -> nat.

Lemma scan_chains_length c : forall chs ptrs l, length ptrs = length chs ->
  length (snd (scan_chains lt rank c chs ptrs l)) = length chs.
Proof.
  induction chs as [|ch chs IH]; intros ptrs l Hl; destruct ptrs as [|p ptrs]; simpl in *; try lia; try reflexivity.
  destruct (iterate_chain lt rank c ch p l) as [l1 p1].
  specialize (IH ptrs l1 ltac:(lia)). destruct (scan_chains lt rank c chs ptrs l1) as [l2 ps]. simpl in *. lia.
Qed.

Lemma scan_chains_app c : forall a b pa pb l, length pa = length a ->
  scan_chains lt rank c (a ++ b) (pa ++ pb) l =
  let '(l1, ps1) := scan_chains lt rank c a pa l in
  let '(l2, ps2) := scan_chains lt rank c b pb l1 in (l2, ps1 ++ ps2).
Proof.
  induction a as [|ch a IH]; intros b pa pb l Hl; destruct pa as [|p pa]; simpl in Hl; try lia.
  - simpl. destruct (scan_chains lt rank c b pb l) as [l2 ps2]. reflexivity.
  - cbn [app scan_chains]. destruct (iterate_chain lt rank c ch p l) as [l1 p1].
    rewrite (IH b pa pb l1) by lia.
    destruct (scan_chains lt rank c a pa l1) as [l2 ps1].
    destruct (scan_chains lt rank c b pb l2) as [l3 ps2]. reflexivity.
Qed.

Lemma scan_chains_nil_ptrs c chs l : scan_chains lt rank c chs [] l = (l, []).
Proof. destruct chs; reflexivity. Qed.

Lemma scan_chunks_eq c k : 1 <= k -> forall fuel chs ptrs l,
  length ptrs = length chs -> length chs <= fuel ->
  scan_chunks lt rank fuel c k chs ptrs l = scan_chains lt rank c chs ptrs l.
Proof.
  intros Hk. induction fuel as [|f IH]; intros chs ptrs l Hl Hf.
  - destruct chs; [|simpl in Hf; lia]. destruct ptrs; reflexivity.
  - destruct chs as [|ch chs'].
    + destruct ptrs; [reflexivity | simpl in Hl; lia].
    + cbn [scan_chunks]. set (chs := ch :: chs') in *.
      transitivity (scan_chains lt rank c (firstn k chs ++ skipn k chs) (firstn k ptrs ++ skipn k ptrs) l);
        [|rewrite !firstn_skipn; reflexivity].
      rewrite scan_chains_app by (rewrite !firstn_length; lia).
      destruct (scan_chains lt rank c (firstn k chs) (firstn k ptrs) l) as [l1 ps].
      rewrite IH.
      * destruct (scan_chains lt rank c (skipn k chs) (skipn k ptrs) l1) as [l2 ps']. reflexivity.
      * rewrite !skipn_length. lia.
      * rewrite skipn_length. unfold chs in *. cbn [length] in *. lia.
Qed.

(* the sweep only depends on the scanning function through pointer lists of the right length *)
Lemma pass_loop_ext (scan1 scan2 : nat -> list nat -> local -> local * list nat) nch :
  (forall c ptrs l, length ptrs = nch -> scan1 c ptrs l = scan2 c ptrs l) ->
  (forall c ptrs l, length ptrs = nch -> length (snd (scan2 c ptrs l)) = nch) ->
  forall rest p g ptrs, length ptrs = nch ->
  pass_loop scan1 p rest (g, ptrs) = pass_loop scan2 p rest (g, ptrs).
Proof.
  intros Heq Hlen. induction rest as [|c rest IH]; intros p g ptrs Hl; [reflexivity|].
  cbn [pass_loop]. unfold process. destruct (g_S g c) as [|s0 S0].
  - rewrite (Heq c ptrs _ Hl). specialize (Hlen c ptrs {| l_S := [p]; l_A := union (p :: g_A g p) (g_A g c); l_I := g_I g c |} Hl).
    destruct (scan2 c ptrs {| l_S := [p]; l_A := union (p :: g_A g p) (g_A g c); l_I := g_I g c |}) as [l1 ptrs'].
    apply IH. exact Hlen.
  - apply IH. exact Hl.
Qed.

Lemma sweep_ext (scan1 scan2 : nat -> list nat -> local -> local * list nat) chains :
  (forall c ptrs l, length ptrs = length chains -> scan1 c ptrs l = scan2 c ptrs l) ->
  (forall c ptrs l, length ptrs = length chains -> length (snd (scan2 c ptrs l)) = length chains) ->
  sweep scan1 chains = sweep scan2 chains.
Proof.
  intros Heq Hlen. unfold sweep. generalize g0.
  generalize chains at 2 4. intros chs. induction chs as [|ch chs IH]; intros g; [reflexivity|].
  simpl. assert (E : pass scan1 (length chains) g ch = pass scan2 (length chains) g ch).
  { unfold pass. destruct ch as [|t rest]; [reflexivity|].
    rewrite (pass_loop_ext scan1 scan2 (length chains) Heq Hlen); [reflexivity | apply repeat_length]. }
  rewrite E. apply IH.
Qed.

Theorem jobs_irrelevant n k chains : 1 <= k ->
  from_spanning_tree_parallel lt rank n k chains = from_spanning_tree lt rank n chains.
Proof.
  intros Hk. unfold from_spanning_tree_parallel, from_spanning_tree.
  rewrite (sweep_ext (fun c => scan_chunks lt rank (length chains) c k chains)
                     (fun c => scan_chains lt rank c chains) chains); [reflexivity | |].
  - intros c ptrs l Hl. apply scan_chunks_eq; [exact Hk | exact Hl | lia].
  - intros c ptrs l Hl. apply scan_chains_length. exact Hl.
Qed.
End Chunks.

(* ------------------------------------------------------------------ interleaved threads *)
Section Schedules.
Variable lt : nat -> nat -> bool.
Variable rank : nat -> nat.
Variable n : nat.
Hypothesis SO : strict_order lt n.
Hypothesis Hrank : forall i j, i < n -> j < n -> lt i j = true -> rank j < rank i.
Variable t : nat.
Hypothesis Ht : is_top lt n t.
Variable c : nat.
Hypothesis Hc : c < n.

(* the shared sets only ever hold what they claim to hold *)
Definition Sound (l : local) : Prop :=
  (forall x, In x (l_S l) -> U lt n c x) /\
  (forall x, In x (l_A l) -> U lt n c x) /\
  (forall x, In x (l_I l) -> x < n /\ lt c x = false) /\
  In t (l_A l).

Definition grows (l l' : local) : Prop :=
  (forall x, In x (l_S l) -> In x (l_S l')) /\ (forall x, In x (l_A l) -> In x (l_A l')) /\
  (forall x, In x (l_I l) -> In x (l_I l')).

(* what a thread knows about its position *)
Definition TI (th : thread) : Prop :=
  (forall x, In x (t_rest th) -> x < n) /\
  (t_done th = true \/ t_rest th = [] \/ U lt n c (t_prev th) \/ exists r, t_rest th = t :: r).

Lemma grows_refl l : grows l l.
Proof. unfold grows. auto. Qed.
Lemma grows_trans l1 l2 l3 : grows l1 l2 -> grows l2 l3 -> grows l1 l3.
Proof. unfold grows. intros [A1 [A2 A3]] [B1 [B2 B3]]. auto. Qed.

Lemma super_flag_truth l x : (forall y, In y (l_I l) -> y < n /\ lt c y = false) -> x < n ->
  (if mem x (l_I l) then false else if Nat.ltb (rank x) (rank c) then lt c x else false) = lt c x.
Proof.
  intros L3 Hx. destruct (mem x (l_I l)) eqn:E.
  - apply mem_In in E. symmetry. apply L3. exact E.
  - destruct (Nat.ltb (rank x) (rank c)) eqn:E2; [reflexivity|]. apply Nat.ltb_ge in E2.
    destruct (lt c x) eqn:E3; [|reflexivity]. assert (X := Hrank c x Hc Hx E3). lia.
Qed.

Lemma thread_step_sound th l : Sound l -> TI th ->
  let '(th', l') := thread_step lt rank c th l in Sound l' /\ TI th' /\ grows l l'.
Proof.
  intros Hs [Hb HT]. assert (Hs' := Hs). destruct Hs' as [L1 [L2 [L3 LT]]]. unfold thread_step.
  destruct (t_done th) eqn:Ed.
  - split; [exact Hs|]. split; [|apply grows_refl]. split; [exact Hb | left; exact Ed].
  - destruct (t_rest th) as [|x rest] eqn:Er.
    + split; [exact Hs|]. split; [|apply grows_refl].
      split; [intros x []| left; reflexivity].
    + assert (Hxn : x < n) by (apply Hb; left; reflexivity).
      unfold iter_body. destruct (mem x (l_A l)) eqn:EA.
      * (* already known super-concept: step over it *)
        apply mem_In in EA. split; [exact Hs|]. split; [|apply grows_refl].
        split; [intros y Hy; apply Hb; right; exact Hy|]. cbn [t_done t_rest t_prev].
        right. right. left. apply L2. exact EA.
      * apply mem_false_iff in EA. rewrite (super_flag_truth l x L3 Hxn).
        set (I' := if negb (mem x (l_I l)) && Nat.ltb (rank x) (rank c) && negb (lt c x) then add x (l_I l) else l_I l).
        assert (HI' : forall y, In y I' -> y < n /\ lt c y = false).
        { intros y Hy. unfold I' in Hy.
          destruct (negb (mem x (l_I l)) && Nat.ltb (rank x) (rank c) && negb (lt c x)) eqn:Eg; [|apply L3; exact Hy].
          apply add_In in Hy. destruct Hy as [Hy|Hy]; [|apply L3; exact Hy]. subst y.
          apply andb_true_iff in Eg. destruct Eg as [_ Eg]. apply negb_true_iff in Eg. auto. }
        assert (HIm : forall y, In y (l_I l) -> In y I').
        { intros y Hy. unfold I'. destruct (negb (mem x (l_I l)) && Nat.ltb (rank x) (rank c) && negb (lt c x)); [apply add_In; right|]; exact Hy. }
        destruct (lt c x) eqn:Hcx.
        -- destruct (Nat.eqb (t_idx th) (length (t_chain th) - 1)); cbn [andb negb].
           ++ (* last in chain *)
              split; [|split].
              ** split; [|split; [|split]]; cbn [l_S l_A l_I].
                 --- intros y Hy. apply add_In in Hy. destruct Hy as [Hy|Hy]; [subst; split; assumption | apply L1; exact Hy].
                 --- intros y Hy. apply add_In in Hy. destruct Hy as [Hy|Hy]; [subst; split; assumption | apply L2; exact Hy].
                 --- exact HI'.
                 --- apply add_In. right. exact LT.
              ** split; [intros y Hy; apply Hb; right; exact Hy | left; reflexivity].
              ** split; [|split]; cbn [l_S l_A l_I]; [intros y Hy; apply add_In; right; exact Hy | intros y Hy; apply add_In; right; exact Hy | exact HIm].
           ++ split; [|split].
              ** split; [|split; [|split]]; cbn [l_S l_A l_I].
                 --- exact L1.
                 --- intros y Hy. apply add_In in Hy. destruct Hy as [Hy|Hy]; [subst; split; assumption | apply L2; exact Hy].
                 --- exact HI'.
                 --- apply add_In. right. exact LT.
              ** split; [intros y Hy; apply Hb; right; exact Hy|]. cbn [t_done t_rest t_prev].
                 right. right. left. split; assumption.
              ** split; [|split]; cbn [l_S l_A l_I]; [auto | intros y Hy; apply add_In; right; exact Hy | exact HIm].
        -- (* not a super-concept: the previous element becomes a candidate *)
           cbn [andb negb].
           assert (Hprev : U lt n c (t_prev th)).
           { destruct HT as [H|[H|[H|[r H]]]]; [congruence | discriminate | exact H |].
             inversion H; subst. contradiction. }
           split; [|split].
           ** split; [|split; [|split]]; cbn [l_S l_A l_I].
              --- intros y Hy. apply add_In in Hy. destruct Hy as [Hy|Hy]; [subst; exact Hprev | apply L1; exact Hy].
              --- exact L2.
              --- exact HI'.
              --- exact LT.
           ** split; [intros y Hy; apply Hb; right; exact Hy | left; reflexivity].
           ** split; [|split]; cbn [l_S l_A l_I]; [intros y Hy; apply add_In; right; exact Hy | auto | exact HIm].
Qed.

Lemma Forall_set_nth {A} (P : A -> Prop) k x (l : list A) : P x -> Forall P l -> Forall P (set_nth k x l).
Proof.
  intros Hx HF. revert k. induction HF as [|y l Hy HF IH]; intros k; simpl; [destruct k; constructor|].
  destruct k; constructor; auto.
Qed.

(* soundness under EVERY interleaving of atomic loop iterations *)
Theorem schedule_sound : forall sched ts l, Sound l -> Forall TI ts ->
  let '(ts', l') := run_schedule lt rank c sched ts l in
  Sound l' /\ Forall TI ts' /\ grows l l'.
Proof.
  induction sched as [|k sched IH]; intros ts l Hs HT.
  - simpl. split; [exact Hs|]. split; [exact HT | apply grows_refl].
  - cbn [run_schedule]. destruct (nth_error ts k) as [th|] eqn:E.
    + assert (Hth : TI th).
      { rewrite Forall_forall in HT. apply HT. apply (nth_error_In _ _ E). }
      assert (P := thread_step_sound th l Hs Hth).
      destruct (thread_step lt rank c th l) as [th' l1]. destruct P as [P1 [P2 P3]].
      specialize (IH (set_nth k th' ts) l1 P1 (Forall_set_nth TI k th' ts P2 HT)).
      destruct (run_schedule lt rank c sched (set_nth k th' ts) l1) as [ts' l'].
      destruct IH as [I1 [I2 I3]]. split; [exact I1|]. split; [exact I2 | apply (grows_trans l l1 l' P3 I3)].
    + apply IH; assumption.
Qed.

(* the threads the routine spawns for a chunk satisfy the thread invariant *)
Lemma spawn_TI ch start : valid_chain lt n t ch ->
  (forall x, In x (firstn start ch) -> U lt n c x) -> TI (spawn ch start).
Proof.
  intros [[r E] [_ Hb]] Hptr. unfold TI, spawn. cbn [t_rest t_done t_prev].
  split.
  - intros x Hx. apply Hb. rewrite <- (firstn_skipn start ch). apply in_or_app. right. exact Hx.
  - destruct start as [|k].
    + right. right. right. exists r. simpl. exact E.
    + destruct (Nat.lt_ge_cases k (length ch)) as [Hk|Hk].
      * right. right. left. apply Hptr. cbn [prev_of].
        rewrite <- (firstn_skipn (S k) ch) at 1. rewrite app_nth1 by (rewrite firstn_length; lia).
        apply nth_In. rewrite firstn_length. lia.
      * right. left. apply skipn_all2. lia.
Qed.
End Schedules.

(* soundness of the shared sets is enough for the final filter never to drop a true cover and
   never to return anything but strict super-concepts *)
Section FilterSound.
Variable lt : nat -> nat -> bool.
Variable rank : nat -> nat.
Variable n : nat.
Hypothesis SO : strict_order lt n.
Hypothesis Hrank : forall i j, i < n -> j < n -> lt i j = true -> rank j < rank i.

Theorem filter_sound g c : c < n ->
  (forall x, In x (g_S g c) -> U lt n c x) ->
  (forall z y, z < n -> In y (g_A g z) -> U lt n z y) ->
  (forall x, In x (final_sups rank g c) -> U lt n c x) /\
  (forall x, In x (g_S g c) -> In x (upper_covers lt n c) -> In x (final_sups rank g c)).
Proof.
  intros Hc HS HA. unfold final_sups. set (l := sort_by_desc rank (g_S g c)).
  assert (Hperm : Permutation l (g_S g c)) by apply sort_by_desc_perm'.
  assert (HlU : forall y, In y l -> U lt n c y).
  { intros y Hy. apply HS. apply (Permutation_in _ Hperm Hy). }
  assert (Hirr : forall sc, In sc l -> ~ In sc (g_A g sc)).
  { intros sc Hsc H. destruct (HlU sc Hsc) as [Hn _]. apply (HA sc sc Hn) in H. destruct H as [_ H].
    rewrite (lt_irrefl lt n SO sc Hn) in H. discriminate. }
  assert (Hsorted : StronglySorted (fun a b => ~ In a (g_A g b)) l).
  { assert (Hs := sort_by_desc_sorted rank (g_S g c)). fold l in Hs.
    assert (Hin : forall y, In y l -> y < n) by (intros y Hy; apply (HlU y Hy)).
    clear - Hs Hin HA Hrank. induction Hs as [|a l0 Hs IH Hall]; constructor.
    - apply IH. intros y Hy. apply Hin. right. exact Hy.
    - rewrite Forall_forall in *. intros b Hb Hab.
      assert (Hbn : b < n) by (apply Hin; right; exact Hb).
      assert (Han : a < n) by (apply Hin; left; reflexivity).
      apply (HA b a Hbn) in Hab. destruct Hab as [_ Hab].
      assert (X := Hrank b a Hbn Han Hab). specialize (Hall b Hb). lia. }
  assert (E := filt_loop_eq (g_A g) (length l) [] l Hirr (fun _ _ _ H => match H with end) Hsorted).
  simpl in E. rewrite E.
  destruct (filt2_props (g_A g) (length l) l (le_n _) Hirr Hsorted) as [P1 [P2 _]].
  split.
  - intros x Hx. apply HlU, P1, Hx.
  - intros x Hx Hcov. assert (Hxl : In x l) by (apply (Permutation_in _ (Permutation_sym Hperm) Hx)).
    destruct (in_dec Nat.eq_dec x (filt2 (g_A g) (length l) l)) as [Y|N]; [exact Y|]. exfalso.
    destruct (P2 x Hxl N) as [w [Hw Hxw]].
    destruct (HlU w (P1 w Hw)) as [Hwn Hcw]. apply (HA w x Hwn) in Hxw. destruct Hxw as [_ Hwx].
    apply (upper_covers_In lt n) in Hcov. destruct Hcov as [_ [_ Hnb]].
    assert (X : between lt n c x = true) by (apply (between_spec lt n); exists w; auto). congruence.
Qed.
End FilterSound.

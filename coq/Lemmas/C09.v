(* Lemmas/C09.v — property C09 assembled: the invariant holds initially, every public call
   preserves it and answers what the cache-free spec answers; lifted to all histories. *)
From FCA Require Import Base.ListSet Spec.PosetSpec Model.Poset Lemmas.C09Base Lemmas.C09Query
     Lemmas.C09Add Lemmas.C09Del Lemmas.C09InitCd.

#[local] Arguments upd : simpl never.
#[local] Arguments updl : simpl never.
#[local] Arguments lk : simpl never.
#[local] Arguments lkl : simpl never.

Section C09.
  Variable E : Type.
  Variable leq : E -> E -> bool.
  Variable eqb : E -> E -> bool.
  Hypothesis PO : partial_order E leq eqb.

  Notation state := (state E).
  Notation op := (op E).
  Notation out := (out E).
  Notation step := (step E leq eqb).
  Notation run := (run E leq eqb).
  Notation spec_step := (spec_step E leq eqb).
  Notation spec_run := (spec_run E leq eqb).
  Notation spec_query := (spec_query E leq eqb).

  (* the invariant of a POSet object between two public calls *)
  Definition Inv (s : state) : Prop := Sound E leq [] s /\ Tidy E s.

  (* ---------------------------------------------------------------- an uncached instance never
     touches its (empty) caches *)
  Lemma leq_elements_nocache s a b : use_cache s = false -> fst (leq_elements E leq s a b) = s.
  Proof. intros H. unfold leq_elements. rewrite H. reflexivity. Qed.

  Lemma scan_nocache (f : state -> nat -> state * bool) js :
    (forall s j, use_cache s = false -> fst (f s j) = s) ->
    forall s, use_cache s = false -> fst (scan E f s js) = s.
  Proof.
    intros Hf. induction js as [|j js IH]; intros s Hs; simpl; [reflexivity|].
    pose proof (Hf s j Hs) as H1. destruct (f s j) as [s1 r]. simpl in H1. subst s1.
    pose proof (IH s Hs) as H2. destruct (scan E f s js) as [s2 rest]. simpl in *. exact H2.
  Qed.

  Lemma closed_nocache_id up s i : use_cache s = false -> fst (closed_nocache E leq up s i) = s.
  Proof.
    intros H. unfold closed_nocache. apply scan_nocache; [|exact H].
    intros s0 j H0. destruct up.
    - pose proof (leq_elements_nocache s0 i j H0) as H1. destruct (leq_elements E leq s0 i j). exact H1.
    - pose proof (leq_elements_nocache s0 j i H0) as H1. destruct (leq_elements E leq s0 j i). exact H1.
  Qed.

  Lemma closed_id up s i : use_cache s = false -> fst (closed E leq up s i) = s.
  Proof. intros H. unfold closed. rewrite H. apply closed_nocache_id. exact H. Qed.

  Lemma prune_id up todo : forall s cur, use_cache s = false -> fst (prune E (closed E leq up) s todo cur) = s.
  Proof.
    induction todo as [|x t IH]; intros s cur H; simpl; [reflexivity|].
    destruct (mem x cur); [|apply IH; exact H].
    pose proof (closed_id up s x H) as H1. destruct (closed E leq up s x) as [s1 r]. simpl in H1. subst s1.
    apply IH. exact H.
  Qed.

  Lemma cover_id up s i : use_cache s = false -> fst (cover E leq up s i) = s.
  Proof.
    intros H. unfold cover. rewrite H. unfold cover_nocache.
    pose proof (closed_id up s i H) as H1. destruct (closed E leq up s i) as [s1 sup]. simpl in H1. subst s1.
    apply prune_id. exact H.
  Qed.

  Lemma extremes_id up s : use_cache s = false -> fst (extremes_q E leq up s) = s.
  Proof.
    intros H. unfold extremes_q. apply scan_nocache; [|exact H].
    intros s0 j H0. pose proof (closed_id up s0 j H0) as Hc. destruct (closed E leq up s0 j). exact Hc.
  Qed.

  Lemma fold_closed_id up (g : list nat -> list nat -> nat -> list nat) ys :
    forall s c, use_cache s = false ->
      fst (fold_left (fun (sc : state * list nat) y =>
                        let '(s', a) := closed E leq up (fst sc) y in (s', g (snd sc) a y)) ys (s, c)) = s.
  Proof.
    induction ys as [|y ys IH]; intros s c H; simpl; [reflexivity|].
    pose proof (closed_id up s y H) as H1. destruct (closed E leq up s y) as [s1 a]. simpl in H1. subst s1.
    apply IH. exact H.
  Qed.

  Lemma eq_loop_id is : forall s1 s2, use_cache s1 = false -> fst (fst (eq_loop E leq eqb is s1 s2)) = s1.
  Proof.
    induction is as [|i is IH]; intros s1 s2 H; simpl; [reflexivity|].
    destruct (nth_error (els s1) i); [|reflexivity].
    destruct (index_of E eqb e (els s2)); [|reflexivity].
    pose proof (closed_id false s1 i H) as H1. destruct (closed E leq false s1 i) as [s1' d1]. simpl in H1. subst s1'.
    destruct (closed E leq false s2 n) as [s2' d2].
    destruct (same_setb d1 _); [apply IH; exact H | reflexivity].
  Qed.

  Lemma nonmut_nocache s o :
    use_cache s = false -> mutating E o = false -> fst (step s o) = s.
  Proof.
    intros H Hm. destruct o; try discriminate; cbn [Poset.step].
    - pose proof (leq_elements_nocache s a b H). destruct (leq_elements E leq s a b). assumption.
    - pose proof (closed_id up s i H). destruct (closed E leq up s i). assumption.
    - pose proof (cover_id up s i H). destruct (cover E leq up s i). assumption.
    - pose proof (extremes_id up s H). destruct (extremes_q E leq up s). assumption.
    - unfold bound_q. destruct (match l with [] => seq 0 (size E s) | _ :: _ => l end) as [|x rest]; [reflexivity|].
      pose proof (closed_id up s x H) as H1. destruct (closed E leq up s x) as [s1 a0]. simpl in H1. subst s1.
      pose proof (fold_closed_id up (fun c a y => inter c (union a [y])) rest s (union a0 [x]) H) as H2.
      destruct (fold_left _ rest (s, union a0 [x])) as [s2 cur]. simpl in H2. subst s2.
      pose proof (fold_closed_id up (fun c a _ => diff c a) cur s cur H) as H3.
      destruct (fold_left _ cur (s, cur)) as [s3 fin]. simpl in H3. subst s3. reflexivity.
    - reflexivity.
    - reflexivity.
    - reflexivity.
    - unfold poset_eq. destruct (set_eqE E eqb (els s) (els (init E other other_cache))); [|reflexivity].
      pose proof (eq_loop_id (seq 0 (size E s)) s (init E other other_cache) H) as H1.
      destruct (eq_loop E leq eqb _ s _) as [[s1 s2] b]. exact H1.
    - rewrite H. reflexivity.
  Qed.

  (* ---------------------------------------------------------------- init *)
  Theorem init_inv l uc : NoDup l -> Inv (init E l uc).
  Proof.
    intros H. split; [apply init_sound; exact H|]. intros _. cbn. auto.
  Qed.

  Theorem init_cd_inv l cd :
    NoDup l -> covers_dict_ok E leq l cd ->
    exists s, init_cd E l cd = Some s /\ Inv s /\ els s = l /\ use_cache s = true.
  Proof.
    intros Hn Hc. destruct (init_cd_sound E leq eqb PO l cd Hn Hc) as [s [H1 [H2 [H3 H4]]]].
    exists s. split; [exact H1|]. split; [|auto]. split; [exact H2|]. intros Hf. congruence.
  Qed.

  (* ---------------------------------------------------------------- one public call *)
  Lemma valid_op_els s s' o : els s' = els s -> valid_op E s o -> valid_op E s' o.
  Proof. intros H. unfold valid_op, size. rewrite H. auto. Qed.

  Theorem step_ok s o :
    Inv s -> valid_op E s o ->
    Inv (fst (step s o)) /\
    snd (step s o) = snd (spec_step (els s) (use_cache s) o) /\
    els (fst (step s o)) = fst (spec_step (els s) (use_cache s) o) /\
    use_cache (fst (step s o)) = use_cache s.
  Proof.
    intros [HS HT] Hv. destruct (mutating E o) eqn:Hm.
    - destruct o; try discriminate; cbn [Poset.step PosetSpec.spec_step].
      + (* add *)
        destruct (add_with_ok E leq eqb PO (extremes_q E leq) s e fill HS HT
                              (extremes_q_starts_ok E leq [e] (els s))) as [A [B [C [D F]]]].
        unfold add. split; [split; assumption|]. rewrite D, C. cbn [fst snd]. auto.
      + (* del *)
        destruct (delitem_ok E leq eqb PO s i HS HT Hv) as [A [B [C [D F]]]].
        split; [split; assumption|]. rewrite D, C. cbn [fst snd]. auto.
      + (* remove *)
        unfold remove_with. destruct (index_of E eqb e (els s)) as [i|] eqn:Hi.
        * assert (Hir : i < size E s).
          { apply (index_of_Some E leq eqb PO) in Hi. unfold size. apply nth_error_Some. congruence. }
          destruct (delitem_ok E leq eqb PO s i HS HT Hir) as [A [B [C [D F]]]].
          split; [split; assumption|]. rewrite D, C. cbn [fst snd]. auto.
        * cbn [fst snd]. split; [split; assumption | auto].
    - destruct (nonmut_step_ok E leq eqb PO [] s o HS Hv Hm) as [A [B C]].
      assert (Hq : spec_step (els s) (use_cache s) o = (els s, spec_query (els s) (use_cache s) o)).
      { destruct o; try discriminate; reflexivity. }
      rewrite Hq. cbn [fst snd]. split; [split; [exact A|]|].
      + intros Hc. rewrite (ext_uc _ _ _ B) in Hc. rewrite (nonmut_nocache s o Hc Hm). apply HT. exact Hc.
      + split; [exact C|]. split; [apply (ext_els _ _ _ B) | apply (ext_uc _ _ _ B)].
  Qed.

  Corollary step_sound s o : Inv s -> valid_op E s o -> Inv (fst (step s o)).
  Proof. intros H1 H2. apply (step_ok s o H1 H2). Qed.

  Corollary answer_is_spec s q :
    Sound E leq [] s -> valid_op E s q -> mutating E q = false ->
    snd (step s q) = spec_query (els s) (use_cache s) q.
  Proof. intros H1 H2 H3. apply (nonmut_step_ok E leq eqb PO [] s q H1 H2 H3). Qed.

  (* ---------------------------------------------------------------- all histories *)
  Definition valid_opl (l : list E) (o : op) : Prop := valid_op E (init E l true) o.

  Fixpoint valid_history (l : list E) (uc : bool) (ops : list op) : Prop :=
    match ops with
    | [] => True
    | o :: ops' => valid_opl l o /\ valid_history (fst (spec_step l uc o)) uc ops'
    end.

  Theorem run_ok : forall ops s,
    Inv s -> valid_history (els s) (use_cache s) ops ->
    Inv (fst (run s ops)) /\
    snd (run s ops) = snd (spec_run (els s) (use_cache s) ops) /\
    els (fst (run s ops)) = fst (spec_run (els s) (use_cache s) ops) /\
    use_cache (fst (run s ops)) = use_cache s.
  Proof.
    induction ops as [|o ops IH]; intros s HI Hv; cbn [Poset.run PosetSpec.spec_run]; [auto|].
    destruct Hv as [Hv1 Hv2].
    assert (Hv1' : valid_op E s o) by (apply (valid_op_els (init E (els s) true) s o eq_refl Hv1)).
    destruct (step_ok s o HI Hv1') as [A [B [C D]]].
    destruct (step s o) as [s1 r]. cbn [fst snd] in A, B, C, D.
    destruct (spec_step (els s) (use_cache s) o) as [l1 r'] eqn:Hss. cbn [fst snd] in B, C, Hv2.
    subst r' l1.
    destruct (IH s1 A) as [P [Q [R T]]]; [rewrite D; exact Hv2|].
    destruct (run s1 ops) as [s2 rs]. cbn [fst snd] in P, Q, R, T.
    rewrite D in Q, R. destruct (spec_run (els s1) (use_cache s) ops) as [l2 rs']. cbn [fst snd] in *.
    subst. split; [exact P|]. split; [reflexivity|]. split; [reflexivity | congruence].
  Qed.

  Corollary reachable_inv l uc ops :
    NoDup l -> valid_history l uc ops -> Inv (fst (run (init E l uc) ops)).
  Proof. intros H1 H2. apply (run_ok ops (init E l uc) (init_inv l uc H1) H2). Qed.

  (* the spec machine ignores the cache flag, except for the assertion of the fill_up_* helpers *)
  Definition no_fill (o : op) : bool := match o with OFill _ => false | _ => true end.

  Lemma spec_run_flag l ops :
    forallb no_fill ops = true -> spec_run l true ops = spec_run l false ops.
  Proof.
    revert l. induction ops as [|o ops IH]; intros l H; [reflexivity|].
    simpl in H. apply andb_true_iff in H. destruct H as [H1 H2]. cbn [PosetSpec.spec_run].
    assert (Hs : spec_step l true o = spec_step l false o) by (destruct o; try discriminate; reflexivity).
    rewrite Hs. destruct (spec_step l false o) as [l1 r]. rewrite (IH l1 H2). reflexivity.
  Qed.

  Lemma valid_history_flag l ops :
    forallb no_fill ops = true -> valid_history l true ops -> valid_history l false ops.
  Proof.
    revert l. induction ops as [|o ops IH]; intros l H Hv; [exact I|].
    simpl in H. apply andb_true_iff in H. destruct H as [H1 H2]. destruct Hv as [Hv1 Hv2].
    split; [exact Hv1|].
    assert (Hs : spec_step l true o = spec_step l false o) by (destruct o; try discriminate; reflexivity).
    rewrite <- Hs. apply IH; assumption.
  Qed.

  (* caching is an optimisation only: cache on = cache off = the cache-free machine *)
  Theorem history_free l ops :
    NoDup l -> valid_history l true ops -> forallb no_fill ops = true ->
    snd (run (init E l true) ops) = snd (spec_run l true ops) /\
    snd (run (init E l false) ops) = snd (spec_run l true ops) /\
    els (fst (run (init E l true) ops)) = els (fst (run (init E l false) ops)).
  Proof.
    intros Hn Hv Hf.
    destruct (run_ok ops (init E l true) (init_inv l true Hn) Hv) as [_ [A [B _]]].
    destruct (run_ok ops (init E l false) (init_inv l false Hn) (valid_history_flag l ops Hf Hv)) as [_ [C [D _]]].
    cbn [els init use_cache] in A, B, C, D. rewrite <- (spec_run_flag l ops Hf) in C, D.
    split; [exact A|]. split; [exact C | congruence].
  Qed.

  (* after any history, every query is answered as a freshly built cache-free poset answers it *)
  Theorem fresh_poset_same l uc ops q :
    NoDup l -> valid_history l uc ops ->
    let s := fst (run (init E l uc) ops) in
    valid_op E s q -> mutating E q = false -> no_fill q = true ->
    snd (step s q) = snd (step (init E (els s) false) q).
  Proof.
    intros Hn Hv s Hq Hm Hnf.
    destruct (reachable_inv l uc ops Hn Hv) as [HS _]. fold s in HS.
    rewrite (answer_is_spec s q HS Hq Hm).
    assert (Hfresh : Sound E leq [] (init E (els s) false)).
    { apply init_sound. apply (snd_nodup _ _ _ _ HS). }
    rewrite (answer_is_spec (init E (els s) false) q Hfresh (valid_op_els s _ q eq_refl Hq) Hm).
    cbn [els init use_cache]. destruct q; try discriminate; reflexivity.
  Qed.

  Theorem eq_is_spec s1 s2 :
    Sound E leq [] s1 -> Sound E leq [] s2 ->
    snd (poset_eq E leq eqb s1 s2) = spec_eq E eqb (els s1) (els s2).
  Proof. intros H1 H2. apply (poset_eq_ok E leq eqb PO [] s1 s2 H1 H2). Qed.
End C09.

(* Lemmas/C12conc.v — completeness of a chunk of threads under EVERY interleaving of their
   atomic loop iterations: when all threads are done, every super-concept on their chains is in
   the shared all_superconcepts set and every cover among them is a candidate. *)
From Coq Require Import Sorted.
From FCA Require Export Lemmas.C12par Lemmas.C12seq.

Lemma Forall2_len {A B} (P : A -> B -> Prop) l1 l2 : Forall2 P l1 l2 -> length l1 = length l2.
Proof. induction 1; simpl; congruence. Qed.

Lemma nth_error_set_nth_eq {A} k (x : A) l : k < length l -> nth_error (set_nth k x l) k = Some x.
Proof.
  revert k. induction l as [|y l IH]; intros k Hk; simpl in Hk; [lia|].
  destruct k; simpl; [reflexivity | apply IH; lia].
Qed.
Lemma nth_error_set_nth_neq {A} k j (x : A) l : j <> k -> nth_error (set_nth k x l) j = nth_error l j.
Proof.
  revert k j. induction l as [|y l IH]; intros k j Hne; simpl.
  - destruct k; reflexivity.
  - destruct k, j; simpl; try reflexivity; try lia. apply IH. lia.
Qed.
Lemma set_nth_length {A} k (x : A) l : length (set_nth k x l) = length l.
Proof. revert k. induction l as [|y l IH]; intros k; destruct k; simpl; auto. Qed.

Section Concurrent.
Variable lt : nat -> nat -> bool.
Variable rank : nat -> nat.
Variable n : nat.
Hypothesis SO : strict_order lt n.
Hypothesis Hrank : forall i j, i < n -> j < n -> lt i j = true -> rank j < rank i.
Variable t : nat.
Hypothesis Ht : is_top lt n t.
Variable c : nat.
Hypothesis Hc : c < n.

Notation Uc := (U lt n c).
Notation cover := (is_ucover lt n c).

(* a live thread that has moved at least one step "holds" its previous element: it will either
   make it a candidate or find a super-concept below it *)
Definition holds (th : thread) (x : nat) : Prop :=
  t_done th = false /\ t_rest th <> [] /\ 0 < t_idx th /\ t_prev th = x.

(* thread invariant, relative to the shared sets *)
Definition TC (th : thread) (l : local) : Prop :=
  StronglySorted (fun a b => lt b a = true) (t_chain th) /\
  (forall x, In x (t_chain th) -> x < n) /\
  (exists r, t_chain th = t :: r) /\
  (t_done th = false ->
     exists pre, t_chain th = pre ++ t_rest th /\ length pre = t_idx th /\
                 (forall x, In x pre -> In x (l_A l)) /\
                 (forall pre' z, pre = pre' ++ [z] -> t_prev th = z) /\ t_start th <= t_idx th) /\
  (t_done th = true ->
     (forall x, In x (t_chain th) -> Uc x -> In x (l_A l)) /\
     t_start th <= length (t_chain th) /\
     (forall x, In x (firstn (t_start th) (t_chain th)) -> In x (l_A l))).

Lemma TC_mono th l l' : grows l l' -> TC th l -> TC th l'.
Proof.
  intros [_ [GA _]] [T1 [T2 [T3 [T4 T5]]]]. split; [exact T1|]. split; [exact T2|]. split; [exact T3|]. split.
  - intros Hd. destruct (T4 Hd) as [pre [E [L [P1 P2]]]]. exists pre. split; [exact E|]. split; [exact L|].
    split; [intros x Hx; apply GA, P1, Hx | exact P2].
  - intros Hd. destruct (T5 Hd) as [Q1 [Q2 Q3]]. split; [intros x Hx HU; apply GA; apply (Q1 x Hx HU)|].
    split; [exact Q2 | intros x Hx; apply GA, Q3, Hx].
Qed.

Lemma last_eqb_spec (pre : list nat) x rest' :
  Nat.eqb (length pre) (length (pre ++ x :: rest') - 1) = match rest' with [] => true | _ => false end.
Proof.
  rewrite app_length. simpl. destruct rest'; simpl; [apply Nat.eqb_eq | apply Nat.eqb_neq]; lia.
Qed.

Lemma not_cover_between' x z : x < n -> z < n -> lt c x = true -> lt x z = true -> ~ cover z.
Proof.
  intros Hx Hz H1 H2 Hcov. apply (upper_covers_In lt n) in Hcov. destruct Hcov as [_ [_ Hnb]].
  assert (X : between lt n c z = true) by (apply (between_spec lt n); exists x; auto). congruence.
Qed.

(* one atomic step of one thread *)
Lemma thread_step_complete th l : Sound lt n t c l -> TC th l ->
  let '(th', l') := thread_step lt rank c th l in
  Sound lt n t c l' /\ TC th' l' /\ grows l l' /\
  (forall x, holds th x -> cover x -> In x (l_S l')) /\
  (forall x, In x (l_A l') -> ~ In x (l_A l) -> In x (l_S l') \/ holds th' x).
Proof.
  intros Hs HT. assert (Hs0 := Hs). destruct Hs0 as [L1 [L2 [L3 LT]]].
  assert (HT0 := HT). destruct HT0 as [T1 [T2 [T3 [T4 T5]]]].
  unfold thread_step. destruct (t_done th) eqn:Ed.
  - (* finished thread: nothing happens *)
    split; [exact Hs|]. split; [exact HT|]. split; [apply grows_refl|].
    split; [intros x [H _]; congruence | intros x H1 H2; contradiction].
  - destruct (T4 eq_refl) as [pre [E [Lp [P1 [P2 P3]]]]].
    assert (Hfirst : firstn (length pre) (t_chain th) = pre).
    { rewrite E. rewrite firstn_app, Nat.sub_diag. simpl. rewrite app_nil_r. apply firstn_all. }
    destruct (t_rest th) as [|x rest] eqn:Er.
    + (* end of chain reached by stepping over known super-concepts *)
      split; [exact Hs|]. split.
      * split; [exact T1|]. split; [exact T2|]. split; [exact T3|]. cbn [t_done t_chain t_start]. split; [intros H; discriminate|].
        intros _. rewrite app_nil_r in E. split; [intros y Hy _; apply P1; rewrite E in Hy; exact Hy|].
        split; [rewrite E; lia|]. intros y Hy. apply P1. apply In_firstn_In in Hy. rewrite E in Hy. exact Hy.
      * split; [apply grows_refl|]. split; [intros y [_ [H _]]; contradiction | intros y H1 H2; contradiction].
    + assert (Hxn : x < n) by (apply T2; rewrite E; apply in_or_app; right; left; reflexivity).
      assert (Hbelow : forall p, In p pre -> lt x p = true).
      { intros p Hp. rewrite E in T1. apply (sorted_split_pre _ pre x rest T1 p Hp). }
      assert (Hafter : forall y, In y rest -> lt y x = true).
      { intros y Hy. rewrite E in T1. apply (sorted_split _ pre x rest T1 y Hy). }
      assert (Hpren : forall p, In p pre -> p < n).
      { intros p Hp. apply T2. rewrite E. apply in_or_app. left. exact Hp. }
      (* what the thread holds is the last element of pre *)
      assert (Hheld : forall z, holds th z -> In z pre).
      { intros z [_ [_ [Hi Hz]]]. destruct pre as [|a pre0]; [simpl in Lp; lia|].
        destruct (exists_last (l := a :: pre0) ltac:(discriminate)) as [pre' [w Ew]].
        rewrite (P2 pre' w Ew) in Hz. subst z. rewrite Ew. apply in_or_app. right. left. reflexivity. }
      assert (Hclear : lt c x = true -> forall z, holds th z -> ~ cover z).
      { intros Hcx z Hz. apply (not_cover_between' x z Hxn); [apply Hpren, Hheld, Hz | exact Hcx | apply Hbelow, Hheld, Hz]. }
      (* the new thread state after moving past x *)
      assert (Hpre' : t_chain th = (pre ++ [x]) ++ rest) by (rewrite <- app_assoc; exact E).
      unfold iter_body. destruct (mem x (l_A l)) eqn:EA.
      * (* x already known: step over it *)
        apply mem_In in EA. assert (Hcx : lt c x = true) by (apply L2; exact EA).
        split; [exact Hs|]. split.
        -- split; [exact T1|]. split; [exact T2|]. split; [exact T3|]. cbn [t_done t_chain t_rest t_idx t_prev].
           split; [|intros H; discriminate]. intros _. exists (pre ++ [x]). split; [exact Hpre'|].
           split; [rewrite app_length; simpl; lia|]. split; [|split].
           ++ intros y Hy. apply in_app_or in Hy. destruct Hy as [Hy|[Hy|[]]]; [apply P1; exact Hy | subst; exact EA].
           ++ intros pre' z Ez. apply app_inj_tail in Ez. apply Ez.
           ++ cbn [t_start]. lia.
        -- split; [apply grows_refl|]. split; [intros z Hz Hcov; exfalso; exact (Hclear Hcx z Hz Hcov) | intros z H1 H2; contradiction].
      * apply mem_false_iff in EA. rewrite (super_flag_truth lt rank n Hrank c Hc l x L3 Hxn).
        set (I' := if negb (mem x (l_I l)) && Nat.ltb (rank x) (rank c) && negb (lt c x) then add x (l_I l) else l_I l).
        assert (HI' : forall y, In y I' -> y < n /\ lt c y = false).
        { intros y Hy. unfold I' in Hy.
          destruct (negb (mem x (l_I l)) && Nat.ltb (rank x) (rank c) && negb (lt c x)) eqn:Eg; [|apply L3; exact Hy].
          apply add_In in Hy. destruct Hy as [Hy|Hy]; [|apply L3; exact Hy]. subst y.
          apply andb_true_iff in Eg. destruct Eg as [_ Eg]. apply negb_true_iff in Eg. auto. }
        assert (HIm : forall y, In y (l_I l) -> In y I').
        { intros y Hy. unfold I'. destruct (negb (mem x (l_I l)) && Nat.ltb (rank x) (rank c) && negb (lt c x)); [apply add_In; right|]; exact Hy. }
        assert (Hlast : Nat.eqb (t_idx th) (length (t_chain th) - 1) = match rest with [] => true | _ => false end)
          by (rewrite <- Lp, E; apply last_eqb_spec).
        rewrite Hlast.
        destruct (lt c x) eqn:Hcx.
        -- destruct rest as [|y rest']; cbn [andb negb].
           ++ (* last in chain: candidate, finished *)
              split; [|split; [|split; [|split]]].
              ** split; [|split; [|split]]; cbn [l_S l_A l_I].
                 --- intros w Hw. apply add_In in Hw. destruct Hw as [Hw|Hw]; [subst; split; assumption | apply L1; exact Hw].
                 --- intros w Hw. apply add_In in Hw. destruct Hw as [Hw|Hw]; [subst; split; assumption | apply L2; exact Hw].
                 --- exact HI'.
                 --- apply add_In. right. exact LT.
              ** split; [exact T1|]. split; [exact T2|]. split; [exact T3|]. cbn [t_done t_chain t_start l_A]. split; [intros H; discriminate|].
                 intros _. split; [|split].
                 --- intros w Hw _. rewrite E in Hw. apply add_In. apply in_app_or in Hw.
                     destruct Hw as [Hw|[Hw|[]]]; [right; apply P1; exact Hw | left; symmetry; exact Hw].
                 --- rewrite <- Lp, E, app_length. lia.
                 --- intros w Hw. rewrite <- Lp, Hfirst in Hw. apply add_In. right. apply P1. exact Hw.
              ** split; [|split]; cbn [l_S l_A l_I]; [intros w Hw; apply add_In; right; exact Hw | intros w Hw; apply add_In; right; exact Hw | exact HIm].
              ** intros z Hz Hcov. exfalso. exact (Hclear eq_refl z Hz Hcov).
              ** cbn [l_S l_A]. intros z Hz Hnz. left. apply add_In in Hz. destruct Hz as [Hz|Hz]; [|contradiction].
                 apply add_In. left. exact Hz.
           ++ (* go on: the thread now holds x *)
              split; [|split; [|split; [|split]]].
              ** split; [|split; [|split]]; cbn [l_S l_A l_I].
                 --- exact L1.
                 --- intros w Hw. apply add_In in Hw. destruct Hw as [Hw|Hw]; [subst; split; assumption | apply L2; exact Hw].
                 --- exact HI'.
                 --- apply add_In. right. exact LT.
              ** split; [exact T1|]. split; [exact T2|]. split; [exact T3|]. cbn [t_done t_chain t_rest t_idx t_prev l_A].
                 split; [|intros H; discriminate]. intros _. exists (pre ++ [x]). split; [exact Hpre'|].
                 split; [rewrite app_length; simpl; lia|]. split; [|split].
                 --- intros w Hw. apply add_In. apply in_app_or in Hw. destruct Hw as [Hw|[Hw|[]]]; [right; apply P1; exact Hw | left; symmetry; exact Hw].
                 --- intros pre' z Ez. apply app_inj_tail in Ez. apply Ez.
                 --- cbn [t_start]. lia.
              ** split; [|split]; cbn [l_S l_A l_I]; [auto | intros w Hw; apply add_In; right; exact Hw | exact HIm].
              ** intros z Hz Hcov. exfalso. exact (Hclear eq_refl z Hz Hcov).
              ** cbn [l_S l_A]. intros z Hz Hnz. right. apply add_In in Hz. destruct Hz as [Hz|Hz]; [|contradiction].
                 subst z. unfold holds. cbn [t_done t_rest t_idx t_prev]. split; [reflexivity|]. split; [discriminate|]. split; [lia | reflexivity].
        -- (* not a super-concept: the previous element becomes a candidate; finished *)
           cbn [andb negb].
           assert (Hpne : pre <> []).
           { intros ->. simpl in E. destruct T3 as [r Er']. rewrite Er' in E. inversion E; subst. contradiction. }
           destruct (exists_last Hpne) as [pre' [z Ez]].
           assert (Hpz : t_prev th = z) by (apply (P2 pre' z Ez)).
           assert (HzA : In z (l_A l)) by (apply P1; rewrite Ez; apply in_or_app; right; left; reflexivity).
           split; [|split; [|split; [|split]]].
           ++ split; [|split; [|split]]; cbn [l_S l_A l_I].
              ** intros w Hw. apply add_In in Hw. destruct Hw as [Hw|Hw]; [subst w; rewrite Hpz; apply L2; exact HzA | apply L1; exact Hw].
              ** exact L2.
              ** exact HI'.
              ** exact LT.
           ++ split; [exact T1|]. split; [exact T2|]. split; [exact T3|]. cbn [t_done t_chain t_start l_A]. split; [intros H; discriminate|].
              intros _. split; [|split].
              ** intros w Hw [Hwn Hcw]. rewrite E in Hw. apply in_app_or in Hw.
                 destruct Hw as [Hw|[Hw|Hw]]; [apply P1; exact Hw | subst; congruence |].
                 exfalso. assert (X : lt c x = true) by (apply (lt_trans lt n SO c w x); auto).
                 congruence.
              ** rewrite <- Lp, E, app_length. lia.
              ** intros w Hw. rewrite <- Lp, Hfirst in Hw. apply P1. exact Hw.
           ++ split; [|split]; cbn [l_S l_A l_I]; [intros w Hw; apply add_In; right; exact Hw | auto | exact HIm].
           ++ cbn [l_S]. intros w [_ [_ [_ Hw]]] _. apply add_In. left. symmetry. exact Hw.
           ++ cbn [l_A]. intros w H1 H2. contradiction.
Qed.

(* ------------------------------------------------------------------ the pool of threads *)
Definition pool_inv (ts : list thread) (l : local) : Prop :=
  Sound lt n t c l /\ Forall (fun th => TC th l) ts /\
  (forall x, In x (l_A l) -> cover x ->
     In x (l_S l) \/ exists k th, nth_error ts k = Some th /\ holds th x).

Theorem schedule_complete_inv : forall sched ts l, pool_inv ts l ->
  let '(ts', l') := run_schedule lt rank c sched ts l in pool_inv ts' l' /\ grows l l'.
Proof.
  induction sched as [|k sched IH]; intros ts l HP.
  - simpl. split; [exact HP | apply grows_refl].
  - cbn [run_schedule]. destruct (nth_error ts k) as [th|] eqn:Ek; [|apply IH; exact HP].
    destruct HP as [Hs [HF H4]].
    assert (Hth : TC th l).
    { rewrite Forall_forall in HF. apply HF. apply (nth_error_In _ _ Ek). }
    assert (Hk : k < length ts) by (apply nth_error_Some; congruence).
    assert (P := thread_step_complete th l Hs Hth).
    destruct (thread_step lt rank c th l) as [th' l1]. destruct P as [P1 [P2 [P3 [P4 P5]]]].
    assert (HP1 : pool_inv (set_nth k th' ts) l1).
    { split; [exact P1|]. split.
      - apply Forall_set_nth; [exact P2|]. rewrite Forall_forall in *. intros th0 H0. apply (TC_mono th0 l l1 P3). apply HF. exact H0.
      - intros x Hx Hcov. destruct (in_dec Nat.eq_dec x (l_A l)) as [D|D].
        + destruct (H4 x D Hcov) as [H|[j [thj [Hj Hh]]]].
          * left. apply P3. exact H.
          * destruct (Nat.eq_dec j k) as [Ej|Ej].
            -- subst j. rewrite Ek in Hj. inversion Hj; subst thj. left. apply (P4 x Hh Hcov).
            -- right. exists j, thj. split; [rewrite nth_error_set_nth_neq by exact Ej; exact Hj | exact Hh].
        + destruct (P5 x Hx D) as [H|H]; [left; exact H|].
          right. exists k, th'. split; [apply nth_error_set_nth_eq; exact Hk | exact H]. }
    specialize (IH (set_nth k th' ts) l1 HP1).
    destruct (run_schedule lt rank c sched (set_nth k th' ts) l1) as [ts' l'].
    destruct IH as [I1 I2]. split; [exact I1 | apply (grows_trans l l1 l' P3 I2)].
Qed.

(* the threads spawned for a chunk, with resume pointers below which everything is in A *)
Lemma spawn_TC ch start l : valid_chain lt n t ch -> start <= length ch ->
  (forall x, In x (firstn start ch) -> In x (l_A l)) -> TC (spawn ch start) l.
Proof.
  intros [Hhd [Hd Hb]] Hle Hptr. unfold TC, spawn. cbn [t_chain t_rest t_idx t_prev t_done].
  split; [apply (desc_strong lt n SO ch Hb Hd)|]. split; [exact Hb|]. split; [exact Hhd|].
  split; [|intros H; discriminate]. intros _.
  exists (firstn start ch). split; [symmetry; apply firstn_skipn|].
  split; [apply firstn_length_le; exact Hle|]. split; [exact Hptr|]. split; [|cbn [t_start]; lia].
  intros pre' z Ep. unfold prev_of. destruct start as [|k]; [destruct pre'; discriminate|].
    assert (Hlen : length (firstn (S k) ch) = S k) by (apply firstn_length_le; exact Hle).
    assert (X : nth k (firstn (S k) ch) 0 = nth k ch 0).
    { rewrite <- (firstn_skipn (S k) ch) at 2. rewrite app_nth1 by lia. reflexivity. }
    rewrite <- X, Ep. assert (Hl : length pre' = k).
    { assert (Y : length (pre' ++ [z]) = S k) by (rewrite <- Ep; exact Hlen). rewrite app_length in Y. simpl in Y. lia. }
    rewrite app_nth2 by lia. rewrite Hl, Nat.sub_diag. reflexivity.
Qed.

(* ------------------------------------------------------------------ a whole chunk *)
Lemma thread_step_chain th l : t_chain (fst (thread_step lt rank c th l)) = t_chain th.
Proof.
  unfold thread_step. destruct (t_done th); [reflexivity|]. destruct (t_rest th) as [|x rest]; [reflexivity|].
  destruct (iter_body lt rank c (length (t_chain th)) (t_idx th) (t_prev th) x l) as [l' [p|]]; reflexivity.
Qed.

Lemma map_set_nth_same {A B} (f : A -> B) k x y (l : list A) :
  nth_error l k = Some y -> f x = f y -> map f (set_nth k x l) = map f l.
Proof.
  revert k. induction l as [|a l IH]; intros k H E; destruct k; simpl in *; try discriminate.
  - inversion H; subst. rewrite E. reflexivity.
  - f_equal. apply IH; assumption.
Qed.

Lemma run_schedule_chains : forall sched ts l,
  map t_chain (fst (run_schedule lt rank c sched ts l)) = map t_chain ts.
Proof.
  induction sched as [|k sched IH]; intros ts l; [reflexivity|].
  cbn [run_schedule]. destruct (nth_error ts k) as [th|] eqn:E; [|apply IH].
  assert (X := thread_step_chain th l). destruct (thread_step lt rank c th l) as [th' l1]. simpl in X.
  rewrite IH. apply (map_set_nth_same t_chain k th' th ts E X).
Qed.

Lemma run_thread_finishes : forall m th l,
  t_done th = true \/ length (t_rest th) < m -> t_done (fst (run_thread lt rank c m th l)) = true.
Proof.
  induction m as [|m IH]; intros th l H.
  - destruct H as [H|H]; [exact H | lia].
  - destruct (t_done th) eqn:Ed; [rewrite run_thread_done by exact Ed; exact Ed|].
    destruct H as [H|H]; [discriminate|].
    rewrite run_thread_S. unfold thread_step. rewrite Ed.
    destruct (t_rest th) as [|x rest] eqn:Er.
    + rewrite run_thread_done by reflexivity. reflexivity.
    + destruct (iter_body lt rank c (length (t_chain th)) (t_idx th) (t_prev th) x l) as [l' [p|]].
      * rewrite run_thread_done by reflexivity. reflexivity.
      * apply IH. right. cbn [t_rest]. simpl in H. lia.
Qed.

(* the completion suffix finishes every thread it names *)
Lemma completion_done : forall chs ts pre l,
  Forall2 (fun th ch => t_done th = true \/ length (t_rest th) <= length ch) ts chs ->
  exists ts2, fst (run_schedule lt rank c (seq_schedule (length pre) chs) (pre ++ ts) l) = pre ++ ts2 /\
              Forall (fun th => t_done th = true) ts2.
Proof.
  induction chs as [|ch chs IH]; intros ts pre l HF; inversion HF as [|th ch0 ts0 chs0 Hth HF']; subst.
  - exists []. split; [reflexivity | constructor].
  - cbn [seq_schedule]. rewrite run_schedule_app.
    rewrite (run_schedule_repeat lt rank c (S (length ch)) (length pre) _ l th (nth_error_app_mid pre _ _)).
    assert (Hd := run_thread_finishes (S (length ch)) th l ltac:(destruct Hth; [left; assumption | right; lia])).
    destruct (run_thread lt rank c (S (length ch)) th l) as [th1 l1]. simpl in Hd.
    rewrite set_nth_app.
    destruct (IH ts0 (pre ++ [th1]) l1 HF') as [ts2 [E2 F2]].
    rewrite app_length in E2. cbn [length] in E2. replace (length pre + 1) with (S (length pre)) in E2 by lia.
    rewrite <- app_assoc in E2. cbn [app] in E2.
    exists (th1 :: ts2). split; [rewrite E2, <- app_assoc; reflexivity | constructor; assumption].
Qed.

Lemma Forall_TC_spawn chunk starts l :
  (forall ch, In ch chunk -> valid_chain lt n t ch) ->
  Forall2 (ptr_ok l) chunk starts -> Forall (fun th => TC th l) (spawn_all chunk starts).
Proof.
  intros Hv HF. unfold spawn_all. induction HF as [|ch p chs ps [Hle Hp] HF IH]; simpl; constructor.
  - apply spawn_TC; [apply Hv; left; reflexivity | exact Hle | exact Hp].
  - apply IH. intros ch' H. apply Hv. right. exact H.
Qed.

Lemma spawn_all_chains chunk starts : length starts = length chunk ->
  map t_chain (spawn_all chunk starts) = chunk.
Proof.
  unfold spawn_all. revert starts. induction chunk as [|ch chs IH]; intros [|p ps] H; simpl in *; try lia; [reflexivity|].
  f_equal. apply IH. lia.
Qed.

Theorem chunk_complete sched chunk starts l :
  (forall ch, In ch chunk -> valid_chain lt n t ch) ->
  LI lt n c l None -> In t (l_A l) -> Forall2 (ptr_ok l) chunk starts ->
  let '(ts, l1) := run_schedule lt rank c (sched ++ seq_schedule 0 chunk) (spawn_all chunk starts) l in
  LI lt n c l1 None /\ grows l l1 /\
  (forall ch, In ch chunk -> forall x, In x ch -> Uc x -> In x (l_A l1)) /\
  Forall2 (ptr_ok l1) chunk (map t_start ts).
Proof.
  intros Hv [L1 [L2 [L3 L4]]] HtA HF.
  assert (Hlen : length starts = length chunk) by (symmetry; apply (Forall2_len _ _ _ HF)).
  assert (HP0 : pool_inv (spawn_all chunk starts) l).
  { split; [exact (conj L1 (conj L2 (conj L3 HtA)))|]. split; [apply Forall_TC_spawn; assumption|].
    intros x Hx Hcov. destruct (L4 x Hx Hcov) as [H|H]; [left; exact H | discriminate]. }
  rewrite run_schedule_app.
  assert (P1 := schedule_complete_inv sched (spawn_all chunk starts) l HP0).
  assert (C1 := run_schedule_chains sched (spawn_all chunk starts) l).
  destruct (run_schedule lt rank c sched (spawn_all chunk starts) l) as [ts1 l0]. destruct P1 as [P1 G1]. simpl in C1.
  assert (P2 := schedule_complete_inv (seq_schedule 0 chunk) ts1 l0 P1).
  assert (C2 := run_schedule_chains (seq_schedule 0 chunk) ts1 l0).
  (* every thread is finished after the completion suffix *)
  assert (HF1 : Forall2 (fun th ch => t_done th = true \/ length (t_rest th) <= length ch) ts1 chunk).
  { rewrite spawn_all_chains in C1 by exact Hlen. destruct P1 as [_ [FT _]]. clear - C1 FT.
    revert chunk C1. induction FT as [|th ts Hth FT IH]; intros chunk C1; destruct chunk as [|ch chs]; simpl in C1; try discriminate; constructor.
    - inversion C1; subst. destruct Hth as [_ [_ [_ [T4 _]]]]. destruct (t_done th) eqn:Ed; [left; reflexivity|].
      right. destruct (T4 eq_refl) as [pre [E _]]. rewrite E, app_length. lia.
    - apply IH. inversion C1. reflexivity. }
  destruct (completion_done chunk ts1 [] l0 HF1) as [ts2 [E2 D2]]. simpl in E2.
  destruct (run_schedule lt rank c (seq_schedule 0 chunk) ts1 l0) as [ts l1]. destruct P2 as [P2 G2].
  simpl in E2, C2. subst ts2.
  destruct P2 as [[S1 [S2 [S3 S4]]] [FT H4]].
  assert (Hchains : map t_chain ts = chunk) by (rewrite C2, C1; apply spawn_all_chains; exact Hlen).
  split; [|split; [|split]].
  - split; [exact S1|]. split; [exact S2|]. split; [exact S3|].
    intros x Hx Hcov. destruct (H4 x Hx Hcov) as [H|[k [th [Hk [Hd _]]]]]; [left; exact H|]. exfalso.
    rewrite Forall_forall in D2. rewrite (D2 th (nth_error_In _ _ Hk)) in Hd. discriminate.
  - apply (grows_trans l l0 l1 G1 G2).
  - intros ch Hch x Hx HU. rewrite <- Hchains in Hch. apply in_map_iff in Hch. destruct Hch as [th [Eth Hth]].
    rewrite Forall_forall in FT, D2. destruct (FT th Hth) as [_ [_ [_ [_ T5]]]].
    destruct (T5 (D2 th Hth)) as [Q1 _]. apply Q1; [rewrite Eth; exact Hx | exact HU].
  - rewrite <- Hchains. clear - FT D2. induction ts as [|th ts IH]; simpl; constructor.
    + inversion FT as [|? ? Hth FT']; subst. inversion D2 as [|? ? Hd D2']; subst.
      destruct Hth as [_ [_ [_ [_ T5]]]]. destruct (T5 Hd) as [_ [Q2 Q3]]. split; assumption.
    + inversion FT; inversion D2; subst. apply IH; assumption.
Qed.
End Concurrent.

(* ------------------------------------------------------------------ the whole parallel sweep under any schedule oracle *)
Section ConcSweep.
Variable lt : nat -> nat -> bool.
Variable rank : nat -> nat.
Variable n : nat.
Hypothesis SO : strict_order lt n.
Hypothesis Hrank : forall i j, i < n -> j < n -> lt i j = true -> rank j < rank i.
Variable t : nat.
Hypothesis Ht : is_top lt n t.

Lemma Forall2_firstn_skipn {A B} (P : A -> B -> Prop) k l1 l2 :
  Forall2 P l1 l2 -> Forall2 P (firstn k l1) (firstn k l2) /\ Forall2 P (skipn k l1) (skipn k l2).
Proof.
  intros H. revert k. induction H as [|a b l1 l2 Hab H IH]; intros k; destruct k; simpl; split; try constructor; auto.
  - apply IH.
  - apply IH.
Qed.

Lemma Forall2_app' {A B} (P : A -> B -> Prop) a1 a2 b1 b2 :
  Forall2 P a1 b1 -> Forall2 P a2 b2 -> Forall2 P (a1 ++ a2) (b1 ++ b2).
Proof. intros H1 H2. induction H1; simpl; [exact H2 | constructor; assumption]. Qed.

Lemma conc_chunks_good oracle c k : c < n -> 1 <= k -> forall fuel j chs ptrs l,
  (forall ch, In ch chs -> valid_chain lt n t ch) -> length chs <= fuel ->
  LI lt n c l None -> In t (l_A l) -> Forall2 (ptr_ok l) chs ptrs ->
  let '(l', ptrs') := conc_chunks lt rank oracle fuel c k j chs ptrs l in
  LI lt n c l' None /\ (forall x, In x (l_A l) -> In x (l_A l')) /\ (forall x, In x (l_S l) -> In x (l_S l')) /\
  (forall ch, In ch chs -> forall x, In x ch -> U lt n c x -> In x (l_A l')) /\
  Forall2 (ptr_ok l') chs ptrs'.
Proof.
  intros Hc Hk. induction fuel as [|f IH]; intros j chs ptrs l Hv Hf HLI HtA HF.
  - destruct chs; [|simpl in Hf; lia]. inversion HF; subst. simpl.
    split; [exact HLI|]. split; [auto|]. split; [auto|]. split; [intros ch []|constructor].
  - destruct chs as [|ch0 chs0].
    + inversion HF; subst. simpl. split; [exact HLI|]. split; [auto|]. split; [auto|]. split; [intros ch []|constructor].
    + cbn [conc_chunks]. set (chs := ch0 :: chs0) in *.
      destruct (Forall2_firstn_skipn (ptr_ok l) k chs ptrs HF) as [HF1 HF2].
      assert (Hv1 : forall ch, In ch (firstn k chs) -> valid_chain lt n t ch).
      { intros ch H. apply Hv. apply (In_firstn_In _ _ _ H). }
      assert (Hv2 : forall ch, In ch (skipn k chs) -> valid_chain lt n t ch).
      { intros ch H. apply Hv. rewrite <- (firstn_skipn k chs). apply in_or_app. right. exact H. }
      assert (R := chunk_complete lt rank n SO Hrank t c Hc (oracle j) (firstn k chs) (firstn k ptrs) l Hv1 HLI HtA HF1).
      destruct (run_schedule lt rank c (oracle j ++ seq_schedule 0 (firstn k chs))
                  (spawn_all (firstn k chs) (firstn k ptrs)) l) as [ts l1].
      destruct R as [R1 [[G1 [G2 G3]] [R3 R4]]].
      assert (HF2' : Forall2 (ptr_ok l1) (skipn k chs) (skipn k ptrs)).
      { eapply Forall2_impl_in; [|exact HF2]. intros a b _ [H1 H2]. split; [exact H1|]. intros x Hx. apply G2, H2, Hx. }
      assert (Hlen2 : length (skipn k chs) <= f).
      { rewrite skipn_length. unfold chs in *. cbn [length] in *. lia. }
      specialize (IH (S j) (skipn k chs) (skipn k ptrs) l1 Hv2 Hlen2 R1 (G2 t HtA) HF2').
      destruct (conc_chunks lt rank oracle f c k (S j) (skipn k chs) (skipn k ptrs) l1) as [l2 ps'].
      destruct IH as [I1 [I2 [I3 [I4 I5]]]].
      split; [exact I1|]. split; [intros x Hx; apply I2, G2, Hx|]. split; [intros x Hx; apply I3, G1, Hx|].
      split.
      * intros ch Hch x Hx HU. rewrite <- (firstn_skipn k chs) in Hch. apply in_app_or in Hch.
        destruct Hch as [Hch|Hch]; [apply I2; apply (R3 ch Hch x Hx HU) | apply (I4 ch Hch x Hx HU)].
      * rewrite <- (firstn_skipn k chs) at 1. apply Forall2_app'; [|exact I5].
        eapply Forall2_impl_in; [|exact R4]. intros a b _ [H1 H2]. split; [exact H1|]. intros x Hx. apply I2, H2, Hx.
Qed.

Variable chains : list (list nat).
Hypothesis Hchains : forall ch, In ch chains -> valid_chain lt n t ch.
Hypothesis Hcover : forall i, i < n -> exists ch, In ch chains /\ In i ch.

(* the parallel routine returns the cover relation under EVERY schedule of its threads *)
Theorem schedule_complete oracle k : 1 <= k -> forall y, y < n ->
  same_set (from_spanning_tree_conc lt rank n oracle k chains y) (lower_covers lt n y).
Proof.
  intros Hk y Hy. unfold from_spanning_tree_conc.
  apply (sweep_covers lt rank n SO Hrank t Ht chains Hchains Hcover); [|exact Hy].
  intros c Hc ptrs l HLI HtA HF.
  apply (conc_chunks_good (oracle c) c k Hc Hk (length chains) 0 chains ptrs l Hchains (le_n _) HLI HtA HF).
Qed.
End ConcSweep.

(* Lemmas/C02_Stack.v — the explicit-stack machine of Model/ConceptConstructionStack.v (the
   code's while-loop over a deque) yields exactly the sequence of the pre-order recursion, as
   soon as the fuel covers the number of loop iterations; and that number is at most
   n_objs * (number of yielded concepts) + 1.
   The first part is generic in the per-iteration function [visit]. *)
From FCA Require Import Base.ListSet Model.BinTable Model.FormalContext Model.ConceptConstruction
     Model.ConceptConstructionStack Spec.Galois Spec.Closure Lemmas.BitRow Lemmas.C01 Lemmas.C02
     Lemmas.C02_Sofia Lemmas.C02_CbO Lemmas.C02_CbOModel Lemmas.C02_CloseByOne.

(* ------------------------------------------------------------ generic part *)

Section Generic.
Variables S Y : Type.
Variable n : nat.
Variable visit : S -> list nat -> option (Y * list nat * S).
(* the extent tuple produced from a combination contains the object added last *)
Hypothesis Hvis : forall st comb y E' st' g r,
  visit st comb = Some (y, E', st') -> rev comb = g :: r -> In g E'.

(* the pre-order recursion: below a node with extent tuple E, candidate objects cands *)
Fixpoint dfs_rec (E : list nat) (cands : list nat) (st : S) {struct cands} : list Y * S :=
  match cands with
  | [] => ([], st)
  | g :: rest =>
      let '(ys1, st1) :=
        if mem g E then ([], st) else
          match visit st (E ++ [g]) with
          | None => ([], st)
          | Some (y, E', st') => let '(ys, s) := dfs_rec E' rest st' in (y :: ys, s)
          end in
      let '(ys2, st2) := dfs_rec E rest st1 in
      (ys1 ++ ys2, st2)
  end.

(* number of loop iterations (pops) the machine spends on that part of the traversal *)
Fixpoint dfs_cost (E : list nat) (cands : list nat) (st : S) {struct cands} : nat :=
  match cands with
  | [] => 0
  | g :: rest =>
      if mem g E then dfs_cost E rest st else
        match visit st (E ++ [g]) with
        | None => Datatypes.S (dfs_cost E rest st)
        | Some (y, E', st') =>
            Datatypes.S (dfs_cost E' rest st' + dfs_cost E rest (snd (dfs_rec E' rest st')))
        end
  end.

(* the stack segment holding the children of a node, top first *)
Definition frame (E : list nat) (cands : list nat) : list (list nat) :=
  map (fun g => E ++ [g]) (filter (fun g => negb (mem g E)) cands).

Lemma filter_rev' {A} (p : A -> bool) l : filter p (rev l) = rev (filter p l).
Proof.
  induction l as [|x l IH]; simpl; [reflexivity|].
  rewrite filter_app, IH. simpl. destruct (p x); simpl; [reflexivity | apply app_nil_r].
Qed.

Lemma rev_new_combs E' comb :
  rev (new_combs n E' comb) = frame E' (seq (last_or_0 comb) (n - last_or_0 comb)).
Proof.
  unfold new_combs, frame. rewrite <- map_rev, filter_rev', rev_involutive. reflexivity.
Qed.

Lemma last_or_0_snoc E g : last_or_0 (E ++ [g]) = g.
Proof. unfold last_or_0. rewrite rev_unit. reflexivity. Qed.

Lemma frame_drop E' g k : In g E' -> frame E' (seq g (Datatypes.S k)) = frame E' (seq (Datatypes.S g) k).
Proof.
  intros H. unfold frame. simpl. apply mem_In in H. rewrite H. reflexivity.
Qed.

Lemma dfs_run_frame k : forall lo E st stack out fuel, lo + k = n ->
  dfs_run S Y n visit (dfs_cost E (seq lo k) st + fuel) (frame E (seq lo k) ++ stack) st out
  = dfs_run S Y n visit fuel stack (snd (dfs_rec E (seq lo k) st)) (out ++ fst (dfs_rec E (seq lo k) st)).
Proof.
  induction k as [|k IH]; intros lo E st stack out fuel Hlo.
  - simpl. rewrite app_nil_r. reflexivity.
  - cbn [seq dfs_cost dfs_rec]. unfold frame. cbn [filter]. fold (frame E (seq (Datatypes.S lo) k)).
    destruct (mem lo E) eqn:Em.
    + cbn [negb]. fold (frame E (seq (Datatypes.S lo) k)).
      rewrite (IH (Datatypes.S lo) E st stack out fuel) by lia.
      destruct (dfs_rec E (seq (Datatypes.S lo) k) st) as [ys2 st2]. reflexivity.
    + cbn [negb map]. fold (frame E (seq (Datatypes.S lo) k)).
      destruct (visit st (E ++ [lo])) as [[[y E'] st']|] eqn:Ev.
      * cbn [plus app dfs_run]. rewrite Ev.
        rewrite rev_new_combs, last_or_0_snoc.
        replace (n - lo) with (Datatypes.S k) by lia.
        rewrite frame_drop by (eapply Hvis; [exact Ev | apply rev_unit]).
        rewrite <- Nat.add_assoc.
        rewrite (IH (Datatypes.S lo) E' st' _ (out ++ [y]) _) by lia.
        rewrite (IH (Datatypes.S lo) E _ stack _ fuel) by lia.
        destruct (dfs_rec E' (seq (Datatypes.S lo) k) st') as [ys s] eqn:E1. cbn [fst snd].
        destruct (dfs_rec E (seq (Datatypes.S lo) k) s) as [ys2 st2]. cbn [fst snd].
        f_equal. rewrite <- !app_assoc. reflexivity.
      * cbn [plus app dfs_run]. rewrite Ev.
        rewrite (IH (Datatypes.S lo) E st stack out fuel) by lia.
        destruct (dfs_rec E (seq (Datatypes.S lo) k) st) as [ys2 st2]. reflexivity.
Qed.

(* the whole run, started from the empty combination *)
Theorem dfs_equiv st0 y0 E0 st1 fuel :
  visit st0 [] = Some (y0, E0, st1) ->
  Datatypes.S (dfs_cost E0 (seq 0 n) st1) <= fuel ->
  dfs S Y n visit fuel st0 = SDone (y0 :: fst (dfs_rec E0 (seq 0 n) st1)).
Proof.
  intros Hv Hf. unfold dfs.
  replace fuel with (Datatypes.S (dfs_cost E0 (seq 0 n) st1 + (fuel - Datatypes.S (dfs_cost E0 (seq 0 n) st1)))) by lia.
  cbn [dfs_run]. rewrite Hv. rewrite rev_new_combs. unfold last_or_0. cbn [rev]. rewrite Nat.sub_0_r.
  rewrite (dfs_run_frame n 0 E0 st1 [] _ _) by lia.
  destruct (fuel - _); reflexivity.
Qed.

(* every yield costs at most n further iterations *)
Lemma dfs_cost_bound k : forall lo E st, lo + k = n ->
  dfs_cost E (seq lo k) st <= k + n * length (fst (dfs_rec E (seq lo k) st)).
Proof.
  induction k as [|k IH]; intros lo E st Hlo; [simpl; lia|].
  cbn [seq dfs_cost dfs_rec]. destruct (mem lo E).
  - specialize (IH (Datatypes.S lo) E st ltac:(lia)).
    destruct (dfs_rec E (seq (Datatypes.S lo) k) st) as [ys2 st2]. cbn [fst app] in *. lia.
  - destruct (visit st (E ++ [lo])) as [[[y E'] st']|].
    + pose proof (IH (Datatypes.S lo) E' st' ltac:(lia)) as H1.
      destruct (dfs_rec E' (seq (Datatypes.S lo) k) st') as [ys s]. cbn [fst snd] in *.
      pose proof (IH (Datatypes.S lo) E s ltac:(lia)) as H2.
      destruct (dfs_rec E (seq (Datatypes.S lo) k) s) as [ys2 st2]. cbn [fst] in *.
      rewrite app_length. cbn [length]. nia.
    + specialize (IH (Datatypes.S lo) E st ltac:(lia)).
      destruct (dfs_rec E (seq (Datatypes.S lo) k) st) as [ys2 st2]. cbn [fst app] in *. lia.
Qed.

Theorem dfs_equiv_bound st0 y0 E0 st1 fuel :
  visit st0 [] = Some (y0, E0, st1) ->
  n * length (y0 :: fst (dfs_rec E0 (seq 0 n) st1)) + 1 <= fuel ->
  dfs S Y n visit fuel st0 = SDone (y0 :: fst (dfs_rec E0 (seq 0 n) st1)).
Proof.
  intros Hv Hf. apply dfs_equiv; [exact Hv|].
  pose proof (dfs_cost_bound n 0 E0 st1 ltac:(lia)). cbn [length] in Hf. nia.
Qed.

End Generic.

(* ------------------------------------------------------------ close_by_one_objectwise_fbarray *)

Lemma rev_head_in (comb : list nat) g r : rev comb = g :: r -> In g comb.
Proof. intros H. apply in_rev. rewrite H. left. reflexivity. Qed.

Lemma visit_fb_last K st comb y E' st' g r :
  visit_fb K st comb = Some (y, E', st') -> rev comb = g :: r -> In g E'.
Proof.
  intros Hv Hr. apply rev_head_in in Hr as Hin. unfold visit_fb in Hv. rewrite Hr in Hv.
  destruct (found_mem _ st); [discriminate|].
  destruct (extension_iter _ _ (filter _ (seq 0 g))); [|discriminate].
  inversion Hv; subst. apply in_or_app. left. exact Hin.
Qed.

Lemma fb_rec_eq K cands : forall E found,
  dfs_rec (list (list bool)) fconcept (visit_fb K) E cands found = cbo_fb_children K E cands found.
Proof.
  induction cands as [|g rest IH]; intros E found; [reflexivity|].
  cbn [dfs_rec cbo_fb_children]. destruct (mem g E).
  - rewrite IH. reflexivity.
  - unfold visit_fb. rewrite rev_unit. cbv zeta.
    destruct (found_mem (intention_ba (k_table K) (E ++ [g])) found).
    + rewrite IH. reflexivity.
    + destruct (extension_iter (k_table K) (intention_ba (k_table K) (E ++ [g]))
                  (filter (fun h => negb (mem h (E ++ [g]))) (seq 0 g))).
      * rewrite IH. destruct (cbo_fb_children K _ rest (_ :: found)) as [ys f']. rewrite IH. reflexivity.
      * rewrite IH. reflexivity.
Qed.

Lemma filter_notin_nil (l : list nat) : filter (fun i => negb (mem i [])) l = l.
Proof. rewrite (filter_ext _ (fun _ => true)) by (intros a; reflexivity). apply filter_true_id. Qed.

Theorem cbo_fbarray_stack_eq K fuel :
  k_n K * length (cbo_fbarray K) + 1 <= fuel ->
  cbo_fbarray_stack K fuel = SDone (cbo_fbarray K).
Proof.
  intros Hf. unfold cbo_fbarray_stack, cbo_fbarray.
  set (intent := intention_ba (k_table K) []).
  set (E0 := extension_iter (k_table K) intent (seq 0 (k_n K))).
  assert (Hv : visit_fb K [] [] = Some (from_objects K E0 false, E0, [intent])).
  { unfold visit_fb. cbn [found_mem existsb rev app]. rewrite filter_notin_nil. reflexivity. }
  rewrite <- (fb_rec_eq K (seq 0 (k_n K)) E0 [intent]).
  apply (dfs_equiv_bound _ _ (k_n K) (visit_fb K) (visit_fb_last K) _ _ _ _ fuel Hv).
  rewrite fb_rec_eq. exact Hf.
Qed.

(* ------------------------------------------------------------ close_by_one_objectwise *)

Lemma visit_obj_last K st comb y E' st' g r :
  visit_obj K st comb = Some (y, E', st') -> rev comb = g :: r -> In g E'.
Proof.
  intros Hv Hr. apply rev_head_in in Hr as Hin. unfold visit_obj in Hv. rewrite Hr in Hv.
  destruct (K_ext K _ (Some (filter _ (seq 0 g)))); [|discriminate].
  inversion Hv; subst. apply in_or_app. left. exact Hin.
Qed.

Lemma obj_rec_eq K cands : forall E st,
  fst (dfs_rec unit fconcept (visit_obj K) E cands st) = cbo_obj_children K E cands.
Proof.
  induction cands as [|g rest IH]; intros E st; [reflexivity|].
  cbn [dfs_rec cbo_obj_children]. destruct (mem g E).
  - specialize (IH E st). destruct (dfs_rec unit fconcept (visit_obj K) E rest st) as [ys2 st2].
    cbn [fst] in *. rewrite IH. reflexivity.
  - destruct (visit_obj K st (E ++ [g])) as [[[y E'] st']|] eqn:Ev;
      unfold visit_obj in Ev; rewrite rev_unit in Ev; cbv zeta in Ev;
      destruct (K_ext K (K_int K (E ++ [g])) (Some (filter (fun h => negb (mem h (E ++ [g]))) (seq 0 g))))
        eqn:Ex; try discriminate.
    + inversion Ev; subst y E' st'. clear Ev.
      match goal with |- context [dfs_rec unit fconcept (visit_obj K) ?E1 rest st] =>
        pose proof (IH E1 st) as H1; destruct (dfs_rec unit fconcept (visit_obj K) E1 rest st) as [ys s] end.
      pose proof (IH E s) as H2. destruct (dfs_rec unit fconcept (visit_obj K) E rest s) as [ys2 st2].
      cbn [fst] in *. rewrite H1, H2. reflexivity.
    + specialize (IH E st). destruct (dfs_rec unit fconcept (visit_obj K) E rest st) as [ys2 st2].
      cbn [fst] in *. rewrite IH. reflexivity.
Qed.

Theorem cbo_objectwise_stack_eq K fuel :
  k_n K * length (cbo_objectwise K) + 1 <= fuel ->
  cbo_objectwise_stack K fuel = SDone (cbo_objectwise K).
Proof.
  intros Hf. unfold cbo_objectwise_stack, cbo_objectwise.
  set (E0 := K_ext K (K_int K []) (Some (seq 0 (k_n K)))).
  assert (Hv : visit_obj K tt [] = Some (from_objects K E0 true, E0, tt)).
  { unfold visit_obj. cbn [rev app]. rewrite filter_notin_nil. reflexivity. }
  rewrite <- (obj_rec_eq K (seq 0 (k_n K)) E0 tt).
  apply (dfs_equiv_bound _ _ (k_n K) (visit_obj K) (visit_obj_last K) _ _ _ _ fuel Hv).
  rewrite obj_rec_eq. exact Hf.
Qed.

(* ------------------------------------------------------------ the bound in terms of the table *)

Lemma extents_spec_bound t : length (extents_spec t) <= 2 ^ height t.
Proof.
  rewrite <- (seq_length (height t) 0), <- sublists_length.
  apply NoDup_incl_length; [apply nodup_lists_NoDup|].
  intros A HA. apply extents_spec_complete in HA. destruct HA as [B [_ ->]].
  unfold ext, ext_spec, all_objs. apply filter_In_sublists.
Qed.

Lemma cbo_fbarray_length K :
  wf (k_table K) -> length (cbo_fbarray K) = length (concepts_spec (k_table K)).
Proof.
  intros Hwf. destruct (cbo_fbarray_exact K Hwf) as [Hnd Hiff].
  unfold concepts_spec. rewrite map_length. rewrite <- (map_length c_ext_i).
  apply Nat.le_antisymm; apply NoDup_incl_length; try assumption; try apply nodup_lists_NoDup;
    intros A HA; apply Hiff; exact HA.
Qed.

Lemma cbo_objectwise_length K :
  wf (k_table K) -> length (cbo_objectwise K) = length (concepts_spec (k_table K)).
Proof.
  intros Hwf. rewrite <- cbo_fbarray_length by exact Hwf.
  rewrite cbo_objectwise_tuples, cbo_fbarray_tuples by exact Hwf. rewrite !map_length. reflexivity.
Qed.

(* the code's loop needs at most n_objs * (number of concepts) + 1 iterations *)
Theorem cbo_stack_is_recursion K fuel :
  wf (k_table K) -> k_n K * length (concepts_spec (k_table K)) + 1 <= fuel ->
  cbo_fbarray_stack K fuel = SDone (cbo_fbarray K) /\
  cbo_objectwise_stack K fuel = SDone (cbo_objectwise K).
Proof.
  intros Hwf Hf. split.
  - apply cbo_fbarray_stack_eq. rewrite cbo_fbarray_length by exact Hwf. exact Hf.
  - apply cbo_objectwise_stack_eq. rewrite cbo_objectwise_length by exact Hwf. exact Hf.
Qed.

Lemma concepts_bound_pow t : length (concepts_spec t) <= 2 ^ height t.
Proof. unfold concepts_spec. rewrite map_length. apply extents_spec_bound. Qed.

Lemma stack_fuel_mono a b : a <= b -> stack_fuel a <= stack_fuel b.
Proof.
  intros H. unfold stack_fuel. apply Nat.add_le_mono_r. apply Nat.mul_le_mono; [exact H|].
  apply Nat.pow_le_mono_r; [lia | exact H].
Qed.

(* the fuel the correspondence check uses always suffices *)
Theorem cbo_stack_fuel_enough K m :
  wf (k_table K) -> k_n K <= m ->
  cbo_fbarray_stack K (stack_fuel m) = SDone (cbo_fbarray K) /\
  cbo_objectwise_stack K (stack_fuel m) = SDone (cbo_objectwise K).
Proof.
  intros Hwf Hm. apply cbo_stack_is_recursion; [exact Hwf|].
  eapply Nat.le_trans; [|apply (stack_fuel_mono (k_n K) m Hm)]. unfold stack_fuel.
  apply Nat.add_le_mono_r. apply Nat.mul_le_mono_l. apply concepts_bound_pow.
Qed.

Theorem close_by_one_stack_eq K m :
  wf (k_table K) -> 0 < k_w K -> k_n K <= m -> k_w K <= m ->
  close_by_one_stack K (stack_fuel m) = SDone (close_by_one K).
Proof.
  intros Hwf Hw Hn Hwm. unfold close_by_one_stack, close_by_one.
  destruct (Nat.ltb (k_n K) (k_w K)).
  - apply (cbo_stack_fuel_enough K m Hwf Hn).
  - assert (HwfT : wf (k_table (ctx_T K))) by (apply transpose_wf; assumption).
    assert (HnT : k_n (ctx_T K) <= m).
    { unfold k_n. cbn [k_table ctx_T]. rewrite transpose_height. exact Hwm. }
    rewrite (proj1 (cbo_stack_fuel_enough (ctx_T K) m HwfT HnT)). reflexivity.
Qed.

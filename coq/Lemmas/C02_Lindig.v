(* Lemmas/C02_Lindig.v — Lindig's algorithm, for EVERY iteration order of the candidate set
   ([ord], only required to stay inside the set) and EVERY choice of the work-set element
   ([pick]): everything it returns is a formal concept of the table with agreeing index and name
   views, and no concept is returned twice (soundness).  In both iteration directions. *)
From FCA Require Import Base.ListSet Model.BinTable Model.FormalContext Model.ConceptConstruction
     Spec.Galois Spec.Closure Lemmas.BitRow Lemmas.C01 Lemmas.C02 Lemmas.C02_Sofia Lemmas.C02_CbOModel.

Section Side.
Variable sd : lindig_side.
Variable ord : list nat -> list nat.
Variable pick : list fconcept -> nat.
Hypothesis Hord : forall l, incl (ord l) l.
Hypothesis Hint_r : forall A, in_range (s_n sd) A -> in_range (s_w sd) (s_int sd A).
Hypothesis Hext_r : forall B, in_range (s_w sd) B -> in_range (s_n sd) (s_ext sd B).
Hypothesis Hiei : forall A, in_range (s_n sd) A -> s_int sd (s_ext sd (s_int sd A)) = s_int sd A.
Hypothesis Hext_sub : forall B, in_range (s_w sd) B -> In (s_ext sd B) (sublists (seq 0 (s_n sd))).
Hypothesis Hpick : forall q, q <> [] -> pick q < length q.

Definition side_good (c : fconcept) : Prop :=
  (in_range (s_n sd) (c_ext_i c) /\ In (c_ext_i c) (sublists (seq 0 (s_n sd)))) /\
  c_ext_i c = s_ext sd (c_int_i c) /\
  c_int_i c = s_int sd (c_ext_i c) /\
  c_ext c = map (s_oname sd) (c_ext_i c) /\ c_int c = map (s_aname sd) (c_int_i c).

Lemma side_concept_good A :
  in_range (s_n sd) A -> side_good (side_concept sd (s_ext sd (s_int sd A)) (s_int sd A)).
Proof.
  intros HA. unfold side_good, side_concept. cbn [c_ext_i c_ext c_int_i c_int].
  split; [split; [apply Hext_r, Hint_r, HA | apply Hext_sub, Hint_r, HA]|].
  split; [reflexivity|]. split; [|split; reflexivity].
  symmetry. apply Hiei. exact HA.
Qed.

Lemma dsc_loop_good extent todo : forall reps acc,
  in_range (s_n sd) extent -> in_range (s_n sd) todo -> Forall side_good acc ->
  Forall side_good (dsc_loop sd extent todo reps acc).
Proof.
  induction todo as [|g todo IH]; intros reps acc He Ht Hacc; simpl; [exact Hacc|].
  assert (Ht' : in_range (s_n sd) todo) by (intros x Hx; apply Ht; right; exact Hx).
  destruct (Nat.eqb _ 1).
  - apply IH; [exact He | exact Ht' |]. apply Forall_app. split; [exact Hacc|].
    constructor; [|constructor]. apply side_concept_good.
    intros x Hx. apply in_app_or in Hx. destruct Hx as [Hx|[Hx|[]]]; [apply He; exact Hx|].
    subst. apply Ht. left. reflexivity.
  - apply IH; assumption.
Qed.

Lemma dsc_good c : side_good c -> Forall side_good (direct_super_concepts sd ord c).
Proof.
  intros [[Hr _] _]. unfold direct_super_concepts. apply dsc_loop_good; [exact Hr | | constructor].
  intros x Hx. apply Hord in Hx. apply filter_In in Hx. destruct Hx as [Hx _].
  apply in_seq in Hx. lia.
Qed.

Lemma known_In concepts x :
  known concepts x = true <-> In (c_ext_i x) (map c_ext_i concepts).
Proof.
  unfold known. rewrite existsb_exists, in_map_iff. split.
  - intros [c [Hc E]]. apply nat_list_eqb_eq in E. exists c. auto.
  - intros [c [E Hc]]. exists c. split; [exact Hc | apply nat_list_eqb_eq; exact E].
Qed.

Lemma absorb_good dsups : forall concepts queue concepts' queue',
  Forall side_good dsups -> Forall side_good concepts -> Forall side_good queue ->
  NoDup (map c_ext_i concepts) ->
  absorb dsups concepts queue = (concepts', queue') ->
  Forall side_good concepts' /\ Forall side_good queue' /\ NoDup (map c_ext_i concepts').
Proof.
  induction dsups as [|x rest IH]; intros cs q cs' q' Hd Hc Hq Hnd E; simpl in E.
  - inversion E; subst. auto.
  - inversion Hd; subst. destruct (known cs x) eqn:Ek.
    + apply (IH cs q cs' q'); assumption.
    + apply (IH (cs ++ [x]) (q ++ [x]) cs' q'); [assumption | | | | exact E].
      * apply Forall_app. split; [exact Hc | constructor; [assumption | constructor]].
      * apply Forall_app. split; [exact Hq | constructor; [assumption | constructor]].
      * rewrite map_app. simpl. apply NoDup_app_snoc; [exact Hnd|].
        intros H. apply known_In in H. congruence.
Qed.

Lemma remove_nth_incl {A} k (l : list A) : incl (remove_nth k l) l.
Proof.
  unfold remove_nth. intros x Hx. apply in_app_or in Hx. destruct Hx as [Hx|Hx].
  - rewrite <- (firstn_skipn k l). apply in_or_app. left. exact Hx.
  - rewrite <- (firstn_skipn (S k) l). apply in_or_app. right. exact Hx.
Qed.

Lemma lindig_loop_good fuel : forall concepts queue cs,
  Forall side_good concepts -> Forall side_good queue -> NoDup (map c_ext_i concepts) ->
  lindig_loop fuel sd ord pick concepts queue = Some cs ->
  Forall side_good cs /\ NoDup (map c_ext_i cs).
Proof.
  induction fuel as [|fuel IH]; intros concepts queue cs Hc Hq Hnd E.
  - destruct queue; simpl in E; [inversion E; subst; auto | discriminate].
  - destruct queue as [|q0 qs]; [simpl in E; inversion E; subst; auto|].
    cbn [lindig_loop] in E.
    set (k := pick (q0 :: qs)) in *. set (c := nth k (q0 :: qs) q0) in *.
    assert (Hcq : In c (q0 :: qs)).
    { unfold c. destruct (Nat.lt_ge_cases k (length (q0 :: qs))) as [Hk|Hk].
      - apply nth_In. exact Hk.
      - rewrite nth_overflow by exact Hk. left. reflexivity. }
    assert (Hcg : side_good c) by (rewrite Forall_forall in Hq; apply Hq; exact Hcq).
    destruct (absorb (direct_super_concepts sd ord c) concepts (remove_nth k (q0 :: qs)))
      as [concepts' queue''] eqn:Ea.
    destruct (absorb_good _ _ _ _ _ (dsc_good c Hcg) Hc
                (incl_Forall (remove_nth_incl k (q0 :: qs)) Hq) Hnd Ea) as [H1 [H2 H3]].
    apply (IH concepts' queue'' cs); assumption.
Qed.

Lemma absorb_length dsups : forall concepts queue concepts' queue',
  absorb dsups concepts queue = (concepts', queue') ->
  length concepts' + length queue = length queue' + length concepts /\ length concepts <= length concepts'.
Proof.
  induction dsups as [|x rest IH]; intros cs q cs' q' E; simpl in E.
  - inversion E; subst. lia.
  - destruct (known cs x).
    + apply IH. exact E.
    + apply IH in E. rewrite !app_length in E. simpl in E. lia.
Qed.

Lemma concepts_bound concepts :
  Forall side_good concepts -> NoDup (map c_ext_i concepts) -> length concepts <= 2 ^ s_n sd.
Proof.
  intros Hg Hnd. rewrite <- (map_length c_ext_i). rewrite <- (seq_length (s_n sd) 0) at 1.
  rewrite <- sublists_length. apply NoDup_incl_length; [exact Hnd|].
  intros A HA. apply in_map_iff in HA. destruct HA as [c [E Hc]]. subst.
  rewrite Forall_forall in Hg. apply (Hg c Hc).
Qed.

Lemma remove_nth_length {A} k (l : list A) : k < length l -> S (length (remove_nth k l)) = length l.
Proof.
  intros Hk. unfold remove_nth. rewrite app_length, firstn_length, skipn_length. lia.
Qed.

Lemma lindig_loop_terminates fuel : forall concepts queue,
  Forall side_good concepts -> Forall side_good queue -> NoDup (map c_ext_i concepts) ->
  length queue + 2 ^ s_n sd <= fuel + length concepts ->
  exists cs, lindig_loop fuel sd ord pick concepts queue = Some cs.
Proof.
  induction fuel as [|fuel IH]; intros concepts queue Hc Hq Hnd Hf.
  - pose proof (concepts_bound concepts Hc Hnd). destruct queue; [eexists; reflexivity | simpl in Hf; lia].
  - destruct queue as [|q0 qs]; [eexists; reflexivity|].
    cbn [lindig_loop].
    set (k := pick (q0 :: qs)) in *. set (c := nth k (q0 :: qs) q0) in *.
    assert (Hk : k < length (q0 :: qs)) by (apply Hpick; discriminate).
    assert (Hcq : In c (q0 :: qs)) by (apply nth_In; exact Hk).
    assert (Hcg : side_good c) by (rewrite Forall_forall in Hq; apply Hq; exact Hcq).
    destruct (absorb (direct_super_concepts sd ord c) concepts (remove_nth k (q0 :: qs)))
      as [concepts' queue''] eqn:Ea.
    destruct (absorb_good _ _ _ _ _ (dsc_good c Hcg) Hc
                (incl_Forall (remove_nth_incl k (q0 :: qs)) Hq) Hnd Ea) as [H1 [H2 H3]].
    apply IH; try assumption.
    apply absorb_length in Ea. pose proof (remove_nth_length k (q0 :: qs) Hk). lia.
Qed.

End Side.

(* ------------------------------------------------------------ the two directions *)

Definition concept_ok (K : context) (c : fconcept) : Prop :=
  is_concept (k_table K) (c_ext_i c) (c_int_i c) /\ views_agree K c.

Definition side_hyps (sd : lindig_side) : Prop :=
  (forall A, in_range (s_n sd) A -> in_range (s_w sd) (s_int sd A)) /\
  (forall B, in_range (s_w sd) B -> in_range (s_n sd) (s_ext sd B)) /\
  (forall A, in_range (s_n sd) A -> s_int sd (s_ext sd (s_int sd A)) = s_int sd A) /\
  (forall B, in_range (s_w sd) B -> In (s_ext sd B) (sublists (seq 0 (s_n sd)))) /\
  seq 0 (s_w sd) = s_int sd [].

(* the loop started from the bottom concept terminates within the fuel and returns good concepts *)
Lemma lindig_run sd ord pick :
  side_hyps sd -> (forall l, incl (ord l) l) -> (forall q, q <> [] -> pick q < length q) ->
  let c := side_concept sd (s_ext sd (seq 0 (s_w sd))) (seq 0 (s_w sd)) in
  exists cs, lindig_loop (2 ^ s_n sd + 1) sd ord pick [c] [c] = Some cs /\
             Forall (side_good sd) cs /\ NoDup (map c_ext_i cs).
Proof.
  intros [H1 [H2 [H3 [H4 H5]]]] Hord Hpick c.
  assert (Hbot : side_good sd c).
  { unfold c. rewrite H5. apply (side_concept_good sd H1 H2 H3 H4). intros x []. }
  pose proof (Forall_cons _ Hbot (Forall_nil _)) as Hc0.
  assert (Hnd0 : NoDup (map c_ext_i [c])) by (constructor; [intros [] | constructor]).
  destruct (lindig_loop_terminates sd ord pick Hord H1 H2 H3 H4 Hpick (2 ^ s_n sd + 1) [c] [c] Hc0 Hc0 Hnd0)
    as [cs El]; [simpl; lia|].
  exists cs. split; [exact El|].
  apply (lindig_loop_good sd ord pick Hord H1 H2 H3 H4 _ _ _ _ Hc0 Hc0 Hnd0 El).
Qed.

Lemma side_hyps_true K : wf (k_table K) -> side_hyps (side_of K true).
Proof.
  intros Hwf. unfold side_hyps. cbn [side_of s_n s_w s_int s_ext]. repeat split.
  - intros A HA. rewrite K_int_spec by assumption. apply int_in_range.
  - intros B HB. rewrite K_ext_spec by assumption. apply ext_in_range.
  - intros A HA. rewrite (K_int_spec K A) by assumption.
    rewrite K_ext_spec by (try assumption; apply int_in_range).
    rewrite K_int_spec by (try assumption; apply ext_in_range).
    apply int_ext_int. exact HA.
  - intros B HB. rewrite K_ext_spec by assumption. unfold ext, ext_spec. apply filter_In_sublists.
Qed.

Lemma side_hyps_false K : wf (k_table K) -> side_hyps (side_of K false).
Proof.
  intros Hwf. unfold side_hyps. cbn [side_of s_n s_w s_int s_ext]. repeat split.
  - intros A HA. rewrite K_ext_spec by assumption. apply ext_in_range.
  - intros B HB. rewrite K_int_spec by assumption. apply int_in_range.
  - intros A HA. rewrite (K_ext_spec K A) by assumption.
    rewrite K_int_spec by (try assumption; apply ext_in_range).
    rewrite K_ext_spec by (try assumption; apply int_in_range).
    apply ext_int_ext. exact HA.
  - intros B HB. rewrite K_int_spec by assumption. unfold int, int_spec. apply filter_In_sublists.
Qed.

Theorem lindig_sound K ie ord pick :
  wf (k_table K) -> (forall l, incl (ord l) l) -> (forall q, q <> [] -> pick q < length q) ->
  exists cs, lindig_with K ie ord pick = Some cs /\
             Forall (concept_ok K) cs /\ NoDup (map pair_of_concept cs).
Proof.
  intros Hwf Hord Hpick. unfold lindig_with. destruct ie.
  - destruct (lindig_run (side_of K true) ord pick (side_hyps_true K Hwf) Hord Hpick) as [cs [El [Hg Hnd]]].
    cbv zeta in El. rewrite El. exists cs. split; [reflexivity|]. split.
    + apply Forall_forall. intros c Hc. rewrite Forall_forall in Hg.
      destruct (Hg c Hc) as [[Hr _] [He [Hi [Hv1 Hv2]]]].
      cbn [side_of s_n s_w s_int s_ext s_oname s_aname] in *. split; [|split; assumption].
      assert (HrB : in_range (k_w K) (c_int_i c)).
      { rewrite Hi. rewrite K_int_spec by assumption. apply int_in_range. }
      split.
      * rewrite He at 1. apply K_ext_spec; assumption.
      * rewrite Hi at 1. apply K_int_spec; assumption.
    + apply (NoDup_map_transfer c_ext_i); [|exact Hnd]. intros x y _ _ Exy. inversion Exy. reflexivity.
  - destruct (lindig_run (side_of K false) ord pick (side_hyps_false K Hwf) Hord Hpick) as [cs [El [Hg Hnd]]].
    cbv zeta in El. rewrite El. eexists. split; [reflexivity|]. split.
    + apply Forall_forall. intros c Hc. apply in_map_iff in Hc. destruct Hc as [c0 [Ec Hc0]]. subst c.
      rewrite Forall_forall in Hg. destruct (Hg c0 Hc0) as [[Hr _] [He [Hi [Hv1 Hv2]]]].
      cbn [side_of s_n s_w s_int s_ext s_oname s_aname] in *.
      unfold concept_ok, views_agree, swap_concept. cbn [c_ext_i c_ext c_int_i c_int].
      split; [|split; assumption].
      assert (HrB : in_range (k_n K) (c_int_i c0)).
      { rewrite Hi. rewrite K_ext_spec by assumption. apply ext_in_range. }
      split.
      * rewrite Hi at 1. apply K_ext_spec; assumption.
      * rewrite He at 1. apply K_int_spec; assumption.
    + rewrite map_map. apply (NoDup_map_transfer c_ext_i); [|exact Hnd].
      intros x y _ _ Exy. inversion Exy. reflexivity.
Qed.

(* Lemmas/C12rem.v — remove_concept turns the cover relation of a list into the cover relation
   of the list without concept i (neither top nor bottom), re-indexed. *)
From Coq Require Import Permutation Sorted.
From FCA Require Export Lemmas.C12Order.

(* ------------------------------------------------------------------ insertion sorts *)
Lemma insert_by_perm key x l : Permutation (insert_by key x l) (x :: l).
Proof.
  induction l as [|y l IH]; simpl; [apply Permutation_refl|].
  destruct (Nat.leb (key x) (key y)); [apply Permutation_refl|].
  eapply Permutation_trans; [apply perm_skip; exact IH | apply perm_swap].
Qed.
Lemma sort_by_perm key l : Permutation (sort_by key l) l.
Proof.
  induction l as [|x l IH]; simpl; [apply Permutation_refl|].
  eapply Permutation_trans; [apply insert_by_perm | apply perm_skip; exact IH].
Qed.
Lemma insert_by_desc_perm' key x l : Permutation (insert_by_desc key x l) (x :: l).
Proof.
  induction l as [|y l IH]; simpl; [apply Permutation_refl|].
  destruct (Nat.leb (key y) (key x)); [apply Permutation_refl|].
  eapply Permutation_trans; [apply perm_skip; exact IH | apply perm_swap].
Qed.
Lemma sort_by_desc_perm' key l : Permutation (sort_by_desc key l) l.
Proof.
  induction l as [|x l IH]; simpl; [apply Permutation_refl|].
  eapply Permutation_trans; [apply insert_by_desc_perm' | apply perm_skip; exact IH].
Qed.

Lemma insert_by_sorted key x l :
  StronglySorted (fun a b => key a <= key b) l ->
  StronglySorted (fun a b => key a <= key b) (insert_by key x l).
Proof.
  induction l as [|y l IH]; intros Hs; simpl.
  - constructor; [constructor | constructor].
  - inversion Hs as [|? ? Hs' Hall]; subst. destruct (Nat.leb (key x) (key y)) eqn:E.
    + apply Nat.leb_le in E. constructor; [exact Hs|]. constructor; [exact E|].
      rewrite Forall_forall in *. intros z Hz. specialize (Hall z Hz). lia.
    + apply Nat.leb_gt in E. constructor; [apply IH; exact Hs'|].
      rewrite Forall_forall in *. intros z Hz.
      apply (Permutation_in _ (insert_by_perm key x l)) in Hz. destruct Hz as [Hz|Hz]; [subst; lia | apply Hall; exact Hz].
Qed.
Lemma sort_by_sorted key l : StronglySorted (fun a b => key a <= key b) (sort_by key l).
Proof. induction l as [|x l IH]; simpl; [constructor | apply insert_by_sorted; exact IH]. Qed.

Lemma insert_by_desc_sorted key x l :
  StronglySorted (fun a b => key b <= key a) l ->
  StronglySorted (fun a b => key b <= key a) (insert_by_desc key x l).
Proof.
  induction l as [|y l IH]; intros Hs; simpl.
  - constructor; [constructor | constructor].
  - inversion Hs as [|? ? Hs' Hall]; subst. destruct (Nat.leb (key y) (key x)) eqn:E.
    + apply Nat.leb_le in E. constructor; [exact Hs|]. constructor; [exact E|].
      rewrite Forall_forall in *. intros z Hz. specialize (Hall z Hz). lia.
    + apply Nat.leb_gt in E. constructor; [apply IH; exact Hs'|].
      rewrite Forall_forall in *. intros z Hz.
      apply (Permutation_in _ (insert_by_desc_perm' key x l)) in Hz. destruct Hz as [Hz|Hz]; [subst; lia | apply Hall; exact Hz].
Qed.
Lemma sort_by_desc_sorted key l : StronglySorted (fun a b => key b <= key a) (sort_by_desc key l).
Proof. induction l as [|x l IH]; simpl; [constructor | apply insert_by_desc_sorted; exact IH]. Qed.

Lemma sorted_split {A} (R : A -> A -> Prop) pre c post :
  StronglySorted R (pre ++ c :: post) -> forall y, In y post -> R c y.
Proof.
  induction pre as [|p pre IH]; simpl; intros Hs y Hy.
  - inversion Hs as [|? ? _ Hall]; subst. rewrite Forall_forall in Hall. apply Hall. exact Hy.
  - inversion Hs; subst. apply IH; assumption.
Qed.

(* an element with a strictly smaller key stands before c in an ascending sort *)
Lemma sorted_before key (visit pre post : list nat) c s :
  StronglySorted (fun a b => key a <= key b) visit -> visit = pre ++ c :: post ->
  In s visit -> key s < key c -> In s pre.
Proof.
  intros Hs E Hin Hlt. subst visit. apply in_app_or in Hin. destruct Hin as [H|[H|H]]; [exact H | subst; lia |].
  assert (X := sorted_split _ pre c post Hs s H). simpl in X. lia.
Qed.
Lemma sorted_before_desc key (visit pre post : list nat) c s :
  StronglySorted (fun a b => key b <= key a) visit -> visit = pre ++ c :: post ->
  In s visit -> key c < key s -> In s pre.
Proof.
  intros Hs E Hin Hlt. subst visit. apply in_app_or in Hin. destruct Hin as [H|[H|H]]; [exact H | subst; lia |].
  assert (X := sorted_split _ pre c post Hs s H). simpl in X. lia.
Qed.

(* ------------------------------------------------------------------ the dual order *)
Definition flip (lt : nat -> nat -> bool) : nat -> nat -> bool := fun x y => lt y x.

Lemma flip_strict_order lt n : strict_order lt n -> strict_order (flip lt) n.
Proof.
  intros [H1 H2]. split; [exact H1|]. unfold flip. intros i j k Hi Hj Hk A B. apply (H2 k j i); assumption.
Qed.

Lemma flip_between lt n x a : between (flip lt) n x a = between lt n a x.
Proof. unfold between, flip. apply existsb_ext_in. intros b _. apply andb_comm. Qed.

Lemma flip_lower_covers lt n a : lower_covers (flip lt) n a = upper_covers lt n a.
Proof.
  unfold lower_covers, upper_covers, is_lower_cover. apply filter_ext_in'. intros x _.
  rewrite flip_between. reflexivity.
Qed.
Lemma flip_upper_covers lt n a : upper_covers (flip lt) n a = lower_covers lt n a.
Proof.
  unfold lower_covers, upper_covers, is_lower_cover. apply filter_ext_in'. intros x _.
  rewrite flip_between. reflexivity.
Qed.
Lemma flip_strict_down lt n a : strict_down (flip lt) n a = strict_up lt n a.
Proof. reflexivity. Qed.

(* ------------------------------------------------------------------ closure_of and prune *)
Section Generic.
Variable lt : nat -> nat -> bool.
Variable n : nat.
Hypothesis SO : strict_order lt n.
Variable rel : imap.
Hypothesis Hrel : forall c, c < n -> forall x, In x (rel c) <-> In x (lower_covers lt n c).

Lemma fold_union_In (anc : imap) l acc x :
  In x (fold_left (fun acc s => union (anc s) acc) l acc) <-> In x acc \/ exists s, In s l /\ In x (anc s).
Proof.
  revert acc. induction l as [|s l IH]; intros acc; simpl.
  - split; [auto | intros [H|[s [[] _]]]; exact H].
  - rewrite IH, union_In. split.
    + intros [[H|H]|[s' [H1 H2]]]; auto.
      * right. exists s. auto.
      * right. exists s'. auto.
    + intros [H|[s' [[H1|H1] H2]]]; auto.
      * subst. auto.
      * right. exists s'. auto.
Qed.

(* visiting order: a permutation of 0..n-1 in which everything below c stands before c *)
Lemma closure_of_ok visit :
  NoDup visit -> (forall c, In c visit <-> c < n) ->
  (forall pre c post s, visit = pre ++ c :: post -> s < n -> lt s c = true -> In s pre) ->
  forall c, c < n -> forall x, In x (closure_of rel visit c) <-> In x (strict_down lt n c).
Proof.
  intros Hnd Hall Hbefore. unfold closure_of.
  assert (G : forall post pre anc, visit = pre ++ post ->
            (forall c, In c pre -> forall x, In x (anc c) <-> In x (strict_down lt n c)) ->
            forall c, In c visit -> forall x,
              In x (fold_left (fun anc c => upd anc c (fold_left (fun acc s => union (anc s) acc) (rel c) (rel c)))
                              post anc c) <-> In x (strict_down lt n c)).
  { induction post as [|d post IH]; intros pre anc E Hpre c Hc x.
    - rewrite app_nil_r in E. subst pre. simpl. apply Hpre. exact Hc.
    - simpl. apply (IH (pre ++ [d])); [rewrite <- app_assoc; exact E | | exact Hc].
      intros c' Hc' y. apply in_app_or in Hc'.
      assert (Hdn : d < n) by (apply Hall; rewrite E; apply in_or_app; right; left; reflexivity).
      assert (Hdpre : ~ In d pre).
      { rewrite E in Hnd. apply NoDup_remove_2 in Hnd. intros H. apply Hnd. apply in_or_app. left. exact H. }
      destruct Hc' as [Hc'|[Hc'|[]]].
      + rewrite upd_other by (intros ->; contradiction). apply Hpre. exact Hc'.
      + subst c'. rewrite upd_same, fold_union_In, (Hrel d Hdn), (strict_down_In lt n), (lower_covers_In lt n).
        split.
        * intros [[H1 [H2 _]]|[s [Hs Hy]]]; [auto|].
          apply (Hrel d Hdn) in Hs. apply (lower_covers_In lt n) in Hs. destruct Hs as [Hsn [Hsd _]].
          assert (Hspre : In s pre) by (apply (Hbefore pre d post s E Hsn Hsd)).
          apply (Hpre s Hspre) in Hy. apply (strict_down_In lt n) in Hy. destruct Hy as [Hy1 Hy2].
          split; [exact Hy1|]. apply (lt_trans lt n SO y s d); assumption.
        * intros [Hy Hyd]. destruct (cover_below lt n SO y d Hy Hdn Hyd) as [s [Hs [Hcov Hr]]].
          assert (Hsd : lt s d = true) by apply (is_lower_cover_lt lt n d s Hcov).
          destruct Hr as [Hr|Hr].
          -- subst s. left. split; [exact Hy|]. split; [exact Hyd|].
             unfold is_lower_cover in Hcov. apply andb_true_iff in Hcov. destruct Hcov as [_ Hc2].
             apply negb_true_iff in Hc2. exact Hc2.
          -- right. exists s. split.
             ++ apply (Hrel d Hdn). unfold lower_covers. apply filter_In. split; [apply in_seq; lia | exact Hcov].
             ++ assert (Hspre : In s pre) by (apply (Hbefore pre d post s E Hs Hsd)).
                apply (Hpre s Hspre). apply (strict_down_In lt n). auto. }
  intros c Hc x. apply (G visit [] empty_map); [reflexivity | intros c' [] | apply Hall; exact Hc].
Qed.

(* a maximal element of a finite set above (or at) any of its elements *)
Lemma maximal_above (cur : list nat) : (forall c, In c cur -> c < n) ->
  forall y, In y cur -> exists c, In c cur /\ (c = y \/ lt y c = true) /\ forall z, In z cur -> lt c z = false.
Proof.
  intros Hb.
  assert (G : forall m y, length (strict_up lt n y) <= m -> In y cur ->
              exists c, In c cur /\ (c = y \/ lt y c = true) /\ forall z, In z cur -> lt c z = false).
  { induction m as [|m IH]; intros y Hm Hy.
    - exists y. split; [exact Hy|]. split; [left; reflexivity|]. intros z Hz.
      destruct (lt y z) eqn:E; [|reflexivity]. exfalso.
      assert (X : In z (strict_up lt n y)) by (apply (strict_up_In lt n); split; [apply Hb; exact Hz | exact E]).
      destruct (strict_up lt n y); [contradiction | simpl in Hm; lia].
    - destruct (existsb (fun z => lt y z) cur) eqn:E.
      + apply existsb_exists in E. destruct E as [z [Hz Hyz]].
        assert (Hyn := Hb y Hy). assert (Hzn := Hb z Hz).
        destruct (IH z) as [c [Hc [Hr Hmax]]]; [|exact Hz|].
        * assert (L : length (strict_up lt n z) < length (strict_up lt n y)).
          { unfold strict_up. apply (filter_length_lt _ _ _ z).
            - intros x Hx Hzx. apply in_seq in Hx. apply (lt_trans lt n SO y z x); auto; lia.
            - apply in_seq. lia.
            - exact Hyz.
            - apply (lt_irrefl lt n SO z Hzn). }
          lia.
        * exists c. split; [exact Hc|]. split; [|exact Hmax]. right.
          destruct Hr as [Hr|Hr]; [subst; exact Hyz | apply (lt_trans lt n SO y z c); auto].
      + exists y. split; [exact Hy|]. split; [left; reflexivity|]. intros z Hz.
        destruct (lt y z) eqn:E'; [|reflexivity].
        assert (X : existsb (fun z => lt y z) cur = true) by (apply existsb_exists; exists z; auto). congruence. }
  intros y Hy. apply (G (length (strict_up lt n y)) y (le_n _) Hy).
Qed.

(* prune keeps exactly the maximal elements, whatever the visiting order *)
Lemma prune_ok (clo : imap) visit cur0 :
  (forall c, c < n -> forall x, In x (clo c) <-> In x (strict_down lt n c)) ->
  (forall c, In c cur0 -> c < n) -> (forall c, In c cur0 -> In c visit) ->
  forall y, In y (prune clo visit cur0) <-> In y cur0 /\ forall c, In c cur0 -> lt y c = false.
Proof.
  intros Hclo Hb Hvis. unfold prune.
  (* invariant: cur is between the maximal elements and cur0; visited maximal elements have
     had their down-sets removed *)
  assert (G : forall post pre cur,
    (forall y, In y cur -> In y cur0) ->
    (forall y, In y cur0 -> (forall c, In c cur0 -> lt y c = false) -> In y cur) ->
    (forall c, In c pre -> In c cur0 -> (forall z, In z cur0 -> lt c z = false) ->
               forall y, In y cur -> lt y c = false) ->
    let res := fold_left (fun cur c => if mem c cur then diff cur (clo c) else cur) post cur in
    (forall y, In y res -> In y cur0) /\
    (forall y, In y cur0 -> (forall c, In c cur0 -> lt y c = false) -> In y res) /\
    (forall c, In c (pre ++ post) -> In c cur0 -> (forall z, In z cur0 -> lt c z = false) ->
               forall y, In y res -> lt y c = false)).
  { induction post as [|d post IH]; intros pre cur H1 H2 H3; simpl.
    - rewrite app_nil_r. auto.
    - specialize (IH (pre ++ [d])). rewrite <- app_assoc in IH. simpl in IH. apply IH; clear IH.
      + intros y Hy. destruct (mem d cur); [apply diff_In in Hy; apply H1; tauto | apply H1; exact Hy].
      + intros y Hy Hmax. destruct (mem d cur) eqn:E; [|apply H2; assumption].
        apply mem_In in E. apply diff_In. split; [apply H2; assumption|].
        intros Hin. assert (Hd0 := H1 d E). apply (Hclo d (Hb d Hd0)) in Hin.
        apply (strict_down_In lt n) in Hin. rewrite (Hmax d Hd0) in Hin. destruct Hin; discriminate.
      + intros c Hc Hc0 Hmax y Hy. apply in_app_or in Hc. destruct Hc as [Hc|[Hc|[]]].
        * apply (H3 c Hc Hc0 Hmax). destruct (mem d cur); [apply diff_In in Hy; tauto | exact Hy].
        * subst c. assert (Hdcur : In d cur) by (apply H2; assumption).
          apply mem_In in Hdcur. rewrite Hdcur in Hy. apply diff_In in Hy. destruct Hy as [Hy Hny].
          destruct (lt y d) eqn:E; [|reflexivity]. exfalso. apply Hny.
          apply (Hclo d (Hb d Hc0)). apply (strict_down_In lt n). split; [apply Hb, H1; exact Hy | exact E]. }
  destruct (G visit [] cur0) as [R1 [R2 R3]]; [auto | auto | intros c [] |].
  intros y. split.
  - intros Hy. split; [apply R1; exact Hy|]. intros c Hc.
    destruct (lt y c) eqn:E; [|reflexivity]. exfalso.
    destruct (maximal_above cur0 Hb c Hc) as [m [Hm [Hr Hmax]]].
    assert (Hym : lt y m = true).
    { destruct Hr as [Hr|Hr]; [subst; exact E|].
      apply (lt_trans lt n SO y c m); auto. }
    rewrite (R3 m (Hvis m Hm) Hm Hmax y Hy) in Hym. discriminate.
  - intros [Hy Hmax]. apply R2; assumption.
Qed.

(* ---- the cover relation of the list without i, in the old indexes *)
Variable i : nat.
Hypothesis Hi : i < n.

Definition W (a x : nat) : Prop :=
  x < n /\ x <> i /\ lt x a = true /\ forall b, b < n -> b <> i -> lt x b = true -> lt b a = true -> False.

(* a is an upper cover of i: the maximal elements of covers(i) + covers(a) - {i} *)
Lemma W_touched a cur : a < n -> In a (upper_covers lt n i) ->
  (forall x, In x cur <-> In x (lower_covers lt n i) \/ (In x (lower_covers lt n a) /\ x <> i)) ->
  forall x, (In x cur /\ forall c, In c cur -> lt x c = false) <-> W a x.
Proof.
  intros Ha Hai Hcur x. apply (upper_covers_In lt n) in Hai. destruct Hai as [_ [Hia Hnb]].
  split.
  - intros [Hx Hmax]. apply Hcur in Hx. destruct Hx as [Hx|[Hx Hne]].
    + apply (lower_covers_In lt n) in Hx. destruct Hx as [Hxn [Hxi Hxb]].
      assert (Hxne : x <> i) by (intros ->; rewrite (lt_irrefl lt n SO i Hi) in Hxi; discriminate).
      split; [exact Hxn|]. split; [exact Hxne|]. split; [apply (lt_trans lt n SO x i a); auto|].
      intros b Hb Hbi Hxb' Hba.
      destruct (cover_below lt n SO b a Hb Ha Hba) as [z [Hz [Hcov Hr]]].
      assert (Hxz : lt x z = true) by (destruct Hr as [Hr|Hr]; [subst; exact Hxb' | apply (lt_trans lt n SO x b z); auto]).
      destruct (Nat.eq_dec z i) as [E|E].
      * subst z. destruct Hr as [Hr|Hr]; [congruence|].
        assert (X : between lt n x i = true) by (apply (between_spec lt n); exists b; auto). congruence.
      * assert (Hzc : In z cur).
        { apply Hcur. right. split; [|exact E]. unfold lower_covers. apply filter_In. split; [apply in_seq; lia | exact Hcov]. }
        rewrite (Hmax z Hzc) in Hxz. discriminate.
    + apply (lower_covers_In lt n) in Hx. destruct Hx as [Hxn [Hxa Hxb]].
      split; [exact Hxn|]. split; [exact Hne|]. split; [exact Hxa|].
      intros b Hb _ H1 H2. assert (X : between lt n x a = true) by (apply (between_spec lt n); exists b; auto). congruence.
  - intros [Hxn [Hne [Hxa Hno]]].
    assert (Hin : In x cur).
    { apply Hcur. destruct (between lt n x a) eqn:E.
      - left. apply (between_spec lt n) in E. destruct E as [b [Hb [H1 H2]]].
        destruct (Nat.eq_dec b i) as [Eb|Eb]; [|exfalso; apply (Hno b); assumption]. subst b.
        apply (lower_covers_In lt n). split; [exact Hxn|]. split; [exact H1|].
        destruct (between lt n x i) eqn:E2; [|reflexivity]. exfalso.
        apply (between_spec lt n) in E2. destruct E2 as [z [Hz [Z1 Z2]]].
        apply (Hno z Hz); [|exact Z1 | apply (lt_trans lt n SO z i a); auto].
        intros ->. rewrite (lt_irrefl lt n SO i Hi) in Z2. discriminate.
      - right. split; [|exact Hne]. apply (lower_covers_In lt n). auto. }
    split; [exact Hin|]. intros c Hc. destruct (lt x c) eqn:E; [|reflexivity]. exfalso.
    apply Hcur in Hc. destruct Hc as [Hc|[Hc Hci]].
    + apply (lower_covers_In lt n) in Hc. destruct Hc as [Hcn [Hc1 _]].
      apply (Hno c Hcn); [|exact E | apply (lt_trans lt n SO c i a); auto].
      intros ->. rewrite (lt_irrefl lt n SO i Hi) in Hc1. discriminate.
    + apply (lower_covers_In lt n) in Hc. destruct Hc as [Hcn [Hc1 _]].
      apply (Hno c Hcn Hci E Hc1).
Qed.

(* a is not an upper cover of i: its lower covers are unchanged *)
Lemma W_untouched a : a < n -> a <> i -> ~ In a (upper_covers lt n i) ->
  forall x, In x (lower_covers lt n a) <-> W a x.
Proof.
  intros Ha Hai Hnot x. rewrite (lower_covers_In lt n). split.
  - intros [Hxn [Hxa Hxb]]. split; [exact Hxn|]. split.
    + intros ->. apply Hnot. apply (upper_covers_In lt n). auto.
    + split; [exact Hxa|]. intros b Hb _ H1 H2.
      assert (X : between lt n x a = true) by (apply (between_spec lt n); exists b; auto). congruence.
  - intros [Hxn [Hne [Hxa Hno]]]. split; [exact Hxn|]. split; [exact Hxa|].
    destruct (between lt n x a) eqn:E; [|reflexivity]. exfalso.
    apply (between_spec lt n) in E. destruct E as [b [Hb [H1 H2]]].
    destruct (Nat.eq_dec b i) as [Eb|Eb]; [|apply (Hno b); assumption]. subst b.
    (* x < i < a and i is not a lower cover of a: something else lies between i and a *)
    destruct (between lt n i a) eqn:E2.
    + apply (between_spec lt n) in E2. destruct E2 as [z [Hz [Z1 Z2]]].
      apply (Hno z Hz); [|apply (lt_trans lt n SO x i z); auto | exact Z2].
      intros ->. rewrite (lt_irrefl lt n SO i Hi) in Z1. discriminate.
    + apply Hnot. apply (upper_covers_In lt n). auto.
Qed.
End Generic.

(* ------------------------------------------------------------------ re-indexing *)
Definition skip (i j : nat) : nat := if Nat.leb i j then S j else j.

Lemma skip_decr i x : x <> i -> skip i (decr i x) = x.
Proof.
  intros H. unfold skip, decr. destruct (Nat.leb i x) eqn:E.
  - apply Nat.leb_le in E. replace (Nat.leb i (x - 1)) with true by (symmetry; apply Nat.leb_le; lia). lia.
  - rewrite E. reflexivity.
Qed.
Lemma decr_skip i j : decr i (skip i j) = j.
Proof.
  unfold skip, decr. destruct (Nat.leb i j) eqn:E.
  - apply Nat.leb_le in E. replace (Nat.leb i (S j)) with true by (symmetry; apply Nat.leb_le; lia). lia.
  - rewrite E. reflexivity.
Qed.
Lemma skip_ne i j : skip i j <> i.
Proof. unfold skip. destruct (Nat.leb i j) eqn:E; [apply Nat.leb_le in E | apply Nat.leb_gt in E]; lia. Qed.
Lemma skip_lt i j n : i < n -> j < n - 1 -> skip i j < n.
Proof. intros. unfold skip. destruct (Nat.leb i j); lia. Qed.
Lemma decr_lt i x n : x < n -> x <> i -> i < n -> decr i x < n - 1.
Proof. intros. unfold decr. destruct (Nat.leb i x) eqn:E; [apply Nat.leb_le in E | apply Nat.leb_gt in E]; lia. Qed.

(* the order of the list without element i *)
Definition reduced (lt : nat -> nat -> bool) (i : nat) : nat -> nat -> bool :=
  fun j k => lt (skip i j) (skip i k).

Lemma reduced_strict_order lt n i : i < n -> strict_order lt n -> strict_order (reduced lt i) (n - 1).
Proof.
  intros Hi [H1 H2]. unfold reduced. split.
  - intros j Hj. apply H1. apply skip_lt; assumption.
  - intros a b c Ha Hb Hc. apply H2; apply skip_lt; assumption.
Qed.

Lemma reduced_lower_covers lt n i j y : i < n -> j < n - 1 ->
  (In y (lower_covers (reduced lt i) (n - 1) j) <-> exists x, W lt n i (skip i j) x /\ y = decr i x).
Proof.
  intros Hi Hj. rewrite (lower_covers_In (reduced lt i) (n - 1)). unfold W, reduced. split.
  - intros [Hy [Hlt Hb]]. exists (skip i y). split; [|symmetry; apply decr_skip].
    split; [apply skip_lt; assumption|]. split; [apply skip_ne|]. split; [exact Hlt|].
    intros b Hbn Hbi B1 B2.
    assert (X : between (fun j k => lt (skip i j) (skip i k)) (n - 1) y j = true).
    { unfold between. apply existsb_exists. exists (decr i b). split; [apply in_seq; pose proof (decr_lt i b n Hbn Hbi Hi); lia|].
      rewrite (skip_decr i b Hbi), B1, B2. reflexivity. }
    congruence.
  - intros [x [[Hx [Hxi [Hlt Hno]]] ->]]. split; [apply decr_lt; assumption|].
    rewrite (skip_decr i x Hxi). split; [exact Hlt|].
    destruct (between (fun j k => lt (skip i j) (skip i k)) (n - 1) (decr i x) j) eqn:E; [|reflexivity]. exfalso.
    unfold between in E. apply existsb_exists in E. destruct E as [b [Hb Hbb]]. apply in_seq in Hb.
    apply andb_true_iff in Hbb. rewrite (skip_decr i x Hxi) in Hbb. destruct Hbb as [B1 B2].
    apply (Hno (skip i b)); [apply skip_lt; [assumption | lia] | apply skip_ne | exact B1 | exact B2].
Qed.

Lemma fold_upd_nodup (g : nat -> list nat -> list nat) l : NoDup l -> forall (m0 : imap) a,
  fold_left (fun m s => upd m s (g s (m s))) l m0 a = if in_dec Nat.eq_dec a l then g a (m0 a) else m0 a.
Proof.
  induction l as [|s l IH]; intros Hnd m0 a; simpl; [reflexivity|].
  inversion Hnd as [|? ? Hs Hnd']; subst. rewrite (IH Hnd').
  destruct (Nat.eq_dec s a) as [E|E].
  - subst a. destruct (in_dec Nat.eq_dec s l); [contradiction|]. rewrite upd_same. reflexivity.
  - rewrite upd_other by (intros ->; apply E; reflexivity).
    destruct (in_dec Nat.eq_dec a l); reflexivity.
Qed.

(* ------------------------------------------------------------------ remove_concept *)
From FCA Require Import Lemmas.C12add.

Section RemoveConcept.
Variable lt : nat -> nat -> bool.
Variable size : nat -> nat.
Variable n : nat.
Variable enum : list nat -> list nat.
Hypothesis Henum : forall l x, In x (enum l) <-> In x l.
Hypothesis SO : strict_order lt n.
Hypothesis Hsize : forall i j, i < n -> j < n -> lt i j = true -> size i < size j.
Hypothesis Hn3 : 3 <= n.
Variables t0 b0 i : nat.
Hypothesis Ht0 : is_top lt n t0.
Hypothesis Hb0 : is_bottom lt n b0.
Hypothesis Hi : i < n.
Hypothesis Hit : i <> t0.
Hypothesis Hib : i <> b0.
Variables sub sup : imap.
Hypothesis Hsub : forall c, c < n -> forall x, In x (sub c) <-> In x (lower_covers lt n c).
Hypothesis Hsup : forall c, c < n -> forall x, In x (sup c) <-> In x (upper_covers lt n c).
Hypothesis Hnd_sup : NoDup (sup i).
Hypothesis Hnd_sub : NoDup (sub i).

Lemma tb_here' : top_bottom size n = (Some t0, Some b0).
Proof.
  apply tb_fold; [apply Ht0 | apply Hb0 | |].
  - intros j Hj Hne. apply Hsize; [exact Hj | apply Ht0 | apply Ht0; assumption].
  - intros j Hj Hne. apply Hsize; [apply Hb0 | exact Hj | apply Hb0; assumption].
Qed.

Lemma visit_up_ok : let visit := sort_by size (seq 0 n) in
  NoDup visit /\ (forall c, In c visit <-> c < n) /\
  (forall pre c post s, visit = pre ++ c :: post -> s < n -> lt s c = true -> In s pre).
Proof.
  intros visit. assert (P : Permutation visit (seq 0 n)) by apply sort_by_perm.
  assert (Hall : forall c, In c visit <-> c < n).
  { intros c. split; intros H.
    - apply (Permutation_in _ P) in H. apply in_seq in H. lia.
    - apply (Permutation_in _ (Permutation_sym P)). apply in_seq. lia. }
  split; [apply (Permutation_NoDup (Permutation_sym P)), seq_NoDup|]. split; [exact Hall|].
  intros pre c post s E Hs Hsc.
  assert (Hc : c < n) by (apply Hall; rewrite E; apply in_or_app; right; left; reflexivity).
  apply (sorted_before size visit pre post c s (sort_by_sorted size _) E); [apply Hall; exact Hs|].
  apply Hsize; assumption.
Qed.

Lemma visit_down_ok : let visit := sort_by_desc size (seq 0 n) in
  NoDup visit /\ (forall c, In c visit <-> c < n) /\
  (forall pre c post s, visit = pre ++ c :: post -> s < n -> flip lt s c = true -> In s pre).
Proof.
  intros visit. assert (P : Permutation visit (seq 0 n)) by apply sort_by_desc_perm'.
  assert (Hall : forall c, In c visit <-> c < n).
  { intros c. split; intros H.
    - apply (Permutation_in _ P) in H. apply in_seq in H. lia.
    - apply (Permutation_in _ (Permutation_sym P)). apply in_seq. lia. }
  split; [apply (Permutation_NoDup (Permutation_sym P)), seq_NoDup|]. split; [exact Hall|].
  intros pre c post s E Hs Hsc. unfold flip in Hsc.
  assert (Hc : c < n) by (apply Hall; rewrite E; apply in_or_app; right; left; reflexivity).
  apply (sorted_before_desc size visit pre post c s (sort_by_desc_sorted size _) E); [apply Hall; exact Hs|].
  apply Hsize; assumption.
Qed.

Lemma all_sub_ok c : c < n -> forall x, In x (all_subconcepts_dict size n sub c) <-> In x (strict_down lt n c).
Proof.
  destruct visit_up_ok as [V1 [V2 V3]]. unfold all_subconcepts_dict.
  apply (closure_of_ok lt n SO sub Hsub _ V1 V2 V3).
Qed.

Lemma Hsup_flip c : c < n -> forall x, In x (sup c) <-> In x (lower_covers (flip lt) n c).
Proof. intros Hc x. rewrite flip_lower_covers. apply Hsup. exact Hc. Qed.
Lemma Hsub_flip c : c < n -> forall x, In x (sub c) <-> In x (upper_covers (flip lt) n c).
Proof. intros Hc x. rewrite flip_upper_covers. apply Hsub. exact Hc. Qed.

Lemma all_sup_ok c : c < n -> forall x, In x (all_superconcepts_dict size n sup c) <-> In x (strict_down (flip lt) n c).
Proof.
  destruct visit_down_ok as [V1 [V2 V3]]. unfold all_superconcepts_dict.
  apply (closure_of_ok (flip lt) n (flip_strict_order lt n SO) sup Hsup_flip _ V1 V2 V3).
Qed.

(* the new children of a (old index a <> i) *)
Definition new_sub : imap :=
  fold_left (fun m s =>
     let cur := union (sub i) (diff (m s) [i]) in
     upd m s (prune (all_subconcepts_dict size n sub) (sort_by_desc size (enum cur)) cur)) (sup i) sub.
Definition new_sup : imap :=
  fold_left (fun m s =>
     let cur := union (diff (sup i) [s]) (diff (m s) [i]) in
     upd m s (prune (all_superconcepts_dict size n sup) (sort_by size (enum cur)) cur)) (sub i) sup.

Lemma new_sub_ok a : a < n -> a <> i -> forall x, In x (new_sub a) <-> W lt n i a x.
Proof.
  intros Ha Hai x.
  pose (g := fun (s : nat) (v : list nat) => let cur := union (sub i) (diff v [i]) in
            prune (all_subconcepts_dict size n sub) (sort_by_desc size (enum cur)) cur).
  change (new_sub a) with (fold_left (fun m s => upd m s (g s (m s))) (sup i) sub a).
  rewrite (fold_upd_nodup g (sup i) Hnd_sup sub a). unfold g. clear g.
  destruct (in_dec Nat.eq_dec a (sup i)) as [D|D].
  - cbv zeta. set (cur := union (sub i) (diff (sub a) [i])).
    assert (Hcur : forall y, In y cur <-> In y (lower_covers lt n i) \/ (In y (lower_covers lt n a) /\ y <> i)).
    { intros y. unfold cur. rewrite union_In, diff_In, (Hsub i Hi), (Hsub a Ha). simpl. intuition. }
    assert (Hb : forall c, In c cur -> c < n).
    { intros c Hc. apply Hcur in Hc. destruct Hc as [Hc|[Hc _]]; apply (lower_covers_In lt n) in Hc; tauto. }
    rewrite (prune_ok lt n SO (all_subconcepts_dict size n sub) _ cur all_sub_ok Hb).
    + apply (W_touched lt n SO i Hi a cur Ha); [apply (Hsup i Hi); exact D | exact Hcur].
    + intros c Hc. apply (Permutation_in _ (Permutation_sym (sort_by_desc_perm' size _))). apply Henum. exact Hc.
  - rewrite (Hsub a Ha). apply (W_untouched lt n SO i Hi a Ha Hai).
    intros H. apply D. apply (Hsup i Hi). exact H.
Qed.

Lemma new_sup_ok a : a < n -> a <> i -> forall x, In x (new_sup a) <-> W (flip lt) n i a x.
Proof.
  intros Ha Hai x.
  pose (g := fun (s : nat) (v : list nat) => let cur := union (diff (sup i) [s]) (diff v [i]) in
            prune (all_superconcepts_dict size n sup) (sort_by size (enum cur)) cur).
  change (new_sup a) with (fold_left (fun m s => upd m s (g s (m s))) (sub i) sup a).
  rewrite (fold_upd_nodup g (sub i) Hnd_sub sup a). unfold g. clear g.
  destruct (in_dec Nat.eq_dec a (sub i)) as [D|D].
  - cbv zeta. set (cur := union (diff (sup i) [a]) (diff (sup a) [i])).
    assert (Hcur : forall y, In y cur <-> In y (lower_covers (flip lt) n i) \/ (In y (lower_covers (flip lt) n a) /\ y <> i)).
    { intros y. unfold cur. rewrite union_In, !diff_In, <- (Hsup_flip i Hi), <- (Hsup_flip a Ha). simpl.
      split; [intuition|]. intros [H|H]; [|right; intuition]. left. split; [exact H|].
      intros [E|[]]. subst y.
      (* a is below i, so it is not among the upper covers of i *)
      apply (Hsub i Hi) in D. apply (lower_covers_In lt n) in D.
      apply (Hsup i Hi) in H. apply (upper_covers_In lt n) in H.
      destruct D as [_ [D1 _]]. destruct H as [_ [H1 _]].
      rewrite (lt_asym lt n SO a i Ha Hi D1) in H1. discriminate. }
    assert (Hb : forall c, In c cur -> c < n).
    { intros c Hc. apply Hcur in Hc. destruct Hc as [Hc|[Hc _]]; apply (lower_covers_In (flip lt) n) in Hc; tauto. }
    rewrite (prune_ok (flip lt) n (flip_strict_order lt n SO) (all_superconcepts_dict size n sup) _ cur all_sup_ok Hb).
    + apply (W_touched (flip lt) n (flip_strict_order lt n SO) i Hi a cur Ha); [|exact Hcur].
      apply (Hsub_flip i Hi). exact D.
    + intros c Hc. apply (Permutation_in _ (Permutation_sym (sort_by_perm size _))). apply Henum. exact Hc.
  - rewrite (Hsup_flip a Ha). apply (W_untouched (flip lt) n (flip_strict_order lt n SO) i Hi a Ha Hai).
    intros H. apply D. apply (Hsub_flip i Hi). exact H.
Qed.

Definition rem_ok (r : relation) : Prop :=
  (forall j, j < n - 1 -> same_set (r_sub r j) (lower_covers (reduced lt i) (n - 1) j)) /\
  (forall j, j < n - 1 -> same_set (r_sup r j) (upper_covers (reduced lt i) (n - 1) j)) /\
  is_top (reduced lt i) (n - 1) (r_top r) /\ is_bottom (reduced lt i) (n - 1) (r_bottom r).

Theorem remove_concept_ok top bottom :
  (top = None \/ top = Some t0) -> (bottom = None \/ bottom = Some b0) ->
  exists r, remove_concept lt size n enum i sub sup top bottom = Done r /\ rem_ok r.
Proof.
  intros Htop Hbot. unfold remove_concept.
  replace (Nat.ltb i n) with true by (symmetry; apply Nat.ltb_lt; exact Hi).
  replace (Nat.ltb n 3) with false by (symmetry; apply Nat.ltb_ge; lia).
  cbn [negb].
  assert (Hti : lt t0 i = false).
  { apply (lt_asym lt n SO i t0 Hi); [apply Ht0 | apply Ht0; assumption]. }
  assert (Hbi : lt i b0 = false).
  { apply (lt_asym lt n SO b0 i); [apply Hb0 | exact Hi | apply Hb0; assumption]. }
  assert (E1 : (if match top, bottom with
                   | Some t, Some b => lt t i || lt i b
                   | _, _ => true end
                then top_bottom size n else (top, bottom)) = (Some t0, Some b0)).
  { destruct Htop as [->| ->]; [apply tb_here'|]. destruct Hbot as [->| ->]; [apply tb_here'|].
    rewrite Hti, Hbi. reflexivity. }
  rewrite E1. clear E1.
  replace (Nat.eqb i t0) with false by (symmetry; apply Nat.eqb_neq; exact Hit).
  replace (Nat.eqb i b0) with false by (symmetry; apply Nat.eqb_neq; exact Hib).
  eexists. split; [reflexivity|]. unfold rem_ok. cbn [r_sub r_sup r_top r_bottom].
  fold new_sub. fold new_sup.
  split; [|split; [|split]].
  - intros j Hj y. unfold reindex. fold (skip i j). rewrite in_map_iff.
    rewrite (reduced_lower_covers lt n i j y Hi Hj). split.
    + intros [x [E Hx]]. exists x. split; [|symmetry; exact E].
      apply (new_sub_ok (skip i j)); [apply skip_lt; assumption | apply skip_ne | exact Hx].
    + intros [x [Hx E]]. exists x. split; [symmetry; exact E|].
      apply (new_sub_ok (skip i j)); [apply skip_lt; assumption | apply skip_ne | exact Hx].
  - intros j Hj y. unfold reindex. fold (skip i j). rewrite in_map_iff.
    rewrite <- flip_lower_covers.
    change (flip (reduced lt i)) with (reduced (flip lt) i).
    rewrite (reduced_lower_covers (flip lt) n i j y Hi Hj). split.
    + intros [x [E Hx]]. exists x. split; [|symmetry; exact E].
      apply (new_sup_ok (skip i j)); [apply skip_lt; assumption | apply skip_ne | exact Hx].
    + intros [x [Hx E]]. exists x. split; [symmetry; exact E|].
      apply (new_sup_ok (skip i j)); [apply skip_lt; assumption | apply skip_ne | exact Hx].
  - destruct Ht0 as [T1 T2]. split; [apply decr_lt; auto|].
    intros j Hj Hne. unfold reduced. rewrite (skip_decr i t0) by auto.
    apply T2; [apply skip_lt; assumption|]. intros E. apply Hne. rewrite <- E. symmetry. apply decr_skip.
  - destruct Hb0 as [B1 B2]. split; [apply decr_lt; auto|].
    intros j Hj Hne. unfold reduced. rewrite (skip_decr i b0) by auto.
    apply B2; [apply skip_lt; assumption|]. intros E. apply Hne. rewrite <- E. symmetry. apply decr_skip.
Qed.
End RemoveConcept.

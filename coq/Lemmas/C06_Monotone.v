(* Lemmas/C06_Monotone.v — the monotone lattice built from the lattice of the complemented
   context consists exactly of the monotone pairs; its children dictionary is the cover relation
   of its own (operand-swapped) <=; intent names are right under the names guard. *)
From FCA Require Import Model.Duality Spec.DualitySpec Lemmas.BitRow.
From FCA Require Import Lemmas.C06_Transpose Lemmas.C06_Complement Lemmas.C06_Lattice.

(* ------------------------------------------------------------------ complement and the monotone operators *)

Lemma negb_forallb_negb {A} (f : A -> bool) l : negb (forallb (fun x => negb (f x)) l) = existsb f l.
Proof. induction l as [|x l IH]; simpl; [reflexivity|]. rewrite negb_andb, negb_involutive, IH. reflexivity. Qed.

Lemma compl_ext_invert t B : wf t -> in_range (width t) B ->
  diff (all_objs t) (ext (tbl_invert t) B) = ext_mono t B.
Proof.
  intros Hwf HB. unfold diff, ext_mono, ext_mono_spec, all_objs. apply filter_seq_ext. intros g Hg.
  rewrite ext_canon, tbl_invert_height.
  replace (Nat.ltb g (height t)) with true by (symmetry; apply Nat.ltb_lt; exact Hg). simpl.
  rewrite <- negb_forallb_negb. f_equal. apply forallb_ext_in. intros m Hm. unfold I.
  apply cell_tbl_invert; auto.
Qed.

Lemma int_invert_compl t A : wf t ->
  int (tbl_invert t) (diff (all_objs t) A) = int_mono t A.
Proof.
  intros Hwf. unfold int, int_mono, int_spec, int_mono_spec, all_attrs, all_objs.
  rewrite tbl_invert_width. apply filter_seq_ext. intros m Hm. apply forallb_ext_in. intros g Hg.
  apply diff_In in Hg. destruct Hg as [Hg _]. apply in_seq in Hg. unfold I.
  apply cell_tbl_invert; auto. lia.
Qed.

Lemma diff_diff_same n E : in_range n E -> same_set (diff (seq 0 n) (diff (seq 0 n) E)) E.
Proof.
  intros HE x. rewrite diff_In, diff_In, in_seq. split.
  - intros [Hx Hn]. destruct (mem x E) eqn:M; [apply mem_In; exact M|].
    exfalso. apply Hn. split; [exact Hx|]. apply mem_false_iff. exact M.
  - intros Hx. split; [specialize (HE x Hx); lia|]. intros [_ Hn]. apply Hn. exact Hx.
Qed.

Lemma int_invert_of_ext t E : wf t -> in_range (height t) E ->
  int_mono t (diff (all_objs t) E) = int (tbl_invert t) E.
Proof.
  intros Hwf HE. rewrite <- int_invert_compl by exact Hwf. apply int_same_set.
  apply diff_diff_same. exact HE.
Qed.

(* (A, B) is a monotone pair of t  <->  (complement of A, B) is a concept of the complemented table *)
Theorem mono_pair_iff_concept t E B : wf t -> in_range (width t) B ->
  (is_concept (tbl_invert t) E B <-> E = ext (tbl_invert t) B /\ is_mono_pair t (diff (all_objs t) E) B).
Proof.
  intros Hwf HB. unfold is_concept, is_mono_pair. split.
  - intros [HE HB']. split; [exact HE|]. split.
    + rewrite HE. apply compl_ext_invert; assumption.
    + rewrite int_invert_of_ext; [exact HB'|exact Hwf|].
      rewrite HE. rewrite <- (tbl_invert_height t). apply ext_in_range.
  - intros [HE [_ HB']]. split; [exact HE|].
    rewrite int_invert_of_ext in HB'; [exact HB'|exact Hwf|].
    rewrite HE. rewrite <- (tbl_invert_height t). apply ext_in_range.
Qed.

(* the executable enumeration used by the correspondence is exactly the set of monotone pairs *)
Theorem mono_pairs_spec_complete t A B : In (A, B) (mono_pairs_spec t) <-> is_mono_pair t A B.
Proof.
  unfold mono_pairs_spec, is_mono_pair. rewrite in_map_iff. split.
  - intros [B' [E H]]. inversion E; subst. apply filter_In in H. destruct H as [_ H].
    apply nat_list_eqb_eq in H. split; [reflexivity|]. symmetry. exact H.
  - intros [HA HB]. exists B. split; [rewrite HA; reflexivity|]. apply filter_In. split.
    + rewrite HB. unfold int_mono, int_mono_spec. apply filter_In_sublists.
    + apply nat_list_eqb_eq. rewrite <- HA. symmetry. exact HB.
Qed.

(* ------------------------------------------------------------------ monotone_of *)

Lemma cpair_mono n on h c : cpair (mono_concept n on h c) = (diff (seq 0 n) (c_ext_i c), c_int_i c).
Proof. reflexivity. Qed.

Theorem monotone_lattice_exact K h on' an' L' :
  wf (k_tbl K) -> lattice_for (tbl_invert (k_tbl K)) on' an' L' ->
  forall A B, In (A, B) (map cpair (l_concepts (monotone_of K h L'))) <-> is_mono_pair (k_tbl K) A B.
Proof.
  intros Hwf HL A B. set (t := k_tbl K) in *. unfold monotone_of. cbn [l_concepts].
  rewrite map_map. rewrite in_map_iff. split.
  - intros [c [E Hc]]. rewrite cpair_mono in E. inversion E; subst A B. clear E.
    assert (C := lf_concept _ _ _ _ _ HL Hc).
    assert (HB : in_range (width t) (c_int_i c)).
    { destruct C as [_ C2]. rewrite C2. rewrite <- (tbl_invert_width t). apply int_in_range. }
    apply (mono_pair_iff_concept t _ _ Hwf HB) in C. apply C.
  - intros HP. assert (HB : in_range (width t) B).
    { destruct HP as [_ HB]. rewrite HB. unfold int_mono, int_mono_spec, all_attrs.
      intros m Hm. apply filter_In in Hm. destruct Hm as [Hm _]. apply in_seq in Hm. lia. }
    set (E := ext (tbl_invert t) B).
    assert (HA : diff (all_objs t) E = A).
    { unfold E. rewrite compl_ext_invert by assumption. symmetry. apply HP. }
    assert (C : is_concept (tbl_invert t) E B).
    { apply mono_pair_iff_concept; try assumption. split; [reflexivity|]. rewrite HA. exact HP. }
    assert (X : In (E, B) (map cpair (l_concepts L'))).
    { apply (lf_pairs _ _ _ _ HL). apply concepts_spec_complete. split; [exact C|].
      rewrite tbl_invert_width. exact HB. }
    apply in_map_iff in X. destruct X as [c [Ec Hc]]. exists c. split; [|exact Hc].
    rewrite cpair_mono. unfold cpair in Ec. inversion Ec as [[E1 E2]]. rewrite E1. fold E.
    unfold all_objs in HA. fold t. rewrite HA. reflexivity.
Qed.

(* ------------------------------------------------------------------ names *)

Lemma toggle_twice_nth an i : names_ok an = true -> i < length an ->
  toggle_name (nth i (map toggle_name an) []) = nth i an [].
Proof.
  intros Hok Hi. rewrite (nth_map_in toggle_name an i [] []) by exact Hi.
  apply toggle_twice_iff. unfold names_ok in Hok. rewrite forallb_forall in Hok.
  apply Hok. apply nth_In. exact Hi.
Qed.

(* hypotheses: the lattice of ~K carries ~K's names and in-range intents *)
Theorem monotone_names K h L' :
  names_ok (k_an K) = true ->
  (forall c, In c (l_concepts L') ->
     c_int c = names_at (map toggle_name (k_an K)) (c_int_i c) /\ in_range (length (k_an K)) (c_int_i c)) ->
  forall c, In c (l_concepts (monotone_of K h L')) ->
    c_ext c = names_at (k_on K) (c_ext_i c) /\ c_int c = names_at (k_an K) (c_int_i c).
Proof.
  intros Hok HL c Hc. unfold monotone_of in Hc. cbn [l_concepts] in Hc. apply in_map_iff in Hc.
  destruct Hc as [c0 [E Hc0]]. subst c. unfold mono_concept. cbn [c_ext c_ext_i c_int c_int_i].
  split; [reflexivity|]. destruct (HL c0 Hc0) as [Hn Hr]. rewrite Hn. unfold names_at.
  rewrite map_map. apply map_ext_in. intros i Hi. apply toggle_twice_nth; [exact Hok|].
  apply Hr. exact Hi.
Qed.

(* outside the guard the intent names are wrong (finding D19 again): context d19_witness,
   L' = the two concepts of its complement *)
Definition d19_lattice : lattice :=
  {| l_concepts :=
       [ {| c_ext_i := [0]; c_ext := [[103]]; c_int_i := []; c_int := []; c_hash := None; c_mono := false |};
         {| c_ext_i := []; c_ext := []; c_int_i := [0]; c_int := [[110; 111; 116; 32; 120]];
            c_hash := None; c_mono := false |} ];
     l_children := [[1]; []]; l_mono := false |}.

Theorem monotone_names_refuted :
  exists K h L',
    names_ok (k_an K) = false /\
    (forall c, In c (l_concepts L') ->
       c_int c = names_at (map toggle_name (k_an K)) (c_int_i c) /\ in_range (length (k_an K)) (c_int_i c)) /\
    ~ (forall c, In c (l_concepts (monotone_of K h L')) -> c_int c = names_at (k_an K) (c_int_i c)).
Proof.
  exists d19_witness, None, d19_lattice. split; [reflexivity|]. split.
  - intros c [H|[H|[]]]; subst c; split; try reflexivity; intros x Hx; simpl in Hx.
    + destruct Hx.
    + destruct Hx as [Hx|[]]. subst. simpl. lia.
  - intros H. specialize (H (nth 1 (l_concepts (monotone_of d19_witness None d19_lattice)) dummy_concept)).
    assert (X : In (nth 1 (l_concepts (monotone_of d19_witness None d19_lattice)) dummy_concept)
                   (l_concepts (monotone_of d19_witness None d19_lattice))) by (right; left; reflexivity).
    apply H in X. vm_compute in X. discriminate.
Qed.

(* ------------------------------------------------------------------ order and covers *)

Lemma opt_Z_eqb_refl h : opt_Z_eqb h h = true.
Proof. destruct h; simpl; [apply Z.eqb_refl|reflexivity]. Qed.

Lemma subsetb_false_length a b : NoDup a -> length b < length a -> subsetb a b = false.
Proof.
  intros Hn Hl. destruct (subsetb a b) eqn:E; [|reflexivity].
  apply subsetb_incl in E. pose proof (NoDup_incl_length Hn E). lia.
Qed.

(* __le__ of two monotone concepts of one context: reversed inclusion of the extents *)
Lemma concept_le_mono a b :
  c_mono a = true -> c_mono b = true -> c_hash a = c_hash b -> NoDup (c_ext_i b) ->
  concept_le a b = COk (subsetb (c_ext_i b) (c_ext_i a)).
Proof.
  intros Ma Mb Hh Hn. unfold concept_le. rewrite Hh, opt_Z_eqb_refl, Ma, Mb. simpl.
  destruct (Nat.ltb (length (c_ext_i a)) (length (c_ext_i b))) eqn:E; [|reflexivity].
  apply Nat.ltb_lt in E. rewrite subsetb_false_length by assumption. reflexivity.
Qed.

Lemma diff_incl_iff n X Y : in_range n X -> in_range n Y ->
  (incl (diff (seq 0 n) Y) (diff (seq 0 n) X) <-> incl X Y).
Proof.
  intros HX HY. split; intros H x Hx.
  - destruct (mem x Y) eqn:M; [apply mem_In; exact M|]. exfalso.
    assert (D : In x (diff (seq 0 n) Y)).
    { apply diff_In. split; [apply in_seq; specialize (HX x Hx); lia|]. apply mem_false_iff. exact M. }
    apply H in D. apply diff_In in D. tauto.
  - apply diff_In in Hx. destruct Hx as [H1 H2]. apply diff_In. split; [exact H1|].
    intros Hc. apply H2. apply H. exact Hc.
Qed.

(* the strict order of the lattice's own <= *)
Definition le_true (cs : list concept) (a b : nat) : Prop :=
  concept_le (nth a cs dummy_concept) (nth b cs dummy_concept) = COk true.
Definition own_lt (cs : list concept) (a b : nat) : Prop := le_true cs a b /\ ~ le_true cs b a.

Lemma cover_ext (R R' : nat -> nat -> Prop) n i j :
  (forall a b, a < n -> b < n -> (R' a b <-> R a b)) -> i < n -> j < n ->
  (cover R' n j i <-> cover R n j i).
Proof.
  intros H Hi Hj. unfold cover. rewrite (H j i Hj Hi). split; intros [H1 H2]; split; try exact H1;
    intros k Hk [Ha Hb]; apply (H2 k Hk); split; apply H; assumption.
Qed.

Lemma COk_true_iff (b : bool) : @COk bool b = COk true <-> b = true.
Proof. split; intros H; [inversion H; reflexivity | subst; reflexivity]. Qed.

Theorem monotone_order_consistent K h on' an' L' :
  wf (k_tbl K) -> lattice_for (tbl_invert (k_tbl K)) on' an' L' ->
  let M := monotone_of K h L' in
  let n := length (l_concepts M) in
  forall i j, i < n ->
    (In j (nth i (l_children M) []) <-> j < n /\ cover (own_lt (l_concepts M)) n j i).
Proof.
  intros Hwf HL M n i j Hi. set (t := k_tbl K) in *. set (cs := l_concepts L').
  assert (Hn : n = length cs) by (unfold n, M, monotone_of; cbn [l_concepts]; apply map_length).
  assert (Hch : l_children M = l_children L') by reflexivity. rewrite Hch.
  rewrite Hn in Hi. rewrite (lf_children _ _ _ _ HL i j Hi). fold cs. rewrite <- Hn.
  assert (Heq : forall a b, a < n -> b < n ->
                 (own_lt (l_concepts M) a b <-> ext_lt (exts_of L') a b)).
  { intros a b Ha Hb. rewrite Hn in Ha, Hb.
    assert (Na : forall k, k < length cs ->
                  nth k (l_concepts M) dummy_concept = mono_concept (height t) (k_on K) h (nth k cs dummy_concept)).
    { intros k Hk. unfold M, monotone_of. cbn [l_concepts]. fold cs. fold t.
      apply (nth_map_in _ cs k dummy_concept dummy_concept). exact Hk. }
    assert (Rk : forall k, k < length cs -> in_range (height t) (c_ext_i (nth k cs dummy_concept))).
    { intros k Hk. destruct (lf_concept _ _ _ _ _ HL (nth_In cs dummy_concept Hk)) as [E _].
      rewrite E. rewrite <- (tbl_invert_height t). apply ext_in_range. }
    assert (Le : forall x y, x < length cs -> y < length cs ->
              (le_true (l_concepts M) x y <->
               incl (c_ext_i (nth x cs dummy_concept)) (c_ext_i (nth y cs dummy_concept)))).
    { intros x y Hx Hy. unfold le_true. rewrite (Na x Hx), (Na y Hy).
      rewrite concept_le_mono; try reflexivity.
      - rewrite COk_true_iff, subsetb_incl. cbn [mono_concept c_ext_i].
        apply (diff_incl_iff (height t)); auto.
      - cbn [mono_concept c_ext_i]. apply NoDup_filter. apply seq_NoDup. }
    unfold own_lt, ext_lt, strict_sub, exts_of. fold cs. rewrite !nth_exts by assumption.
    rewrite (Le a b Ha Hb), (Le b a Hb Ha). tauto. }
  split; intros [Hj Hc]; split; try exact Hj.
  - apply (cover_ext (ext_lt (exts_of L')) (own_lt (l_concepts M)) n i j); try assumption. lia.
  - apply (cover_ext (ext_lt (exts_of L')) (own_lt (l_concepts M)) n i j) in Hc; try assumption. lia.
Qed.

(* every monotone concept is flagged monotone and carries the context's hash, so <= never raises *)
Theorem monotone_le_total K h L' a b :
  In a (l_concepts (monotone_of K h L')) -> In b (l_concepts (monotone_of K h L')) ->
  exists v, concept_le a b = COk v.
Proof.
  intros Ha Hb. unfold monotone_of in *. cbn [l_concepts] in *. apply in_map_iff in Ha, Hb.
  destruct Ha as [a0 [Ea _]]. destruct Hb as [b0 [Eb _]]. subst.
  rewrite concept_le_mono; try reflexivity; [eexists; reflexivity|].
  cbn [mono_concept c_ext_i]. apply NoDup_filter. apply seq_NoDup.
Qed.

(* Lemmas/C19_HeightSpec.v — the executable oracle [height] used by the correspondence check
   (exhaustive search for the longest climbing chain) satisfies the declarative [is_height];
   so the levels computed by the model equal it. *)
From Coq Require Import ZArith QArith.
From FCA Require Import Base.ListSet Model.C19_LineLayout Spec.C19_LayoutSpec Lemmas.C19_Mover Lemmas.C19_Levels.
Local Open Scope nat_scope.

Lemma fold_left_max_list_max l : forall x, fold_left Nat.max l x = Nat.max x (list_max l).
Proof.
  induction l as [|a l IH]; intro x; cbn [fold_left list_max fold_right]; [lia|].
  rewrite IH. fold (list_max l). lia.
Qed.

Section HeightSpec.
Variable n : nat.
Variable leq : nat -> nat -> bool.
Hypothesis antisym : forall a b, a < n -> b < n -> leq a b = true -> leq b a = true -> a = b.
Hypothesis trans : forall a b c, a < n -> b < n -> c < n -> leq a b = true -> leq b c = true -> leq a c = true.

Definition ups (i : nat) : list nat := filter (slt leq i) (seq 0 n).

Lemma ups_in i j : In j (ups i) <-> j < n /\ slt leq i j = true.
Proof. unfold ups. rewrite filter_In, in_seq. split; intros [A B]; split; auto; lia. Qed.

Lemma hf_step f i : height_fuel n leq (S f) i = list_max (map (fun j => S (height_fuel n leq f j)) (ups i)).
Proof. cbn [height_fuel]. fold (ups i). rewrite fold_left_max_list_max. lia. Qed.

Lemma hf_stable : forall f i, i < n -> upsize n leq i < f -> height_fuel n leq (S f) i = height_fuel n leq f i.
Proof.
  induction f as [|f IH]; intros i Hi Hu; [lia|].
  rewrite (hf_step (S f)), (hf_step f). f_equal. apply map_ext_in. intros j Hj. f_equal.
  apply ups_in in Hj. destruct Hj as [Hj L]. apply IH; [exact Hj|].
  pose proof (upsize_lt n leq antisym trans i j Hi Hj L). lia.
Qed.

Lemma height_rec i : i < n -> height n leq i = list_max (map (fun j => S (height n leq j)) (ups i)).
Proof.
  intro Hi. unfold height.
  assert (E : exists n', n = S n') by (destruct n as [|n']; [lia | exists n'; reflexivity]).
  destruct E as [n' En].
  replace (height_fuel n leq n i) with (height_fuel n leq (S n') i) by (now rewrite En).
  rewrite hf_step. f_equal. apply map_ext_in. intros j Hj. f_equal.
  apply ups_in in Hj. destruct Hj as [Hj L].
  transitivity (height_fuel n leq (S n') j); [|now rewrite En].
  symmetry. apply hf_stable; [exact Hj|].
  pose proof (upsize_lt n leq antisym trans i j Hi Hj L). pose proof (upsize_bound n leq i Hi). lia.
Qed.

Lemma height_is_height i : i < n -> is_height n leq i (height n leq i).
Proof.
  intro Hi. split.
  - assert (G : forall k v, v < n -> height n leq v = k ->
                exists l, asc n leq v l /\ length l = k /\ maximal n leq (last l v)).
    { induction k as [|k IH]; intros v Hv Hk.
      - exists []. split; [exact I|]. split; [reflexivity|]. cbn [last]. intros j Hj.
        destruct (slt leq v j) eqn:L; [|reflexivity]. exfalso.
        rewrite (height_rec v Hv) in Hk.
        assert (In (S (height n leq j)) (map (fun j => S (height n leq j)) (ups v))).
        { apply in_map_iff. exists j. split; [reflexivity | apply ups_in; auto]. }
        apply list_max_in in H. lia.
      - rewrite (height_rec v Hv) in Hk.
        assert (NE : map (fun j => S (height n leq j)) (ups v) <> []).
        { intro E. rewrite E in Hk. cbn in Hk. discriminate. }
        pose proof (list_max_attained _ NE) as Hin. rewrite Hk in Hin.
        apply in_map_iff in Hin. destruct Hin as (j & Ej & Hj). apply ups_in in Hj. destruct Hj as [Hj L].
        destruct (IH j Hj ltac:(lia)) as (l & A & Len & Mx).
        exists (j :: l). split; [|split].
        + cbn [asc]. auto.
        + cbn [length]. lia.
        + rewrite last_cons. exact Mx. }
    apply (G (height n leq i) i Hi eq_refl).
  - intro l. revert i Hi. induction l as [|j t IH]; intros i Hi A; [cbn; lia|].
    cbn [asc] in A. destruct A as (L & Hj & A). specialize (IH j Hj A).
    rewrite (height_rec i Hi).
    assert (In (S (height n leq j)) (map (fun j => S (height n leq j)) (ups i))).
    { apply in_map_iff. exists j. split; [reflexivity | apply ups_in; auto]. }
    apply list_max_in in H. cbn [length]. lia.
Qed.
End HeightSpec.

(* Lemmas/C15Exact.v — "all concepts when the limit is not binding": without a support
   threshold and with L_max at least the number of extents of the context, Sofia (any measure,
   any set order) returns every extent of the context. *)
From Coq Require Import QArith Permutation.
From FCA Require Import Base.ListSet Model.BinTable Model.FormalContext Spec.Galois Spec.Closure
     Lemmas.BitRow Lemmas.C01.
From FCA Require Import Model.Sofia Lemmas.C15Bits Lemmas.C15Sofia Lemmas.C15Formal.
Local Open Scope nat_scope.

Lemma ms0_le n e : Qle_bool (eff_min_supp 0%Q n) (cntQ e) = true.
Proof.
  apply Qle_bool_iff. unfold eff_min_supp. simpl. unfold cntQ.
  rewrite Qmult_0_l. change 0%Q with (inject_Z 0). rewrite <- Zle_Qle. lia.
Qed.

Lemma filter_all_true {A} (f : A -> bool) l : (forall x, In x l -> f x = true) -> filter f l = l.
Proof.
  induction l as [|x l IH]; simpl; intros H; [reflexivity|].
  rewrite (H x (or_introl eq_refl)). f_equal. apply IH. intros y Hy. apply H. right. exact Hy.
Qed.

Section Exact.
  Variable shuffle : list extent -> list extent.
  Variable mu : list extent -> list Q.
  Hypothesis shuffle_perm : forall l, Permutation l (shuffle l).
  Variable t : table.
  Variable L : nat.
  Hypothesis HL : length (extents_spec t) <= L.

  Let n := height t.
  Let ms := eff_min_supp 0%Q n.
  Let step := sofia_step shuffle mu ms L.

  (* every set of already processed attributes has its extent in the family *)
  Definition complete (js : list nat) (F : list extent) : Prop :=
    forall B, incl B js -> exists e, In e F /\ search1 e = ext t B.

  Definition sound (F : list extent) : Prop :=
    NoDup F /\ forall e, In e F -> length e = n /\ is_extent_row t e.

  Lemma sound_length F : sound F -> length F <= L.
  Proof.
    intros [Hnd Hs]. eapply Nat.le_trans; [|exact HL].
    apply Nat.le_trans with (length (map search1 F)); [rewrite map_length; apply Nat.le_refl|].
    apply NoDup_incl_length.
    - apply NoDup_map_inj_in; [|exact Hnd]. intros x y Hx Hy E. apply search1_inj; [|exact E].
      rewrite (proj1 (Hs x Hx)), (proj1 (Hs y Hy)). reflexivity.
    - intros A HA. apply in_map_iff in HA. destruct HA as [e [E He]]. subst A.
      destruct (proj2 (Hs e He)) as [B [HB EB]]. apply extents_spec_complete. exists B. auto.
  Qed.

  Lemma candidates_all F a s :
    sofia_candidates shuffle ms F a = Some s ->
    forall e, In e s <-> In e (F ++ map (fun e0 => band e0 a) F).
  Proof.
    unfold sofia_candidates. destruct (ball a); [discriminate|]. destruct (Qlt_b (cntQ a) ms); [discriminate|].
    intros E e. injection E as E. subst s. unfold support_filter.
    rewrite (filter_all_true _ _ (fun x _ => ms0_le n x)), firstn_skipn. split; intros H.
    - apply (proj1 (dedup_In _ _)).
      apply (Permutation_in _ (Permutation_sym (shuffle_perm _))).
      apply (Permutation_in _ (Permutation_sym (sort_by_count_perm _))). exact H.
    - apply (Permutation_in _ (sort_by_count_perm _)).
      apply (Permutation_in _ (shuffle_perm _)). apply (proj2 (dedup_In _ _)). exact H.
  Qed.

  Lemma never_skipped_by_support a : Qlt_b (cntQ a) ms = false.
  Proof. unfold Qlt_b, ms. rewrite ms0_le. reflexivity. Qed.

  Lemma column_all_true j g : ball (column t j) = true -> g < n -> cell t g j = true.
  Proof.
    intros H Hg. unfold ball in H. rewrite (forallb_nth id _ false) in H.
    specialize (H g). rewrite column_length in H. specialize (H Hg). unfold id in H.
    rewrite nth_column in H. exact H.
  Qed.

  Lemma ext_drop_full_column B j :
    ball (column t j) = true -> ext t B = ext t (filter (fun m => negb (Nat.eqb m j)) B).
  Proof.
    intros Hj. apply ext_ext_set. intros g. rewrite !ext_In. split; intros [Hg H]; split; try exact Hg.
    - intros m Hm. apply filter_In in Hm. apply H. tauto.
    - intros m Hm. destruct (Nat.eqb m j) eqn:E.
      + apply Nat.eqb_eq in E. subst m. unfold I. apply column_all_true; assumption.
      + apply H. apply filter_In. split; [exact Hm|]. rewrite E. reflexivity.
  Qed.

  Lemma step_exact js j F :
    j < width t -> sound F -> complete js F ->
    sound (step F (column t j)) /\ complete (js ++ [j]) (step F (column t j)).
  Proof.
    intros Hj HS HC. unfold step, sofia_step.
    set (a := column t j).
    destruct (sofia_candidates shuffle ms F a) as [s|] eqn:E.
    - pose proof (candidates_all F a s E) as Hin.
      assert (HSs : sound s).
      { split.
        - unfold sofia_candidates in E. destruct (ball a); [discriminate|].
          destruct (Qlt_b (cntQ a) ms); [discriminate|]. injection E as E. subst s.
          unfold support_filter. apply NoDup_app_filter. rewrite firstn_skipn.
          eapply Permutation_NoDup; [apply sort_by_count_perm|].
          eapply Permutation_NoDup; [apply shuffle_perm|]. apply dedup_NoDup.
        - intros e He. apply Hin in He. apply in_app_or in He. destruct He as [He|He].
          + apply (proj2 HS). exact He.
          + apply in_map_iff in He. destruct He as [e' [Ee He']]. subst e.
            destruct (proj2 HS e' He') as [Le' [B [HB EB]]]. split.
            * unfold a. rewrite band_length, Le', column_length. apply Nat.min_id.
            * exists (B ++ [j]). split.
              -- apply in_range_app; [exact HB|]. intros x [Hx|[]]. subst. exact Hj.
              -- apply ext_band_column; assumption. }
      assert (EL : L <? length s = false) by (apply Nat.ltb_ge; apply sound_length; exact HSs).
      rewrite EL. split; [exact HSs|].
      intros B HB.
      set (B' := filter (fun m => negb (Nat.eqb m j)) B).
      assert (HB' : incl B' js).
      { intros m Hm. apply filter_In in Hm. destruct Hm as [Hm1 Hm2].
        apply HB in Hm1. apply in_app_or in Hm1. destruct Hm1 as [Hm1|[Hm1|[]]]; [exact Hm1|].
        subst m. rewrite Nat.eqb_refl in Hm2. discriminate. }
      destruct (HC B' HB') as [e' [He' Ee']].
      destruct (in_dec Nat.eq_dec j B) as [Hin_j|Hnot].
      + exists (band e' a). split.
        * apply Hin. apply in_or_app. right. apply (in_map (fun e0 => band e0 a)). exact He'.
        * unfold a. rewrite (ext_band_column t e' B' j Ee' (proj1 (proj2 HS e' He'))).
          apply ext_same_set. intros m. rewrite in_app_iff. unfold B'. rewrite filter_In. simpl. split.
          -- intros [[H _]|[H|[]]]; [exact H|subst; exact Hin_j].
          -- intros H. destruct (Nat.eqb m j) eqn:Em.
             ++ apply Nat.eqb_eq in Em. right. left. symmetry. exact Em.
             ++ left. split; [exact H|reflexivity].
      + exists e'. split.
        * apply Hin. apply in_or_app. left. exact He'.
        * rewrite Ee'. apply ext_same_set. intros m. unfold B'. rewrite filter_In. split.
          -- tauto.
          -- intros H. split; [exact H|]. destruct (Nat.eqb m j) eqn:Em; [|reflexivity].
             apply Nat.eqb_eq in Em. subst m. contradiction.
    - (* the column is skipped: it can only be a full column *)
      split; [exact HS|].
      unfold sofia_candidates in E. destruct (ball a) eqn:Eb.
      + intros B HB.
        set (B' := filter (fun m => negb (Nat.eqb m j)) B).
        assert (HB' : incl B' js).
        { intros m Hm. apply filter_In in Hm. destruct Hm as [Hm1 Hm2].
          apply HB in Hm1. apply in_app_or in Hm1. destruct Hm1 as [Hm1|[Hm1|[]]]; [exact Hm1|].
          subst m. rewrite Nat.eqb_refl in Hm2. discriminate. }
        destruct (HC B' HB') as [e' [He' Ee']]. exists e'. split; [exact He'|].
        rewrite Ee'. symmetry. apply ext_drop_full_column. exact Eb.
      + rewrite never_skipped_by_support in E. discriminate.
  Qed.

  Lemma fold_exact js' : forall js F,
    (forall j, In j js' -> j < width t) -> sound F -> complete js F ->
    sound (fold_left step (map (column t) js') F) /\
    complete (js ++ js') (fold_left step (map (column t) js') F).
  Proof.
    induction js' as [|j js' IH]; intros js F Hr HS HC; simpl.
    - rewrite app_nil_r. split; assumption.
    - destruct (step_exact js j F (Hr j (or_introl eq_refl)) HS HC) as [HS' HC'].
      replace (js ++ j :: js') with ((js ++ [j]) ++ js') by (rewrite <- app_assoc; reflexivity).
      apply IH; [intros x Hx; apply Hr; right; exact Hx|exact HS'|exact HC'].
  Qed.

  Theorem sofia_extents_exact :
    forall A, In A (map search1 (sofia_extents shuffle mu n (attr_extents_formal t) ms L))
              <-> In A (extents_spec t).
  Proof.
    assert (H0 : sound [repeat true n] /\ complete [] [repeat true n]).
    { split.
      - split; [constructor; [intros []|constructor]|].
        intros e [He|[]]. subst e. split; [apply repeat_length|].
        exists []. split; [intros x []|]. rewrite search1_repeat_true, ext_nil. reflexivity.
      - intros B HB. exists (repeat true n). split; [left; reflexivity|].
        destruct B as [|m B]; [|exfalso; apply (HB m); left; reflexivity].
        rewrite search1_repeat_true, ext_nil. reflexivity. }
    destruct H0 as [HS0 HC0].
    destruct (fold_exact (seq 0 (width t)) [] [repeat true n]
                (fun j Hj => proj2 (proj1 (in_seq _ _ _) Hj)) HS0 HC0) as [HS HC].
    intros A. unfold sofia_extents, attr_extents_formal. fold step. split.
    - intros HA. apply in_map_iff in HA. destruct HA as [e [E He]]. subst A.
      destruct (proj2 (proj2 HS e He)) as [B [HB EB]]. apply extents_spec_complete. exists B. auto.
    - intros HA. apply extents_spec_complete in HA. destruct HA as [B [HB EB]]. subst A.
      destruct (HC B) as [e [He Ee]].
      + intros m Hm. simpl. apply in_seq. specialize (HB m Hm). lia.
      + apply in_map_iff. exists e. auto.
  Qed.
End Exact.

Theorem sofia_exact : forall shuffle mu,
  (forall l, Permutation l (shuffle l)) ->
  forall b t L, length (extents_spec t) <= L ->
  forall A, In A (map fst (sofia_formal shuffle mu b t L 0%Q)) <-> In A (extents_spec t).
Proof.
  intros shuffle mu Hp b t L HL A. unfold sofia_formal. rewrite map_map. simpl.
  apply sofia_extents_exact; assumption.
Qed.

(* Lemmas/C14_Objectwise.v — close_by_one_objectwise on a many-valued context: its traversal is
   C02's abstract CbO traversal ([tuples], Lemmas/C02_CbO.v) of the binarised table started from
   the conventional closure of the empty set; under guard_D16 it yields exactly the closed object
   sets of the specification, each once; consequently both mining paths agree under both guards. *)
From FCA Require Import Base.ListSet Model.MVContext Spec.MVLatticeSpec Lemmas.C13 Lemmas.C14 Lemmas.C14_Lattice.
From FCA Require Import Lemmas.C02 Lemmas.C02_Sofia Lemmas.C02_CbO Lemmas.C02_CbOModel Lemmas.C02_CloseByOne.


Lemma canon_filter m (p : nat -> bool) : canon_set m (filter p (seq 0 m)) = filter p (seq 0 m).
Proof.
  unfold canon_set. apply filter_ext_in'. intros x Hx. apply in_seq in Hx. apply mem_filter_seq. lia.
Qed.

Lemma canon_same_set m X Y : same_set X Y -> canon_set m X = canon_set m Y.
Proof.
  intros H. unfold canon_set. apply filter_ext_in'. intros x _. apply bool_eq_iff. rewrite !mem_In. apply H.
Qed.

Section Objectwise.
Variable K : mvctx.
Hypothesis Hwf : mv_wf K.
Hypothesis Hn : mv_n K <> 0.
Local Notation t := (mv_binarize K).
Local Notation n := (mv_n K).

Lemma height_t : height t = n.
Proof. apply mv_binarize_height. Qed.

(* extension of the intention of a non-empty tuple over "the objects of a range not in the
   tuple" = the new members of the closure, as in the boolean case *)
Lemma mv_ext_new comb lo k :
  comb <> [] -> in_range n comb -> lo + k <= n ->
  mv_extension_i K (mv_intention_i K comb) (Some (filter (fun h => negb (mem h comb)) (seq lo k)))
  = filter (newp comb (cl_obj t comb)) (seq lo k).
Proof.
  intros Hne Hr Hk. rewrite extension_conj_any by apply intention_i_ok. cbn [default].
  rewrite filter_filter'. apply filter_ext_in'. intros h Hh. apply in_seq in Hh. unfold newp. f_equal.
  rewrite binarise_same_closure by assumption.
  unfold mv_cl. rewrite extension_conjunctive by (apply intention_i_ok || exact Logic.I). cbn [default].
  symmetry. apply mem_filter_seq. lia.
Qed.

Lemma mv_children_tuples k : forall lo E, lo + k = n -> good t E ->
  map pc_ext (mv_cbo_children K E (seq lo k)) = tuples t E (seq lo k).
Proof.
  induction k as [|k IH]; intros lo E Hlo HE; [reflexivity|].
  cbn [seq mv_cbo_children tuples]. rewrite map_app. rewrite (IH (S lo) E) by (try lia; exact HE).
  f_equal. destruct (mem lo E) eqn:Em; [reflexivity|]. apply mem_false_iff in Em.
  assert (Hg : lo < height t) by (rewrite height_t; lia).
  assert (Hc : in_range n (E ++ [lo])) by (rewrite <- height_t; apply comb_in_range; assumption).
  assert (Hne : E ++ [lo] <> []) by (destruct E; discriminate).
  rewrite (mv_ext_new (E ++ [lo]) 0 lo) by (try assumption; lia).
  rewrite (mv_ext_new (E ++ [lo]) (S lo) (n - S lo)) by (try assumption; lia).
  unfold lex_fails.
  destruct (existsb (newp (E ++ [lo]) (cl_obj t (E ++ [lo]))) (seq 0 lo)) eqn:Ex.
  - destruct (filter (newp (E ++ [lo]) (cl_obj t (E ++ [lo]))) (seq 0 lo)) eqn:Ef; [|reflexivity].
    apply existsb_filter_nil in Ef. congruence.
  - apply existsb_filter_nil in Ex. rewrite Ex. cbn [map pc_from_objects pc_ext].
    assert (Ect : E ++ [lo] ++ filter (newp (E ++ [lo]) (cl_obj t (E ++ [lo]))) (seq (S lo) (n - S lo))
                  = child_tuple t E lo).
    { unfold child_tuple. rewrite height_t. rewrite <- app_assoc. reflexivity. }
    rewrite <- app_assoc. rewrite Ect. f_equal.
    apply (IH (S lo) (child_tuple t E lo)); [lia | apply child_good; assumption].
Qed.

Lemma conv_root : mv_extension_i K (mv_intention_i K []) (Some (seq 0 n)) = mv_cl K [].
Proof.
  unfold mv_cl. rewrite !extension_conj_any by apply intention_i_ok. reflexivity.
Qed.

Lemma filter_seq_good (p : nat -> bool) : good t (filter p (seq 0 n)).
Proof.
  split.
  - intros x Hx. apply filter_In in Hx. destruct Hx as [Hx _]. apply in_seq in Hx. rewrite height_t. lia.
  - apply NoDup_filter. apply seq_NoDup.
Qed.

Lemma conv_good : good t (mv_cl K []).
Proof. destruct (mv_cl_is_filter K []) as [p Hp]. rewrite Hp. apply filter_seq_good. Qed.

Theorem objectwise_extents :
  map pc_ext (mv_cbo_objectwise K) = mv_cl K [] :: tuples t (mv_cl K []) (seq 0 n).
Proof.
  unfold mv_cbo_objectwise. rewrite conv_root. cbn [map pc_from_objects pc_ext]. f_equal.
  apply (mv_children_tuples n 0); [lia | apply conv_good].
Qed.

Lemma mv_cl_same_set X Y : X <> [] -> in_range n X -> same_set X Y -> mv_cl K X = mv_cl K Y.
Proof.
  intros Hne Hr Hs.
  assert (HneY : Y <> []).
  { destruct X as [|x X']; [congruence|]. intros E. subst Y. destruct (proj1 (Hs x) (or_introl eq_refl)). }
  assert (HrY : in_range n Y) by (intros y Hy; apply Hr, Hs; exact Hy).
  rewrite <- !binarise_same_closure by assumption. apply cl_same_set. exact Hs.
Qed.

Theorem objectwise_guarded :
  mv_cols K <> [] -> guard_D16 K = true ->
  NoDup (map (canon_set n) (map pc_ext (mv_cbo_objectwise K))) /\
  (forall E, In E (map (canon_set n) (map pc_ext (mv_cbo_objectwise K)))
             <-> In E (mv_extents_spec (mv_cols K) n)) /\
  (forall c, In c (mv_cbo_objectwise K) ->
             descs_eqb (map snd (pc_int c)) (mv_int_spec (mv_cols K) (pc_ext c)) = true).
Proof.
  intros Hc Hg. rewrite objectwise_extents. set (S0 := mv_cl K []).
  assert (HS0 : good t S0) by apply conv_good.
  destruct (mv_cl_is_filter K []) as [p0 Hp0]. fold S0 in Hp0.
  assert (HcS0 : canon_set n S0 = S0) by (rewrite Hp0; apply canon_filter).
  assert (Hk : 0 + n = height t) by (rewrite height_t; reflexivity).
  split; [|split].
  - (* no duplicates *)
    cbn [map]. constructor.
    + intros Hin. apply in_map_iff in Hin. destruct Hin as [X [EX HX]].
      destruct (tuples_below t n 0 S0 Hk HS0 X HX) as [_ [_ [g [_ [HgS HgX]]]]].
      assert (Hgn : g < height t).
      { destruct (tuples_sound t n 0 S0 Hk HS0 X HX) as [[HrX _] _]. apply HrX. exact HgX. }
      rewrite <- height_t in EX. apply (canon_neq t X S0 g Hgn HgX HgS). exact EX.
    + rewrite <- height_t. apply tuples_nodup; [reflexivity | exact HS0].
  - (* exactly the closed sets of the specification *)
    intros E. split.
    + intros HE. cbn [map] in HE. unfold mv_extents_spec. apply (proj2 (nodup_lists_In _ _)). apply in_map_iff.
      destruct HE as [HE|HE].
      * exists []. split; [rewrite <- model_closure_is_spec; fold S0; rewrite <- HE; symmetry; exact HcS0|].
        rewrite <- (filter_false_all (seq 0 n)). apply filter_In_sublists.
      * apply in_map_iff in HE. destruct HE as [X [EX HX]].
        destruct (tuples_sound t n 0 S0 Hk HS0 X HX) as [[HrX HndX] HclX].
        destruct (tuples_below t n 0 S0 Hk HS0 X HX) as [_ [_ [g [_ [_ HgX]]]]].
        assert (HneX : X <> []) by (intros E0; subst X; destruct HgX).
        rewrite height_t in HrX.
        exists (canon_set n X). split.
        -- rewrite <- model_closure_is_spec.
           rewrite <- (mv_cl_same_set X (canon_set n X) HneX HrX).
           ++ rewrite <- binarise_same_closure by assumption. rewrite <- EX.
              rewrite <- height_t. symmetry. apply canon_set_closed; [rewrite height_t; exact HrX | exact HclX].
           ++ intros x. rewrite canon_set_In. split; [intros Hx; split; [apply HrX; exact Hx | exact Hx] | tauto].
        -- unfold canon_set. apply filter_In_sublists.
    + intros HE. unfold mv_extents_spec in HE. apply (proj1 (nodup_lists_In _ _)) in HE. apply in_map_iff in HE.
      destruct HE as [Y [EY HY]]. cbn [map].
      rewrite <- model_closure_is_spec in EY. destruct Y as [|y Y'].
      * left. fold S0 in EY. rewrite <- EY. exact HcS0.
      * assert (HrY : in_range n (y :: Y')) by (apply (sublist_in_range K Hn); exact HY).
        assert (HneY : y :: Y' <> []) by discriminate.
        assert (EA : E = cl_obj t (y :: Y')) by (rewrite binarise_same_closure by assumption; symmetry; exact EY).
        assert (HrA : in_range (height t) E) by (rewrite EA; apply cl_in_range).
        assert (HclA : closed t E) by (rewrite EA; apply cl_closed; rewrite height_t; exact HrY).
        assert (HinS : incl S0 E).
        { (* the guard: the conventional closure of the empty set lies in every object's closure *)
          intros x Hx. unfold guard_D16 in Hg. rewrite forallb_forall in Hg.
          assert (Hy : In y (seq 0 n)) by (apply in_seq; specialize (HrY y (or_introl eq_refl)); lia).
          specialize (Hg y Hy). apply subsetb_incl in Hg. rewrite <- EY.
          apply (closure_monotone K [y] (y :: Y')); [discriminate | intros z [Hz|[]]; subst; left; reflexivity|].
          apply Hg. exact Hx. }
        assert (Hdec : same_set S0 E \/ ~ same_set S0 E).
        { destruct (same_setb S0 E) eqn:Eb; [left; apply same_setb_spec; exact Eb|].
          right. intros Hs. apply same_setb_spec in Hs. congruence. }
        destruct Hdec as [Hs|Hns].
        -- left. rewrite (canon_same_set n S0 E Hs). rewrite <- EY.
           destruct (mv_cl_is_filter K (y :: Y')) as [q Hq]. rewrite Hq. apply canon_filter.
        -- right. destruct (tuples_complete t n 0 S0 E Hk HS0 HrA HclA HinS) as [X [HX HsX]].
           ++ intros h Hh. lia.
           ++ exact Hns.
           ++ apply in_map_iff. exists X. split; [|exact HX]. rewrite (canon_same_set n X E HsX).
              rewrite <- EY. destruct (mv_cl_is_filter K (y :: Y')) as [q Hq]. rewrite Hq. apply canon_filter.
  - (* descriptions *)
    intros c Hin. unfold mv_cbo_objectwise in Hin.
    assert (G : forall E cands c, In c (mv_cbo_children K E cands) -> pc_int c = mv_intention_i K (pc_ext c)).
    { intros E cands. revert E. induction cands as [|g rest IH]; intros E c' Hc'; [destruct Hc'|].
      cbn [mv_cbo_children] in Hc'. apply in_app_or in Hc'. destruct Hc' as [Hc'|Hc']; [|apply (IH E); exact Hc'].
      destruct (mem g E); [destruct Hc'|].
      destruct (mv_extension_i K (mv_intention_i K (E ++ [g])) (Some (filter (fun h => negb (mem h (E ++ [g]))) (seq 0 g))));
        [|destruct Hc'].
      destruct Hc' as [Hc'|Hc']; [subst c'; reflexivity | apply (IH _ c' Hc')]. }
    destruct Hin as [Hin|Hin].
    + subst c. cbn [pc_from_objects pc_int pc_ext]. apply intention_descs_ok.
    + rewrite (G _ _ c Hin). apply intention_descs_ok.
Qed.

End Objectwise.

(* exactness of a yielded concept list, extents read as sets (canonical representatives) *)
Definition concept_list_exact_c (K : mvctx) (cs : list pconcept) : Prop :=
  NoDup (map (canon_set (mv_n K)) (map pc_ext cs)) /\
  (forall E, In E (map (canon_set (mv_n K)) (map pc_ext cs)) <-> In E (mv_extents_spec (mv_cols K) (mv_n K))) /\
  (forall c, In c cs -> descs_eqb (map snd (pc_int c)) (mv_int_spec (mv_cols K) (pc_ext c)) = true).

Lemma spec_extent_canon K E :
  In E (mv_extents_spec (mv_cols K) (mv_n K)) -> canon_set (mv_n K) E = E.
Proof.
  intros H. unfold mv_extents_spec in H. apply (proj1 (nodup_lists_In _ _)) in H. apply in_map_iff in H.
  destruct H as [X [EX _]]. subst E. unfold mv_cl_spec, mv_ext_spec. apply canon_filter.
Qed.

Lemma exact_to_c K cs : concept_list_exact K cs -> concept_list_exact_c K cs.
Proof.
  intros [Hnd [Hiff Hd]].
  assert (E : map (canon_set (mv_n K)) (map pc_ext cs) = map pc_ext cs).
  { rewrite <- (map_id (map pc_ext cs)) at 2. apply map_ext_in. intros e He.
    apply spec_extent_canon. apply Hiff. exact He. }
  unfold concept_list_exact_c. rewrite E. tauto.
Qed.

Lemma no_dup_extent_of_canon n (cs : list pconcept) :
  NoDup (map (canon_set n) (map pc_ext cs)) -> has_dup_extent cs = false.
Proof.
  induction cs as [|c cs IH]; intros Hnd; [reflexivity|].
  cbn [map] in Hnd. inversion Hnd; subst. cbn [has_dup_extent]. rewrite IH by assumption.
  rewrite orb_false_r. apply not_true_is_false. intros Hex. apply existsb_exists in Hex.
  destruct Hex as [c' [Hc' Hs]]. apply same_setb_spec in Hs. apply H1.
  rewrite (canon_same_set n (pc_ext c) (pc_ext c') Hs). apply in_map. apply in_map. exact Hc'.
Qed.

Theorem from_context_exact K thr :
  mv_wf K -> mv_n K <> 0 -> mv_cols K <> [] -> guard_D16 K = true -> guard_D17 K = true ->
  exists cs, mv_from_context K thr = Some cs /\ concept_list_exact_c K cs.
Proof.
  intros Hwf Hn Hc H16 H17. destruct (Nat.ltb_spec thr (mv_n_bin_attrs K)) as [Hlt|Hge].
  - exists (mv_cbo_objectwise K).
    pose proof (objectwise_guarded K Hwf Hn Hc H16) as Hex. split; [|exact Hex].
    unfold mv_from_context, mv_close_by_one. destruct (Nat.ltb_spec thr (mv_n_bin_attrs K)); [|lia].
    rewrite (no_dup_extent_of_canon (mv_n K)); [reflexivity | apply Hex].
  - destruct (lattice_exact K thr Hwf Hn Hc Hge H17) as [cs [H1 [_ H2]]].
    exists cs. split; [exact H1 | apply exact_to_c; exact H2].
Qed.

Theorem paths_agree_guarded K thr1 thr2 :
  mv_wf K -> mv_n K <> 0 -> mv_cols K <> [] -> guard_D16 K = true -> guard_D17 K = true ->
  exists c1 c2, mv_from_context K thr1 = Some c1 /\ mv_from_context K thr2 = Some c2 /\
                concept_list_exact_c K c1 /\ concept_list_exact_c K c2 /\
                (forall E, In E (map (canon_set (mv_n K)) (map pc_ext c1))
                           <-> In E (map (canon_set (mv_n K)) (map pc_ext c2))).
Proof.
  intros Hwf Hn Hc H16 H17.
  destruct (from_context_exact K thr1 Hwf Hn Hc H16 H17) as [c1 [E1 X1]].
  destruct (from_context_exact K thr2 Hwf Hn Hc H16 H17) as [c2 [E2 X2]].
  exists c1, c2. split; [exact E1|]. split; [exact E2|]. split; [exact X1|]. split; [exact X2|].
  intros E. destruct X1 as [_ [I1 _]]. destruct X2 as [_ [I2 _]]. rewrite I1, I2. tauto.
Qed.

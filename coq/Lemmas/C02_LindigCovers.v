(* Lemmas/C02_LindigCovers.v — exactness of direct_super_concepts: for a closed extent E, and for
   every permutation in which the candidate set is iterated, the extents of the returned
   neighbours are EXACTLY the upper covers of E among the closed sets (generic in the side). *)
From Coq Require Import Permutation.
From FCA Require Import Base.ListSet Model.BinTable Model.FormalContext Model.ConceptConstruction
     Spec.Galois Spec.Closure Lemmas.C02 Lemmas.C02_Sofia Lemmas.C02_CbOModel
     Lemmas.C02_Lindig Lemmas.C02_LindigComplete.

Section Covers.
Variable sd : lindig_side.
Variable ord : list nat -> list nat.
Hypothesis Hperm : forall l, Permutation (ord l) l.
Hypothesis Hint_r : forall A, in_range (s_n sd) A -> in_range (s_w sd) (s_int sd A).
Hypothesis Hext_r : forall B, in_range (s_w sd) B -> in_range (s_n sd) (s_ext sd B).
Hypothesis Hiei : forall A, in_range (s_n sd) A -> s_int sd (s_ext sd (s_int sd A)) = s_int sd A.
Hypothesis Hext_sub : forall B, in_range (s_w sd) B -> In (s_ext sd B) (sublists (seq 0 (s_n sd))).
Hypothesis Hextensive : forall A, in_range (s_n sd) A -> incl A (cl sd A).
Hypothesis Hmonotone : forall A A', in_range (s_n sd) A -> in_range (s_n sd) A' -> incl A A' -> incl (cl sd A) (cl sd A').

Let n := s_n sd.
Notation canon := (canonical sd).
Notation CL := (cl sd).

Definition closedc (E : list nat) : Prop := canon E /\ CL E = E.

(* N is an upper cover of E among the closed sets *)
Definition is_cover (E N : list nat) : Prop :=
  closedc N /\ incl E N /\ ~ incl N E /\
  forall C, closedc C -> incl E C -> incl C N -> incl C E \/ incl N C.

Let c_range := canonical_range sd.
Let c_nodup := canonical_NoDup sd.
Let c_eq := canonical_eq sd.
Let clc := cl_canonical sd Hint_r Hext_sub.
Let clr := cl_range sd Hint_r Hext_sub.
Let cli := cl_idem sd Hiei.
Let appr := app_range sd.

(* all generators of N = (E+g)'' outside E generate N *)
Definition uniform (E : list nat) (g : nat) : Prop :=
  forall h, In h (CL (E ++ [g])) -> ~ In h E -> CL (E ++ [h]) = CL (E ++ [g]).

Lemma gen_sub E g h : in_range n E -> g < n -> In h (CL (E ++ [g])) -> incl (CL (E ++ [h])) (CL (E ++ [g])).
Proof.
  intros HE Hg Hh.
  assert (Hhn : h < n) by (apply (clr (E ++ [g])); [apply appr; assumption | exact Hh]).
  rewrite <- (cli (E ++ [g])) by (apply appr; assumption).
  apply Hmonotone; [apply appr; assumption | apply clr; apply appr; assumption |].
  intros x Hx. apply in_app_or in Hx. destruct Hx as [Hx|[<-|[]]]; [|exact Hh].
  apply Hextensive; [apply appr; assumption|]. apply in_or_app. left. exact Hx.
Qed.

Lemma uniform_cover E g : closedc E -> g < n -> ~ In g E -> uniform E g -> is_cover E (CL (E ++ [g])).
Proof.
  intros [HEc HEcl] Hg HgE Hu. pose proof (c_range E HEc) as HEr.
  assert (Hcomb : in_range n (E ++ [g])) by (apply appr; assumption).
  split; [split; [apply clc; exact Hcomb | apply cli; exact Hcomb]|].
  split; [intros x Hx; apply Hextensive; [exact Hcomb | apply in_or_app; left; exact Hx]|].
  split.
  - intros H. apply HgE. apply H. apply Hextensive; [exact Hcomb|]. apply in_or_app. right. left. reflexivity.
  - intros C [HCc HCcl] HEC HCN.
    destruct (forallb (fun x => mem x E) C) eqn:Ef.
    + left. intros x Hx. rewrite forallb_forall in Ef. apply mem_In, Ef, Hx.
    + right. apply forallb_false_witness in Ef. destruct Ef as [h [HhC HhE]]. apply mem_false_iff in HhE.
      rewrite <- (Hu h (HCN h HhC) HhE). rewrite <- HCcl.
      apply Hmonotone; [apply appr; [exact HEr | apply (c_range C HCc); exact HhC] | apply c_range; exact HCc |].
      intros x Hx. apply in_app_or in Hx. destruct Hx as [Hx|[<-|[]]]; [apply HEC; exact Hx | exact HhC].
Qed.

(* what the loop accepts *)
Definition accepted (E : list nat) (x : fconcept) : Prop :=
  exists g, g < n /\ ~ In g E /\ c_ext_i x = CL (E ++ [g]) /\ uniform E g.

Lemma dsc_loop_sound E : in_range n E ->
  forall todo reps acc,
    NoDup todo -> NoDup reps -> incl todo reps ->
    (forall r, In r reps -> r < n /\ ~ In r E) ->
    (forall h, h < n -> ~ In h E -> ~ In h reps -> exists w, In w reps /\ In w (CL (E ++ [h]))) ->
    (forall x, In x acc -> accepted E x) ->
    forall x, In x (dsc_loop sd E todo reps acc) -> accepted E x.
Proof.
  intros HE. induction todo as [|g todo IH]; intros reps acc Hnt Hnr Hincl Hr HJ Hacc x Hx; [apply Hacc; exact Hx|].
  inversion Hnt as [|? ? Hgt Hnt']; subst.
  assert (Hgr : In g reps) by (apply Hincl; left; reflexivity).
  destruct (Hr g Hgr) as [Hgn HgE].
  assert (Hcomb : in_range n (E ++ [g])) by (apply appr; assumption).
  cbn [dsc_loop] in Hx. fold (CL (E ++ [g])) in Hx. set (G := CL (E ++ [g])) in *.
  assert (HgG : In g G).
  { apply Hextensive; [exact Hcomb|]. apply in_or_app. right. left. reflexivity. }
  assert (Hgf : In g (filter (fun r => mem r G) reps)) by (apply filter_In; split; [exact Hgr | apply mem_In; exact HgG]).
  destruct (Nat.eqb (length (filter (fun r => mem r G) reps)) 1) eqn:Ec.
  - apply Nat.eqb_eq in Ec.
    apply (IH reps (acc ++ [side_concept sd G (s_int sd (E ++ [g]))])); try assumption.
    + intros y Hy. apply Hincl. right. exact Hy.
    + intros y Hy. apply in_app_or in Hy. destruct Hy as [Hy|[<-|[]]]; [apply Hacc; exact Hy|].
      exists g. split; [exact Hgn|]. split; [exact HgE|]. split; [reflexivity|].
      intros h HhG HhE. fold G in HhG. fold G.
      destruct (Nat.eq_dec h g) as [->|Hne]; [reflexivity|].
      assert (Hhn : h < n) by (apply (clr (E ++ [g]) Hcomb); exact HhG).
      assert (Hhr : ~ In h reps).
      { intros Hhr. assert (Hhf : In h (filter (fun r => mem r G) reps)) by (apply filter_In; split; [exact Hhr | apply mem_In; exact HhG]).
        destruct (filter (fun r => mem r G) reps) as [|a [|b l']] eqn:Ef; simpl in Ec; try lia.
        destruct Hgf as [<-|[]]. destruct Hhf as [<-|[]]. congruence. }
      destruct (HJ h Hhn HhE Hhr) as [w [Hwr Hwh]].
      pose proof (gen_sub E g h HE Hgn HhG) as Hsub. fold G in Hsub.
      assert (Hwg : w = g).
      { assert (Hwf : In w (filter (fun r => mem r G) reps)) by (apply filter_In; split; [exact Hwr | apply mem_In, Hsub, Hwh]).
        destruct (filter (fun r => mem r G) reps) as [|a [|b l']] eqn:Ef; simpl in Ec; try lia.
        destruct Hgf as [<-|[]]. destruct Hwf as [<-|[]]. reflexivity. }
      subst w.
      apply c_eq; [apply clc; apply appr; assumption | apply clc; exact Hcomb |].
      intros y. split; [apply Hsub|]. unfold G. apply (gen_sub E h g HE Hhn Hwh).
  - apply Nat.eqb_neq in Ec.
    destruct (two_in_long _ g (NoDup_filter _ Hnr) Hgf Ec) as [h' [Hh'f Hh'ne]].
    apply filter_In in Hh'f. destruct Hh'f as [Hh'r Hh'G]. apply mem_In in Hh'G.
    apply (IH (filter (fun r => negb (Nat.eqb r g)) reps) acc); try assumption.
    + apply NoDup_filter. exact Hnr.
    + intros y Hy. apply filter_In. split; [apply Hincl; right; exact Hy|].
      apply negb_true_iff, Nat.eqb_neq. intros ->. contradiction.
    + intros r Hrr. apply filter_In in Hrr. apply Hr. tauto.
    + assert (Hh'keep : In h' (filter (fun r => negb (Nat.eqb r g)) reps)).
      { apply filter_In. split; [exact Hh'r|]. apply negb_true_iff, Nat.eqb_neq. exact Hh'ne. }
      intros h Hhn HhE Hhr.
      destruct (in_dec Nat.eq_dec h reps) as [Hin|Hnin].
      * (* h was in reps and is not any more: h = g *)
        assert (h = g).
        { destruct (Nat.eq_dec h g) as [e|ne]; [exact e|]. exfalso. apply Hhr. apply filter_In.
          split; [exact Hin|]. apply negb_true_iff, Nat.eqb_neq. exact ne. }
        subst h. exists h'. split; [exact Hh'keep | exact Hh'G].
      * destruct (HJ h Hhn HhE Hnin) as [w [Hwr Hwh]].
        destruct (Nat.eq_dec w g) as [->|Hwne].
        -- exists h'. split; [exact Hh'keep|]. apply (gen_sub E h g HE Hhn Hwh). exact Hh'G.
        -- exists w. split; [|exact Hwh]. apply filter_In. split; [exact Hwr|].
           apply negb_true_iff, Nat.eqb_neq. exact Hwne.
Qed.

Lemma dsc_sound c : closedc (c_ext_i c) ->
  forall x, In x (direct_super_concepts sd ord c) -> is_cover (c_ext_i c) (c_ext_i x).
Proof.
  intros Hc x Hx. pose proof (c_range _ (proj1 Hc)) as HEr. unfold direct_super_concepts in Hx.
  set (E := c_ext_i c) in *.
  set (reps0 := filter (fun g => negb (mem g E)) (seq 0 (s_n sd))) in *.
  assert (Hr0 : forall r, In r reps0 <-> r < n /\ ~ In r E).
  { intros r. unfold reps0. rewrite filter_In, in_seq, negb_true_iff, mem_false_iff. unfold n. split; intros [H1 H2]; split; auto; lia. }
  destruct (dsc_loop_sound E HEr (ord reps0) reps0 []) with (x := x) as [g [Hg [HgE [Ex Hu]]]].
  - eapply Permutation_NoDup; [apply Permutation_sym, Hperm|]. apply NoDup_filter, seq_NoDup.
  - apply NoDup_filter, seq_NoDup.
  - intros y Hy. eapply Permutation_in; [apply Hperm | exact Hy].
  - intros r Hr. apply Hr0. exact Hr.
  - intros h Hh HhE Hhr. exfalso. apply Hhr. apply Hr0. auto.
  - intros y [].
  - exact Hx.
  - rewrite Ex. apply uniform_cover; assumption.
Qed.

Lemma dsc_closed c x : closedc (c_ext_i c) -> In x (direct_super_concepts sd ord c) -> closedc (c_ext_i x).
Proof. intros Hc Hx. apply (dsc_sound c Hc x Hx). Qed.

Lemma dsc_complete_cover c N : closedc (c_ext_i c) -> is_cover (c_ext_i c) N ->
  exists x, In x (direct_super_concepts sd ord c) /\ c_ext_i x = N.
Proof.
  intros [HEc HEcl] [[HNc HNcl] [HEN [HnNE Hbetween]]].
  destruct (neighbour_below sd ord Hperm Hint_r Hiei Hext_sub Hextensive Hmonotone c N HEc HEcl HNc HNcl HEN HnNE)
    as [x [Hx [HxN [HEx [g [Hgx HgE]]]]]].
  exists x. split; [exact Hx|].
  pose proof (dsc_closed c x (conj HEc HEcl) Hx) as Hxc.
  destruct (Hbetween (c_ext_i x) Hxc HEx HxN) as [H|H].
  - exfalso. apply HgE, H, Hgx.
  - apply c_eq; [apply Hxc | exact HNc |]. intros y. split; [apply HxN | apply H].
Qed.

Theorem dsc_exact c N : closedc (c_ext_i c) ->
  (exists x, In x (direct_super_concepts sd ord c) /\ c_ext_i x = N) <-> is_cover (c_ext_i c) N.
Proof.
  intros Hc. split.
  - intros [x [Hx <-]]. apply dsc_sound; assumption.
  - apply dsc_complete_cover. exact Hc.
Qed.

End Covers.

(* Lemmas/C15Formal.v — consequences of the Sofia invariants for the lists of object indexes
   that are returned, and the instance for formal contexts. *)
From Coq Require Import QArith Permutation.
From FCA Require Import Base.ListSet Model.BinTable Model.FormalContext Spec.Galois Spec.Closure
     Lemmas.BitRow Lemmas.C01.
From FCA Require Import Model.Sofia Lemmas.C15Bits Lemmas.C15Sofia.
Local Open Scope nat_scope.

Lemma NoDup_map_inj_in {A B} (f : A -> B) (l : list A) :
  (forall x y, In x l -> In y l -> f x = f y -> x = y) -> NoDup l -> NoDup (map f l).
Proof.
  induction l as [|x l IH]; simpl; intros Hinj H; [constructor|]. inversion H; subst.
  constructor.
  - intros Hx. apply in_map_iff in Hx. destruct Hx as [y [E Hy]].
    assert (y = x) by (apply Hinj; [right; exact Hy|left; reflexivity|exact E]). subst. contradiction.
  - apply IH; [|assumption]. intros a b Ha Hb. apply Hinj; right; assumption.
Qed.

Lemma search1_incl_antisym e1 e2 : length e1 = length e2 ->
  incl (search1 e1) (search1 e2) -> incl (search1 e2) (search1 e1) -> e1 = e2.
Proof.
  intros Hl H1 H2. apply (nth_ext _ _ false false); [exact Hl|]. intros k _.
  apply bool_eq_iff. rewrite <- !In_search1. split; [apply H1|apply H2].
Qed.

Lemma tl_map {A B} (f : A -> B) l : tl (map f l) = map f (tl l).
Proof. destruct l; reflexivity. Qed.

(* ------------------------------------------------------------------ generic consequences *)
Section Generic.
  Variable shuffle : list extent -> list extent.
  Variable mu : list extent -> list Q.
  Hypothesis shuffle_perm : forall l, Permutation l (shuffle l).
  Variable n : nat.
  Variable attrs : list extent.
  Hypothesis attrs_len : forall a, In a attrs -> length a = n.
  Variable ms : Q.
  Variable L : nat.

  Let res := sofia_extents shuffle mu n attrs ms L.
  Let R := map search1 res.

  Lemma res_Inv : Inv n ms (fun _ => True) res.
  Proof. apply sofia_extents_Inv; auto. Qed.

  Theorem generic_distinct : NoDup R.
  Proof.
    pose proof res_Inv as HI. apply NoDup_map_inj_in; [|apply (inv_nodup _ _ _ _ HI)].
    intros x y Hx Hy E. apply search1_inj; [|exact E].
    rewrite (inv_len _ _ _ _ HI x Hx), (inv_len _ _ _ _ HI y Hy). reflexivity.
  Qed.

  Theorem generic_in_range : forall A, In A R -> forall g, In g A -> g < n.
  Proof.
    intros A HA g Hg. apply in_map_iff in HA. destruct HA as [e [E He]]. subst A.
    rewrite <- (inv_len _ _ _ _ res_Inv e He). apply search1_lt. exact Hg.
  Qed.

  (* every extent but the first meets the support threshold *)
  Theorem generic_support : forall A, In A (tl R) -> (ms <= inject_Z (Z.of_nat (length A)))%Q.
  Proof.
    intros A HA. unfold R in HA. rewrite tl_map in HA. apply in_map_iff in HA.
    destruct HA as [e [E He]]. subst A. apply (inv_supp _ _ _ _ res_Inv) in He.
    apply Qle_bool_iff in He. unfold cntQ in He. rewrite bcount_search1 in He. exact He.
  Qed.

  Hypothesis mu_len : forall l, length (mu l) = length l.

  Lemma res_InvM : InvM n L res.
  Proof. apply sofia_extents_InvM with (P := fun _ : extent => True); auto. Qed.

  Theorem generic_limit : length R <= L + 2.
  Proof. unfold R. rewrite map_length. apply (inv_limit _ _ _ res_InvM). Qed.

  Theorem generic_top : In (seq 0 n) R.
  Proof.
    unfold R. rewrite <- search1_repeat_true. apply in_map. apply (inv_top _ _ _ res_InvM).
  Qed.

  Theorem generic_least : exists A0 rest, R = A0 :: rest /\ forall A, In A rest -> incl A0 A.
  Proof.
    pose proof (inv_least _ _ _ res_InvM) as Hl. pose proof res_Inv as HI. unfold R.
    destruct res as [|e0 r] eqn:Er; [destruct Hl|].
    exists (search1 e0), (map search1 r). split; [reflexivity|].
    intros A HA. apply in_map_iff in HA. destruct HA as [e [E He]]. subst A.
    apply subset_ba_incl; [|apply Hl; exact He].
    rewrite (inv_len _ _ _ _ HI e0), (inv_len _ _ _ _ HI e); [reflexivity|right; exact He|left; reflexivity].
  Qed.

  Theorem generic_above_all : forall A, In A R -> incl A (seq 0 n).
  Proof. intros A HA g Hg. apply in_seq. pose proof (generic_in_range A HA g Hg). lia. Qed.

  (* a unique greatest and a unique least element under inclusion *)
  Theorem generic_is_lattice :
    (exists top, In top R /\ (forall A, In A R -> incl A top) /\
                 forall top', In top' R -> (forall A, In A R -> incl A top') -> top' = top) /\
    (exists bot, In bot R /\ (forall A, In A R -> incl bot A) /\
                 forall bot', In bot' R -> (forall A, In A R -> incl bot' A) -> bot' = bot).
  Proof.
    pose proof res_Inv as HI.
    assert (Huniq : forall A B, In A R -> In B R -> incl A B -> incl B A -> A = B).
    { intros A B HA HB H1 H2. apply in_map_iff in HA. apply in_map_iff in HB.
      destruct HA as [ea [Ea Ha]]. destruct HB as [eb [Eb Hb]]. subst A B. f_equal.
      apply search1_incl_antisym; [|exact H1|exact H2].
      rewrite (inv_len _ _ _ _ HI ea Ha), (inv_len _ _ _ _ HI eb Hb). reflexivity. }
    split.
    - exists (seq 0 n). split; [apply generic_top|]. split; [apply generic_above_all|].
      intros top' Ht Hall. apply Huniq; [exact Ht|apply generic_top|apply generic_above_all; exact Ht|].
      apply Hall. apply generic_top.
    - destruct generic_least as [A0 [rest [ER Hleast]]].
      assert (HA0 : In A0 R) by (rewrite ER; left; reflexivity).
      assert (Hb : forall A, In A R -> incl A0 A).
      { intros A HA. rewrite ER in HA. destruct HA as [HA|HA]; [subst; apply incl_refl|apply Hleast; exact HA]. }
      exists A0. split; [exact HA0|]. split; [exact Hb|].
      intros bot' Hb' Hall. apply Huniq; [exact Hb'|exact HA0|apply Hall; exact HA0|apply Hb; exact Hb'].
  Qed.
End Generic.

(* ------------------------------------------------------------------ formal contexts *)

Lemma nth_column t j g : nth g (column t j) false = cell t g j.
Proof.
  unfold column, cell, row.
  destruct (Nat.lt_ge_cases g (length t)) as [Hg|Hg].
  - rewrite (nth_map_in (fun r => nth j r false) t g false []) by exact Hg. reflexivity.
  - rewrite nth_overflow by (rewrite map_length; exact Hg).
    rewrite (nth_overflow t) by exact Hg. destruct j; reflexivity.
Qed.

Lemma column_length t j : length (column t j) = height t.
Proof. unfold column, height. apply map_length. Qed.

Lemma attr_extents_formal_In t a :
  In a (attr_extents_formal t) <-> exists j, j < width t /\ a = column t j.
Proof.
  unfold attr_extents_formal. rewrite in_map_iff. split.
  - intros [j [E Hj]]. apply in_seq in Hj. exists j. split; [lia|symmetry; exact E].
  - intros [j [Hj E]]. exists j. split; [symmetry; exact E|apply in_seq; lia].
Qed.

Lemma ext_nil t : ext t [] = seq 0 (height t).
Proof. unfold ext, ext_spec, all_objs. simpl. apply filter_true_id. Qed.

Lemma in_range_app n a b : in_range n a -> in_range n b -> in_range n (a ++ b).
Proof. intros Ha Hb x Hx. apply in_app_or in Hx. destruct Hx; [apply Ha|apply Hb]; assumption. Qed.

(* an extent intersected with a column is again an extent *)
Lemma ext_band_column t e B j :
  search1 e = ext t B -> length e = height t ->
  search1 (band e (column t j)) = ext t (B ++ [j]).
Proof.
  intros He Hl. rewrite search1_band by (rewrite column_length; exact Hl).
  rewrite He, ext_app. apply filter_ext_in'. intros g Hg.
  rewrite nth_column, ext_canon. apply ext_In in Hg. destruct Hg as [Hg _].
  apply Nat.ltb_lt in Hg. rewrite Hg. simpl. unfold I. rewrite andb_true_r. reflexivity.
Qed.

Definition is_extent_row (t : table) (e : extent) : Prop :=
  exists B, in_range (width t) B /\ search1 e = ext t B.

Section Formal.
  Variable shuffle : list extent -> list extent.
  Variable mu : list extent -> list Q.
  Hypothesis shuffle_perm : forall l, Permutation l (shuffle l).
  Variable b : backend.
  Variable t : table.
  Hypothesis Hwf : wf t.
  Variable L : nat.
  Variable min_supp : Q.

  Let n := height t.
  Let ms := eff_min_supp min_supp n.
  Let res := sofia_formal shuffle mu b t L min_supp.

  Lemma formal_attrs_len : forall a, In a (attr_extents_formal t) -> length a = n.
  Proof. intros a Ha. apply attr_extents_formal_In in Ha. destruct Ha as [j [_ E]]. subst. apply column_length. Qed.

  Lemma formal_Inv :
    Inv n ms (is_extent_row t) (sofia_extents shuffle mu n (attr_extents_formal t) ms L).
  Proof.
    apply sofia_extents_Inv.
    - exact shuffle_perm.
    - exact formal_attrs_len.
    - exists []. split; [intros x []|]. rewrite search1_repeat_true, ext_nil. reflexivity.
    - intros e a Hl [B [HB He]] Ha. apply attr_extents_formal_In in Ha. destruct Ha as [j [Hj E]]. subst a.
      exists (B ++ [j]). split.
      + apply in_range_app; [exact HB|]. intros x [Hx|[]]. subst. exact Hj.
      + apply ext_band_column; assumption.
  Qed.

  Lemma formal_fst : map fst res = map search1 (sofia_extents shuffle mu n (attr_extents_formal t) ms L).
  Proof. unfold res, sofia_formal. rewrite map_map. reflexivity. Qed.

  (* every returned pair is a formal concept of the context *)
  Theorem formal_genuine : forall A B, In (A, B) res -> is_concept t A B /\ in_range (width t) B.
  Proof.
    intros A B H. unfold res, sofia_formal in H. apply in_map_iff in H.
    destruct H as [e [E He]]. inversion E; subst A B; clear E.
    destruct (inv_P _ _ _ _ formal_Inv e He) as [B0 [HB0 HeB]].
    rewrite HeB.
    rewrite (intention_i_correct b t (ext t B0) None Hwf (ext_in_range t B0) Logic.I).
    change (int_spec t (ext t B0) (default (all_attrs t) None)) with (int t (ext t B0)).
    split; [|apply int_in_range].
    split; [|reflexivity]. symmetry. apply ext_int_ext. exact HB0.
  Qed.

  Theorem formal_distinct : NoDup (map fst res).
  Proof. rewrite formal_fst. apply generic_distinct; [exact shuffle_perm|exact formal_attrs_len]. Qed.

  Theorem formal_support : forall A, In A (tl (map fst res)) -> (ms <= inject_Z (Z.of_nat (length A)))%Q.
  Proof. rewrite formal_fst. apply generic_support; [exact shuffle_perm|exact formal_attrs_len]. Qed.

  Hypothesis mu_len : forall l, length (mu l) = length l.

  Theorem formal_top_least :
    In (all_objs t) (map fst res) /\
    exists A0 rest, map fst res = A0 :: rest /\ forall A, In A rest -> incl A0 A.
  Proof.
    rewrite formal_fst. split.
    - apply generic_top; [exact shuffle_perm|exact formal_attrs_len|exact mu_len].
    - apply generic_least; [exact shuffle_perm|exact formal_attrs_len|exact mu_len].
  Qed.

  Theorem formal_limit : length res <= L + 2.
  Proof.
    rewrite <- (map_length fst), formal_fst.
    apply generic_limit; [exact shuffle_perm|exact formal_attrs_len|exact mu_len].
  Qed.

  Theorem formal_is_lattice :
    let R := map fst res in
    (exists top, In top R /\ (forall A, In A R -> incl A top) /\
                 forall top', In top' R -> (forall A, In A R -> incl A top') -> top' = top) /\
    (exists bot, In bot R /\ (forall A, In A R -> incl bot A) /\
                 forall bot', In bot' R -> (forall A, In A R -> incl bot' A) -> bot' = bot).
  Proof.
    cbv zeta. rewrite formal_fst.
    apply generic_is_lattice; [exact shuffle_perm|exact formal_attrs_len|exact mu_len].
  Qed.
End Formal.

(* Lemmas/C11.v — property C11: UpperSemiLattice / LowerSemiLattice / Lattice
   (fcapy/poset/lattice.py, model Model/PosetLattice.v) keep exactly one top / bottom element,
   the cached index is its index, every public call (rejected ones included) answers what the
   cache-free meaning answers, along every history; hence a lattice grown or shrunk one element
   at a time answers every query like the lattice built at once. *)
From FCA Require Import Base.ListSet Spec.PosetSpec Model.Poset Model.PosetLattice
     Lemmas.C09Base Lemmas.C09Query Lemmas.C09Add Lemmas.C09Del Lemmas.C09DelOrder
     Lemmas.C09InitCd Lemmas.C09.

#[local] Arguments upd : simpl never.
#[local] Arguments updl : simpl never.
#[local] Arguments lk : simpl never.
#[local] Arguments lkl : simpl never.

Section C11.
  Variable E : Type.
  Variable leq eqb : E -> E -> bool.
  Hypothesis PO : partial_order E leq eqb.

  Notation state := (state E).
  Notation op := (op E).
  Notation out := (out E).
  Notation sl_state := (sl_state E).
  Notation sl_op := (sl_op E).
  Notation ldir := (ldir E leq).
  Notation lq := (lq E leq).
  Notation extremes := (extremes E leq).
  Notation sdir := (sdir E leq).
  Notation Sound := (Sound E leq).
  Notation Inv := (Inv E leq).
  Notation index_of := (index_of E eqb).
  Notation memE := (memE E eqb).
  Notation spec_ext := (spec_ext E leq).
  Notation sl_ext := (sl_ext E leq).
  Notation sl_starts := (sl_starts E leq).
  Notation sl_step := (sl_step E leq eqb).
  Notation sl_spec_step := (sl_spec_step E leq eqb).
  Notation sl_run := (sl_run E leq eqb).
  Notation sl_spec_run := (sl_spec_run E leq eqb).

  (* ---------------------------------------------------------------- unique extreme element *)
  (* [t] is the only maximal (up = true) / minimal (up = false) index of [l] *)
  Definition uniq_ext (l : list E) (up : bool) (t : nat) : Prop :=
    forall x, In x (extremes l up) <-> x = t.

  Lemma NoDup_extremes l up : NoDup (extremes l up).
  Proof. apply NoDup_filter. apply seq_NoDup. Qed.

  Lemma singleton_members (L : list nat) t : NoDup L -> (forall x, In x L <-> x = t) -> L = [t].
  Proof.
    intros Hn H. destruct L as [|a L].
    - exfalso. apply (proj2 (H t) eq_refl).
    - assert (a = t) by (apply H; left; reflexivity). subst a.
      destruct L as [|b L]; [reflexivity|]. exfalso.
      assert (b = t) by (apply H; right; left; reflexivity). subst b.
      inversion Hn as [|? ? Hx _]. apply Hx. left. reflexivity.
  Qed.

  Lemma uniq_ext_list l up t : uniq_ext l up t <-> extremes l up = [t].
  Proof.
    split.
    - intros H. apply singleton_members; [apply NoDup_extremes | exact H].
    - intros H x. rewrite H. simpl. split; [intros [<- | []]; reflexivity | intros ->; auto].
  Qed.

  Lemma uniq_ext_range l up t : uniq_ext l up t -> t < length l.
  Proof.
    intros H. assert (Ht : In t (extremes l up)) by (apply H; reflexivity).
    apply (In_extremes E leq) in Ht. tauto.
  Qed.

  Lemma uniq_ext_fun l up t t' : uniq_ext l up t -> uniq_ext l up t' -> t = t'.
  Proof. intros H1 H2. apply H2. apply H1. reflexivity. Qed.

  Lemma uniq_ext_spec l up t : uniq_ext l up t -> spec_ext l up = Some t.
  Proof. intros H. apply uniq_ext_list in H. unfold PosetLattice.spec_ext. rewrite H. reflexivity. Qed.

  Lemma length_one_uniq l up : length (extremes l up) = 1 <-> exists t, uniq_ext l up t.
  Proof.
    split.
    - intros H. destruct (extremes l up) as [|t [|b L]] eqn:Hx; try discriminate.
      exists t. apply uniq_ext_list. exact Hx.
    - intros [t H]. apply uniq_ext_list in H. rewrite H. reflexivity.
  Qed.

  (* (F1) in a finite order the only maximal element is the greatest element *)
  Lemma uniq_ext_greatest l up t :
    NoDup l -> uniq_ext l up t -> forall i, i < length l -> ldir l up i t = true.
  Proof.
    intros Hn Hu i Hi.
    destruct (exists_minimal_below E leq eqb PO l (negb up) (seq 0 (length l)) Hn i) as [m [Hm [Hmi Hmin]]];
      [apply In_seq0; exact Hi | exact Hi|].
    apply In_seq0 in Hm. rewrite ldir_flip in Hmi.
    assert (Hext : In m (extremes l up)).
    { apply (In_extremes E leq). split; [exact Hm|]. intros k Hk. apply (Hmin k); [|exact Hk].
      destruct Hk as [Hk _]. apply ldir_range in Hk. apply In_seq0. tauto. }
    apply Hu in Hext. subst m. exact Hmi.
  Qed.

  (* the element that is above everything is the only maximal one *)
  Lemma greatest_uniq_ext l up t :
    NoDup l -> t < length l -> (forall i, i < length l -> ldir l up i t = true) -> uniq_ext l up t.
  Proof.
    intros Hn Ht Hg x. rewrite (In_extremes E leq). split.
    - intros [Hx Hmin]. destruct (Nat.eq_dec x t) as [-> | Hne]; [reflexivity|]. exfalso.
      apply (Hmin t). split; [rewrite ldir_flip; apply Hg; exact Hx | exact Hne].
    - intros ->. split; [exact Ht|]. intros k [Hk Hne]. rewrite ldir_flip in Hk.
      apply Hne. eapply (ldir_antisym E leq eqb PO); eauto. apply Hg.
      apply ldir_range in Hk. tauto.
  Qed.

  (* (F2) appending an element that is comparable with the extreme element *)
  Definition beyond (up : bool) (x e : E) : bool := if up then leq x e else leq e x.

  Lemma uniq_ext_append l up t x e :
    NoDup l -> ~ In e l -> uniq_ext l up t -> nth_error l t = Some x ->
    leq e x || leq x e = true ->
    if beyond up x e then uniq_ext (l ++ [e]) up (length l) else uniq_ext (l ++ [e]) up t.
  Proof.
    intros Hn He Hu Hx Hc.
    pose proof (uniq_ext_greatest l up t Hn Hu) as Hg.
    pose proof (uniq_ext_range l up t Hu) as Ht.
    pose proof (NoDup_ext E l e Hn He) as Hn'.
    pose proof (length_ext E l e) as Hlen.
    set (n := length l) in *. set (l' := l ++ [e]) in *.
    assert (Hold : forall i, i < n -> ldir l' up i t = true).
    { intros i Hi. unfold l'. rewrite (ldir_ext_old E leq l e up i t Hi Ht). apply Hg. exact Hi. }
    assert (Htn : ldir l' up t n = beyond up x e).
    { unfold l', n. rewrite (ldir_ext_to_new E leq l e up t Ht). unfold cmp_new. rewrite Hx. reflexivity. }
    assert (Hnt : ldir l' up n t = beyond (negb up) x e).
    { unfold l', n. rewrite (ldir_ext_from_new E leq l e up t Ht). unfold cmp_new. rewrite Hx.
      destruct up; reflexivity. }
    destruct (beyond up x e) eqn:Hb.
    - (* the newcomer is the new extreme element *)
      apply greatest_uniq_ext; [exact Hn' | rewrite Hlen; lia|].
      intros i Hi. rewrite Hlen in Hi. destruct (Nat.eq_dec i n) as [-> | Hne].
      + apply (ldir_refl E leq eqb PO). rewrite Hlen. lia.
      + eapply (ldir_trans E leq eqb PO); [apply Hold; lia | exact Htn].
    - (* the extreme element stays *)
      assert (Hs : beyond (negb up) x e = true).
      { destruct up; simpl in *; rewrite Hb in Hc; [rewrite orb_false_r in Hc | ]; exact Hc. }
      apply greatest_uniq_ext; [exact Hn' | rewrite Hlen; lia|].
      intros i Hi. rewrite Hlen in Hi. destruct (Nat.eq_dec i n) as [-> | Hne].
      + rewrite Hnt. exact Hs.
      + apply Hold. lia.
  Qed.

  (* an element already present that is beyond the extreme element IS the extreme element *)
  Lemma beyond_present l up t x e :
    NoDup l -> In e l -> uniq_ext l up t -> nth_error l t = Some x ->
    beyond up x e = true -> index_of e l = Some t.
  Proof.
    intros Hn He Hu Hx Hb.
    destruct (index_of_In E leq eqb PO e l He) as [i Hi].
    pose proof (index_of_Some E leq eqb PO e l i Hi) as Hnth.
    assert (Hir : i < length l) by (apply nth_error_Some; congruence).
    pose proof (uniq_ext_greatest l up t Hn Hu i Hir) as Hg.
    assert (e = x).
    { destruct up; simpl in Hg, Hb; unfold PosetSpec.lq in Hg; rewrite Hnth, Hx in Hg.
      - apply (po_antisym _ _ _ PO); assumption.
      - apply (po_antisym _ _ _ PO); assumption. }
    subst x. rewrite Hi. f_equal. eapply (NoDup_nth_error_inj E); eauto.
  Qed.

  (* (F3) deleting an element other than the extreme one *)
  Lemma uniq_ext_remove l up t key :
    NoDup l -> key < length l -> key <> t -> uniq_ext l up t ->
    uniq_ext (remove_nth key l) up (decr key t).
  Proof.
    intros Hn Hk Hne Hu.
    pose proof (uniq_ext_greatest l up t Hn Hu) as Hg.
    pose proof (uniq_ext_range l up t Hu) as Ht.
    pose proof (length_remove_nth l key Hk) as Hlen.
    apply greatest_uniq_ext.
    - apply NoDup_remove_nth. exact Hn.
    - rewrite Hlen. apply decr_lt; auto.
    - intros i Hi. rewrite (ldir_remove E leq l key up i (decr key t)).
      rewrite incr_decr by auto. apply Hg. rewrite Hlen in Hi. apply incr_lt. exact Hi.
  Qed.

  (* ---------------------------------------------------------------- the invariant *)
  Definition SLInv (sl : sl_state) : Prop :=
    Inv (ps sl) /\ els (ps sl) <> [] /\
    (forall up, has_ext (kind sl) up = true ->
        exists t, (forall x, In x (extremes (els (ps sl)) up) <-> x = t) /\
                  (use_cache (ps sl) = true -> cached_ext E sl up = Some t)) /\
    (use_cache (ps sl) = false -> c_top sl = None /\ c_bot sl = None).

  Lemma kind_has_ext k : exists up, has_ext k up = true.
  Proof. destruct k; [exists true | exists false | exists true]; reflexivity. Qed.

  Lemma SLInv_ext sl up :
    SLInv sl -> has_ext (kind sl) up = true ->
    exists t, uniq_ext (els (ps sl)) up t /\ (use_cache (ps sl) = true -> cached_ext E sl up = Some t).
  Proof. intros [_ [_ [H _]]] Hh. exact (H up Hh). Qed.

  Lemma SLInv_cached_none sl up : SLInv sl -> use_cache (ps sl) = false -> cached_ext E sl up = None.
  Proof. intros [_ [_ [_ H]]] Hc. destruct (H Hc) as [H1 H2]. destruct up; assumption. Qed.

  Lemma cached_ext_with_ps sl s up : cached_ext E (with_ps E sl s) up = cached_ext E sl up.
  Proof. destruct up; reflexivity. Qed.

  Lemma SLInv_with_ps sl s' :
    SLInv sl -> Inv s' -> els s' = els (ps sl) -> use_cache s' = use_cache (ps sl) ->
    SLInv (with_ps E sl s').
  Proof.
    intros [_ [Hne [Hx Hn]]] HI He Hu. unfold SLInv. cbn [ps kind c_top c_bot with_ps].
    rewrite He, Hu. split; [exact HI|]. split; [exact Hne|]. split; [|exact Hn].
    intros up Hh. destruct (Hx up Hh) as [t [H1 H2]]. exists t. split; [exact H1|].
    intros Hc. rewrite <- (H2 Hc). destruct up; reflexivity.
  Qed.

  (* POSet.tops / POSet.bottoms on a sound poset, as a public call *)
  Lemma extremes_q_inv up s :
    Inv s ->
    Inv (fst (extremes_q E leq up s)) /\ els (fst (extremes_q E leq up s)) = els s /\
    use_cache (fst (extremes_q E leq up s)) = use_cache s /\
    snd (extremes_q E leq up s) = extremes (els s) up.
  Proof.
    intros HI. destruct (step_ok E leq eqb PO s (QExtremes up) HI I) as [A [B [C D]]].
    cbn [Poset.step PosetSpec.spec_step PosetSpec.spec_query fst snd] in A, B, C, D.
    destruct (extremes_q E leq up s) as [s' r]. cbn [fst snd] in *.
    split; [exact A|]. split; [exact C|]. split; [exact D|]. congruence.
  Qed.

  (* the property top / bottom evaluated on any sound state over the same elements (this is
     what trace_element sees through self.tops / self.bottoms while add is running) *)
  Lemma sl_ext_gen fut sl up s t :
    SLInv sl -> uniq_ext (els (ps sl)) up t ->
    (use_cache (ps sl) = true -> cached_ext E sl up = Some t) ->
    C09Query.Sound E leq fut s -> els s = els (ps sl) ->
    C09Query.Sound E leq fut (fst (sl_ext sl up s)) /\ ext E s (fst (sl_ext sl up s)) /\
    snd (sl_ext sl up s) = Some t.
  Proof.
    intros HI Hu Hc HS He. unfold PosetLattice.sl_ext.
    assert (Hq : C09Query.Sound E leq fut (fst (extremes_q E leq up s)) /\
                 ext E s (fst (extremes_q E leq up s)) /\
                 hd_error (snd (extremes_q E leq up s)) = Some t).
    { destruct (extremes_q_ok E leq fut up s HS) as [A [B C]].
      split; [exact A|]. split; [exact B|]. rewrite C, He.
      apply uniq_ext_list in Hu. rewrite Hu. reflexivity. }
    destruct (use_cache s) eqn:Hus.
    - destruct (cached_ext E sl up) as [t0|] eqn:Hce.
      + cbn [fst snd]. split; [exact HS|]. split; [apply ext_refl|].
        destruct (use_cache (ps sl)) eqn:Hup.
        * apply Hc. reflexivity.
        * rewrite (SLInv_cached_none sl up HI Hup) in Hce. discriminate.
      + destruct (extremes_q E leq up s) as [s' r]. exact Hq.
    - destruct (extremes_q E leq up s) as [s' r]. exact Hq.
  Qed.

  (* ... and on the object's own state *)
  Lemma sl_ext_here sl up t :
    SLInv sl -> has_ext (kind sl) up = true -> uniq_ext (els (ps sl)) up t ->
    Inv (fst (sl_ext sl up (ps sl))) /\ els (fst (sl_ext sl up (ps sl))) = els (ps sl) /\
    use_cache (fst (sl_ext sl up (ps sl))) = use_cache (ps sl) /\
    snd (sl_ext sl up (ps sl)) = Some t.
  Proof.
    intros HI Hh Hu. destruct (SLInv_ext sl up HI Hh) as [t' [Hu' Hc]].
    assert (t' = t) by (eapply uniq_ext_fun; eauto). subst t'.
    pose proof HI as [HP _]. unfold PosetLattice.sl_ext.
    assert (Hq : Inv (fst (extremes_q E leq up (ps sl))) /\
                 els (fst (extremes_q E leq up (ps sl))) = els (ps sl) /\
                 use_cache (fst (extremes_q E leq up (ps sl))) = use_cache (ps sl) /\
                 hd_error (snd (extremes_q E leq up (ps sl))) = Some t).
    { destruct (extremes_q_inv up (ps sl) HP) as [A [B [C D]]].
      split; [exact A|]. split; [exact B|]. split; [exact C|]. rewrite D.
      apply uniq_ext_list in Hu. rewrite Hu. reflexivity. }
    destruct (use_cache (ps sl)) eqn:Hus.
    - rewrite (Hc eq_refl). cbn [fst snd]. auto.
    - destruct (extremes_q E leq up (ps sl)) as [s' r]. exact Hq.
  Qed.

  Lemma sl_ext_snd_spec sl up :
    SLInv sl -> has_ext (kind sl) up = true ->
    snd (sl_ext sl up (ps sl)) = spec_ext (els (ps sl)) up.
  Proof.
    intros HI Hh. destruct (SLInv_ext sl up HI Hh) as [t [Hu _]].
    destruct (sl_ext_here sl up t HI Hh Hu) as [_ [_ [_ H]]]. rewrite H.
    symmetry. apply uniq_ext_spec. exact Hu.
  Qed.

  (* self.tops / self.bottoms of the semilattice classes deliver the extreme elements *)
  Lemma sl_starts_ok fut sl : SLInv sl -> starts_ok E leq fut (sl_starts sl) (els (ps sl)).
  Proof.
    intros HI up s HS He. unfold PosetLattice.sl_starts.
    destruct (has_ext (kind sl) up) eqn:Hh.
    - destruct (SLInv_ext sl up HI Hh) as [t [Hu Hc]].
      destruct (sl_ext_gen fut sl up s t HI Hu Hc HS He) as [A [B C]].
      destruct (sl_ext sl up s) as [s' o]. cbn [fst snd] in *. subst o.
      split; [exact A|]. split; [exact B|].
      split; [constructor; [simpl; tauto | constructor]|].
      intros x. rewrite (Hu x). simpl. split; [intros [<- | []]; reflexivity | intros ->; auto].
    - apply extremes_q_starts_ok; assumption.
  Qed.

  Lemma sl_starts_here sl up :
    SLInv sl ->
    Inv (fst (sl_starts sl up (ps sl))) /\ els (fst (sl_starts sl up (ps sl))) = els (ps sl) /\
    use_cache (fst (sl_starts sl up (ps sl))) = use_cache (ps sl) /\
    snd (sl_starts sl up (ps sl)) = extremes (els (ps sl)) up.
  Proof.
    intros HI. unfold PosetLattice.sl_starts. destruct (has_ext (kind sl) up) eqn:Hh.
    - destruct (SLInv_ext sl up HI Hh) as [t [Hu _]].
      destruct (sl_ext_here sl up t HI Hh Hu) as [A [B [C D]]].
      destruct (sl_ext sl up (ps sl)) as [s' o]. cbn [fst snd] in *. subst o.
      split; [exact A|]. split; [exact B|]. split; [exact C|].
      symmetry. apply uniq_ext_list. exact Hu.
    - apply extremes_q_inv. apply HI.
  Qed.

  (* ---------------------------------------------------------------- one public call *)
  Definition sl_valid (sl : sl_state) (o : sl_op) : Prop :=
    match o with
    | SP q => valid_op E (ps sl) q
    | SExt _ => True
    end.

  (* what a call must deliver, relative to the cache-free answer [sp] *)
  Definition step_post (sl : sl_state) (r : sl_state * out) (sp : list E * out) : Prop :=
    SLInv (fst r) /\ snd r = snd sp /\ els (ps (fst r)) = fst sp /\
    kind (fst r) = kind sl /\ use_cache (ps (fst r)) = use_cache (ps sl).

  Lemma step_post_same sl r : SLInv sl -> step_post sl (sl, r) (els (ps sl), r).
  Proof. intros H. unfold step_post. cbn [fst snd]. auto. Qed.

  Lemma query_post sl q :
    SLInv sl -> valid_op E (ps sl) q -> mutating E q = false ->
    step_post sl (let '(s', r) := step E leq eqb (ps sl) q in (with_ps E sl s', r))
              (spec_step E leq eqb (els (ps sl)) (use_cache (ps sl)) q).
  Proof.
    intros HI Hv Hm. pose proof HI as [HP _].
    destruct (step_ok E leq eqb PO (ps sl) q HP Hv) as [A [B [C D]]].
    assert (Hq : fst (spec_step E leq eqb (els (ps sl)) (use_cache (ps sl)) q) = els (ps sl))
      by (destruct q; try discriminate; reflexivity).
    destruct (step E leq eqb (ps sl) q) as [s' r]. cbn [fst snd] in *.
    unfold step_post. cbn [fst snd]. rewrite Hq in *.
    split; [apply SLInv_with_ps; assumption|]. cbn [ps kind with_ps]. auto.
  Qed.

  (* ---------------------------------------------------------------- add *)
  (* the comparability test against one extreme element *)
  Lemma cmp_ext_spec sl up e :
    SLInv sl ->
    exists sm bg,
      cmp_ext E leq sl up e = Some (sm, bg) /\
      sm || bg = comparable_ext E leq (kind sl) (els (ps sl)) e up /\
      (has_ext (kind sl) up = true ->
       exists t x, uniq_ext (els (ps sl)) up t /\ nth_error (els (ps sl)) t = Some x /\
                   sm = leq e x /\ bg = leq x e).
  Proof.
    intros HI. unfold cmp_ext, comparable_ext. destruct (has_ext (kind sl) up) eqn:Hh.
    - destruct (SLInv_ext sl up HI Hh) as [t [Hu _]].
      destruct (sl_ext_here sl up t HI Hh Hu) as [_ [_ [_ D]]]. rewrite D.
      rewrite (uniq_ext_spec _ _ _ Hu). unfold el_at.
      pose proof (uniq_ext_range _ _ _ Hu) as Ht.
      destruct (nth_error (els (ps sl)) t) as [x|] eqn:Hx; [|apply nth_error_None in Hx; lia].
      exists (leq e x), (leq x e). split; [reflexivity|]. split; [reflexivity|].
      intros _. exists t, x. auto.
    - exists true, true. split; [reflexivity|]. split; [reflexivity | discriminate].
  Qed.

  Lemma add_post sl e f :
    SLInv sl ->
    step_post sl (sl_add E leq eqb sl e f)
              (sl_spec_step (kind sl) (els (ps sl)) (use_cache (ps sl)) (SP (OAdd e f))).
  Proof.
    intros HI. cbn [PosetLattice.sl_spec_step]. unfold sl_add.
    destruct (cmp_ext_spec sl true e HI) as [sm_t [bg_t [Ct [Cct Ft]]]].
    destruct (cmp_ext_spec sl false e HI) as [sm_b [bg_b [Cb [Ccb Fb]]]].
    rewrite Ct, Cb, Cct, Ccb.
    destruct (comparable_ext E leq (kind sl) (els (ps sl)) e true) eqn:Hct;
      [|apply step_post_same; exact HI].
    destruct (comparable_ext E leq (kind sl) (els (ps sl)) e false) eqn:Hcb;
      [|apply step_post_same; exact HI].
    cbn [negb andb].
    pose proof HI as [[HS HT] [Hne [Hx Hn]]].
    destruct (add_with_ok E leq eqb PO (sl_starts sl) (ps sl) e f HS HT (sl_starts_ok [e] sl HI))
      as [A [B [C [D F]]]].
    destruct (add_with E leq eqb (sl_starts sl) (ps sl) e f) as [s' r]. cbn [fst snd] in A, B, C, D, F.
    subst r. cbn [PosetSpec.spec_step].
    set (l := els (ps sl)) in *.
    set (idx := index_of e (els s')).
    set (cb := use_cache s' && has_ext (kind sl) false && sm_b).
    set (ct := use_cache s' && has_ext (kind sl) true && bg_t).
    set (sl3 := if ct then set_ext E (if cb then set_ext E (with_ps E sl s') false idx else with_ps E sl s') true idx
                else (if cb then set_ext E (with_ps E sl s') false idx else with_ps E sl s')).
    assert (Hps : ps sl3 = s') by (unfold sl3; destruct ct, cb; reflexivity).
    assert (Hkd : kind sl3 = kind sl) by (unfold sl3; destruct ct, cb; reflexivity).
    assert (Hce : forall up, cached_ext E sl3 up =
                             if (if up then ct else cb) then idx else cached_ext E sl up).
    { intros up. unfold sl3. destruct up, ct, cb; reflexivity. }
    unfold step_post. cbn [fst snd]. rewrite Hps, Hkd.
    split; [|rewrite C; auto].
    unfold SLInv. rewrite Hps, Hkd.
    split; [split; assumption|].
    split; [rewrite C; destruct (memE e l); [exact Hne | destruct l; discriminate]|].
    split.
    - intros up Hh.
      assert (Hf : exists t x, uniq_ext l up t /\ nth_error l t = Some x /\ leq e x || leq x e = true /\
                               (if up then ct else cb) = use_cache s' && beyond up x e).
      { destruct up.
        - destruct (Ft Hh) as [t [x [H1 [H2 [H3 H4]]]]]. exists t, x. subst sm_t bg_t.
          split; [exact H1|]. split; [exact H2|]. split; [exact Cct|].
          unfold ct. rewrite Hh, andb_true_r. reflexivity.
        - destruct (Fb Hh) as [t [x [H1 [H2 [H3 H4]]]]]. exists t, x. subst sm_b bg_b.
          split; [exact H1|]. split; [exact H2|]. split; [exact Ccb|].
          unfold cb. rewrite Hh, andb_true_r. reflexivity. }
      destruct Hf as [t [x [Hu [Hnth [Hcmp Hflag]]]]].
      destruct (Hx up Hh) as [t' [Hu' Hcached]].
      assert (t' = t) by (eapply uniq_ext_fun; eauto). subst t'.
      pose proof (snd_nodup _ _ _ _ HS) as Hnd. fold l in Hnd.
      rewrite Hce, Hflag, C. unfold idx. rewrite C.
      destruct (memE e l) eqn:Hmem.
      + (* already present: nothing changes *)
        exists t. split; [exact Hu|]. intros Huc. rewrite Huc. cbn [andb].
        destruct (beyond up x e) eqn:Hb.
        * apply (beyond_present l up t x e Hnd); auto. apply (memE_In E leq eqb PO). exact Hmem.
        * apply Hcached. rewrite <- F. exact Huc.
      + (* appended *)
        assert (Hnin : ~ In e l) by (apply (memE_false E leq eqb PO); exact Hmem).
        pose proof (uniq_ext_append l up t x e Hnd Hnin Hu Hnth Hcmp) as Happ.
        destruct (beyond up x e) eqn:Hb.
        * exists (length l). split; [exact Happ|]. intros Huc. rewrite Huc. cbn [andb].
          apply (index_of_nth E leq eqb PO); [apply NoDup_ext; assumption | apply nth_ext_new].
        * exists t. split; [exact Happ|]. intros Huc. rewrite andb_false_r.
          apply Hcached. rewrite <- F. exact Huc.
    - intros Huc. unfold sl3, ct, cb. rewrite Huc. cbn [andb]. cbn [c_top c_bot with_ps].
      apply Hn. rewrite <- F. exact Huc.
  Qed.

  (* ---------------------------------------------------------------- __delitem__ / remove *)
  Lemma is_ext_eq sl (f : nat -> bool) up :
    SLInv sl ->
    has_ext (kind sl) up && match snd (sl_ext sl up (ps sl)) with Some t => f t | None => false end =
    has_ext (kind sl) up && match spec_ext (els (ps sl)) up with Some t => f t | None => false end.
  Proof.
    intros HI. destruct (has_ext (kind sl) up) eqn:Hh; [|reflexivity].
    rewrite (sl_ext_snd_spec sl up HI Hh). reflexivity.
  Qed.

  Lemma is_spec_ext_false sl key up t :
    is_spec_ext E leq (kind sl) (els (ps sl)) key = false ->
    has_ext (kind sl) up = true -> uniq_ext (els (ps sl)) up t -> key <> t.
  Proof.
    intros Hs Hh Hu ->. unfold is_spec_ext in Hs. cbn [existsb] in Hs.
    destruct up; rewrite Hh, (uniq_ext_spec _ _ _ Hu), Nat.eqb_refl in Hs; cbn in Hs;
      [|rewrite orb_true_r in Hs]; discriminate.
  Qed.

  Lemma del_post sl key :
    SLInv sl -> key < size E (ps sl) ->
    step_post sl (sl_del E leq sl key)
              (sl_spec_step (kind sl) (els (ps sl)) (use_cache (ps sl)) (SP (ODel key))).
  Proof.
    intros HI Hk. cbn [PosetLattice.sl_spec_step]. unfold sl_del.
    pose proof (is_ext_eq sl (fun t => Nat.eqb t key) true HI) as Et.
    pose proof (is_ext_eq sl (fun t => Nat.eqb t key) false HI) as Eb.
    cbv beta in Et, Eb. rewrite Et, Eb. clear Et Eb.
    destruct (is_spec_ext E leq (kind sl) (els (ps sl)) key) eqn:Hs.
    - (* an extreme element: refused, state unchanged *)
      unfold is_spec_ext in Hs. cbn [existsb] in Hs. rewrite orb_false_r in Hs.
      destruct (has_ext (kind sl) true && _); [apply step_post_same; exact HI|].
      cbn [orb] in Hs. rewrite Hs. apply step_post_same. exact HI.
    - pose proof Hs as Hs'. unfold is_spec_ext in Hs'. cbn [existsb] in Hs'. rewrite orb_false_r in Hs'.
      apply orb_false_iff in Hs'. destruct Hs' as [H1 H2]. rewrite H1, H2. clear H1 H2.
      pose proof HI as [[HS HT] [Hne [Hx Hn]]].
      destruct (delitem_ok E leq eqb PO (ps sl) key HS HT Hk) as [A [B [C [D F]]]].
      destruct (delitem E leq (ps sl) key) as [s' r]. cbn [fst snd] in A, B, C, D, F. subst r.
      cbn [PosetSpec.spec_step].
      set (l := els (ps sl)) in *.
      pose proof (snd_nodup _ _ _ _ HS) as Hnd. fold l in Hnd.
      set (sl' := if use_cache s'
                  then mk_sl s' (kind sl) (dec_opt key (c_top sl)) (dec_opt key (c_bot sl))
                  else with_ps E sl s').
      assert (Hps : ps sl' = s') by (unfold sl'; destruct (use_cache s'); reflexivity).
      assert (Hkd : kind sl' = kind sl) by (unfold sl'; destruct (use_cache s'); reflexivity).
      unfold step_post. cbn [fst snd]. rewrite Hps, Hkd. split; [|rewrite C; auto].
      assert (Hnew : forall up, has_ext (kind sl) up = true ->
                exists t, uniq_ext (remove_nth key l) up t /\
                          (use_cache s' = true -> cached_ext E sl' up = Some t)).
      { intros up Hh. destruct (Hx up Hh) as [t [Hu Hc]].
        pose proof (is_spec_ext_false sl key up t Hs Hh Hu) as Hkt.
        exists (decr key t). split; [apply uniq_ext_remove; assumption|].
        intros Huc. unfold sl'. rewrite Huc.
        assert (Hc' : cached_ext E sl up = Some t) by (apply Hc; rewrite <- F; exact Huc).
        destruct up; cbn [cached_ext c_top c_bot] in *; rewrite Hc'; reflexivity. }
      unfold SLInv. rewrite Hps, Hkd, C.
      split; [split; assumption|]. split; [|split; [exact Hnew|]].
      + destruct (kind_has_ext (kind sl)) as [up Hh]. destruct (Hnew up Hh) as [t [Hu _]].
        apply uniq_ext_range in Hu. intros Hnil. rewrite Hnil in Hu. simpl in Hu. lia.
      + intros Huc. unfold sl'. rewrite Huc. cbn [c_top c_bot with_ps]. apply Hn. rewrite <- F. exact Huc.
  Qed.

  Lemma remove_post sl e :
    SLInv sl ->
    step_post sl (sl_remove E leq eqb sl e)
              (sl_spec_step (kind sl) (els (ps sl)) (use_cache (ps sl)) (SP (ORemove e))).
  Proof.
    intros HI. pose proof HI as [[HS HT] [Hne [Hx Hn]]].
    pose proof (snd_nodup _ _ _ _ HS) as Hnd.
    set (l := els (ps sl)) in *.
    (* the value guard against one extreme element *)
    assert (Hg : forall up,
              has_ext (kind sl) up &&
              match snd (sl_ext sl up (ps sl)) with
              | Some t => match el_at E (ps sl) t with Some x => eqb x e | None => false end
              | None => false end =
              has_ext (kind sl) up &&
              match index_of e l, spec_ext l up with
              | Some i, Some t => Nat.eqb t i
              | _, _ => false end).
    { intros up. destruct (has_ext (kind sl) up) eqn:Hh; [|reflexivity]. cbn [andb].
      destruct (SLInv_ext sl up HI Hh) as [t [Hu _]].
      rewrite (sl_ext_snd_spec sl up HI Hh). fold l in Hu |- *. rewrite (uniq_ext_spec _ _ _ Hu).
      unfold el_at. fold l. pose proof (uniq_ext_range _ _ _ Hu) as Ht.
      destruct (nth_error l t) as [x|] eqn:Hxt; [|apply nth_error_None in Hxt; lia].
      destruct (eqb x e) eqn:Hxe.
      - apply (po_eqb _ _ _ PO) in Hxe. subst x.
        rewrite (index_of_nth E leq eqb PO l t e Hnd Hxt). symmetry. apply Nat.eqb_refl.
      - destruct (index_of e l) as [i|] eqn:Hi; [|reflexivity].
        symmetry. apply Nat.eqb_neq. intros ->.
        apply (index_of_Some E leq eqb PO) in Hi. rewrite Hxt in Hi. injection Hi as ->.
        assert (eqb e e = true) by (apply (po_eqb _ _ _ PO); reflexivity). congruence. }
    cbn [PosetLattice.sl_spec_step]. unfold sl_remove. rewrite (Hg true), (Hg false). clear Hg.
    fold l. destruct (index_of e l) as [i|] eqn:Hi.
    - assert (Hsp : is_spec_ext E leq (kind sl) l i =
                    (has_ext (kind sl) true && match spec_ext l true with Some t => Nat.eqb t i | None => false end)
                    || (has_ext (kind sl) false && match spec_ext l false with Some t => Nat.eqb t i | None => false end)).
      { unfold is_spec_ext. cbn [existsb]. rewrite orb_false_r. reflexivity. }
      destruct (is_spec_ext E leq (kind sl) l i) eqn:Hs.
      + symmetry in Hsp. apply orb_true_iff in Hsp.
        destruct (has_ext (kind sl) true && _); [apply step_post_same; exact HI|].
        destruct Hsp as [Hsp | Hsp]; [discriminate|]. rewrite Hsp. apply step_post_same. exact HI.
      + symmetry in Hsp. apply orb_false_iff in Hsp. destruct Hsp as [H1 H2]. rewrite H1, H2.
        assert (Hir : i < size E (ps sl)).
        { apply (index_of_Some E leq eqb PO) in Hi. unfold size. fold l. apply nth_error_Some. congruence. }
        pose proof (del_post sl i HI Hir) as Hd. cbn [PosetLattice.sl_spec_step] in Hd. fold l in Hd.
        rewrite Hs in Hd. cbn [PosetSpec.spec_step] in Hd |- *. fold l. rewrite Hi. exact Hd.
    - rewrite !andb_false_r. apply step_post_same. exact HI.
  Qed.

  (* ---------------------------------------------------------------- every public call *)
  Theorem sl_step_ok sl o :
    SLInv sl -> sl_valid sl o ->
    SLInv (fst (sl_step sl o)) /\
    snd (sl_step sl o) = snd (sl_spec_step (kind sl) (els (ps sl)) (use_cache (ps sl)) o) /\
    els (ps (fst (sl_step sl o))) = fst (sl_spec_step (kind sl) (els (ps sl)) (use_cache (ps sl)) o) /\
    kind (fst (sl_step sl o)) = kind sl /\
    use_cache (ps (fst (sl_step sl o))) = use_cache (ps sl).
  Proof.
    intros HI Hv.
    change (step_post sl (sl_step sl o) (sl_spec_step (kind sl) (els (ps sl)) (use_cache (ps sl)) o)).
    destruct o as [q | up].
    - cbn [sl_valid] in Hv.
      destruct q; cbn [PosetLattice.sl_step PosetLattice.sl_spec_step];
        try (apply query_post; [exact HI | exact Hv | reflexivity]).
      + (* tops / bottoms: the overridden properties *)
        destruct (sl_starts_here sl up HI) as [A [B [C D]]].
        destruct (sl_starts sl up (ps sl)) as [s' L]. cbn [fst snd] in A, B, C, D. subst L.
        unfold step_post. cbn [fst snd PosetSpec.spec_step PosetSpec.spec_query].
        split; [apply SLInv_with_ps; assumption|]. cbn [ps kind with_ps]. auto.
      + apply add_post. exact HI.
      + apply del_post; [exact HI | exact Hv].
      + apply remove_post. exact HI.
    - cbn [PosetLattice.sl_step PosetLattice.sl_spec_step].
      destruct (has_ext (kind sl) up) eqn:Hh; [|apply step_post_same; exact HI].
      rewrite (sl_ext_snd_spec sl up HI Hh).
      destruct (spec_ext (els (ps sl)) up); apply step_post_same; exact HI.
  Qed.

  (* ---------------------------------------------------------------- the named corollaries *)
  Theorem top_is_spec sl up :
    SLInv sl -> has_ext (kind sl) up = true ->
    exists t, (forall x, In x (extremes (els (ps sl)) up) <-> x = t) /\
              spec_ext (els (ps sl)) up = Some t /\ sl_step sl (SExt up) = (sl, ONat t).
  Proof.
    intros HI Hh. destruct (SLInv_ext sl up HI Hh) as [t [Hu _]]. exists t.
    split; [exact Hu|]. split; [apply uniq_ext_spec; exact Hu|].
    cbn [PosetLattice.sl_step]. rewrite Hh, (sl_ext_snd_spec sl up HI Hh), (uniq_ext_spec _ _ _ Hu).
    reflexivity.
  Qed.

  Theorem add_refuses sl e f :
    SLInv sl ->
    comparable_ext E leq (kind sl) (els (ps sl)) e true &&
    comparable_ext E leq (kind sl) (els (ps sl)) e false = false ->
    sl_add E leq eqb sl e f = (sl, OErr EValue).
  Proof.
    intros HI Hc. unfold sl_add.
    destruct (cmp_ext_spec sl true e HI) as [sm_t [bg_t [Ct [Cct _]]]].
    destruct (cmp_ext_spec sl false e HI) as [sm_b [bg_b [Cb [Ccb _]]]].
    rewrite Ct, Cb, Cct, Ccb.
    destruct (comparable_ext E leq (kind sl) (els (ps sl)) e true); [|reflexivity].
    cbn [andb] in Hc. rewrite Hc. reflexivity.
  Qed.

  Theorem add_accepts sl e f :
    SLInv sl ->
    comparable_ext E leq (kind sl) (els (ps sl)) e true &&
    comparable_ext E leq (kind sl) (els (ps sl)) e false = true ->
    let l' := if memE e (els (ps sl)) then els (ps sl) else els (ps sl) ++ [e] in
    SLInv (fst (sl_add E leq eqb sl e f)) /\ snd (sl_add E leq eqb sl e f) = OEls l' /\
    els (ps (fst (sl_add E leq eqb sl e f))) = l' /\
    kind (fst (sl_add E leq eqb sl e f)) = kind sl /\
    use_cache (ps (fst (sl_add E leq eqb sl e f))) = use_cache (ps sl).
  Proof.
    intros HI Hc. pose proof (add_post sl e f HI) as H.
    cbn [PosetLattice.sl_spec_step] in H. rewrite Hc in H. exact H.
  Qed.

  Lemma del_guard sl key :
    SLInv sl -> is_spec_ext E leq (kind sl) (els (ps sl)) key = true ->
    sl_del E leq sl key = (sl, OErr EKey).
  Proof.
    intros HI Hs. unfold sl_del.
    pose proof (is_ext_eq sl (fun t => Nat.eqb t key) true HI) as Et.
    pose proof (is_ext_eq sl (fun t => Nat.eqb t key) false HI) as Eb.
    cbv beta in Et, Eb. rewrite Et, Eb.
    unfold is_spec_ext in Hs. cbn [existsb] in Hs. rewrite orb_false_r in Hs.
    destruct (has_ext (kind sl) true && _); [reflexivity|].
    cbn [orb] in Hs. rewrite Hs. reflexivity.
  Qed.

  Theorem delete_guards sl :
    SLInv sl ->
    (forall i, is_spec_ext E leq (kind sl) (els (ps sl)) i = true ->
               sl_del E leq sl i = (sl, OErr EKey)) /\
    (forall e i, index_of e (els (ps sl)) = Some i ->
                 is_spec_ext E leq (kind sl) (els (ps sl)) i = true ->
                 sl_remove E leq eqb sl e = (sl, OErr EValue)) /\
    (forall e, index_of e (els (ps sl)) = None -> sl_remove E leq eqb sl e = (sl, OErr EKey)).
  Proof.
    intros HI. split; [intros i; apply del_guard; exact HI|].
    pose proof HI as [[HS _] _]. pose proof (snd_nodup _ _ _ _ HS) as Hnd.
    split.
    - intros e i Hi Hs. unfold sl_remove.
      assert (Hg : forall up, has_ext (kind sl) up = true ->
                match spec_ext (els (ps sl)) up with Some t => Nat.eqb t i | None => false end = true ->
                match snd (sl_ext sl up (ps sl)) with
                | Some t => match el_at E (ps sl) t with Some x => eqb x e | None => false end
                | None => false end = true).
      { intros up Hh Ht. rewrite (sl_ext_snd_spec sl up HI Hh).
        destruct (spec_ext (els (ps sl)) up) as [t|]; [|discriminate].
        apply Nat.eqb_eq in Ht. subst t. unfold el_at.
        rewrite (index_of_Some E leq eqb PO e _ i Hi). apply (po_eqb _ _ _ PO). reflexivity. }
      unfold is_spec_ext in Hs. cbn [existsb] in Hs. rewrite orb_false_r in Hs.
      apply orb_true_iff in Hs.
      destruct (has_ext (kind sl) true) eqn:Ht; cbn [andb] in *.
      + destruct (match spec_ext (els (ps sl)) true with Some t => Nat.eqb t i | None => false end) eqn:H1.
        * rewrite (Hg true Ht H1). reflexivity.
        * destruct Hs as [Hs | Hs]; [discriminate|]. apply andb_true_iff in Hs. destruct Hs as [Hf H2].
          rewrite Hf, (Hg false Hf H2). cbn [andb].
          destruct (match snd (sl_ext sl true (ps sl)) with Some _ => _ | None => _ end); reflexivity.
      + destruct Hs as [Hs | Hs]; [discriminate|]. apply andb_true_iff in Hs. destruct Hs as [Hf H2].
        rewrite Hf, (Hg false Hf H2). reflexivity.
    - intros e Hi. pose proof (remove_post sl e HI) as H. unfold sl_remove in *.
      assert (Hg : forall up, has_ext (kind sl) up = true ->
                match snd (sl_ext sl up (ps sl)) with
                | Some t => match el_at E (ps sl) t with Some x => eqb x e | None => false end
                | None => false end = false).
      { intros up Hh. destruct (snd (sl_ext sl up (ps sl))) as [t|]; [|reflexivity].
        unfold el_at. destruct (nth_error (els (ps sl)) t) as [x|] eqn:Hx; [|reflexivity].
        destruct (eqb x e) eqn:Hxe; [|reflexivity]. apply (po_eqb _ _ _ PO) in Hxe. subst x.
        rewrite (index_of_nth E leq eqb PO _ t e Hnd Hx) in Hi. discriminate. }
      rewrite Hi.
      destruct (has_ext (kind sl) true) eqn:Ht; destruct (has_ext (kind sl) false) eqn:Hf;
        cbn [andb]; rewrite ?(Hg true Ht), ?(Hg false Hf); reflexivity.
  Qed.

  Theorem delete_ok sl i :
    SLInv sl -> i < length (els (ps sl)) ->
    is_spec_ext E leq (kind sl) (els (ps sl)) i = false ->
    SLInv (fst (sl_del E leq sl i)) /\
    snd (sl_del E leq sl i) = OEls (remove_nth i (els (ps sl))) /\
    els (ps (fst (sl_del E leq sl i))) = remove_nth i (els (ps sl)) /\
    kind (fst (sl_del E leq sl i)) = kind sl /\
    use_cache (ps (fst (sl_del E leq sl i))) = use_cache (ps sl).
  Proof.
    intros HI Hi Hs. pose proof (del_post sl i HI Hi) as H.
    cbn [PosetLattice.sl_spec_step] in H. rewrite Hs in H. exact H.
  Qed.

  (* ---------------------------------------------------------------- all histories *)
  Definition sl_validl (l : list E) (o : sl_op) : Prop :=
    match o with SP q => valid_opl E l q | SExt _ => True end.

  Fixpoint sl_valid_history (k : sl_kind) (l : list E) (uc : bool) (ops : list sl_op) : Prop :=
    match ops with
    | [] => True
    | o :: ops' => sl_validl l o /\ sl_valid_history k (fst (sl_spec_step k l uc o)) uc ops'
    end.

  Lemma sl_validl_valid sl o : sl_validl (els (ps sl)) o -> sl_valid sl o.
  Proof.
    destruct o as [q | up]; [|auto]. cbn [sl_validl sl_valid]. unfold valid_opl.
    apply valid_op_els. reflexivity.
  Qed.

  Theorem reachable_SL : forall ops sl,
    SLInv sl -> sl_valid_history (kind sl) (els (ps sl)) (use_cache (ps sl)) ops ->
    SLInv (fst (sl_run sl ops)) /\
    snd (sl_run sl ops) = snd (sl_spec_run (kind sl) (els (ps sl)) (use_cache (ps sl)) ops) /\
    els (ps (fst (sl_run sl ops))) = fst (sl_spec_run (kind sl) (els (ps sl)) (use_cache (ps sl)) ops) /\
    kind (fst (sl_run sl ops)) = kind sl /\
    use_cache (ps (fst (sl_run sl ops))) = use_cache (ps sl).
  Proof.
    induction ops as [|o ops IH]; intros sl HI Hv;
      cbn [PosetLattice.sl_run PosetLattice.sl_spec_run]; [cbn [fst snd]; auto|].
    destruct Hv as [Hv1 Hv2].
    destruct (sl_step_ok sl o HI (sl_validl_valid sl o Hv1)) as [A [B [C [D F]]]].
    destruct (sl_step sl o) as [sl1 r]. cbn [fst snd] in A, B, C, D, F.
    destruct (sl_spec_step (kind sl) (els (ps sl)) (use_cache (ps sl)) o) as [l1 r'].
    cbn [fst snd] in B, C, Hv2. subst r' l1.
    destruct (IH sl1 A) as [P [Q [R [T U]]]]; [rewrite D, F; exact Hv2|].
    destruct (sl_run sl1 ops) as [sl2 rs]. cbn [fst snd] in P, Q, R, T, U.
    rewrite D, F in Q, R.
    destruct (sl_spec_run (kind sl) (els (ps sl1)) (use_cache (ps sl)) ops) as [l2 rs'].
    cbn [fst snd] in *. subst. split; [exact P|]. split; [reflexivity|]. split; [reflexivity|].
    split; congruence.
  Qed.

  (* ---------------------------------------------------------------- constructors *)
  Lemma sl_check_ok up sl :
    Inv (ps sl) -> (use_cache (ps sl) = false -> c_top sl = None /\ c_bot sl = None) ->
    match sl_check E leq up (Some sl) with
    | None => has_ext (kind sl) up = true /\ length (extremes (els (ps sl)) up) <> 1
    | Some sl' =>
        Inv (ps sl') /\ els (ps sl') = els (ps sl) /\ use_cache (ps sl') = use_cache (ps sl) /\
        kind sl' = kind sl /\ cached_ext E sl' (negb up) = cached_ext E sl (negb up) /\
        (has_ext (kind sl) up = true ->
         exists t, uniq_ext (els (ps sl)) up t /\
                   (use_cache (ps sl) = true -> cached_ext E sl' up = Some t)) /\
        (use_cache (ps sl) = false -> c_top sl' = None /\ c_bot sl' = None)
    end.
  Proof.
    intros HI Hn. cbn [sl_check]. destruct (has_ext (kind sl) up) eqn:Hh.
    - destruct (extremes_q_inv up (ps sl) HI) as [A [B [C D]]].
      destruct (extremes_q E leq up (ps sl)) as [s' L]. cbn [fst snd] in A, B, C, D. subst L.
      destruct (extremes (els (ps sl)) up) as [|t [|b L]] eqn:Hx.
      + split; [reflexivity | simpl; lia].
      + split; [destruct up; exact A|]. split; [destruct up; exact B|]. split; [destruct up; exact C|].
        split; [destruct up; reflexivity|]. split; [destruct up; reflexivity|]. split.
        * intros _. exists t. split; [apply uniq_ext_list; exact Hx|].
          intros Huc. rewrite <- C in Huc. rewrite Huc. destruct up; reflexivity.
        * intros Huc. rewrite <- C in Huc. rewrite Huc.
          destruct (Hn ltac:(rewrite <- C; exact Huc)) as [H1 H2].
          destruct up; cbn [set_ext with_ps c_top c_bot kind ps]; auto.
      + split; [reflexivity | simpl; lia].
    - split; [exact HI|]. split; [reflexivity|]. split; [reflexivity|]. split; [reflexivity|].
      split; [reflexivity|]. split; [discriminate | exact Hn].
  Qed.

  Lemma spec_ok_unfold k l :
    sl_spec_ok E leq k l =
    negb (is_nil l) &&
    ((negb (has_ext k true) || Nat.eqb (length (extremes l true)) 1) &&
     (negb (has_ext k false) || Nat.eqb (length (extremes l false)) 1)).
  Proof. unfold sl_spec_ok. cbn [forallb]. rewrite andb_true_r. reflexivity. Qed.

  (* the two checks of the constructors on top of any sound base poset *)
  Lemma make_from s0 k :
    Inv s0 -> els s0 <> [] ->
    let r := sl_check E leq true (sl_check E leq false (Some (mk_sl s0 k None None))) in
    (r = None <-> sl_spec_ok E leq k (els s0) = false) /\
    (forall sl, r = Some sl ->
       SLInv sl /\ els (ps sl) = els s0 /\ kind sl = k /\ use_cache (ps sl) = use_cache s0).
  Proof.
    intros HI Hne. cbv zeta. rewrite spec_ok_unfold.
    assert (Hnil : negb (is_nil (els s0)) = true) by (destruct (els s0); [contradiction | reflexivity]).
    rewrite Hnil. cbn [andb].
    set (sl0 := mk_sl s0 k None None).
    pose proof (sl_check_ok false sl0 HI (fun _ => conj eq_refl eq_refl)) as H1.
    destruct (sl_check E leq false (Some sl0)) as [sl1|].
    2:{ cbn [sl_check ps kind sl0] in *. destruct H1 as [Hh Hl]. rewrite Hh. cbn [negb orb].
        apply Nat.eqb_neq in Hl. rewrite Hl, andb_false_r. split; [tauto | discriminate]. }
    destruct H1 as [A1 [B1 [C1 [D1 [F1 [G1 N1]]]]]]. cbn [ps kind sl0 negb] in *.
    assert (Hn1 : use_cache (ps sl1) = false -> c_top sl1 = None /\ c_bot sl1 = None)
      by (rewrite C1; exact N1).
    pose proof (sl_check_ok true sl1 A1 Hn1) as H2.
    destruct (sl_check E leq true (Some sl1)) as [sl2|].
    2:{ destruct H2 as [Hh Hl]. rewrite D1 in Hh. rewrite B1 in Hl. rewrite Hh. cbn [negb orb].
        apply Nat.eqb_neq in Hl. rewrite Hl. cbn [andb]. split; [tauto | discriminate]. }
    destruct H2 as [A2 [B2 [C2 [D2 [F2 [G2 N2]]]]]]. cbn [negb] in *.
    rewrite D1, B1, C1 in *.
    assert (Hup : forall up, has_ext k up = true ->
              exists t, uniq_ext (els s0) up t /\ (use_cache s0 = true -> cached_ext E sl2 up = Some t)).
    { intros [|] Hh; [exact (G2 Hh)|].
      destruct (G1 Hh) as [t [Hu Hc]]. exists t. split; [exact Hu|]. rewrite F2. exact Hc. }
    split.
    - split; [discriminate|]. intros Hf. exfalso.
      assert (Hl : forall up, negb (has_ext k up) || Nat.eqb (length (extremes (els s0) up)) 1 = true).
      { intros up. destruct (has_ext k up) eqn:Hh; [|reflexivity]. cbn [negb orb].
        apply Nat.eqb_eq. apply length_one_uniq. destruct (Hup up Hh) as [t [Hu _]]. eauto. }
      rewrite (Hl true), (Hl false) in Hf. discriminate.
    - intros sl Hsl. injection Hsl as <-. split; [|rewrite B2, D2, C2; auto].
      unfold SLInv. rewrite B2, D2, C2. split; [exact A2|]. split; [exact Hne|].
      split; [exact Hup | exact N2].
  Qed.

  Theorem ctor_ok k l uc :
    NoDup l ->
    (sl_make E leq k l uc None = None <-> sl_spec_ok E leq k l = false) /\
    (forall sl, sl_make E leq k l uc None = Some sl ->
       SLInv sl /\ els (ps sl) = l /\ kind sl = k /\ use_cache (ps sl) = uc).
  Proof.
    intros Hn. destruct l as [|x l'].
    - cbn [sl_make]. split; [split; reflexivity | discriminate].
    - exact (make_from (init E (x :: l') uc) k (init_inv E leq (x :: l') uc Hn) ltac:(discriminate)).
  Qed.

  Corollary ctor_refuses k l uc :
    NoDup l -> (sl_make E leq k l uc None = None <-> sl_spec_ok E leq k l = false).
  Proof. intros Hn. apply (ctor_ok k l uc Hn). Qed.

  (* with a true children dictionary *)
  Theorem ctor_cd_ok k l uc cd :
    NoDup l -> covers_dict_ok E leq l cd ->
    (sl_make E leq k l uc (Some cd) = None <-> sl_spec_ok E leq k l = false) /\
    (forall sl, sl_make E leq k l uc (Some cd) = Some sl ->
       SLInv sl /\ els (ps sl) = l /\ kind sl = k /\ use_cache (ps sl) = uc).
  Proof.
    intros Hn Hcd. destruct l as [|x l'].
    - cbn [sl_make]. split; [split; reflexivity | discriminate].
    - cbn [sl_make]. destruct uc.
      + destruct (init_cd_inv E leq eqb PO (x :: l') cd Hn Hcd) as [s [H1 [H2 [H3 H4]]]].
        rewrite H1.
        assert (Hne : els s <> []) by (rewrite H3; discriminate).
        pose proof (make_from s k H2 Hne) as M. cbv zeta in M. rewrite H3, H4 in M. exact M.
      + exact (make_from (init E (x :: l') false) k (init_inv E leq (x :: l') false Hn) ltac:(discriminate)).
  Qed.

  (* a semilattice object always sits on a list that the constructor accepts *)
  Lemma SLInv_spec_ok sl : SLInv sl -> sl_spec_ok E leq (kind sl) (els (ps sl)) = true.
  Proof.
    intros [_ [Hne [Hx _]]]. rewrite spec_ok_unfold.
    assert (Hl : forall up, negb (has_ext (kind sl) up) ||
                            Nat.eqb (length (extremes (els (ps sl)) up)) 1 = true).
    { intros up. destruct (has_ext (kind sl) up) eqn:Hh; [|reflexivity]. cbn [negb orb].
      apply Nat.eqb_eq. apply length_one_uniq. destruct (Hx up Hh) as [t [Hu _]]. exists t. exact Hu. }
    rewrite (Hl true), (Hl false). destruct (els (ps sl)); [contradiction | reflexivity].
  Qed.

  (* ---------------------------------------------------------------- incremental = batch *)
  (* two objects of one class over the same elements with the same flag answer alike *)
  Lemma same_answers sl1 sl2 o :
    SLInv sl1 -> SLInv sl2 -> els (ps sl1) = els (ps sl2) -> kind sl1 = kind sl2 ->
    use_cache (ps sl1) = use_cache (ps sl2) -> sl_valid sl1 o ->
    snd (sl_step sl1 o) = snd (sl_step sl2 o).
  Proof.
    intros H1 H2 He Hk Hu Hv.
    assert (Hv2 : sl_valid sl2 o).
    { destruct o as [q|]; [|exact I]. cbn [sl_valid] in *. eapply valid_op_els; [|exact Hv]. congruence. }
    destruct (sl_step_ok sl1 o H1 Hv) as [_ [A _]]. destruct (sl_step_ok sl2 o H2 Hv2) as [_ [B _]].
    rewrite A, B, He, Hk, Hu. reflexivity.
  Qed.

  Theorem incremental_batch sl0 ops :
    SLInv sl0 -> sl_valid_history (kind sl0) (els (ps sl0)) (use_cache (ps sl0)) ops ->
    let slf := fst (sl_run sl0 ops) in
    (exists slb, sl_make E leq (kind sl0) (els (ps slf)) (use_cache (ps sl0)) None = Some slb) /\
    (forall slb, sl_make E leq (kind sl0) (els (ps slf)) (use_cache (ps sl0)) None = Some slb ->
       forall q, sl_valid slf q -> snd (sl_step slf q) = snd (sl_step slb q)).
  Proof.
    intros HI Hv slf.
    destruct (reachable_SL ops sl0 HI Hv) as [A [_ [_ [D F]]]]. fold slf in A, D, F.
    pose proof A as [[HS _] _]. pose proof (snd_nodup _ _ _ _ HS) as Hnd.
    destruct (ctor_ok (kind sl0) (els (ps slf)) (use_cache (ps sl0)) Hnd) as [C1 C2].
    split.
    - destruct (sl_make E leq (kind sl0) (els (ps slf)) (use_cache (ps sl0)) None) as [slb|] eqn:Hm;
        [eauto|]. exfalso. pose proof (proj1 C1 eq_refl) as Hf.
      rewrite <- D in Hf. rewrite (SLInv_spec_ok slf A) in Hf. discriminate.
    - intros slb Hm q Hq. destruct (C2 slb Hm) as [B1 [B2 [B3 B4]]].
      apply same_answers; auto; congruence.
  Qed.

  (* the form of the property text: start from an accepted list, add / remove one at a time *)
  Corollary incremental_batch_ctor k l0 uc sl0 ops :
    NoDup l0 -> sl_make E leq k l0 uc None = Some sl0 -> sl_valid_history k l0 uc ops ->
    let slf := fst (sl_run sl0 ops) in
    exists slb, sl_make E leq k (els (ps slf)) uc None = Some slb /\
      SLInv slf /\ SLInv slb /\
      els (ps slf) = fst (sl_spec_run k l0 uc ops) /\
      forall q, sl_valid slf q -> snd (sl_step slf q) = snd (sl_step slb q).
  Proof.
    intros Hn Hm Hv slf.
    destruct (ctor_ok k l0 uc Hn) as [_ C2]. destruct (C2 sl0 Hm) as [HI [He [Hk Hu]]].
    assert (Hv' : sl_valid_history (kind sl0) (els (ps sl0)) (use_cache (ps sl0)) ops)
      by (rewrite He, Hk, Hu; exact Hv).
    destruct (incremental_batch sl0 ops HI Hv') as [[slb Hb] Hq]. fold slf in Hb, Hq.
    rewrite Hk, Hu in Hb, Hq.
    destruct (reachable_SL ops sl0 HI Hv') as [A [_ [R _]]]. fold slf in A, R. rewrite He, Hk, Hu in R.
    pose proof A as [[HS _] _]. pose proof (snd_nodup _ _ _ _ HS) as Hnd.
    destruct (ctor_ok k (els (ps slf)) uc Hnd) as [_ C3]. destruct (C3 slb Hb) as [HB _].
    exists slb. split; [exact Hb|]. split; [exact A|]. split; [exact HB|]. split; [exact R|].
    exact (Hq slb Hb).
  Qed.

  (* the flag of the batch-built object does not matter either, as long as the call is not one
     of the fill_up_* helpers (which assert that caching is on) *)
  Definition sl_no_fill (o : sl_op) : bool :=
    match o with SP q => no_fill E q | SExt _ => true end.

  Lemma sl_spec_step_flag k l uc uc' o :
    sl_no_fill o = true -> sl_spec_step k l uc o = sl_spec_step k l uc' o.
  Proof. destruct o as [q | up]; [destruct q; try discriminate; reflexivity | reflexivity]. Qed.

  Theorem incremental_batch_any_flag sl0 ops ucb :
    SLInv sl0 -> sl_valid_history (kind sl0) (els (ps sl0)) (use_cache (ps sl0)) ops ->
    let slf := fst (sl_run sl0 ops) in
    (exists slb, sl_make E leq (kind sl0) (els (ps slf)) ucb None = Some slb) /\
    (forall slb, sl_make E leq (kind sl0) (els (ps slf)) ucb None = Some slb ->
       forall q, sl_valid slf q -> sl_no_fill q = true ->
                 snd (sl_step slf q) = snd (sl_step slb q)).
  Proof.
    intros HI Hv slf.
    destruct (reachable_SL ops sl0 HI Hv) as [A [_ [_ [D F]]]]. fold slf in A, D, F.
    pose proof A as [[HS _] _]. pose proof (snd_nodup _ _ _ _ HS) as Hnd.
    destruct (ctor_ok (kind sl0) (els (ps slf)) ucb Hnd) as [C1 C2].
    split.
    - destruct (sl_make E leq (kind sl0) (els (ps slf)) ucb None) as [slb|] eqn:Hm; [eauto|].
      exfalso. pose proof (proj1 C1 eq_refl) as Hf.
      rewrite <- D in Hf. rewrite (SLInv_spec_ok slf A) in Hf. discriminate.
    - intros slb Hm q Hq Hnf. destruct (C2 slb Hm) as [B1 [B2 [B3 B4]]].
      assert (Hq2 : sl_valid slb q).
      { destruct q as [q|]; [|exact I]. cbn [sl_valid] in *. eapply valid_op_els; [|exact Hq]. congruence. }
      destruct (sl_step_ok slf q A Hq) as [_ [P _]]. destruct (sl_step_ok slb q B1 Hq2) as [_ [Q _]].
      rewrite P, Q, B2, B3, D. apply f_equal. apply sl_spec_step_flag. exact Hnf.
  Qed.
End C11.

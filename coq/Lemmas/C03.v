(* Lemmas/C03.v — proofs for property C03 (part 1): the concept comparison is extent inclusion,
   the index order of a duplicate-free list of concepts of one table is a partial order, the
   cache-free descendants / ancestors / children / parents are the proper-inclusion sets and
   their covers. *)
From Coq Require Import Sorting.Sorted Permutation.
From FCA Require Import Base.ListSet Base.Order Model.LatticeOrder Spec.Closure Spec.LatticeOrderSpec.

(* ------------------------------------------------------------------ small list facts *)
Lemma nat_eqb_ok : eqb_ok Nat.eqb.
Proof. intros a b. apply Nat.eqb_eq. Qed.

Lemma subsetb_refl a : subsetb a a = true.
Proof. apply subsetb_incl. apply incl_refl. Qed.

Lemma subsetb_trans a b c : subsetb a b = true -> subsetb b c = true -> subsetb a c = true.
Proof. rewrite !subsetb_incl. intros H1 H2. eapply incl_tran; eauto. Qed.

Lemma psubset_irrefl a : psubset a a = false.
Proof. unfold psubset. rewrite subsetb_refl. reflexivity. Qed.

Lemma NoDup_filter_seq (p : nat -> bool) a n : NoDup (filter p (seq a n)).
Proof. apply NoDup_filter. apply seq_NoDup. Qed.

Lemma NoDup_ext t B : NoDup (ext t B).
Proof. unfold ext, ext_spec, all_objs. apply NoDup_filter_seq. Qed.

Lemma NoDup_int t A : NoDup (int t A).
Proof. unfold int, int_spec, all_attrs. apply NoDup_filter_seq. Qed.

(* ascending duplicate-free listings are fixed by sorting; extents and intents of the spec are such *)
Lemma sort_nat_sorted l : StronglySorted lt l -> sort_nat l = l.
Proof.
  induction 1 as [|a l Hs IH Hall]; [reflexivity|]. simpl. rewrite IH.
  destruct l as [|b l']; [reflexivity|]. simpl.
  rewrite Forall_forall in Hall. assert (a < b) by (apply Hall; left; reflexivity).
  replace (Nat.leb a b) with true by (symmetry; apply Nat.leb_le; lia). reflexivity.
Qed.

Lemma filter_seq_sorted (p : nat -> bool) n : forall a, StronglySorted lt (filter p (seq a n)).
Proof.
  induction n as [|n IH]; intros a; simpl; [constructor|].
  destruct (p a); [|apply IH]. constructor; [apply IH|].
  apply Forall_forall. intros x Hx. apply filter_In in Hx. destruct Hx as [Hx _]. apply in_seq in Hx. lia.
Qed.

Lemma sort_nat_ext t B : sort_nat (ext t B) = ext t B.
Proof. apply sort_nat_sorted. unfold ext, ext_spec, all_objs. apply filter_seq_sorted. Qed.

Definition canonical (c : concept) : Prop := sort_nat (fst c) = fst c.
Definition canon_list (l : list concept) : Prop := forall c, In c l -> canonical c.

Lemma same_extent_canon c d : canonical c -> canonical d ->
  same_extent c d = nat_list_eqb (fst c) (fst d).
Proof.
  unfold canonical, same_extent, support. intros Hc Hd. rewrite Hc, Hd.
  destruct (nat_list_eqb (fst c) (fst d)) eqn:Q; [|apply andb_false_r].
  apply nat_list_eqb_eq in Q. rewrite Q, Nat.eqb_refl. reflexivity.
Qed.

Lemma cnth_canon l i : canon_list l -> canonical (cnth l i).
Proof.
  intros H. unfold cnth. destruct (nth_in_or_default i l cdefault) as [Hin|E]; [apply H; exact Hin|].
  rewrite E. reflexivity.
Qed.

(* AbstractConcept.__le__ is extent inclusion (the support shortcut never changes the answer) *)
Lemma concept_le_subset c d : NoDup (fst c) -> concept_le c d = subsetb (fst c) (fst d).
Proof.
  intros Hn. unfold concept_le, support.
  destruct (Nat.ltb (length (fst d)) (length (fst c))) eqn:L; [|reflexivity].
  apply Nat.ltb_lt in L. symmetry. destruct (subsetb (fst c) (fst d)) eqn:S; [|reflexivity].
  apply subsetb_incl in S. assert (X := NoDup_incl_length Hn S). lia.
Qed.

(* ------------------------------------------------------------------ lattices of one table *)
Definition concepts_of (t : table) (cs : list concept) : Prop :=
  forall c, In c cs -> is_concept t (fst c) (snd c).
Definition complete_for (t : table) (cs : list concept) : Prop :=
  forall A B, is_concept t A B -> In (A, B) cs.
(* the hypotheses about a constructed lattice: every listed pair is a concept of the table,
   no extent is listed twice (C02: the miners return each concept once) *)
Definition concept_list (t : table) (cs : list concept) : Prop :=
  concepts_of t cs /\ NoDup (map fst cs).
Definition full_lattice (t : table) (cs : list concept) : Prop :=
  concept_list t cs /\ complete_for t cs.

Lemma concept_list_canon t cs : concept_list t cs -> canon_list cs.
Proof.
  intros [Hc _] c Hin. unfold canonical. destruct (Hc c Hin) as [E _]. rewrite E. apply sort_nat_ext.
Qed.

Section OneLattice.
  Variable t : table.
  Variable cs : list concept.
  Hypothesis HL : concept_list t cs.
  Let n := length cs.
  Let exts := map fst cs.

  Lemma cnth_In i : i < n -> In (cnth cs i) cs.
  Proof. intros H. apply nth_In. exact H. Qed.

  Lemma set_at_extent i : set_at exts i = extent cs i.
  Proof.
    unfold set_at, extent, cnth, exts. change (@nil nat) with (fst cdefault). apply map_nth.
  Qed.

  Lemma extent_concept i : i < n -> is_concept t (extent cs i) (intent cs i).
  Proof. intros H. apply HL. apply cnth_In. exact H. Qed.

  Lemma extent_NoDup i : i < n -> NoDup (extent cs i).
  Proof. intros H. destruct (extent_concept i H) as [E _]. rewrite E. apply NoDup_ext. Qed.

  Lemma extent_eq_ext i : i < n -> extent cs i = ext t (intent cs i).
  Proof. intros H. apply (extent_concept i H). Qed.

  Lemma intent_eq_int i : i < n -> intent cs i = int t (extent cs i).
  Proof. intros H. apply (extent_concept i H). Qed.

  Lemma leq_i_subset i j : i < n -> leq_i cs i j = subsetb (extent cs i) (extent cs j).
  Proof. intros H. unfold leq_i. apply concept_le_subset. apply extent_NoDup. exact H. Qed.

  Lemma extent_inj i j : i < n -> j < n -> extent cs i = extent cs j -> i = j.
  Proof.
    intros Hi Hj E. destruct HL as [_ Hnd].
    assert (Hl : length (map fst cs) = n) by apply map_length.
    apply (proj1 (NoDup_nth (map fst cs) []) Hnd i j); try lia.
    fold exts. fold (set_at exts i). fold (set_at exts j). rewrite !set_at_extent. exact E.
  Qed.

  Lemma extent_same_set_eq i j : i < n -> j < n ->
    incl (extent cs i) (extent cs j) -> incl (extent cs j) (extent cs i) -> i = j.
  Proof.
    intros Hi Hj H1 H2. apply extent_inj; auto.
    rewrite (extent_eq_ext i Hi), (extent_eq_ext j Hj). apply ext_ext_set.
    rewrite <- (extent_eq_ext i Hi), <- (extent_eq_ext j Hj). intros x. split; auto.
  Qed.

  Lemma In_idxs i : In i (idxs cs) <-> i < n.
  Proof. unfold idxs, n. rewrite in_seq. split; [intros [_ H]; exact H | intros H; split; [apply Nat.le_0_l | exact H]]. Qed.

  (* the comparison of concepts by index is a partial order on the indexes *)
  Lemma leq_i_partial_order : partial_order_on (leq_i cs) (idxs cs).
  Proof.
    repeat split.
    - intros a Ha. apply In_idxs in Ha. rewrite leq_i_subset by exact Ha. apply subsetb_refl.
    - intros a b Ha Hb H1 H2. apply In_idxs in Ha. apply In_idxs in Hb.
      rewrite leq_i_subset in H1, H2 by assumption. apply subsetb_incl in H1. apply subsetb_incl in H2.
      apply extent_same_set_eq; auto.
    - intros a b c Ha Hb Hc H1 H2. apply In_idxs in Ha. apply In_idxs in Hb. apply In_idxs in Hc.
      rewrite leq_i_subset in * by assumption. eapply subsetb_trans; eauto.
  Qed.

  (* strictly below by index = proper inclusion of extents *)
  Lemma slt_psubset j i : j < n -> i < n ->
    slt Nat.eqb (leq_i cs) j i = psubset (set_at exts j) (set_at exts i).
  Proof.
    intros Hj Hi. rewrite !set_at_extent. unfold slt, psubset. rewrite leq_i_subset by exact Hj.
    destruct (subsetb (extent cs j) (extent cs i)) eqn:S1; [|reflexivity]. simpl. f_equal.
    destruct (Nat.eqb j i) eqn:Eq.
    - apply Nat.eqb_eq in Eq. subst. symmetry. apply subsetb_refl.
    - symmetry. destruct (subsetb (extent cs i) (extent cs j)) eqn:S2; [|reflexivity].
      apply Nat.eqb_neq in Eq. exfalso. apply Eq. apply subsetb_incl in S1. apply subsetb_incl in S2.
      apply extent_same_set_eq; auto.
  Qed.

  Lemma slt_flip_psubset j i : j < n -> i < n ->
    slt Nat.eqb (flip_leq (leq_i cs)) j i = psubset (set_at exts i) (set_at exts j).
  Proof.
    intros Hj Hi. rewrite (slt_flip Nat.eqb (leq_i cs) nat_eqb_ok). apply slt_psubset; assumption.
  Qed.

  Lemma filter_idx_ext (p q : nat -> bool) :
    (forall j, j < n -> p j = q j) -> filter p (idxs cs) = filter q (seq 0 (n_sets exts)).
  Proof.
    intros H. unfold idxs, n_sets, exts. rewrite map_length. apply filter_ext_in'.
    intros j Hj. apply in_seq in Hj. apply H. unfold n. destruct Hj as [_ Hj]. exact Hj.
  Qed.

  Theorem descendants_spec i : i < n -> descendants_nocache cs i = spec_descendants exts i.
  Proof.
    intros Hi. unfold descendants_nocache, strict_down, spec_descendants.
    apply filter_idx_ext. intros j Hj. apply slt_psubset; assumption.
  Qed.

  Theorem ancestors_spec i : i < n -> ancestors_nocache cs i = spec_ancestors exts i.
  Proof.
    intros Hi. unfold ancestors_nocache, strict_up, strict_down, spec_ancestors.
    apply filter_idx_ext. intros j Hj. apply slt_flip_psubset; assumption.
  Qed.

  Lemma existsb_idx_ext (p q : nat -> bool) :
    (forall j, j < n -> p j = q j) -> existsb p (idxs cs) = existsb q (seq 0 (n_sets exts)).
  Proof.
    intros H. unfold idxs, n_sets, exts. rewrite map_length. apply existsb_ext_in.
    intros j Hj. apply in_seq in Hj. apply H. unfold n. destruct Hj as [_ Hj]. exact Hj.
  Qed.

  Lemma lower_covers_spec i : i < n ->
    lower_covers Nat.eqb (leq_i cs) (idxs cs) i = spec_children exts i.
  Proof.
    intros Hi. unfold lower_covers, spec_children. apply filter_idx_ext. intros j Hj.
    unfold is_lower_cover, has_between. rewrite slt_psubset by assumption. f_equal. f_equal.
    apply existsb_idx_ext. intros k Hk. rewrite !slt_psubset by assumption. reflexivity.
  Qed.

  Lemma upper_covers_spec i : i < n ->
    upper_covers Nat.eqb (leq_i cs) (idxs cs) i = spec_parents exts i.
  Proof.
    intros Hi. unfold upper_covers, lower_covers, spec_parents. apply filter_idx_ext. intros j Hj.
    unfold is_lower_cover, has_between. rewrite slt_flip_psubset by assumption. f_equal. f_equal.
    apply existsb_idx_ext. intros k Hk. rewrite !slt_flip_psubset by assumption.
    apply andb_comm.
  Qed.

  (* the subtraction loop of _children_nocache, for every visiting order of the candidates *)
  Theorem children_any_order i order : i < n ->
    incl (descendants_nocache cs i) order ->
    sub_loop Nat.eqb (descendants_nocache cs) order (descendants_nocache cs i) = spec_children exts i.
  Proof.
    intros Hi Hord. rewrite <- lower_covers_spec by exact Hi.
    apply (sub_loop_covers nat Nat.eqb (leq_i cs) nat_eqb_ok (idxs cs) leq_i_partial_order i order).
    - apply In_idxs. exact Hi.
    - exact Hord.
  Qed.

  Theorem parents_any_order i order : i < n ->
    incl (ancestors_nocache cs i) order ->
    sub_loop Nat.eqb (ancestors_nocache cs) order (ancestors_nocache cs i) = spec_parents exts i.
  Proof.
    intros Hi Hord. rewrite <- upper_covers_spec by exact Hi.
    apply (sub_loop_covers_up Nat.eqb (leq_i cs) nat_eqb_ok (idxs cs) leq_i_partial_order i order).
    - apply In_idxs. exact Hi.
    - exact Hord.
  Qed.

  Theorem children_spec i : i < n -> children_nocache cs i = spec_children exts i.
  Proof. intros Hi. apply children_any_order; [exact Hi | apply incl_refl]. Qed.

  Theorem parents_spec i : i < n -> parents_nocache cs i = spec_parents exts i.
  Proof. intros Hi. apply parents_any_order; [exact Hi | apply incl_refl]. Qed.

  Theorem leq_spec i j : i < n -> leq_i cs i j = spec_leq exts i j.
  Proof. intros Hi. unfold spec_leq. rewrite !set_at_extent. apply leq_i_subset. exact Hi. Qed.
End OneLattice.

(* Lemmas/C05_GetItem.v — the nine __getitem__ forms, the FormalContext wrappers, and the
   summary theorems of C05: every operation of every back-end model equals the spec, hence any
   two back-ends agree. *)
From FCA Require Import Base.ListSet Model.BinTable Model.BinTableOps Spec.Galois
     Spec.BinTableOpsSpec Lemmas.BitRow Model.FormalContext Lemmas.C01.
From FCA Require Import Lemmas.C05_Base Lemmas.C05_Reduce Lemmas.C05_Algebra.

(* subscripts only have to be in range: index lists may be unsorted and may repeat an index *)
Definition idx_ok (n : nat) (x : idx) : Prop :=
  match x with XInt i => i < n | XSel s => in_range n (sel_idx s) end.
Definition item_ok (t : table) (it : item) : Prop :=
  match it with
  | ItInt i => i < height t
  | ItSel s => in_range (height t) (sel_idx s)
  | ItPair a b => idx_ok (height t) a /\ idx_ok (width t) b
  end.

(* what __getitem__ hands back before it is observed, read off the cells *)
Definition S_raw (t : table) (it : item) : got :=
  match it with
  | ItInt i => GRow (map (fun j => cell t i j) (cols_of t))
  | ItSel s => GTable (sub t (sel_idx s) (cols_of t))
  | ItPair (XInt i) (XInt j) => GBool (cell t i j)
  | ItPair (XInt i) (XSel c) => GRow (map (fun j => cell t i j) (sel_idx c))
  | ItPair (XSel r) (XInt j) => GRow (map (fun i => cell t i j) (sel_idx r))
  | ItPair (XSel r) (XSel c) => GTable (sub t (sel_idx r) (sel_idx c))
  end.

Lemma get_column_correct b t r j : get_column b t r j = map (fun i => cell t i j) (sel_idx r).
Proof.
  destruct b; simpl.
  - destruct r; reflexivity.
  - unfold N_get_column. rewrite map_map. reflexivity.
  - destruct r; reflexivity.
Qed.

Lemma get_row_sel_correct b t i c : get_row b t i (Some c) = map (fun j => cell t i j) (sel_idx c).
Proof. destruct b; simpl; destruct c; reflexivity. Qed.

Lemma get_row_none_correct b t i :
  wf t -> i < height t -> get_row b t i None = map (fun j => cell t i j) (cols_of t).
Proof. intros Hwf Hi. destruct b; simpl; apply row_cells; assumption. Qed.

Lemma get_subtable_none_correct b t r :
  wf t -> in_range (height t) (sel_idx r) -> get_subtable b t r None = sub t (sel_idx r) (cols_of t).
Proof.
  intros Hwf Hr. destruct b; simpl.
  - unfold L_get_subtable. destruct r; apply (rows_sub t); assumption.
  - unfold N_get_subtable. apply rows_sub; assumption.
  - unfold B_get_subtable. destruct r; apply (rows_sub t); assumption.
Qed.

Lemma get_subtable_sel_correct b t r c : get_subtable b t r (Some c) = sub t (sel_idx r) (sel_idx c).
Proof.
  destruct b; simpl.
  - unfold L_get_subtable. destruct r, c; reflexivity.
  - unfold N_get_subtable. rewrite map_map. reflexivity.
  - unfold B_get_subtable. destruct r, c; reflexivity.
Qed.

Lemma getitem_raw_correct b t it : wf t -> item_ok t it -> getitem_raw b t it = S_raw t it.
Proof.
  intros Hwf Hok. destruct it as [i|s|[i|r] [j|c]]; simpl in *.
  - f_equal. apply get_row_none_correct; assumption.
  - f_equal. apply get_subtable_none_correct; [exact Hwf | exact Hok].
  - destruct b; reflexivity.
  - f_equal. apply get_row_sel_correct.
  - f_equal. apply get_column_correct.
  - f_equal. apply get_subtable_sel_correct.
Qed.

Theorem getitem_correct b t it :
  wf t -> item_ok t it -> getitem b t it = ROk (S_get t it).
Proof.
  intros Hwf Hok. unfold getitem. rewrite getitem_raw_correct by assumption.
  destruct it as [i|s|[i|r] [j|c]]; simpl; try reflexivity.
  - apply observe_ok.
  - apply observe_ok.
Qed.

(* ---------------------------------------------------------------- FormalContext wrappers *)

Lemma width_sub t rs cs : rs <> [] -> width (sub t rs cs) = length cs.
Proof. destruct rs as [|i rs]; [contradiction|]. intros _. simpl. apply map_length. Qed.

Lemma mk_ctx_ok b d on an :
  length on = height d -> length an = width d ->
  mk_ctx b d on an = ROk (VCtx (height d) (width d) d on an).
Proof.
  intros Ho Ha. unfold mk_ctx. rewrite Ho, Ha, !Nat.eqb_refl. simpl.
  rewrite to_list_m_ok. reflexivity.
Qed.

Theorem ctx_getitem_correct b t on an it :
  wf t -> item_ok t it -> length on = height t -> length an = width t ->
  spec_applies t (OCtxGet on an it) = true ->
  ctx_getitem b t on an it = ROk (S_ctx_get t on an it).
Proof.
  intros Hwf Hok Ho Ha Hs. unfold ctx_getitem.
  destruct it as [i|s|[i|r] [j|c]]; simpl in Hs; try discriminate.
  - (* rows s, all columns *)
    cbn [fst snd]. rewrite getitem_raw_correct; [| exact Hwf |].
    2:{ split; [exact Hok|]. simpl. apply cols_of_in_range. }
    cbn [S_raw sel_idx]. fold (cols_of t).
    assert (Hne : sel_idx s <> []) by (destruct (sel_idx s); [discriminate | discriminate]).
    assert (Han : map (fun k => nth k an 0) (cols_of t) = an).
    { unfold cols_of. rewrite <- Ha. apply map_nth_seq. }
    rewrite mk_ctx_ok.
    + simpl. unfold cols_of at 3. rewrite Han. reflexivity.
    + simpl. rewrite map_length, height_sub. reflexivity.
    + simpl. rewrite map_length, width_sub by exact Hne. reflexivity.
  - cbn [fst snd]. rewrite getitem_raw_correct by assumption. reflexivity.
  - cbn [fst snd]. rewrite getitem_raw_correct by assumption. cbn [S_raw S_ctx_get idx_list slice_names].
    apply mk_ctx_ok.
    + rewrite map_length, height_sub. reflexivity.
    + rewrite map_length. destruct (sel_idx r) as [|i0 r0] eqn:Er.
      * destruct (sel_idx c); [reflexivity | discriminate].
      * rewrite width_sub by discriminate. reflexivity.
Qed.

Lemma backend_eqb_refl b : backend_eqb b b = true.
Proof. destruct b; reflexivity. Qed.

Lemma height_S_invert t : height (S_invert t) = height t.
Proof. unfold height, S_invert, rows_of. rewrite map_length, seq_length. reflexivity. Qed.
Lemma height_S_pointwise f t u : height (S_pointwise f t u) = height t.
Proof. unfold height, S_pointwise, rows_of. rewrite map_length, seq_length. reflexivity. Qed.
Lemma width_S_invert t : 0 < height t -> width (S_invert t) = width t.
Proof.
  intros H. unfold S_invert, rows_of. destruct (height t); [lia|]. simpl.
  unfold cols_of. rewrite map_length, seq_length. reflexivity.
Qed.

Lemma height_pos_ne (d : table) : 0 < height d -> d <> [].
Proof. destruct d; simpl; [lia | discriminate]. Qed.

Theorem ctx_T_correct b t on an :
  length on = height t -> length an = width t -> 0 < width t ->
  ctx_T b t on an = ROk (VCtx (height (S_T t)) (width (S_T t)) (S_T t) an on).
Proof.
  intros Ho Ha Hw. unfold ctx_T, init_bintable. rewrite construct_ok. simpl. rewrite T_m_correct.
  apply mk_ctx_ok.
  - rewrite height_S_T. exact Ha.
  - rewrite width_S_T by exact Hw. exact Ho.
Qed.

Theorem ctx_invert_correct b t on an :
  wf t -> length on = height t -> length an = width t -> 0 < height t ->
  ctx_invert b t on an = ROk (VCtx (height (S_invert t)) (width (S_invert t)) (S_invert t) on an).
Proof.
  intros Hwf Ho Ha Hh. unfold ctx_invert, init_bintable. rewrite backend_eqb_refl. simpl.
  rewrite invert_m_correct by exact Hwf. apply mk_ctx_ok.
  - rewrite height_S_invert. exact Ho.
  - rewrite width_S_invert by exact Hh. exact Ha.
Qed.

Theorem ctx_extents_correct b t an :
  ctx_extents b t an
  = ROk (VExt (map (fun jm => (snd jm, map (fun i => cell t i (fst jm)) (rows_of t)))
                   (combine (seq 0 (length an)) an))).
Proof.
  unfold ctx_extents. f_equal. f_equal. apply map_ext. intros [j m]. simpl.
  rewrite get_column_correct. reflexivity.
Qed.

(* ---------------------------------------------------------------- every operation *)

Definition ok_op (t : table) (o : op) : Prop :=
  match o with
  | OAnd u | OOr u | OEq u | OCtxEq u => wf u
  | OAll _ rows cols | OAny _ rows cols
  | OAllI _ rows cols | OAnyI _ rows cols => red_ok t rows cols
  | OSum axis rows cols => red_ok t rows cols /\ sum_ok axis cols
  | OGet it => item_ok t it
  | OCtxGet on an it => item_ok t it /\ length on = height t /\ length an = width t
  | OCtxT on an | OCtxInvert on an => length on = height t /\ length an = width t
  | OCtxExtents an => length an = width t
  | ODeriv 0 arg base | ODeriv 2 arg base => in_range (width t) arg /\ opt_in_range (height t) base
  | ODeriv 1 arg base => in_range (height t) arg /\ opt_in_range (width t) base
  | ODeriv _ arg base => in_range (height t) arg /\ opt_in_range (width t) base /\ NoDup arg
  | _ => True
  end.

Definition proper (t : table) : Prop := wf t /\ 0 < height t /\ 0 < width t.

Theorem run_op_correct b t o :
  proper t -> ok_op t o -> spec_applies t o = true ->
  run_op b t o = spec_op t o.
Proof.
  intros [Hwf [Hh Hw]] Hok Hs.
  assert (Hne : t <> []) by (apply height_pos_ne; exact Hh).
  destruct o; simpl in Hok |- *.
  - reflexivity.
  - reflexivity.
  - reflexivity.
  - reflexivity.
  - rewrite to_list_m_ok. reflexivity.
  - rewrite to_list_m_ok. reflexivity.
  - rewrite T_m_correct. apply observe_ok.
  - rewrite invert_m_correct by exact Hwf. apply observe_ok.
  - rewrite and_m_correct by assumption. destruct (same_shape t u); [|reflexivity]. simpl.
    apply observe_ok.
  - rewrite or_m_correct by assumption. destruct (same_shape t u); [|reflexivity]. simpl.
    apply observe_ok.
  - rewrite eq_m_correct by assumption. reflexivity.
  - apply all_op_correct; assumption.
  - apply any_op_correct; assumption.
  - destruct Hok. apply sum_op_correct; assumption.
  - apply all_i_correct; assumption.
  - apply any_i_correct; assumption.
  - apply getitem_correct; assumption.
  - rewrite conv_op_correct by exact Hne. destruct via as [|via]; destruct target; try reflexivity.
    simpl in Hs. discriminate.
  - destruct Hok as [Hit [Ho Ha]]. apply ctx_getitem_correct; assumption.
  - destruct Hok as [Ho Ha]. apply ctx_T_correct; assumption.
  - destruct Hok as [Ho Ha]. apply ctx_invert_correct; assumption.
  - apply ctx_extents_correct.
  - unfold ctx_eq. rewrite eq_m_correct by assumption. rewrite andb_true_r. reflexivity.
  - (* the derivation operators: Lemmas/C01.v *)
    destruct kind as [|[|[|k]]]; cbn [ok_op spec_applies] in Hok, Hs; cbn [run_op spec_op].
    + destruct Hok. rewrite extension_i_correct by assumption. reflexivity.
    + destruct Hok. rewrite intention_i_correct by assumption. reflexivity.
    + destruct Hok. apply negb_true_iff, Nat.eqb_neq in Hs.
      rewrite extension_mono_correct by assumption. reflexivity.
    + destruct Hok as [? [? ?]]. rewrite intention_mono_correct by assumption. reflexivity.
Qed.

(* where the property does not say what the answer is, the back-ends still give the same *)
Theorem run_op_unconstrained_agree b1 b2 t o :
  proper t -> ok_op t o -> spec_applies t o = false ->
  run_op b1 t o = run_op b2 t o.
Proof.
  intros [Hwf [Hh Hw]] Hok Hs.
  assert (Hne : t <> []) by (apply height_pos_ne; exact Hh).
  destruct o; simpl in Hs; try discriminate.
  - (* init_bintable(table, 'auto') *)
    simpl. rewrite !conv_op_correct by exact Hne.
    destruct via as [|via]; [|discriminate]. destruct target; [discriminate|]. reflexivity.
  - (* context cut by one index, or without rows *)
    destruct Hok as [Hit [Ho Ha]]. simpl. unfold ctx_getitem.
    assert (Hcols : in_range (width t) (seq 0 (width t))) by apply cols_of_in_range.
    destruct it as [i|s|[i|r] [j|c]]; cbn [fst snd]; try discriminate.
    + rewrite !getitem_raw_correct by first [exact Hwf | split; [exact Hit | exact Hcols]]. reflexivity.
    + rewrite !getitem_raw_correct by first [exact Hwf | split; [exact Hit | exact Hcols]].
      cbn [S_raw sel_idx]. destruct (sel_idx s) as [|i0 s0] eqn:Es; [|discriminate].
      simpl. unfold mk_ctx. simpl. rewrite !map_length, seq_length, Es. simpl.
      destruct (width t) as [|w0] eqn:Ew; [lia | reflexivity].
    + rewrite !getitem_raw_correct by assumption. reflexivity.
    + rewrite !getitem_raw_correct by assumption. reflexivity.
    + rewrite !getitem_raw_correct by assumption. cbn [S_raw].
      destruct (sel_idx r) as [|i0 r0] eqn:Er; [|destruct (sel_idx c); discriminate].
      destruct (sel_idx c) as [|j0 c0] eqn:Ec; [discriminate|].
      simpl. unfold mk_ctx. simpl. rewrite Ec. reflexivity.
  - (* monotone extension of the full attribute set: the shortcut returns the base set *)
    destruct kind as [|[|[|k]]]; cbn [spec_applies] in Hs; try discriminate.
    apply negb_false_iff in Hs. cbn [run_op]. unfold extension_monotone_i. rewrite Hs. reflexivity.
Qed.

Theorem backends_interchangeable b1 b2 t o :
  proper t -> ok_op t o -> run_op b1 t o = run_op b2 t o.
Proof.
  intros Hp Hok. destruct (spec_applies t o) eqn:Hs.
  - rewrite (run_op_correct b1), (run_op_correct b2); auto.
  - apply run_op_unconstrained_agree; assumption.
Qed.

(* regression of the repaired defect D51: an empty row selection is an empty table on every back-end *)
Lemma empty_row_selection b t : run_op b t (OGet (ItSel (SList []))) = ROk (VTable 0 0 []).
Proof. destruct b; reflexivity. Qed.

(* ---------------------------------------------------------------- context observers of C01 *)
Theorem context_backend_free b1 b2 t A base :
  wf t ->
  (in_range (width t) A -> opt_in_range (height t) base ->
   extension_i b1 t A base = extension_i b2 t A base) /\
  (in_range (height t) A -> opt_in_range (width t) base ->
   intention_i b1 t A base = intention_i b2 t A base) /\
  (in_range (width t) A -> opt_in_range (height t) base -> length A <> width t ->
   extension_monotone_i b1 t A base = extension_monotone_i b2 t A base) /\
  (in_range (height t) A -> NoDup A -> opt_in_range (width t) base ->
   intention_monotone_i b1 t A base = intention_monotone_i b2 t A base).
Proof.
  intros Hwf. repeat split; intros.
  - rewrite !extension_i_correct by assumption. reflexivity.
  - rewrite !intention_i_correct by assumption. reflexivity.
  - rewrite !extension_mono_correct by assumption. reflexivity.
  - rewrite !intention_mono_correct by assumption. reflexivity.
Qed.

(* why [sum_ok] is there: with a repeated column the bitarray model counts the column once *)
Lemma sum_repeated_columns_differ :
  run_op BLists [[true]] (OSum None None (Some [0; 0])) = ROk (VNat 2) /\
  run_op BNumpy [[true]] (OSum None None (Some [0; 0])) = ROk (VNat 2) /\
  run_op BBitarray [[true]] (OSum None None (Some [0; 0])) = ROk (VNat 1).
Proof. repeat split; vm_compute; reflexivity. Qed.

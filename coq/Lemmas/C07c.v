(* Lemmas/C07c.v — round trips at the value level: many-valued context json, PatternConcept
   json, ConceptLattice json. *)
From FCA Require Import Base.C07_Str Model.C07_Serial Spec.C07_Roundtrip Lemmas.C07a.

(* ------------------------------------------------------------------ pattern-structure codecs *)

Lemma zset_increasing l : z_increasingb l = true -> zset l = l.
Proof.
  induction l as [|x l IH]; intros H; [reflexivity|].
  unfold zset in *. simpl fold_right. destruct l as [|y l]; [reflexivity|].
  simpl in H. apply andb_true_iff in H. destruct H as [H1 H2].
  rewrite IH by exact H2. simpl. rewrite H1. reflexivity.
Qed.

Lemma smap_as_int l : smap as_int (map JInt l) = SOk l.
Proof. apply smap_map_ok. reflexivity. Qed.

Lemma cell_roundtrip p c :
  desc_ok p c = true -> cell_canonb c = true ->
  exists v, cell_to_json p c = SOk v /\ cell_from_json p v = SOk c.
Proof.
  intros Hok Hc. destruct p, c; simpl in Hok; try discriminate; simpl.
  - eexists. split; reflexivity.
  - eexists. split; reflexivity.
  - eexists. split; [reflexivity|]. simpl. rewrite smap_as_int. simpl. rewrite zset_increasing by exact Hc. reflexivity.
  - eexists. split; reflexivity.
  - eexists. split; reflexivity.
  - eexists. split; reflexivity.
Qed.

Lemma cell_ok_desc_ok p c : cell_ok p c = true -> desc_ok p c = true.
Proof. destruct p, c; simpl; intros H; try discriminate; reflexivity. Qed.

(* a whole row *)
Lemma row_roundtrip pts row :
  length row = length pts ->
  forallb (fun pc => desc_ok (fst pc) (snd pc) && cell_canonb (snd pc)) (combine pts row) = true ->
  exists vs, smap2 cell_to_json pts row = SOk vs /\ smap2 cell_from_json pts vs = SOk row
             /\ length vs = length row.
Proof.
  revert row. induction pts as [|p pts IH]; intros [|c row] Hl Hf; simpl in *; try lia.
  - exists []. repeat split; reflexivity.
  - apply andb_true_iff in Hf. destruct Hf as [Hc Hf]. apply andb_true_iff in Hc. destruct Hc as [Hc1 Hc2].
    destruct (cell_roundtrip p c Hc1 Hc2) as [v [Hv1 Hv2]].
    destruct (IH row) as [vs [H1 [H2 H3]]]; [lia | exact Hf|].
    exists (v :: vs). rewrite Hv1, H1. simpl. rewrite Hv2, H2. simpl. rewrite H3. repeat split; reflexivity.
Qed.

Lemma ptype_name_roundtrip p : ptype_of_name (ptype_name p) = SOk p.
Proof. destruct p; reflexivity. Qed.

(* lookups in {name: type for name, type in zip(names, types)} with distinct names *)
Lemma sdict_last_notin {A} k (d : list (str * A)) acc :
  ~ In k (map fst d) -> sdict_last k d acc = acc.
Proof.
  revert acc. induction d as [|[k' v] d IH]; intros acc H; simpl; [reflexivity|].
  rewrite str_eqb_neq by (intros E; apply H; left; symmetry; exact E).
  apply IH. intros Hin. apply H. right. exact Hin.
Qed.

Lemma map_fst_combine {A B} (a : list A) (b : list B) :
  length a = length b -> map fst (combine a b) = a.
Proof. revert b. induction a as [|x a IH]; intros [|y b] H; simpl in *; try lia; [reflexivity|]. f_equal. apply IH. lia. Qed.

Lemma map_snd_combine {A B} (a : list A) (b : list B) :
  length a = length b -> map snd (combine a b) = b.
Proof. revert b. induction a as [|x a IH]; intros [|y b] H; simpl in *; try lia; [reflexivity|]. f_equal. apply IH. lia. Qed.

Lemma smap_ext_in {A B} (f g : A -> sres B) l :
  (forall x, In x l -> f x = g x) -> smap f l = smap g l.
Proof.
  induction l as [|x l IH]; intros H; simpl; [reflexivity|].
  rewrite H by (left; reflexivity). rewrite IH by (intros y Hy; apply H; right; exact Hy). reflexivity.
Qed.

Lemma lookup_all {A} (names : list str) (vals : list A) (pre : list (str * A)) :
  NoDup names -> length names = length vals ->
  (forall k, In k names -> ~ In k (map fst pre)) ->
  smap (fun a => match sdict_last a (pre ++ combine names vals) None with
                 | Some p => SOk p | None => SErr EKey end) names = SOk vals.
Proof.
  revert vals pre. induction names as [|a names IH]; intros [|v vals] pre Hn Hl Hpre; simpl in *; try lia;
    [reflexivity|].
  inversion Hn as [|? ? Ha Hn']; subst.
  assert (X : sdict_last a (pre ++ (a, v) :: combine names vals) None = Some v).
  { assert (G : forall acc, sdict_last a (pre ++ (a, v) :: combine names vals) acc = Some v).
    { clear IH. induction pre as [|[k' v'] pre IHp]; intros acc; simpl.
      - rewrite str_eqb_refl. apply sdict_last_notin. rewrite map_fst_combine by lia. exact Ha.
      - apply IHp. intros k Hk Hin. apply (Hpre k Hk). right. exact Hin. }
    apply G. }
  rewrite X. simpl.
  replace (pre ++ (a, v) :: combine names vals) with ((pre ++ [(a, v)]) ++ combine names vals)
    by (rewrite <- app_assoc; reflexivity).
  rewrite IH; [reflexivity | exact Hn' | lia |].
  intros k Hk Hin. rewrite map_app in Hin. apply in_app_or in Hin. destruct Hin as [Hin|[E|[]]].
  - apply (Hpre k (or_intror Hk)). exact Hin.
  - simpl in E. subst k. contradiction.
Qed.

Lemma lookup_all0 {A} (names : list str) (vals : list A) :
  NoDup names -> length names = length vals ->
  smap (fun a => match sdict_last a (combine names vals) None with
                 | Some p => SOk p | None => SErr EKey end) names = SOk vals.
Proof. intros Hn Hl. apply (lookup_all names vals [] Hn Hl). intros k _ []. Qed.

(* ------------------------------------------------------------------ many-valued context: json *)

Lemma mv_admissible_spec K :
  mv_admissibleb K = true ->
  0 < length (sm_rows K) /\ 0 < length (sm_ptypes K)
  /\ length (sm_onames K) = length (sm_rows K) /\ length (sm_anames K) = length (sm_ptypes K)
  /\ NoDup (sm_anames K)
  /\ forallb (fun row => Nat.eqb (length row) (length (sm_ptypes K))
                         && forallb (fun pc => cell_ok (fst pc) (snd pc) && cell_canonb (snd pc))
                                    (combine (sm_ptypes K) row)) (sm_rows K) = true.
Proof.
  unfold mv_admissibleb. rewrite !andb_true_iff, !Nat.ltb_lt, !Nat.eqb_eq.
  intros [[[[[H1 H2] H3] H4] H5] H6]. repeat split; try assumption. apply str_nodupb_NoDup. exact H5.
Qed.

Lemma rows_roundtrip pts rows :
  forallb (fun row => Nat.eqb (length row) (length pts)
                      && forallb (fun pc => cell_ok (fst pc) (snd pc) && cell_canonb (snd pc))
                                 (combine pts row)) rows = true ->
  exists data,
    smap (fun row => sbind (smap2 cell_to_json pts row)
                           (fun vs => SOk (JObj [(s_PValues, JArr vs)]))) rows = SOk data
    /\ smap (fun line => sbind (as_obj line) (fun ld => sbind (dkey s_PValues ld) (fun pv =>
                sbind (as_arr pv) (fun vs => smap2 cell_from_json pts vs)))) data = SOk rows.
Proof.
  induction rows as [|row rows IH]; intros H; simpl in *.
  - exists []. split; reflexivity.
  - apply andb_true_iff in H. destruct H as [Hr Hrs]. apply andb_true_iff in Hr. destruct Hr as [Hl Hc].
    apply Nat.eqb_eq in Hl.
    destruct (row_roundtrip pts row Hl) as [vs [H1 [H2 _]]].
    { apply forallb_forall. intros pc Hpc. rewrite forallb_forall in Hc. specialize (Hc pc Hpc).
      apply andb_true_iff in Hc. destruct Hc as [Hc1 Hc2]. rewrite (cell_ok_desc_ok _ _ Hc1), Hc2. reflexivity. }
    destruct (IH Hrs) as [data [D1 D2]].
    exists (JObj [(s_PValues, JArr vs)] :: data). rewrite H1. cbn [sbind]. rewrite D1. cbn [sbind].
    split; [reflexivity|].
    set (g := fun line : jv => _) in *.
    assert (G : g (JObj [(s_PValues, JArr vs)]) = smap2 cell_from_json pts vs) by reflexivity.
    cbn [smap]. rewrite G, H2. cbn [sbind]. rewrite D2. reflexivity.
Qed.

Theorem mv_json_roundtrip K :
  mv_admissibleb K = true -> exists v, write_mv_json K = SOk v /\ read_mv_json v = SOk K.
Proof.
  intros Hadm. destruct (mv_admissible_spec K Hadm) as [Hn [Hw [Ho [Ha [Hnd Hrows]]]]].
  destruct K as [on an desc pts rows]. simpl in *.
  destruct (rows_roundtrip pts rows Hrows) as [data [D1 D2]].
  unfold write_mv_json. simpl sm_rows. simpl sm_ptypes. simpl sm_desc. simpl sm_onames. simpl sm_anames.
  rewrite D1. simpl sbind. eexists. split; [reflexivity|].
  unfold read_mv_json.
  set (fields := (match desc with Some d => [(s_Description, JStr d)] | None => [] end)
                 ++ [(s_ObjNames, jstrs on);
                     (s_Params, JObj [(s_AttrNames, jstrs an); (s_PTypes, jstrs (map ptype_name pts))])]).
  change (as_obj (meta_obj desc on an [(s_PTypes, jstrs (map ptype_name pts))])) with (SOk fields).
  cbn [sbind as_obj].
  assert (G1 : dget s_ObjNames fields = Some (jstrs on)) by (unfold fields; destruct desc; reflexivity).
  assert (G2 : dget s_Params fields
               = Some (JObj [(s_AttrNames, jstrs an); (s_PTypes, jstrs (map ptype_name pts))]))
    by (unfold fields; destruct desc; reflexivity).
  assert (G3 : opt_str (dget s_Description fields) = SOk desc) by (unfold fields; destruct desc; reflexivity).
  rewrite G3. cbn [sbind]. rewrite G1, opt_strs_jstrs. cbn [sbind]. rewrite G2. cbn [sbind as_obj].
  change (dget s_AttrNames [(s_AttrNames, jstrs an); (s_PTypes, jstrs (map ptype_name pts))])
    with (Some (jstrs an)).
  rewrite opt_strs_jstrs. cbn [sbind]. unfold dkey at 1.
  change (dget s_PTypes [(s_AttrNames, jstrs an); (s_PTypes, jstrs (map ptype_name pts))])
    with (Some (jstrs (map ptype_name pts))).
  cbn [sbind]. unfold jstrs at 1. cbn [as_arr sbind]. rewrite smap_as_str. cbn [sbind].
  rewrite (smap_map_ok ptype_of_name ptype_name pts ptype_name_roundtrip). cbn [sbind].
  rewrite lookup_all0 by assumption. cbn [sbind].
  change (dkey s_Data [(s_Count, jnat (length rows)); (s_Data, JArr data)]) with (SOk (JArr data)).
  cbn [sbind as_arr]. rewrite D2. cbn [sbind].
  unfold make_mv. rewrite Ho, Nat.eqb_refl. simpl negb.
  assert (Hmk : forallb (fun row => Nat.eqb (length row) (length pts)
                          && forallb (fun pc => cell_ok (fst pc) (snd pc)) (combine pts row)) rows = true).
  { apply forallb_forall. intros row Hrow. pose proof Hrows as Hr'. rewrite forallb_forall in Hr'.
    specialize (Hr' row Hrow). apply andb_true_iff in Hr'. destruct Hr' as [A B]. rewrite A. simpl.
    apply forallb_forall. intros pc Hpc. rewrite forallb_forall in B. specialize (B pc Hpc).
    apply andb_true_iff in B. tauto. }
  destruct rows as [|r0 rows]; [simpl in Hn; lia|].
  assert (Hr0 : length r0 = length pts).
  { simpl in Hrows. apply andb_true_iff in Hrows. destruct Hrows as [Hr _]. apply andb_true_iff in Hr.
    destruct Hr as [Hr _]. apply Nat.eqb_eq in Hr. exact Hr. }
  rewrite Ha, Hr0, Nat.eqb_refl. simpl negb. cbv iota.
  simpl in Hmk. rewrite Hmk. reflexivity.
Qed.

(* Lemmas/C15Sofia.v — the invariants of Sofia's projection chain, for an arbitrary measure
   [mu], an arbitrary set-iteration order [shuffle] (any permutation) and an arbitrary list of
   attribute extents of the right length. *)
From Coq Require Import QArith Permutation.
From FCA Require Import Base.ListSet Model.BinTable Lemmas.BitRow.
From FCA Require Import Model.Sofia Lemmas.C15Bits.
Local Open Scope nat_scope.

Definition least_head (l : list extent) : Prop :=
  match l with
  | [] => False
  | e0 :: r => forall e, In e r -> subset_ba e0 e = true
  end.

Lemma NoDup_app_filter {A} (f : A -> bool) (a b : list A) : NoDup (a ++ b) -> NoDup (a ++ filter f b).
Proof.
  induction a as [|x a IH]; simpl; intros H.
  - apply NoDup_filter. exact H.
  - inversion H; subst. constructor; [|apply IH; assumption].
    intros Hx. apply H2. apply in_app_or in Hx. apply in_or_app.
    destruct Hx as [Hx|Hx]; [left; exact Hx|right]. apply filter_In in Hx. tauto.
Qed.

Lemma NoDup_combine_fst {A B} (l : list A) (l' : list B) : NoDup l -> NoDup (map fst (combine l l')).
Proof.
  revert l'. induction l as [|x l IH]; intros [|y l'] H; simpl; try constructor.
  - inversion H; subst. intros Hx. apply H2.
    apply in_map_iff in Hx. destruct Hx as [[a b] [E Hx]]. simpl in E. subst a.
    eapply in_combine_l. exact Hx.
  - inversion H; subst. apply IH. assumption.
Qed.

Lemma In_combine_fst {A B} (l : list A) (l' : list B) x : In x (map fst (combine l l')) -> In x l.
Proof.
  intros Hx. apply in_map_iff in Hx. destruct Hx as [[a b] [E Hx]]. simpl in E. subst a.
  eapply in_combine_l. exact Hx.
Qed.

Lemma support_filter_cons ms h r :
  support_filter ms (h :: r) = h :: filter (fun e => Qle_bool ms (cntQ e)) r.
Proof. reflexivity. Qed.

Lemma prune_In s vals L e : In e (prune s vals L) -> In e s.
Proof. unfold prune. intros H. apply prune_from_In in H. eapply In_combine_fst. exact H. Qed.

Lemma prune_NoDup s vals L : NoDup s -> NoDup (prune s vals L).
Proof. intros H. unfold prune. apply prune_from_NoDup. apply NoDup_combine_fst. exact H. Qed.

Lemma prune_tl s vals L e : In e (tl (prune s vals L)) -> In e (tl s).
Proof.
  unfold prune. destruct s as [|h r]; [simpl; tauto|]. destruct vals as [|m vr]; [simpl; tauto|].
  cbn [combine]. rewrite prune_head. cbn [tl]. intros H. apply prune_from_In in H.
  eapply In_combine_fst. exact H.
Qed.

Section Core.
  Variable shuffle : list extent -> list extent.
  Variable mu : list extent -> list Q.
  Hypothesis shuffle_perm : forall l, Permutation l (shuffle l).
  Variable n : nat.
  Variable attrs : list extent.
  Hypothesis attrs_len : forall a, In a attrs -> length a = n.
  Variable ms : Q.
  Variable L : nat.
  (* a property of extents that the top has and that intersection with an attribute keeps *)
  Variable P : extent -> Prop.
  Hypothesis P_top : P (repeat true n).
  Hypothesis P_band : forall e a, length e = n -> P e -> In a attrs -> P (band e a).

  Let G := repeat true n.
  Let keep := fun e : extent => Qle_bool ms (cntQ e).

  Record Inv (l : list extent) : Prop := {
    inv_len : forall e, In e l -> length e = n;
    inv_nodup : NoDup l;
    inv_P : forall e, In e l -> P e;
    inv_supp : forall e, In e (tl l) -> keep e = true
  }.

  Record InvM (l : list extent) : Prop := {
    inv_least : least_head l;
    inv_top : In G l;
    inv_limit : length l <= L + 2
  }.

  Lemma Inv_init : Inv [G].
  Proof.
    split.
    - intros e [H|[]]. subst. apply repeat_length.
    - constructor; [intros []|constructor].
    - intros e [H|[]]. subst. exact P_top.
    - intros e [].
  Qed.

  Lemma InvM_init : InvM [G].
  Proof. split; simpl; [intros e []|left; reflexivity|lia]. Qed.

  (* membership in the candidate list of one projection *)
  Lemma candidates_In l a s e :
    sofia_candidates shuffle ms l a = Some s -> In e s ->
    In e l \/ exists e', In e' l /\ e = band e' a.
  Proof.
    unfold sofia_candidates. destruct (ball a); [discriminate|]. destruct (Qlt_b (cntQ a) ms); [discriminate|].
    intros E He. inversion E; subst s; clear E.
    assert (X : In e (sort_by_count (shuffle (dedup (l ++ map (fun e0 => band e0 a) l))))).
    { unfold support_filter in He. apply in_app_or in He. destruct He as [He|He].
      - rewrite <- (firstn_skipn 1). apply in_or_app. left. exact He.
      - apply filter_In in He. rewrite <- (firstn_skipn 1). apply in_or_app. right. tauto. }
    apply (Permutation_in _ (Permutation_sym (sort_by_count_perm _))) in X.
    apply (Permutation_in _ (Permutation_sym (shuffle_perm _))) in X.
    apply (proj1 (dedup_In _ _)) in X. apply in_app_or in X. destruct X as [X|X]; [left; exact X|right].
    apply in_map_iff in X. destruct X as [e' [E He']]. exists e'. split; [exact He'|symmetry; exact E].
  Qed.

  Lemma candidates_Inv l a s :
    sofia_candidates shuffle ms l a = Some s -> In a attrs -> Inv l -> Inv s.
  Proof.
    intros E Ha HI. pose proof (attrs_len a Ha) as La. split.
    - intros e He. destruct (candidates_In l a s e E He) as [H|[e' [H1 H2]]].
      + apply (inv_len l HI). exact H.
      + subst. rewrite band_length, (inv_len l HI e' H1), La. apply Nat.min_id.
    - unfold sofia_candidates in E. destruct (ball a); [discriminate|]. destruct (Qlt_b (cntQ a) ms); [discriminate|].
      inversion E; subst s; clear E. unfold support_filter. apply NoDup_app_filter.
      rewrite firstn_skipn.
      eapply Permutation_NoDup; [apply sort_by_count_perm|].
      eapply Permutation_NoDup; [apply shuffle_perm|]. apply dedup_NoDup.
    - intros e He. destruct (candidates_In l a s e E He) as [H|[e' [H1 H2]]].
      + apply (inv_P l HI). exact H.
      + subst. apply P_band; [apply (inv_len l HI); exact H1|apply (inv_P l HI); exact H1|exact Ha].
    - unfold sofia_candidates in E. destruct (ball a); [discriminate|]. destruct (Qlt_b (cntQ a) ms); [discriminate|].
      inversion E; subst s; clear E.
      destruct (sort_by_count _) as [|h r]; [simpl; tauto|].
      rewrite support_filter_cons. cbn [tl]. intros e He. apply filter_In in He. tauto.
  Qed.

  Lemma step_Inv l a : In a attrs -> Inv l -> Inv (sofia_step shuffle mu ms L l a).
  Proof.
    intros Ha HI. unfold sofia_step. destruct (sofia_candidates shuffle ms l a) as [s|] eqn:E; [|exact HI].
    pose proof (candidates_Inv l a s E Ha HI) as HS.
    destruct (L <? length s); [|exact HS]. split.
    - intros e He. apply (inv_len s HS). eapply prune_In. exact He.
    - apply prune_NoDup. apply (inv_nodup s HS).
    - intros e He. apply (inv_P s HS). eapply prune_In. exact He.
    - intros e He. apply (inv_supp s HS). eapply prune_tl. exact He.
  Qed.

  Lemma fold_Inv as' l : incl as' attrs -> Inv l -> Inv (fold_left (sofia_step shuffle mu ms L) as' l).
  Proof.
    revert l. induction as' as [|a as' IH]; intros l Hi HI; simpl; [exact HI|].
    apply IH; [intros x Hx; apply Hi; right; exact Hx|].
    apply step_Inv; [apply Hi; left; reflexivity|exact HI].
  Qed.

  Theorem sofia_extents_Inv : Inv (sofia_extents shuffle mu n attrs ms L).
  Proof. unfold sofia_extents. apply fold_Inv; [apply incl_refl|apply Inv_init]. Qed.

  (* ---------------- the part that needs a measure value for every extent *)
  Hypothesis mu_len : forall l, length (mu l) = length l.

  Lemma cntQ_le a b : bcount a <= bcount b -> (cntQ a <= cntQ b)%Q.
  Proof. intros H. unfold cntQ. rewrite <- Zle_Qle. apply Nat2Z.inj_le. exact H. Qed.

  (* shape of the candidate list: the least extent first, then the others sorted by support *)
  Lemma candidates_shape l a s e0 rest :
    sofia_candidates shuffle ms l a = Some s -> In a attrs -> Inv l ->
    l = e0 :: rest -> (forall e, In e rest -> subset_ba e0 e = true) -> In G l ->
    exists r, s = band e0 a :: r /\ sorted_cnt s /\
              (forall e, In e r -> subset_ba (band e0 a) e = true) /\ In G s.
  Proof.
    intros E Ha HI El Hleast HG. pose proof (attrs_len a Ha) as La.
    pose proof (candidates_Inv l a s E Ha HI) as HS.
    assert (Le0 : length e0 = n) by (apply (inv_len l HI); rewrite El; left; reflexivity).
    set (m := band e0 a).
    (* m lies inside every candidate *)
    assert (Hm : forall e, In e s -> subset_ba m e = true).
    { intros e He. destruct (candidates_In l a s e E He) as [H|[e' [H1 H2]]].
      - rewrite El in H. destruct H as [H|H].
        + subst e. apply subset_ba_band_l. lia.
        + apply (subset_ba_trans m e0 e).
          * unfold m. rewrite band_length. lia.
          * rewrite Le0. symmetry. apply (inv_len l HI). rewrite El. right. exact H.
          * apply subset_ba_band_l. lia.
          * apply Hleast. exact H.
      - subst e. rewrite El in H1. destruct H1 as [H1|H1].
        + subst e'. apply subset_ba_refl.
        + apply subset_ba_band_mono.
          * rewrite Le0. symmetry. apply (inv_len l HI). rewrite El. right. exact H1.
          * rewrite La. apply (inv_len l HI). rewrite El. right. exact H1.
          * apply Hleast. exact H1. }
    unfold sofia_candidates in E. destruct (ball a); [discriminate|].
    destruct (Qlt_b (cntQ a) ms) eqn:Ems; [discriminate|].
    injection E as E'.
    set (s2 := sort_by_count (shuffle (dedup (l ++ map (fun e => band e a) l)))) in *.
    assert (In2 : forall e, In e s2 <-> In e (l ++ map (fun e => band e a) l)).
    { intros e. unfold s2. split; intros H.
      - apply (proj1 (dedup_In _ _)).
        apply (Permutation_in _ (Permutation_sym (shuffle_perm _))).
        apply (Permutation_in _ (Permutation_sym (sort_by_count_perm _))). exact H.
      - apply (Permutation_in _ (sort_by_count_perm _)).
        apply (Permutation_in _ (shuffle_perm _)). apply (proj2 (dedup_In _ _)). exact H. }
    assert (Hm2 : In m s2).
    { apply In2. apply in_or_app. right. apply in_map_iff. exists e0. split; [reflexivity|].
      rewrite El. left. reflexivity. }
    assert (Hsorted : sorted_cnt s2) by apply sort_by_count_sorted.
    destruct s2 as [|h r] eqn:Es2; [contradiction|].
    rewrite support_filter_cons in E'.
    (* the head of the sorted list is m *)
    assert (Hh : h = m).
    { destruct Hm2 as [Hm2|Hm2]; [exact Hm2|].
      destruct Hsorted as [Hs1 _]. specialize (Hs1 m Hm2).
      assert (Hhs : In h s) by (rewrite <- E'; left; reflexivity).
      assert (Lh : length h = n) by (apply (inv_len s HS); exact Hhs).
      assert (Lm : length m = n) by (unfold m; rewrite band_length; lia).
      symmetry. apply subset_count_eq; [lia| |exact Hs1].
      apply subset_ba_spec; [lia|]. apply Hm. exact Hhs. }
    subst h. exists (filter (fun e => Qle_bool ms (cntQ e)) r). split; [symmetry; exact E'|].
    split; [|split].
    - rewrite <- E'. destruct Hsorted as [Hs1 Hs2]. split.
      + intros y Hy. apply filter_In in Hy. apply Hs1. tauto.
      + apply sorted_cnt_filter. exact Hs2.
    - intros e He. apply Hm. rewrite <- E'. right. exact He.
    - rewrite <- E'.
      assert (HG2 : In G (m :: r)) by (apply In2; apply in_or_app; left; exact HG).
      destruct HG2 as [HG2|HG2]; [left; exact HG2|right].
      apply filter_In. split; [exact HG2|].
      (* ms <= count a <= n = count G *)
      unfold Qlt_b in Ems. apply negb_false_iff in Ems. apply Qle_bool_iff in Ems.
      apply Qle_bool_iff. eapply Qle_trans; [exact Ems|]. apply cntQ_le.
      unfold G. rewrite bcount_repeat_true. rewrite <- La. apply bcount_le_length.
  Qed.

  Lemma step_InvM l a : In a attrs -> Inv l -> InvM l -> InvM (sofia_step shuffle mu ms L l a).
  Proof.
    intros Ha HI HM. unfold sofia_step.
    destruct (sofia_candidates shuffle ms l a) as [s|] eqn:E; [|exact HM].
    destruct l as [|e0 rest]; [destruct (inv_least _ HM)|].
    destruct (candidates_shape (e0 :: rest) a s e0 rest E Ha HI eq_refl (inv_least _ HM) (inv_top _ HM))
      as [r [Es [Hsorted [Hleast HGs]]]].
    pose proof (candidates_Inv _ a s E Ha HI) as HS.
    destruct (L <? length s) eqn:EL.
    - apply Nat.ltb_lt in EL.
      pose proof (mu_len s) as Lmu.
      unfold prune. subst s. destruct (mu (band e0 a :: r)) as [|m0 vr] eqn:Emu; [simpl in Lmu; lia|].
      assert (Lc : length (band e0 a :: r) = length (m0 :: vr)) by (symmetry; exact Lmu).
      assert (EL' : L < length (m0 :: vr)) by (rewrite <- Lc; exact EL).
      split.
      + cbn [combine]. rewrite prune_head.
        intros e He. apply Hleast. apply prune_from_In in He. eapply In_combine_fst. exact He.
      + (* G is the last candidate, and the last one is kept *)
        assert (Hlast : last (band e0 a :: r) [] = G).
        { pose proof (sorted_cnt_last _ [] G Hsorted HGs) as Hc.
          assert (Hin : In (last (band e0 a :: r) []) (band e0 a :: r)) by (apply last_In; discriminate).
          pose proof (inv_len _ HS _ Hin) as Ll.
          unfold G in Hc. rewrite bcount_repeat_true in Hc.
          pose proof (bcount_le_length (last (band e0 a :: r) [])) as Hb.
          unfold G. rewrite <- Ll. apply bcount_full. apply Nat.le_antisymm; [exact Hb|]. eapply Nat.le_trans; [|exact Hc]. apply Nat.eq_le_incl. exact Ll. }
        rewrite <- Hlast.
        rewrite <- (last_combine_fst (band e0 a :: r) (m0 :: vr) [] 0%Q); [|exact Lc|discriminate].
        apply prune_from_keeps_last.
        * discriminate.
        * rewrite combine_length, <- Lc, Nat.min_id. cbn [length]. simpl. rewrite Nat.sub_0_r. reflexivity.
      + eapply Nat.le_trans; [apply prune_from_length|].
        rewrite combine_map_snd by exact Lc.
        pose proof (count_gt_threshold (m0 :: vr) L EL') as Hc.
        cbn [Nat.eqb]. destruct (_ && _); lia.
    - apply Nat.ltb_ge in EL. subst s. split.
      + exact Hleast.
      + exact HGs.
      + lia.
  Qed.

  Lemma fold_InvM as' l : incl as' attrs -> Inv l -> InvM l ->
    InvM (fold_left (sofia_step shuffle mu ms L) as' l).
  Proof.
    revert l. induction as' as [|a as' IH]; intros l Hi HI HM; simpl; [exact HM|].
    assert (Ha : In a attrs) by (apply Hi; left; reflexivity).
    apply IH; [intros x Hx; apply Hi; right; exact Hx|apply step_Inv; assumption|apply step_InvM; assumption].
  Qed.

  Theorem sofia_extents_InvM : InvM (sofia_extents shuffle mu n attrs ms L).
  Proof. unfold sofia_extents. apply fold_InvM; [apply incl_refl|apply Inv_init|apply InvM_init]. Qed.
End Core.

(* Lemmas/C02_LindigComplete.v — completeness of Lindig's algorithm, for EVERY iteration order of
   the candidate set that is a permutation of it and EVERY choice of the work-set element.
     neighbour lemma   for a closed extent E and any closed C strictly above it, the shrinking-
                       [reps] loop of direct_super_concepts returns a neighbour N with
                       E < N <= C (N = (E+g)'' of minimal size among the candidates inside C;
                       all its generators generate the same N, the one visited last is accepted);
     reachability      every processed concept has all its neighbours recorded, so every closed
                       set is reached from the bottom concept by a finite chain of neighbours.
   Together with Lemmas/C02_Lindig.v (soundness, no duplicates, termination within the fuel):
   Lindig returns every concept exactly once and nothing else, in both iteration directions. *)
From Coq Require Import Permutation.
From FCA Require Import Base.ListSet Model.BinTable Model.FormalContext Model.ConceptConstruction
     Spec.Galois Spec.Closure Lemmas.BitRow Lemmas.C01 Lemmas.C02 Lemmas.C02_Sofia Lemmas.C02_CbOModel
     Lemmas.C02_Lindig.

(* ------------------------------------------------------------ canonical lists *)

Lemma sublists_NoDup (s l : list nat) : NoDup s -> In l (sublists s) -> NoDup l.
Proof.
  revert l. induction s as [|x s IH]; intros l Hs Hl; simpl in Hl.
  - destruct Hl as [<-|[]]. constructor.
  - inversion Hs; subst. apply in_app_or in Hl. destruct Hl as [Hl|Hl]; [apply IH; assumption|].
    apply in_map_iff in Hl. destruct Hl as [l0 [<- Hl0]]. constructor; [|apply IH; assumption].
    intros Hx. apply (In_sublists s l0 Hl0) in Hx. contradiction.
Qed.

Lemma sublists_same_set_eq (s l l' : list nat) :
  NoDup s -> In l (sublists s) -> In l' (sublists s) -> same_set l l' -> l = l'.
Proof.
  revert l l'. induction s as [|x s IH]; intros l l' Hs Hl Hl' Hss; simpl in Hl, Hl'.
  - destruct Hl as [<-|[]]. destruct Hl' as [<-|[]]. reflexivity.
  - inversion Hs; subst.
    apply in_app_or in Hl. apply in_app_or in Hl'.
    destruct Hl as [Hl|Hl], Hl' as [Hl'|Hl'].
    + apply IH; assumption.
    + exfalso. apply in_map_iff in Hl'. destruct Hl' as [l0 [<- _]].
      apply H1. apply (In_sublists s l Hl). apply Hss. left. reflexivity.
    + exfalso. apply in_map_iff in Hl. destruct Hl as [l0 [<- _]].
      apply H1. apply (In_sublists s l' Hl'). apply Hss. left. reflexivity.
    + apply in_map_iff in Hl. destruct Hl as [l0 [<- Hl0]].
      apply in_map_iff in Hl'. destruct Hl' as [l0' [<- Hl0']].
      f_equal. apply IH; try assumption. intros y. split; intros Hy.
      * assert (In y (x :: l0')) by (apply Hss; right; exact Hy).
        destruct H as [->|H]; [|exact H]. exfalso. apply H1. apply (In_sublists s l0 Hl0). exact Hy.
      * assert (In y (x :: l0)) by (apply Hss; right; exact Hy).
        destruct H as [->|H]; [|exact H]. exfalso. apply H1. apply (In_sublists s l0' Hl0'). exact Hy.
Qed.

Lemma forallb_false_witness {A} (p : A -> bool) l :
  forallb p l = false -> exists x, In x l /\ p x = false.
Proof.
  induction l as [|a l IH]; simpl; [discriminate|]. destruct (p a) eqn:E.
  - simpl. intros H. destruct (IH H) as [x [Hx Hp]]. exists x. auto.
  - intros _. exists a. auto.
Qed.

Lemma argmin_exists {A} (f : A -> nat) (l : list A) :
  l <> [] -> exists a, In a l /\ forall b, In b l -> f a <= f b.
Proof.
  induction l as [|x l IH]; [congruence|]. intros _. destruct l as [|y l'].
  - exists x. split; [left; reflexivity|]. intros b [<-|[]]. lia.
  - destruct IH as [a [Ha Hmin]]; [discriminate|].
    destruct (Nat.le_gt_cases (f x) (f a)) as [Hle|Hgt].
    + exists x. split; [left; reflexivity|]. intros b [<-|Hb]; [lia|]. specialize (Hmin b Hb). lia.
    + exists a. split; [right; exact Ha|]. intros b [<-|Hb]; [lia | apply Hmin; exact Hb].
Qed.

Lemma two_in_long (l : list nat) g :
  NoDup l -> In g l -> length l <> 1 -> exists h, In h l /\ h <> g.
Proof.
  intros Hnd Hg Hl. destruct l as [|a [|b l']]; [destruct Hg | simpl in Hl; lia |].
  inversion Hnd; subst. destruct (Nat.eq_dec a g) as [->|ne].
  - exists b. split; [right; left; reflexivity|]. intros ->. apply H1. left. reflexivity.
  - exists a. split; [left; reflexivity | exact ne].
Qed.

Section Complete.
Variable sd : lindig_side.
Variable ord : list nat -> list nat.
Variable pick : list fconcept -> nat.
Hypothesis Hperm : forall l, Permutation (ord l) l.
Hypothesis Hpick : forall q, q <> [] -> pick q < length q.
Hypothesis Hint_r : forall A, in_range (s_n sd) A -> in_range (s_w sd) (s_int sd A).
Hypothesis Hext_r : forall B, in_range (s_w sd) B -> in_range (s_n sd) (s_ext sd B).
Hypothesis Hiei : forall A, in_range (s_n sd) A -> s_int sd (s_ext sd (s_int sd A)) = s_int sd A.
Hypothesis Hext_sub : forall B, in_range (s_w sd) B -> In (s_ext sd B) (sublists (seq 0 (s_n sd))).

Let n := s_n sd.
Definition cl (A : list nat) : list nat := s_ext sd (s_int sd A).

Hypothesis Hextensive : forall A, in_range n A -> incl A (cl A).
Hypothesis Hmonotone : forall A A', in_range n A -> in_range n A' -> incl A A' -> incl (cl A) (cl A').

Lemma Hord : forall l, incl (ord l) l.
Proof. intros l x Hx. eapply Permutation_in; [apply Hperm | exact Hx]. Qed.

Definition canonical (E : list nat) : Prop := In E (sublists (seq 0 n)).

Lemma canonical_range E : canonical E -> in_range n E.
Proof. intros H x Hx. apply (In_sublists _ _ H) in Hx. apply in_seq in Hx. lia. Qed.

Lemma canonical_NoDup E : canonical E -> NoDup E.
Proof. apply sublists_NoDup. apply seq_NoDup. Qed.

Lemma canonical_eq E E' : canonical E -> canonical E' -> same_set E E' -> E = E'.
Proof. apply sublists_same_set_eq. apply seq_NoDup. Qed.

Lemma cl_canonical A : in_range n A -> canonical (cl A).
Proof. intros HA. apply Hext_sub, Hint_r, HA. Qed.

Lemma cl_range A : in_range n A -> in_range n (cl A).
Proof. intros HA. apply canonical_range, cl_canonical, HA. Qed.

Lemma cl_idem A : in_range n A -> cl (cl A) = cl A.
Proof. intros HA. unfold cl. rewrite Hiei by exact HA. reflexivity. Qed.

Lemma app_range E g : in_range n E -> g < n -> in_range n (E ++ [g]).
Proof. intros HE Hg x Hx. apply in_app_or in Hx. destruct Hx as [Hx|[<-|[]]]; [apply HE; exact Hx | exact Hg]. Qed.

(* ------------------------------------------------------------ the neighbour loop *)

Lemma dsc_loop_acc_incl E todo : forall reps acc, incl acc (dsc_loop sd E todo reps acc).
Proof.
  induction todo as [|g todo IH]; intros reps acc; simpl; [apply incl_refl|].
  destruct (Nat.eqb _ 1).
  - intros x Hx. apply IH. apply in_or_app. left. exact Hx.
  - apply IH.
Qed.

Lemma dsc_loop_finds E S Nstar :
  in_range n E ->
  (forall h, In h S -> h < n /\ cl (E ++ [h]) = Nstar) ->
  (forall r, In r Nstar -> ~ In r E -> In r S) ->
  forall todo reps acc,
    NoDup todo -> NoDup reps -> incl todo reps -> (forall r, In r reps -> ~ In r E) ->
    (forall h, In h S -> In h todo \/ ~ In h reps) ->
    (exists h, In h S /\ In h todo) ->
    exists x, In x (dsc_loop sd E todo reps acc) /\ c_ext_i x = Nstar.
Proof.
  intros HE HS HN. induction todo as [|g todo IH]; intros reps acc Hnt Hnr Hincl Hdis HI1 [h0 [Hh0S Hh0t]];
    [destruct Hh0t|].
  inversion Hnt as [|? ? Hgt Hnt']; subst.
  assert (Hgr : In g reps) by (apply Hincl; left; reflexivity).
  cbn [dsc_loop]. fold (cl (E ++ [g])).
  set (G := cl (E ++ [g])). set (M := s_int sd (E ++ [g])).
  (* the invariants for the tail when g is removed from reps *)
  assert (Hrem : forall reps', reps' = filter (fun r => negb (Nat.eqb r g)) reps ->
            NoDup reps' /\ incl todo reps' /\ (forall r, In r reps' -> ~ In r E) /\
            (forall h, In h S -> In h todo \/ ~ In h reps')).
  { intros reps' ->. split; [apply NoDup_filter; exact Hnr|]. split; [|split].
    - intros x Hx. apply filter_In. split; [apply Hincl; right; exact Hx|].
      apply negb_true_iff, Nat.eqb_neq. intros ->. contradiction.
    - intros r Hr. apply filter_In in Hr. apply Hdis. tauto.
    - intros h Hh. destruct (HI1 h Hh) as [[<-|Hht]|Hnr'].
      + right. intros Hf. apply filter_In in Hf. destruct Hf as [_ Hf].
        apply negb_true_iff, Nat.eqb_neq in Hf. congruence.
      + left. exact Hht.
      + right. intros Hf. apply filter_In in Hf. tauto. }
  assert (Hkeep : incl todo reps /\ (forall h, In h S -> h <> g -> In h todo \/ ~ In h reps)).
  { split; [intros x Hx; apply Hincl; right; exact Hx|].
    intros h Hh Hne. destruct (HI1 h Hh) as [[<-|Hht]|Hnr']; [congruence | auto | auto]. }
  destruct (in_dec Nat.eq_dec g S) as [HgS|HgS].
  - (* g generates N* *)
    destruct (HS g HgS) as [Hgn EG]. fold G in EG.
    destruct (Nat.eqb (length (filter (fun r => mem r G) reps)) 1) eqn:Ec.
    + exists (side_concept sd G M). split; [|simpl; exact EG].
      apply dsc_loop_acc_incl. apply in_or_app. right. left. reflexivity.
    + apply Nat.eqb_neq in Ec.
      assert (Hgf : In g (filter (fun r => mem r G) reps)).
      { apply filter_In. split; [exact Hgr|]. apply mem_In. unfold G.
        apply Hextensive; [apply app_range; assumption|]. apply in_or_app. right. left. reflexivity. }
      destruct (two_in_long _ g (NoDup_filter _ Hnr) Hgf Ec) as [h [Hhf Hne]].
      apply filter_In in Hhf. destruct Hhf as [Hhr HhG]. apply mem_In in HhG. rewrite EG in HhG.
      assert (HhS : In h S) by (apply HN; [exact HhG | apply Hdis; exact Hhr]).
      assert (Hht : In h todo).
      { destruct (HI1 h HhS) as [[->|Hht]|Hnr']; [congruence | exact Hht | contradiction]. }
      destruct (Hrem _ eq_refl) as [R1 [R2 [R3 R4]]].
      apply IH; try assumption. exists h. auto.
  - (* g is irrelevant for N*: whatever happens to it, the invariants survive *)
    assert (Hh0 : In h0 todo) by (destruct Hh0t as [->|H]; [contradiction | exact H]).
    destruct (Nat.eqb (length (filter (fun r => mem r G) reps)) 1).
    + destruct Hkeep as [K1 K2]. apply IH; try assumption.
      * intros h Hh. apply K2; [exact Hh | intros ->; contradiction].
      * exists h0. auto.
    + destruct (Hrem _ eq_refl) as [R1 [R2 [R3 R4]]].
      apply IH; try assumption. exists h0. auto.
Qed.

(* the neighbour lemma in the form completeness needs *)
Lemma neighbour_below c C :
  canonical (c_ext_i c) -> cl (c_ext_i c) = c_ext_i c ->
  canonical C -> cl C = C -> incl (c_ext_i c) C -> ~ incl C (c_ext_i c) ->
  exists x, In x (direct_super_concepts sd ord c) /\ incl (c_ext_i x) C /\
            incl (c_ext_i c) (c_ext_i x) /\ exists g, In g (c_ext_i x) /\ ~ In g (c_ext_i c).
Proof.
  set (E := c_ext_i c). intros HEc HEcl HCc HCcl HEC HnCE.
  pose proof (canonical_range E HEc) as HEr. pose proof (canonical_range C HCc) as HCr.
  (* candidates inside C *)
  set (D := filter (fun g => negb (mem g E)) C).
  assert (HD : D <> []).
  { destruct (forallb (fun x => mem x E) C) eqn:Ef.
    - exfalso. apply HnCE. intros x Hx. rewrite forallb_forall in Ef. apply mem_In, Ef, Hx.
    - apply forallb_false_witness in Ef. destruct Ef as [x [Hx Hm]].
      intros HDn. assert (In x D) by (apply filter_In; split; [exact Hx | rewrite Hm; reflexivity]).
      rewrite HDn in H. destruct H. }
  destruct (argmin_exists (fun g => length (cl (E ++ [g]))) D HD) as [gs [Hgs Hmin]].
  apply filter_In in Hgs. destruct Hgs as [HgsC HgsE]. apply negb_true_iff, mem_false_iff in HgsE.
  assert (Hgsn : gs < n) by (apply HCr; exact HgsC).
  set (Ns := cl (E ++ [gs])).
  assert (HNsC : incl Ns C).
  { rewrite <- HCcl. apply Hmonotone; [apply app_range; assumption | exact HCr |].
    intros x Hx. apply in_app_or in Hx. destruct Hx as [Hx|[<-|[]]]; [apply HEC; exact Hx | exact HgsC]. }
  assert (HENs : incl (E ++ [gs]) Ns) by (apply Hextensive; apply app_range; assumption).
  assert (HNsr : in_range n Ns) by (apply cl_range; apply app_range; assumption).
  set (S := filter (fun h => negb (mem h E)) Ns).
  assert (HS : forall h, In h S -> h < n /\ cl (E ++ [h]) = Ns).
  { intros h Hh. apply filter_In in Hh. destruct Hh as [HhN HhE]. apply negb_true_iff, mem_false_iff in HhE.
    assert (Hhn : h < n) by (apply HNsr; exact HhN). split; [exact Hhn|].
    assert (Hsub : incl (cl (E ++ [h])) Ns).
    { unfold Ns. rewrite <- (cl_idem (E ++ [gs])) by (apply app_range; assumption).
      apply Hmonotone; [apply app_range; assumption | exact HNsr |].
      intros x Hx. apply in_app_or in Hx. destruct Hx as [Hx|[<-|[]]]; [|exact HhN].
      apply HENs. apply in_or_app. left. exact Hx. }
    assert (HhD : In h D).
    { apply filter_In. split; [apply HNsC; exact HhN|]. apply negb_true_iff, mem_false_iff. exact HhE. }
    specialize (Hmin h HhD). cbv beta in Hmin. fold Ns in Hmin.
    apply canonical_eq; [apply cl_canonical; apply app_range; assumption
                        | apply cl_canonical; apply app_range; assumption |].
    intros x. split; [apply Hsub|].
    apply NoDup_length_incl; [apply canonical_NoDup, cl_canonical; apply app_range; assumption
                             | exact Hmin | exact Hsub]. }
  assert (HN : forall r, In r Ns -> ~ In r E -> In r S).
  { intros r Hr HrE. apply filter_In. split; [exact Hr|]. apply negb_true_iff, mem_false_iff. exact HrE. }
  assert (HgsS : In gs S).
  { apply HN; [|exact HgsE]. apply HENs. apply in_or_app. right. left. reflexivity. }
  unfold direct_super_concepts. fold E.
  set (reps0 := filter (fun g => negb (mem g E)) (seq 0 (s_n sd))).
  assert (Hr0 : forall h, h < n -> ~ In h E -> In h reps0).
  { intros h Hh HhE. apply filter_In. split; [apply in_seq; unfold n in Hh; lia|].
    apply negb_true_iff, mem_false_iff. exact HhE. }
  destruct (dsc_loop_finds E S Ns HEr HS HN (ord reps0) reps0 []) as [x [Hx Ex]].
  - eapply Permutation_NoDup; [apply Permutation_sym, Hperm|]. apply NoDup_filter, seq_NoDup.
  - apply NoDup_filter, seq_NoDup.
  - apply Hord.
  - intros r Hr. apply filter_In in Hr. destruct Hr as [_ Hr]. apply negb_true_iff, mem_false_iff in Hr. exact Hr.
  - intros h Hh. left. eapply Permutation_in; [apply Permutation_sym, Hperm|].
    destruct (HS h Hh) as [Hhn _]. apply Hr0; [exact Hhn|].
    apply filter_In in Hh. destruct Hh as [_ Hh]. apply negb_true_iff, mem_false_iff in Hh. exact Hh.
  - exists gs. split; [exact HgsS|]. eapply Permutation_in; [apply Permutation_sym, Hperm|].
    apply Hr0; assumption.
  - exists x. split; [exact Hx|]. rewrite Ex. split; [exact HNsC|]. split.
    + intros y Hy. apply HENs. apply in_or_app. left. exact Hy.
    + exists gs. split; [|exact HgsE]. apply HENs. apply in_or_app. right. left. reflexivity.
Qed.

(* ------------------------------------------------------------ the work-set loop *)

Definition extents (cs : list fconcept) : list (list nat) := map c_ext_i cs.

Lemma dsc_ext_eq c c' :
  c_ext_i c = c_ext_i c' -> direct_super_concepts sd ord c = direct_super_concepts sd ord c'.
Proof. intros E. unfold direct_super_concepts. rewrite E. reflexivity. Qed.

Definition processed (concepts queue : list fconcept) : Prop :=
  forall c, In c concepts ->
    In (c_ext_i c) (extents queue) \/
    forall x, In x (direct_super_concepts sd ord c) -> In (c_ext_i x) (extents concepts).

Lemma absorb_facts dsups : forall concepts queue concepts' queue',
  absorb dsups concepts queue = (concepts', queue') ->
  incl concepts concepts' /\ incl queue queue' /\
  (forall x, In x dsups -> In (c_ext_i x) (extents concepts')) /\
  (forall c, In c concepts' -> In c concepts \/ In c queue').
Proof.
  induction dsups as [|x rest IH]; intros cs q cs' q' E; simpl in E.
  - inversion E; subst. repeat split; try apply incl_refl; [intros x [] | auto].
  - destruct (known cs x) eqn:Ek.
    + destruct (IH _ _ _ _ E) as [I1 [I2 [I3 I4]]]. repeat split; try assumption.
      intros y [<-|Hy]; [|apply I3; exact Hy].
      apply known_In in Ek. unfold extents. apply in_map_iff in Ek. destruct Ek as [c [Ec Hc]].
      rewrite <- Ec. apply in_map. apply I1. exact Hc.
    + destruct (IH _ _ _ _ E) as [I1 [I2 [I3 I4]]]. repeat split.
      * intros y Hy. apply I1. apply in_or_app. left. exact Hy.
      * intros y Hy. apply I2. apply in_or_app. left. exact Hy.
      * intros y [<-|Hy]; [|apply I3; exact Hy]. apply in_map. apply I1. apply in_or_app. right. left. reflexivity.
      * intros c Hc. destruct (I4 c Hc) as [H|H]; [|auto].
        apply in_app_or in H. destruct H as [H|[<-|[]]]; [auto|].
        right. apply I2. apply in_or_app. right. left. reflexivity.
Qed.

Lemma in_remove_nth {A} (l : list A) k d x :
  In x l -> x = nth k l d \/ In x (remove_nth k l).
Proof.
  revert k. induction l as [|a l IH]; intros k Hx; [destruct Hx|].
  destruct k as [|k].
  - destruct Hx as [<-|Hx]; [left; reflexivity | right; exact Hx].
  - destruct Hx as [<-|Hx]; [right; left; reflexivity|].
    destruct (IH k Hx) as [H|H]; [left; exact H | right; right; exact H].
Qed.

Lemma lindig_loop_processed fuel : forall concepts queue cs,
  processed concepts queue ->
  lindig_loop fuel sd ord pick concepts queue = Some cs ->
  incl concepts cs /\ processed cs [].
Proof.
  induction fuel as [|fuel IH]; intros concepts queue cs Hp E.
  - destruct queue; simpl in E; [inversion E; subst; split; [apply incl_refl | exact Hp] | discriminate].
  - destruct queue as [|q0 qs]; [simpl in E; inversion E; subst; split; [apply incl_refl | exact Hp]|].
    cbn [lindig_loop] in E.
    set (k := pick (q0 :: qs)) in *. set (c := nth k (q0 :: qs) q0) in *.
    destruct (absorb (direct_super_concepts sd ord c) concepts (remove_nth k (q0 :: qs)))
      as [concepts' queue''] eqn:Ea.
    destruct (absorb_facts _ _ _ _ _ Ea) as [I1 [I2 [I3 I4]]].
    destruct (IH concepts' queue'' cs) as [J1 J2]; [|exact E|].
    + intros c1 Hc1. destruct (I4 c1 Hc1) as [Hold|Hnew].
      * destruct (Hp c1 Hold) as [Hq|Hd].
        -- unfold extents in Hq. apply in_map_iff in Hq. destruct Hq as [q [Eq Hq]].
           destruct (in_remove_nth (q0 :: qs) k q0 q Hq) as [Hpop|Hrest].
           ++ right. intros x Hx. apply I3. rewrite (dsc_ext_eq c c1); [exact Hx|].
              unfold c. rewrite <- Hpop. exact Eq.
           ++ left. unfold extents. rewrite <- Eq. apply in_map. apply I2. exact Hrest.
        -- right. intros x Hx. specialize (Hd x Hx). unfold extents in *.
           apply in_map_iff in Hd. destruct Hd as [c2 [E2 Hc2]]. rewrite <- E2. apply in_map. apply I1. exact Hc2.
      * left. apply in_map. exact Hnew.
    + split; [|exact J2]. intros x Hx. apply J1, I1, Hx.
Qed.

(* every closed canonical set is among the extents returned *)
Lemma closed_reached cs :
  Forall (side_good sd) cs -> processed cs [] ->
  forall C, canonical C -> cl C = C ->
  forall m E, In E (extents cs) -> incl E C -> length C <= length E + m -> In C (extents cs).
Proof.
  intros Hg Hp C HCc HCcl. induction m as [|m IH]; intros E HE HEC Hlen.
  - assert (Hcan : canonical E).
    { unfold extents in HE. apply in_map_iff in HE. destruct HE as [c [<- Hc]].
      rewrite Forall_forall in Hg. apply (Hg c Hc). }
    replace C with E; [exact HE|]. apply canonical_eq; try assumption.
    intros x. split; [apply HEC|]. apply NoDup_length_incl; [apply canonical_NoDup; exact Hcan | lia | exact HEC].
  - unfold extents in HE. apply in_map_iff in HE. destruct HE as [c [Ec Hc]].
    pose proof Hg as Hg'. rewrite Forall_forall in Hg'. destruct (Hg' c Hc) as [[Hr Hcan] [He [Hi _]]].
    rewrite Ec in *.
    assert (Hcl : cl E = E).
    { unfold cl. rewrite <- Hi. symmetry. exact He. }
    destruct (forallb (fun x => mem x E) C) eqn:Ef.
    + rewrite forallb_forall in Ef. replace C with E; [unfold extents; rewrite <- Ec; apply in_map; exact Hc|].
      apply canonical_eq; try assumption. intros x. split; [apply HEC|]. intros Hx. apply mem_In, Ef, Hx.
    + assert (HnCE : ~ incl C E).
      { intros H. apply forallb_false_witness in Ef. destruct Ef as [x [Hx Hm]].
        apply mem_false_iff in Hm. apply Hm, H, Hx. }
      destruct (neighbour_below c C) as [x [Hx [HxC [HEx [g [Hgx HgE]]]]]]; try (rewrite Ec; assumption); try assumption.
      destruct (Hp c Hc) as [[]|Hd]. specialize (Hd x Hx).
      apply (IH (c_ext_i x)); [exact Hd | exact HxC |].
      assert (Hxcan : NoDup (c_ext_i x)).
      { unfold extents in Hd. apply in_map_iff in Hd. destruct Hd as [c2 [E2 Hc2]]. rewrite <- E2.
        apply canonical_NoDup. apply (Hg' c2 Hc2). }
      assert (length (g :: E) <= length (c_ext_i x)).
      { apply NoDup_incl_length.
        - constructor; [rewrite <- Ec; exact HgE | apply canonical_NoDup; exact Hcan].
        - intros y [<-|Hy]; [exact Hgx | apply HEx; rewrite Ec; exact Hy]. }
      simpl in H. lia.
Qed.

End Complete.

(* ------------------------------------------------------------ the run from the bottom concept *)

Definition closure_hyps (sd : lindig_side) : Prop :=
  (forall A, in_range (s_n sd) A -> incl A (cl sd A)) /\
  (forall A A', in_range (s_n sd) A -> in_range (s_n sd) A' -> incl A A' -> incl (cl sd A) (cl sd A')).

Lemma lindig_run_complete sd ord pick :
  side_hyps sd -> closure_hyps sd ->
  (forall l, Permutation (ord l) l) -> (forall q, q <> [] -> pick q < length q) ->
  let c := side_concept sd (s_ext sd (seq 0 (s_w sd))) (seq 0 (s_w sd)) in
  exists cs, lindig_loop (2 ^ s_n sd + 1) sd ord pick [c] [c] = Some cs /\
             Forall (side_good sd) cs /\ NoDup (map c_ext_i cs) /\
             forall C, canonical sd C -> cl sd C = C -> In C (map c_ext_i cs).
Proof.
  intros Hs [Hx Hm] Hperm Hpick c.
  assert (Hord : forall l, incl (ord l) l).
  { intros l x Hxl. eapply Permutation_in; [apply Hperm | exact Hxl]. }
  destruct (lindig_run sd ord pick Hs Hord Hpick) as [cs [El [Hg Hnd]]]. cbv zeta in El. fold c in El.
  destruct Hs as [H1 [H2 [H3 [H4 H5]]]].
  exists cs. split; [exact El|]. split; [exact Hg|]. split; [exact Hnd|].
  intros C HCc HCcl.
  destruct (lindig_loop_processed sd ord pick (2 ^ s_n sd + 1) [c] [c] cs) as [Hincl Hproc]; [|exact El|].
  { intros c1 [<-|[]]. left. left. reflexivity. }
  apply (closed_reached sd ord Hperm H1 H3 H4 Hx Hm cs Hg Hproc C HCc HCcl (length C) (c_ext_i c)).
  - apply in_map. apply Hincl. left. reflexivity.
  - unfold c. cbn [c_ext_i side_concept]. rewrite H5. rewrite <- HCcl.
    apply Hm; [intros x [] | | intros x []].
    intros x Hxc. apply (In_sublists _ _ HCc) in Hxc. apply in_seq in Hxc. lia.
  - lia.
Qed.

Lemma closure_hyps_true K : wf (k_table K) -> closure_hyps (side_of K true).
Proof.
  intros Hwf. unfold closure_hyps, cl. cbn [side_of s_n s_w s_int s_ext]. split.
  - intros A HA. rewrite K_int_spec by assumption. rewrite K_ext_spec by (try assumption; apply int_in_range).
    apply ext_int_extensive. exact HA.
  - intros A A' HA HA' Hi. rewrite !K_int_spec by assumption.
    rewrite !K_ext_spec by (try assumption; apply int_in_range).
    apply ext_antitone, int_antitone, Hi.
Qed.

Lemma closure_hyps_false K : wf (k_table K) -> closure_hyps (side_of K false).
Proof.
  intros Hwf. unfold closure_hyps, cl. cbn [side_of s_n s_w s_int s_ext]. split.
  - intros A HA. rewrite K_ext_spec by assumption. rewrite K_int_spec by (try assumption; apply ext_in_range).
    apply int_ext_extensive. exact HA.
  - intros A A' HA HA' Hi. rewrite !K_ext_spec by assumption.
    rewrite !K_int_spec by (try assumption; apply ext_in_range).
    apply int_antitone, ext_antitone, Hi.
Qed.

(* ------------------------------------------------------------ the theorem *)

Theorem lindig_complete K ie ord pick :
  wf (k_table K) -> (forall l, Permutation (ord l) l) -> (forall q, q <> [] -> pick q < length q) ->
  exists cs, lindig_with K ie ord pick = Some cs /\
             lists_all_concepts (k_table K) (map pair_of_concept cs) /\ Forall (views_agree K) cs.
Proof.
  intros Hwf Hperm Hpick.
  assert (Hord : forall l, incl (ord l) l).
  { intros l x Hxl. eapply Permutation_in; [apply Hperm | exact Hxl]. }
  destruct (lindig_sound K ie ord pick Hwf Hord Hpick) as [cs [E [Hok Hnd]]].
  exists cs. split; [exact E|]. split; [|apply Forall_forall; intros c Hc; rewrite Forall_forall in Hok; apply (Hok c Hc)].
  split; [exact Hnd|]. intros A B. split.
  - intros H. apply in_map_iff in H. destruct H as [c [Ec Hc]]. inversion Ec; subst A B.
    rewrite Forall_forall in Hok. destruct (Hok c Hc) as [Hcon _].
    apply concepts_spec_complete. split; [exact Hcon | apply (concept_in_range _ _ _ Hcon)].
  - intros H. apply concepts_spec_complete in H. destruct H as [[HA HB] HrB].
    assert (HrA : in_range (k_n K) A) by (rewrite HA; apply ext_in_range).
    unfold lindig_with in E. destruct ie.
    + destruct (lindig_run_complete (side_of K true) ord pick (side_hyps_true K Hwf) (closure_hyps_true K Hwf)
                  Hperm Hpick) as [cs0 [El [Hg [_ Hall]]]].
      cbv zeta in El. rewrite El in E. inversion E; subst cs0. clear E.
      assert (HAin : In A (map c_ext_i cs)).
      { apply Hall.
        - unfold canonical. cbn [side_of s_n]. rewrite HA. unfold ext, ext_spec. apply filter_In_sublists.
        - unfold cl. cbn [side_of s_int s_ext]. rewrite K_int_spec by assumption.
          rewrite K_ext_spec by (try assumption; apply int_in_range). rewrite <- HB. symmetry. exact HA. }
      apply in_map_iff in HAin. destruct HAin as [c [Ec Hc]]. apply in_map_iff. exists c. split; [|exact Hc].
      unfold pair_of_concept. rewrite Ec. f_equal.
      rewrite Forall_forall in Hg. destruct (Hg c Hc) as [_ [_ [Hi _]]].
      cbn [side_of s_int] in Hi. rewrite Hi, Ec. rewrite K_int_spec by assumption. symmetry. exact HB.
    + destruct (lindig_run_complete (side_of K false) ord pick (side_hyps_false K Hwf) (closure_hyps_false K Hwf)
                  Hperm Hpick) as [cs0 [El [Hg [_ Hall]]]].
      cbv zeta in El. rewrite El in E. inversion E; subst cs. clear E.
      assert (HBin : In B (map c_ext_i cs0)).
      { apply Hall.
        - unfold canonical. cbn [side_of s_n]. rewrite HB. unfold int, int_spec. apply filter_In_sublists.
        - unfold cl. cbn [side_of s_int s_ext]. rewrite K_ext_spec by assumption.
          rewrite K_int_spec by (try assumption; apply ext_in_range). rewrite <- HA. symmetry. exact HB. }
      apply in_map_iff in HBin. destruct HBin as [c [Ec Hc]]. apply in_map_iff.
      exists (swap_concept c). split; [|apply in_map; exact Hc].
      unfold pair_of_concept, swap_concept. cbn [c_ext_i c_int_i]. rewrite Ec. f_equal.
      rewrite Forall_forall in Hg. destruct (Hg c Hc) as [_ [_ [Hi _]]].
      cbn [side_of s_int] in Hi. rewrite Hi, Ec. rewrite K_ext_spec by assumption. symmetry. exact HA.
Qed.

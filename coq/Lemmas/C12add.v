(* Lemmas/C12add.v — add_concept turns the cover relation of a list into the cover relation of
   the list with one more concept (index n), and returns its top and bottom. *)
From FCA Require Export Lemmas.C12Order.

(* ------------------------------------------------------------------ the queue loop of add_concept *)
Section BFS.
Variable enum : list nat -> list nat.
Hypothesis Henum : forall l x, In x (enum l) <-> In x l.
Variable next : imap.
Variable keep : nat -> bool.
Variable start : nat.

Definition bfs_pre (queue visited direct : list nat) : Prop :=
  (forall c, In c direct <-> In c visited /\ filter keep (next c) = []) /\
  (forall c, In c visited -> forall s, In s (next c) -> keep s = true -> In s visited \/ In s queue) /\
  (In start visited \/ In start queue).

Lemma bfs_post : forall fuel queue visited direct r,
  bfs enum next keep fuel queue visited direct = Done r ->
  bfs_pre queue visited direct -> exists V, bfs_pre [] V r.
Proof.
  induction fuel as [|f IH]; intros queue visited direct r Hr Hpre.
  - destruct queue; simpl in Hr; [|discriminate]. inversion Hr; subst. exists visited. exact Hpre.
  - destruct queue as [|c q]; simpl in Hr.
    + inversion Hr; subst. exists visited. exact Hpre.
    + destruct Hpre as [I2 [I3 I4]].
      destruct (filter keep (next c)) as [|y nxt] eqn:En.
      * apply (IH _ _ _ _ Hr). split; [|split].
        -- intros x. rewrite !add_In, I2. split.
           ++ intros [H|[H1 H2]]; [subst x; split; [left; reflexivity | exact En] | split; [right; exact H1 | exact H2]].
           ++ intros [[H|H] H2]; [left; exact H | right; split; assumption].
        -- intros c' Hc' s Hs Hk. apply add_In in Hc'. destruct Hc' as [Hc'|Hc'].
           ++ subst c'. assert (X : In s (filter keep (next c))) by (apply filter_In; auto).
              rewrite En in X. contradiction.
           ++ destruct (I3 c' Hc' s Hs Hk) as [H|[H|H]].
              ** left. apply add_In. right. exact H.
              ** left. apply add_In. left. symmetry. exact H.
              ** right. exact H.
        -- destruct I4 as [H|[H|H]].
           ++ left. apply add_In. right. exact H.
           ++ left. apply add_In. left. symmetry. exact H.
           ++ right. exact H.
      * apply (IH _ _ _ _ Hr). split; [|split].
        -- intros x. rewrite I2, add_In. split.
           ++ intros [H1 H2]. split; [right; exact H1 | exact H2].
           ++ intros [[H|H] H2]; [|split; assumption]. subst x. rewrite En in H2. discriminate.
        -- intros c' Hc' s Hs Hk. apply add_In in Hc'.
           destruct (in_dec Nat.eq_dec s (add c visited)) as [D|D]; [left; exact D|]. right.
           destruct Hc' as [Hc'|Hc'].
           ++ subst c'. apply in_or_app. right. apply Henum. apply diff_In. split; [|exact D].
              rewrite <- En. apply filter_In. auto.
           ++ destruct (I3 c' Hc' s Hs Hk) as [H|[H|H]].
              ** exfalso. apply D. apply add_In. right. exact H.
              ** exfalso. apply D. apply add_In. left. symmetry. exact H.
              ** apply in_or_app. left. exact H.
        -- destruct I4 as [H|[H|H]].
           ++ left. apply add_In. right. exact H.
           ++ left. apply add_In. left. symmetry. exact H.
           ++ right. apply in_or_app. left. exact H.
Qed.

Lemma bfs_not_fail : forall fuel queue visited direct k,
  bfs enum next keep fuel queue visited direct <> Fail k.
Proof.
  induction fuel as [|f IH]; intros queue visited direct k; destruct queue as [|c q]; simpl; try discriminate.
  destruct (filter keep (next c)); apply IH.
Qed.

(* everything "good" is visited when every good element other than the start has a good
   predecessor of smaller measure *)
Variable n : nat.
Variable mu : nat -> nat.
Hypothesis Hstart : start < n /\ keep start = true.
Hypothesis Hpred : forall c, c < n -> keep c = true -> c <> start ->
  exists p, p < n /\ keep p = true /\ In c (next p) /\ mu p < mu c.

Lemma bfs_reach V r : bfs_pre [] V r -> forall c, c < n -> keep c = true -> In c V.
Proof.
  intros [_ [I3 I4]].
  assert (G : forall m c, mu c <= m -> c < n -> keep c = true -> In c V).
  { induction m as [|m IH]; intros c Hm Hc Hk.
    - destruct (Nat.eq_dec c start) as [E|E]; [subst; destruct I4 as [H|[]]; exact H|].
      destruct (Hpred c Hc Hk E) as [p [_ [_ [_ Hlt]]]]. lia.
    - destruct (Nat.eq_dec c start) as [E|E]; [subst; destruct I4 as [H|[]]; exact H|].
      destruct (Hpred c Hc Hk E) as [p [Hp [Hkp [Hin Hlt]]]].
      assert (HpV : In p V) by (apply IH; [lia | exact Hp | exact Hkp]).
      destruct (I3 p HpV c Hin Hk) as [H|[]]. exact H. }
  intros c. apply (G (mu c)). lia.
Qed.

Lemma bfs_result fuel r :
  bfs enum next keep fuel [start] [] [] = Done r ->
  (forall c, In c r -> keep c = true /\ c < n) ->
  forall c, In c r <-> c < n /\ keep c = true /\ forall s, In s (next c) -> keep s = false.
Proof.
  intros Hr Hgood.
  assert (Hpre0 : bfs_pre [start] [] []).
  { split; [|split].
    - intros c. split; [intros [] | intros [[] _]].
    - intros c [].
    - right. left. reflexivity. }
  destruct (bfs_post _ _ _ _ _ Hr Hpre0) as [V Hpost].
  intros c. split.
  - intros Hc. destruct (Hgood c Hc) as [Hk Hn]. split; [exact Hn|]. split; [exact Hk|].
    destruct Hpost as [I2 _]. apply I2 in Hc. destruct Hc as [_ Hf].
    intros s Hs. destruct (keep s) eqn:E; [|reflexivity].
    assert (X : In s (filter keep (next c))) by (apply filter_In; auto). rewrite Hf in X. contradiction.
  - intros [Hn [Hk Hall]]. assert (HV := bfs_reach V r Hpost c Hn Hk).
    destruct Hpost as [I2 _]. apply I2. split; [exact HV|].
    destruct (filter keep (next c)) as [|y l] eqn:E; [reflexivity|].
    assert (X : In y (filter keep (next c))) by (rewrite E; left; reflexivity).
    apply filter_In in X. destruct X as [X1 X2]. rewrite (Hall y X1) in X2. discriminate.
Qed.

(* visited / direct elements are good when the start is and [next] preserves being below n *)
Lemma bfs_good : (forall c s, c < n -> In s (next c) -> s < n) ->
  forall fuel queue visited direct r,
  bfs enum next keep fuel queue visited direct = Done r ->
  (forall c, In c queue -> keep c = true /\ c < n) ->
  (forall c, In c direct -> keep c = true /\ c < n) ->
  forall c, In c r -> keep c = true /\ c < n.
Proof.
  intros Hnext. induction fuel as [|f IH]; intros queue visited direct r Hr Hq Hd.
  - destruct queue; simpl in Hr; [|discriminate]. inversion Hr; subst. exact Hd.
  - destruct queue as [|c q]; simpl in Hr.
    + inversion Hr; subst. exact Hd.
    + destruct (filter keep (next c)) as [|y nxt] eqn:En.
      * apply (IH _ _ _ _ Hr).
        -- intros x Hx. apply Hq. right. exact Hx.
        -- intros x Hx. apply add_In in Hx. destruct Hx as [Hx|Hx]; [subst; apply Hq; left; reflexivity | apply Hd; exact Hx].
      * apply (IH _ _ _ _ Hr); [|exact Hd].
        intros x Hx. apply in_app_or in Hx. destruct Hx as [Hx|Hx]; [apply Hq; right; exact Hx|].
        apply (proj1 (Henum _ _)) in Hx. apply diff_In in Hx. destruct Hx as [Hx _]. rewrite <- En in Hx.
        apply filter_In in Hx. destruct Hx as [H1 H2]. split; [exact H2|].
        apply (Hnext c x); [apply Hq; left; reflexivity | exact H1].
Qed.
End BFS.

(* ------------------------------------------------------------------ get_top_bottom_concepts_i *)
Section TopBottom.
Variable size : nat -> nat.
Variable n : nat.

Lemma tb_fold t0 b0 : t0 < n -> b0 < n ->
  (forall i, i < n -> i <> t0 -> size i < size t0) ->
  (forall i, i < n -> i <> b0 -> size b0 < size i) ->
  top_bottom size n = (Some t0, Some b0).
Proof.
  intros Ht Hb Hmax Hmin. unfold top_bottom.
  (* invariant after the indexes 1..k-1: *)
  set (P := fun (k : nat) (st : (nat * bool) * (nat * bool)) =>
    let '((t, mt), (b, mb)) := st in
    t < n /\ b < n /\
    (if Nat.ltb t0 k then t = t0 /\ mt = false else size t < size t0) /\
    (if Nat.ltb b0 k then b = b0 /\ mb = false else size b0 < size b)).
  assert (G : forall m k st, k + m = n -> 1 <= k -> P k st -> P n (fold_left (tb_step size) (seq k m) st)).
  { induction m as [|m IH]; intros k st E Hk HP; simpl.
    - replace n with k by lia. exact HP.
    - apply IH; [lia | lia |].
      destruct st as [[t mt] [b mb]]. unfold P in HP. destruct HP as [Htn [Hbn [HT HB]]].
      unfold tb_step.
      assert (Hkn : k < n) by lia.
      (* top *)
      assert (TT : let '(t2, mt2) := if Nat.ltb (size t) (size k) then (k, false)
                      else (t, if Nat.eqb (size k) (size t) then true else mt) in
                   t2 < n /\ (if Nat.ltb t0 (S k) then t2 = t0 /\ mt2 = false else size t2 < size t0)).
      { destruct (Nat.ltb t0 k) eqn:E0.
        - apply Nat.ltb_lt in E0. destruct HT as [HT1 HT2]. subst t mt.
          replace (Nat.ltb t0 (S k)) with true by (symmetry; apply Nat.ltb_lt; lia).
          assert (size k < size t0) by (apply Hmax; lia).
          replace (Nat.ltb (size t0) (size k)) with false by (symmetry; apply Nat.ltb_ge; lia).
          replace (Nat.eqb (size k) (size t0)) with false by (symmetry; apply Nat.eqb_neq; lia).
          auto.
        - apply Nat.ltb_ge in E0. destruct (Nat.eq_dec k t0) as [Ek|Ek].
          + subst k. replace (Nat.ltb t0 (S t0)) with true by (symmetry; apply Nat.ltb_lt; lia).
            replace (Nat.ltb (size t) (size t0)) with true by (symmetry; apply Nat.ltb_lt; lia). auto.
          + replace (Nat.ltb t0 (S k)) with false by (symmetry; apply Nat.ltb_ge; lia).
            assert (size k < size t0) by (apply Hmax; lia).
            destruct (Nat.ltb (size t) (size k)); split; auto. }
      assert (BB : let '(b2, mb2) := if Nat.ltb (size k) (size b) then (k, false)
                      else (b, if Nat.eqb (size k) (size b) then true else mb) in
                   b2 < n /\ (if Nat.ltb b0 (S k) then b2 = b0 /\ mb2 = false else size b0 < size b2)).
      { destruct (Nat.ltb b0 k) eqn:E0.
        - apply Nat.ltb_lt in E0. destruct HB as [HB1 HB2]. subst b mb.
          replace (Nat.ltb b0 (S k)) with true by (symmetry; apply Nat.ltb_lt; lia).
          assert (size b0 < size k) by (apply Hmin; lia).
          replace (Nat.ltb (size k) (size b0)) with false by (symmetry; apply Nat.ltb_ge; lia).
          replace (Nat.eqb (size k) (size b0)) with false by (symmetry; apply Nat.eqb_neq; lia).
          auto.
        - apply Nat.ltb_ge in E0. destruct (Nat.eq_dec k b0) as [Ek|Ek].
          + subst k. replace (Nat.ltb b0 (S b0)) with true by (symmetry; apply Nat.ltb_lt; lia).
            replace (Nat.ltb (size b0) (size b)) with true by (symmetry; apply Nat.ltb_lt; lia). auto.
          + replace (Nat.ltb b0 (S k)) with false by (symmetry; apply Nat.ltb_ge; lia).
            assert (size b0 < size k) by (apply Hmin; lia).
            destruct (Nat.ltb (size k) (size b)); split; auto. }
      destruct (if Nat.ltb (size t) (size k) then (k, false)
                else (t, if Nat.eqb (size k) (size t) then true else mt)) as [t2 mt2].
      destruct (if Nat.ltb (size k) (size b) then (k, false)
                else (b, if Nat.eqb (size k) (size b) then true else mb)) as [b2 mb2].
      unfold P. tauto. }
  assert (P0 : P 1 ((0, false), (0, false))).
  { unfold P. split; [lia|]. split; [lia|]. split.
    - destruct (Nat.ltb t0 1) eqn:E; [apply Nat.ltb_lt in E; split; [lia | reflexivity]|].
      apply Nat.ltb_ge in E. apply Hmax; lia.
    - destruct (Nat.ltb b0 1) eqn:E; [apply Nat.ltb_lt in E; split; [lia | reflexivity]|].
      apply Nat.ltb_ge in E. apply Hmin; lia. }
  assert (HP := G (n - 1) 1 _ ltac:(lia) (le_n 1) P0).
  destruct (fold_left (tb_step size) (seq 1 (n - 1)) (0, false, (0, false))) as [[t mt] [b mb]].
  unfold P in HP. destruct HP as [_ [_ [HT HB]]].
  replace (Nat.ltb t0 n) with true in HT by (symmetry; apply Nat.ltb_lt; lia).
  replace (Nat.ltb b0 n) with true in HB by (symmetry; apply Nat.ltb_lt; lia).
  destruct HT as [-> ->]. destruct HB as [-> ->]. reflexivity.
Qed.
End TopBottom.

(* ------------------------------------------------------------------ covers of the enlarged list *)
Section Enlarged.
Variable lt : nat -> nat -> bool.
Variable n : nat.
Hypothesis SO : strict_order lt (S n).

Lemma SOn : strict_order lt n.
Proof.
  destruct SO as [H1 H2]. split.
  - intros i Hi. apply H1. lia.
  - intros i j k Hi Hj Hk. apply H2; lia.
Qed.

Lemma between_S x a : between lt (S n) x a = between lt n x a || (lt x n && lt n a).
Proof.
  unfold between. rewrite seq_S, existsb_app. simpl. rewrite orb_false_r. reflexivity.
Qed.

(* the new concept's upper and lower covers *)
Definition isU (y : nat) : Prop := y < n /\ lt n y = true /\ between lt n n y = false.
Definition isD (x : nat) : Prop := x < n /\ lt x n = true /\ between lt n x n = false.

Lemma lower_covers_S_new x : In x (lower_covers lt (S n) n) <-> isD x.
Proof.
  rewrite (lower_covers_In lt (S n)). rewrite between_S. unfold isD.
  rewrite (lt_irrefl lt (S n) SO n) by lia. rewrite andb_false_r, orb_false_r. split.
  - intros [H1 [H2 H3]]. split; [|auto]. destruct (Nat.eq_dec x n); [|lia]. subst.
    rewrite (lt_irrefl lt (S n) SO n) in H2 by lia. discriminate.
  - intros [H1 [H2 H3]]. split; [lia | auto].
Qed.

Lemma upper_covers_S_new y : In y (upper_covers lt (S n) n) <-> isU y.
Proof.
  rewrite (upper_covers_In lt (S n)). rewrite between_S. unfold isU.
  rewrite (lt_irrefl lt (S n) SO n) by lia. simpl. rewrite orb_false_r. split.
  - intros [H1 [H2 H3]]. split; [|auto]. destruct (Nat.eq_dec y n); [|lia]. subst.
    rewrite (lt_irrefl lt (S n) SO n) in H2 by lia. discriminate.
  - intros [H1 [H2 H3]]. split; [lia | auto].
Qed.

Lemma lower_covers_S_old i x : i < n ->
  (In x (lower_covers lt (S n) i) <->
   (x < n /\ In x (lower_covers lt n i) /\ ~ (lt x n = true /\ lt n i = true)) \/ (x = n /\ isU i)).
Proof.
  intros Hi. rewrite (lower_covers_In lt (S n)), (lower_covers_In lt n), between_S. unfold isU. split.
  - intros [H1 [H2 H3]]. apply orb_false_iff in H3. destruct H3 as [H3 H4].
    destruct (Nat.eq_dec x n) as [E|E].
    + subst x. right. split; [reflexivity|]. auto.
    + left. split; [lia|]. split; [split; [lia | auto]|].
      intros [A B]. rewrite A, B in H4. discriminate.
  - intros [[H1 [[_ [H2 H3]] H4]]|[H1 [_ [H2 H3]]]].
    + split; [lia|]. split; [exact H2|]. rewrite H3. simpl.
      destruct (lt x n) eqn:A; [|reflexivity]. destruct (lt n i) eqn:B; [|reflexivity]. exfalso. auto.
    + subst x. split; [lia|]. split; [exact H2|]. rewrite H3.
      rewrite (lt_irrefl lt (S n) SO n) by lia. reflexivity.
Qed.

Lemma upper_covers_S_old i x : i < n ->
  (In x (upper_covers lt (S n) i) <->
   (x < n /\ In x (upper_covers lt n i) /\ ~ (lt i n = true /\ lt n x = true)) \/ (x = n /\ isD i)).
Proof.
  intros Hi. rewrite (upper_covers_In lt (S n)), (upper_covers_In lt n), between_S. unfold isD. split.
  - intros [H1 [H2 H3]]. apply orb_false_iff in H3. destruct H3 as [H3 H4].
    destruct (Nat.eq_dec x n) as [E|E].
    + subst x. right. split; [reflexivity|]. auto.
    + left. split; [lia|]. split; [split; [lia | auto]|].
      intros [A B]. rewrite A, B in H4. discriminate.
  - intros [[H1 [[_ [H2 H3]] H4]]|[H1 [_ [H2 H3]]]].
    + split; [lia|]. split; [exact H2|]. rewrite H3. simpl.
      destruct (lt i n) eqn:A; [|reflexivity]. destruct (lt n x) eqn:B; [|reflexivity]. exfalso. auto.
    + subst x. split; [lia|]. split; [exact H2|]. rewrite H3.
      rewrite (lt_irrefl lt (S n) SO n) by lia. rewrite andb_false_r. reflexivity.
Qed.

Lemma ltS_trans i j k : i <= n -> j <= n -> k <= n -> lt i j = true -> lt j k = true -> lt i k = true.
Proof. intros. apply (lt_trans lt (S n) SO i j k); auto; lia. Qed.

(* ---- the dictionary surgery of add_concept *)
Lemma classic_isU i : isU i \/ ~ isU i.
Proof.
  unfold isU. destruct (Compare_dec.lt_dec i n); [|right; tauto].
  destruct (lt n i); [|right; intuition congruence].
  destruct (between lt n n i); [right; intuition congruence | left; auto].
Qed.
Lemma classic_isD i : isD i \/ ~ isD i.
Proof.
  unfold isD. destruct (Compare_dec.lt_dec i n); [|right; tauto].
  destruct (lt i n); [|right; intuition congruence].
  destruct (between lt n i n); [right; intuition congruence | left; auto].
Qed.

Lemma fold_add_diff (Dl : list nat) l : forall (m0 : imap) i x,
  In x (fold_left (fun m s => upd m s (add n (diff (m s) Dl))) l m0 i) <->
  (In i l /\ (x = n \/ (In x (m0 i) /\ ~ In x Dl))) \/ (~ In i l /\ In x (m0 i)).
Proof.
  induction l as [|s l IH]; intros m0 i x; simpl.
  - tauto.
  - rewrite IH. destruct (Nat.eq_dec i s) as [E|E].
    + subst i. rewrite upd_same, add_In, diff_In.
      destruct (in_dec Nat.eq_dec s l) as [D|D]; split; intros H; intuition auto.
    + rewrite upd_other by exact E.
      split; intros H; intuition auto. congruence.
Qed.

Variables sub sup : imap.
Hypothesis Hsub : forall i, i < n -> forall x, In x (sub i) <-> In x (lower_covers lt n i).
Hypothesis Hsup : forall i, i < n -> forall x, In x (sup i) <-> In x (upper_covers lt n i).

Definition rel_ok (r : relation) : Prop :=
  (forall i, i <= n -> same_set (r_sub r i) (lower_covers lt (S n) i)) /\
  (forall i, i <= n -> same_set (r_sup r i) (upper_covers lt (S n) i)) /\
  is_top lt (S n) (r_top r) /\ is_bottom lt (S n) (r_bottom r).

Lemma finish_ok dsup dsub t' b' :
  (forall y, In y dsup <-> isU y) -> (forall x, In x dsub <-> isD x) ->
  is_top lt (S n) t' -> is_bottom lt (S n) b' ->
  rel_ok {| r_sub := upd (fold_left (fun m s => upd m s (add n (diff (m s) dsub))) dsup sub) n dsub;
            r_sup := upd (fold_left (fun m s => upd m s (add n (diff (m s) dsup))) dsub sup) n dsup;
            r_top := t'; r_bottom := b' |}.
Proof.
  intros HU HD Ht Hb. unfold rel_ok. cbn [r_sub r_sup r_top r_bottom].
  split; [|split; [|split; assumption]].
  - intros i Hi x. destruct (Nat.eq_dec i n) as [E|E].
    + subst i. rewrite upd_same, HD. symmetry. apply lower_covers_S_new.
    + assert (Hin : i < n) by lia. rewrite upd_other by exact E.
      rewrite fold_add_diff, (lower_covers_S_old i x Hin), HU, HD, (Hsub i Hin).
      split.
      * intros [[HiU [Hx|[Hx HxD]]]|[HiU Hx]].
        -- right. auto.
        -- left. assert (Hxn : x < n) by (apply (lower_covers_In lt n) in Hx; tauto).
           split; [exact Hxn|]. split; [exact Hx|]. intros [A B]. apply HxD.
           split; [exact Hxn|]. split; [exact A|].
           destruct (between lt n x n) eqn:Eb; [|reflexivity]. exfalso.
           apply (between_spec lt n) in Eb. destruct Eb as [z [Hz [Z1 Z2]]].
           apply (lower_covers_In lt n) in Hx. destruct Hx as [_ [_ Hnb]].
           assert (X : between lt n x i = true).
           { apply (between_spec lt n). exists z. split; [exact Hz|]. split; [exact Z1|].
             apply (ltS_trans z n i); auto; lia. }
           congruence.
        -- left. assert (Hxn : x < n) by (apply (lower_covers_In lt n) in Hx; tauto).
           split; [exact Hxn|]. split; [exact Hx|]. intros [A B]. apply HiU.
           split; [exact Hin|]. split; [exact B|].
           destruct (between lt n n i) eqn:Eb; [|reflexivity]. exfalso.
           apply (between_spec lt n) in Eb. destruct Eb as [z [Hz [Z1 Z2]]].
           apply (lower_covers_In lt n) in Hx. destruct Hx as [_ [_ Hnb]].
           assert (X : between lt n x i = true).
           { apply (between_spec lt n). exists z. split; [exact Hz|]. split; [|exact Z2].
             apply (ltS_trans x n z); auto; lia. }
           congruence.
      * intros [[Hxn [Hx Hnot]]|[Hx HiU]].
        -- destruct (classic_isU i) as [Y|N].
           ++ left. split; [exact Y|]. right. split; [exact Hx|]. intros [_ [A _]]. apply Hnot.
              split; [exact A | apply Y].
           ++ right. split; assumption.
        -- left. split; [exact HiU | left; exact Hx].
  - intros i Hi x. destruct (Nat.eq_dec i n) as [E|E].
    + subst i. rewrite upd_same, HU. symmetry. apply upper_covers_S_new.
    + assert (Hin : i < n) by lia. rewrite upd_other by exact E.
      rewrite fold_add_diff, (upper_covers_S_old i x Hin), HU, HD, (Hsup i Hin).
      split.
      * intros [[HiD [Hx|[Hx HxU]]]|[HiD Hx]].
        -- right. auto.
        -- left. assert (Hxn : x < n) by (apply (upper_covers_In lt n) in Hx; tauto).
           split; [exact Hxn|]. split; [exact Hx|]. intros [A B]. apply HxU.
           split; [exact Hxn|]. split; [exact B|].
           destruct (between lt n n x) eqn:Eb; [|reflexivity]. exfalso.
           apply (between_spec lt n) in Eb. destruct Eb as [z [Hz [Z1 Z2]]].
           apply (upper_covers_In lt n) in Hx. destruct Hx as [_ [_ Hnb]].
           assert (X : between lt n i x = true).
           { apply (between_spec lt n). exists z. split; [exact Hz|]. split; [|exact Z2].
             apply (ltS_trans i n z); auto; lia. }
           congruence.
        -- left. assert (Hxn : x < n) by (apply (upper_covers_In lt n) in Hx; tauto).
           split; [exact Hxn|]. split; [exact Hx|]. intros [A B]. apply HiD.
           split; [exact Hin|]. split; [exact A|].
           destruct (between lt n i n) eqn:Eb; [|reflexivity]. exfalso.
           apply (between_spec lt n) in Eb. destruct Eb as [z [Hz [Z1 Z2]]].
           apply (upper_covers_In lt n) in Hx. destruct Hx as [_ [_ Hnb]].
           assert (X : between lt n i x = true).
           { apply (between_spec lt n). exists z. split; [exact Hz|]. split; [exact Z1|].
             apply (ltS_trans z n x); auto; lia. }
           congruence.
      * intros [[Hxn [Hx Hnot]]|[Hx HiD]].
        -- destruct (classic_isD i) as [Y|N].
           ++ left. split; [exact Y|]. right. split; [exact Hx|]. intros [_ [B _]]. apply Hnot.
              split; [apply Y | exact B].
           ++ right. split; assumption.
        -- left. split; [exact HiD | left; exact Hx].
Qed.
End Enlarged.

(* ------------------------------------------------------------------ add_concept *)
Section AddConcept.
Variable lt : nat -> nat -> bool.
Variable size : nat -> nat.
Variable n : nat.
Variable enum : list nat -> list nat.
Hypothesis Henum : forall l x, In x (enum l) <-> In x l.
Hypothesis SO : strict_order lt (S n).
Hypothesis Hsize : forall i j, i <= n -> j <= n -> lt i j = true -> size i < size j.
Hypothesis Hn2 : 2 <= n.
Variables t0 b0 : nat.
Hypothesis Ht0 : is_top lt n t0.
Hypothesis Hb0 : is_bottom lt n b0.
(* the enlarged list still has a greatest and a least concept *)
Hypothesis Hnew_top : lt t0 n = true \/ lt n t0 = true.
Hypothesis Hnew_bot : lt n b0 = true \/ lt b0 n = true.
Variables sub sup : imap.
Hypothesis Hsub : forall i, i < n -> forall x, In x (sub i) <-> In x (lower_covers lt n i).
Hypothesis Hsup : forall i, i < n -> forall x, In x (sup i) <-> In x (upper_covers lt n i).

Let SOn' := SOn lt n SO.

Lemma le_top i : i < n -> i = t0 \/ lt i t0 = true.
Proof. intros Hi. destruct (Nat.eq_dec i t0); [left; assumption | right; apply Ht0; assumption]. Qed.
Lemma ge_bottom i : i < n -> i = b0 \/ lt b0 i = true.
Proof. intros Hi. destruct (Nat.eq_dec i b0); [left; assumption | right; apply Hb0; assumption]. Qed.

Lemma t0n : t0 < n. Proof. apply Ht0. Qed.
Lemma b0n : b0 < n. Proof. apply Hb0. Qed.

Lemma asymS i j : i <= n -> j <= n -> lt i j = true -> lt j i = false.
Proof. intros. apply (lt_asym lt (S n) SO); auto; lia. Qed.
Lemma irreflS i : i <= n -> lt i i = false.
Proof. intros. apply (lt_irrefl lt (S n) SO); lia. Qed.

Lemma tb_here : top_bottom size n = (Some t0, Some b0).
Proof.
  apply tb_fold; [apply t0n | apply b0n | |].
  - intros i Hi Hne. apply Hsize; [lia | pose t0n; lia | apply Ht0; assumption].
  - intros i Hi Hne. apply Hsize; [pose b0n; lia | lia | apply Hb0; assumption].
Qed.

(* ---- the three shapes of (U, D) *)
Lemma U_above_top : lt t0 n = true -> forall y, ~ isU lt n y.
Proof.
  intros H y [Hy [Hny _]]. pose proof t0n.
  destruct (le_top y Hy) as [E|E].
  - subst y. pose proof (asymS t0 n ltac:(lia) ltac:(lia) ltac:(assumption)) as Zz; congruence.
  - assert (X : lt n t0 = true) by (apply (ltS_trans lt n SO n y t0); auto; lia).
    pose proof (asymS t0 n ltac:(lia) ltac:(lia) ltac:(assumption)) as Zz; congruence.
Qed.

Lemma D_above_top : lt t0 n = true -> forall x, isD lt n x <-> x = t0.
Proof.
  intros H x. pose proof t0n. unfold isD. split.
  - intros [Hx [Hxn Hb]]. destruct (le_top x Hx) as [E|E]; [exact E|]. exfalso.
    assert (X : between lt n x n = true) by (apply (between_spec lt n); exists t0; auto).
    congruence.
  - intros ->. split; [assumption|]. split; [exact H|].
    destruct (between lt n t0 n) eqn:E; [|reflexivity]. exfalso.
    apply (between_spec lt n) in E. destruct E as [z [Hz [Z1 _]]].
    destruct (le_top z Hz) as [E|E].
    + subst z. pose proof (irreflS t0 ltac:(lia)) as Zz; congruence.
    + pose proof (asymS z t0 ltac:(lia) ltac:(lia) ltac:(assumption)) as Zz; congruence.
Qed.

Lemma D_below_bottom : lt n b0 = true -> forall x, ~ isD lt n x.
Proof.
  intros H x [Hx [Hxn _]]. pose proof b0n.
  destruct (ge_bottom x Hx) as [E|E].
  - subst x. pose proof (asymS n b0 ltac:(lia) ltac:(lia) ltac:(assumption)) as Zz; congruence.
  - assert (X : lt b0 n = true) by (apply (ltS_trans lt n SO b0 x n); auto; lia).
    pose proof (asymS n b0 ltac:(lia) ltac:(lia) ltac:(assumption)) as Zz; congruence.
Qed.

Lemma U_below_bottom : lt n b0 = true -> forall y, isU lt n y <-> y = b0.
Proof.
  intros H y. pose proof b0n. unfold isU. split.
  - intros [Hy [Hny Hb]]. destruct (ge_bottom y Hy) as [E|E]; [exact E|]. exfalso.
    assert (X : between lt n n y = true) by (apply (between_spec lt n); exists b0; auto).
    congruence.
  - intros ->. split; [assumption|]. split; [exact H|].
    destruct (between lt n n b0) eqn:E; [|reflexivity]. exfalso.
    apply (between_spec lt n) in E. destruct E as [z [Hz [_ Z2]]].
    destruct (ge_bottom z Hz) as [E|E].
    + subst z. pose proof (irreflS b0 ltac:(lia)) as Zz; congruence.
    + pose proof (asymS b0 z ltac:(lia) ltac:(lia) ltac:(assumption)) as Zz; congruence.
Qed.

Lemma b0_ne_t0 : b0 <> t0.
Proof.
  intros E. pose proof t0n. pose proof b0n.
  assert (exists i, i < n /\ i <> t0) as [i [Hi Hne]].
  { destruct (Nat.eq_dec t0 0); [exists 1 | exists 0]; split; lia. }
  assert (A : lt i t0 = true) by (apply Ht0; assumption).
  assert (B : lt b0 i = true) by (apply Hb0; [assumption | congruence]).
  rewrite E in B. pose proof (asymS i t0 ltac:(lia) ltac:(lia) ltac:(assumption)) as Zz; congruence.
Qed.

Lemma b0_lt_t0 : lt b0 t0 = true.
Proof. apply Ht0; [apply b0n | apply b0_ne_t0]. Qed.

(* top and bottom of the enlarged list *)
Lemma top_new : lt t0 n = true -> is_top lt (S n) n.
Proof.
  intros H. split; [lia|]. intros i Hi Hne. assert (Hin : i < n) by lia. pose proof t0n.
  destruct (le_top i Hin) as [E|E]; [subst; exact H | apply (ltS_trans lt n SO i t0 n); auto; lia].
Qed.
Lemma top_old : lt n t0 = true -> is_top lt (S n) t0.
Proof.
  intros H. pose proof t0n. split; [lia|]. intros i Hi Hne.
  destruct (Nat.eq_dec i n) as [E|E]; [subst; exact H | apply Ht0; [lia | exact Hne]].
Qed.
Lemma bottom_new : lt n b0 = true -> is_bottom lt (S n) n.
Proof.
  intros H. split; [lia|]. intros i Hi Hne. assert (Hin : i < n) by lia. pose proof b0n.
  destruct (ge_bottom i Hin) as [E|E]; [subst; exact H | apply (ltS_trans lt n SO n b0 i); auto; lia].
Qed.
Lemma bottom_old : lt b0 n = true -> is_bottom lt (S n) b0.
Proof.
  intros H. pose proof b0n. split; [lia|]. intros i Hi Hne.
  destruct (Nat.eq_dec i n) as [E|E]; [subst; exact H | apply Hb0; [lia | exact Hne]].
Qed.

(* ---- the two descents in the middle case *)
Lemma descent_down fuel r : lt n t0 = true ->
  bfs enum sub (fun s => lt n s) fuel [t0] [] [] = Done r -> forall y, In y r <-> isU lt n y.
Proof.
  intros Hnt Hr. pose proof t0n as Htn.
  assert (Hnext : forall c s, c < n -> In s (sub c) -> s < n).
  { intros c s Hc Hs. apply (Hsub c Hc) in Hs. apply (lower_covers_In lt n) in Hs. tauto. }
  assert (Hgood : forall c, In c r -> lt n c = true /\ c < n).
  { apply (bfs_good enum Henum sub (fun s => lt n s) n Hnext _ _ _ _ _ Hr).
    - intros c [E|[]]. subst. auto.
    - intros c []. }
  assert (Hres := bfs_result enum Henum sub (fun s => lt n s) t0 n
                    (fun c => length (strict_up lt n c)) (conj Htn Hnt)).
  assert (Hpred : forall c, c < n -> lt n c = true -> c <> t0 ->
            exists p, p < n /\ lt n p = true /\ In c (sub p) /\
                      length (strict_up lt n p) < length (strict_up lt n c)).
  { intros c Hc Hk Hne.
    assert (Hct : lt c t0 = true) by (apply Ht0; assumption).
    destruct (cover_above lt n SOn' c t0 Hc Htn Hct) as [p [Hp [Hcov _]]].
    assert (Hcp : lt c p = true) by apply (is_lower_cover_lt lt n p c Hcov).
    exists p. split; [exact Hp|]. split; [apply (ltS_trans lt n SO n c p); auto; lia|].
    split.
    - apply (Hsub p Hp). unfold lower_covers. apply filter_In. split; [apply in_seq; lia | exact Hcov].
    - unfold strict_up. apply (filter_length_lt _ _ _ p).
      + intros x Hx Hpx. apply in_seq in Hx. apply (lt_trans lt n SOn' c p x); auto; lia.
      + apply in_seq. lia.
      + exact Hcp.
      + apply (lt_irrefl lt n SOn' p Hp). }
  specialize (Hres Hpred fuel r Hr Hgood).
  intros y. rewrite Hres. unfold isU. split.
  - intros [Hy [Hny Hall]]. split; [exact Hy|]. split; [exact Hny|].
    destruct (between lt n n y) eqn:E; [|reflexivity]. exfalso.
    apply (between_spec lt n) in E. destruct E as [z [Hz [Z1 Z2]]].
    destruct (cover_below lt n SOn' z y Hz Hy Z2) as [s [Hs [Hcov Hr']]].
    assert (Hns : lt n s = true).
    { destruct Hr' as [Hr'|Hr']; [subst; exact Z1 | apply (ltS_trans lt n SO n z s); auto; lia]. }
    rewrite (Hall s) in Hns; [discriminate|].
    apply (Hsub y Hy). unfold lower_covers. apply filter_In. split; [apply in_seq; lia | exact Hcov].
  - intros [Hy [Hny Hb]]. split; [exact Hy|]. split; [exact Hny|].
    intros s Hs. apply (Hsub y Hy) in Hs. apply (lower_covers_In lt n) in Hs. destruct Hs as [Hs [Hsy _]].
    destruct (lt n s) eqn:E; [|reflexivity]. exfalso.
    assert (X : between lt n n y = true) by (apply (between_spec lt n); exists s; auto). congruence.
Qed.

Lemma descent_up fuel r : lt b0 n = true ->
  bfs enum sup (fun s => lt s n) fuel [b0] [] [] = Done r -> forall x, In x r <-> isD lt n x.
Proof.
  intros Hbn Hr. pose proof b0n as Hb0n.
  assert (Hnext : forall c s, c < n -> In s (sup c) -> s < n).
  { intros c s Hc Hs. apply (Hsup c Hc) in Hs. apply (upper_covers_In lt n) in Hs. tauto. }
  assert (Hgood : forall c, In c r -> lt c n = true /\ c < n).
  { apply (bfs_good enum Henum sup (fun s => lt s n) n Hnext _ _ _ _ _ Hr).
    - intros c [E|[]]. subst. auto.
    - intros c []. }
  assert (Hres := bfs_result enum Henum sup (fun s => lt s n) b0 n
                    (fun c => length (strict_down lt n c)) (conj Hb0n Hbn)).
  assert (Hpred : forall c, c < n -> lt c n = true -> c <> b0 ->
            exists p, p < n /\ lt p n = true /\ In c (sup p) /\
                      length (strict_down lt n p) < length (strict_down lt n c)).
  { intros c Hc Hk Hne.
    assert (Hbc : lt b0 c = true) by (apply Hb0; assumption).
    destruct (cover_below lt n SOn' b0 c Hb0n Hc Hbc) as [p [Hp [Hcov _]]].
    assert (Hpc : lt p c = true) by apply (is_lower_cover_lt lt n c p Hcov).
    exists p. split; [exact Hp|]. split; [apply (ltS_trans lt n SO p c n); auto; lia|].
    split.
    - apply (Hsup p Hp). unfold upper_covers. apply filter_In. split; [apply in_seq; lia | exact Hcov].
    - unfold strict_down. apply (filter_length_lt _ _ _ p).
      + intros x Hx Hxp. apply in_seq in Hx. apply (lt_trans lt n SOn' x p c); auto; lia.
      + apply in_seq. lia.
      + exact Hpc.
      + apply (lt_irrefl lt n SOn' p Hp). }
  specialize (Hres Hpred fuel r Hr Hgood).
  intros x. rewrite Hres. unfold isD. split.
  - intros [Hx [Hxn Hall]]. split; [exact Hx|]. split; [exact Hxn|].
    destruct (between lt n x n) eqn:E; [|reflexivity]. exfalso.
    apply (between_spec lt n) in E. destruct E as [z [Hz [Z1 Z2]]].
    destruct (cover_above lt n SOn' x z Hx Hz Z1) as [s [Hs [Hcov Hr']]].
    assert (Hsn : lt s n = true).
    { destruct Hr' as [Hr'|Hr']; [subst; exact Z2 | apply (ltS_trans lt n SO s z n); auto; lia]. }
    rewrite (Hall s) in Hsn; [discriminate|].
    apply (Hsup x Hx). unfold upper_covers. apply filter_In. split; [apply in_seq; lia | exact Hcov].
  - intros [Hx [Hxn Hb]]. split; [exact Hx|]. split; [exact Hxn|].
    intros s Hs. apply (Hsup x Hx) in Hs. apply (upper_covers_In lt n) in Hs. destruct Hs as [Hs [Hxs _]].
    destruct (lt s n) eqn:E; [|reflexivity]. exfalso.
    assert (X : between lt n x n = true) by (apply (between_spec lt n); exists s; auto). congruence.
Qed.

(* ---- the theorem: for the top/bottom arguments None or the true indexes *)
Theorem add_concept_ok top bottom :
  (top = None \/ top = Some t0) -> (bottom = None \/ bottom = Some b0) ->
  add_concept lt size n enum sub sup top bottom = OutOfFuel \/
  exists r, add_concept lt size n enum sub sup top bottom = Done r /\ rel_ok lt n r.
Proof.
  intros Htop Hbot. unfold add_concept.
  replace (Nat.ltb n 2) with false by (symmetry; apply Nat.ltb_ge; lia).
  pose proof t0n as Htn. pose proof b0n as Hbn.
  assert (E1 : (if match top, bottom with
                   | Some t, Some b => lt t n || lt n b
                   | _, _ => true end
                then top_bottom size n else (top, bottom)) = (Some t0, Some b0)).
  { destruct Htop as [->| ->]; [apply tb_here|]. destruct Hbot as [->| ->]; [apply tb_here|].
    destruct (lt t0 n || lt n b0); [apply tb_here | reflexivity]. }
  rewrite E1. clear E1.
  assert (A : lt t0 n = true \/ lt t0 n = false) by (destruct (lt t0 n); auto).
  destruct A as [A|A]; rewrite A.
  - (* above the top *)
    right. eexists. split; [reflexivity|].
    apply (finish_ok lt n SO sub sup Hsub Hsup).
    + intros y. split; [intros [] | intros H; exact (U_above_top A y H)].
    + intros x. rewrite (D_above_top A). simpl. intuition.
    + apply top_new. exact A.
    + apply bottom_old. apply (ltS_trans lt n SO b0 t0 n); auto; try lia. apply b0_lt_t0.
  - assert (B : lt n b0 = true \/ lt n b0 = false) by (destruct (lt n b0); auto).
    destruct B as [B|B]; rewrite B.
    + (* below the bottom *)
      right. eexists. split; [reflexivity|].
      apply (finish_ok lt n SO sub sup Hsub Hsup).
      * intros y. rewrite (U_below_bottom B). simpl. intuition.
      * intros x. split; [intros [] | intros H; exact (D_below_bottom B x H)].
      * apply top_old. destruct Hnew_top as [H|H]; [congruence | exact H].
      * apply bottom_new. exact B.
    + assert (Hnt : lt n t0 = true) by (destruct Hnew_top as [H|H]; [congruence | exact H]).
      assert (Hb' : lt b0 n = true) by (destruct Hnew_bot as [H|H]; [congruence | exact H]).
      destruct (bfs enum sub (fun s => lt n s) (S (weight sub n t0)) [t0] [] []) as [dsup| |k] eqn:B1.
      * destruct (bfs enum sup (fun s => lt s n) (S (weight sup n b0)) [b0] [] []) as [dsub| |k] eqn:B2.
        -- right. eexists. split; [reflexivity|].
           apply (finish_ok lt n SO sub sup Hsub Hsup).
           ++ apply (descent_down _ _ Hnt B1).
           ++ apply (descent_up _ _ Hb' B2).
           ++ apply top_old. exact Hnt.
           ++ apply bottom_old. exact Hb'.
        -- left. reflexivity.
        -- exfalso. exact (bfs_not_fail enum sup (fun s => lt s n) _ _ _ _ _ B2).
      * left. reflexivity.
      * exfalso. exact (bfs_not_fail enum sub (fun s => lt n s) _ _ _ _ _ B1).
Qed.
End AddConcept.

(* Lemmas/C12cc.v — complete_comparison computes the lower covers (unsorted and sorted mode). *)
From FCA Require Export Lemmas.C12Order.

Section CC.
Variable lt : nat -> nat -> bool.
Variable n : nat.
Hypothesis SO : strict_order lt n.

(* two filters of the same list with the same members are the same list *)
Lemma filter_same_members {A} (p q : A -> bool) l :
  (forall x, In x l -> (p x = true <-> q x = true)) -> filter p l = filter q l.
Proof. intros H. apply filter_ext_in'. intros x Hx. apply bool_eq_iff. apply H. exact Hx. Qed.

(* the state after the concepts below k have been processed *)
Definition cc_inv (sorted : bool) (k : nat) (D : imap) : Prop :=
  forall x, x < n -> D x = if Nat.ltb x k then lower_covers lt n x else all_sub lt n sorted x.

Lemma all_sub_In sorted a x :
  (sorted = true -> forall i j, i < n -> j < n -> lt i j = true -> j < i) ->
  a < n -> (In x (all_sub lt n sorted a) <-> x < n /\ lt x a = true).
Proof.
  intros Hs Ha. unfold all_sub. rewrite filter_In, in_seq, andb_true_iff. split.
  - intros [H1 [_ H2]]. split; [lia | exact H2].
  - intros [H1 H2]. split; [lia|]. split; [|exact H2].
    destruct sorted; [|reflexivity]. apply negb_true_iff. apply Nat.ltb_ge.
    assert (a < x) by (apply Hs; auto). lia.
Qed.

Lemma cc_step_inv sorted k D :
  (sorted = true -> forall i j, i < n -> j < n -> lt i j = true -> j < i) ->
  k < n -> cc_inv sorted k D -> cc_inv sorted (S k) (cc_step D k).
Proof.
  intros Hs Hk Inv x Hx. unfold cc_step.
  destruct (Nat.eq_dec x k) as [E|E].
  - subst x. rewrite upd_same. replace (Nat.ltb k (S k)) with true by (symmetry; apply Nat.ltb_lt; lia).
    rewrite fold_left_diff. rewrite (Inv k Hk). rewrite Nat.ltb_irrefl.
    unfold all_sub at 2. rewrite filter_filter2. unfold lower_covers.
    apply filter_same_members. intros y Hy. apply in_seq in Hy.
    assert (Hyn : y < n) by lia. clear Hy.
    unfold is_lower_cover. rewrite !andb_true_iff, forallb_forall, negb_true_iff.
    (* membership in D b for b below k *)
    assert (HD : forall b, b < n -> lt b k = true -> In y (D b) -> lt y b = true).
    { intros b Hb Hbk Hin. rewrite (Inv b Hb) in Hin. destruct (Nat.ltb b k).
      - apply (lower_covers_In lt n) in Hin. tauto.
      - apply (all_sub_In sorted b y Hs Hb) in Hin. tauto. }
    split.
    + intros [[Hc Hlt] Hall]. split; [exact Hlt|].
      destruct (between lt n y k) eqn:Eb; [|reflexivity]. exfalso.
      apply (between_spec lt n) in Eb. destruct Eb as [b [Hb [H1 H2]]].
      destruct (cover_above lt n SO y b Hyn Hb H1) as [b' [Hb' [Hcov Hr]]].
      assert (Hb'k : lt b' k = true).
      { destruct Hr as [Hr|Hr]; [subst; exact H2 | apply (lt_trans lt n SO b' b k); assumption]. }
      assert (Hin : In b' (all_sub lt n sorted k)) by (apply (all_sub_In sorted k b' Hs Hk); auto).
      specialize (Hall b' Hin). apply negb_true_iff in Hall. apply mem_false_iff in Hall. apply Hall.
      rewrite (Inv b' Hb'). destruct (Nat.ltb b' k).
      * apply (lower_covers_In lt n). unfold is_lower_cover in Hcov. apply andb_true_iff in Hcov.
        destruct Hcov as [C1 C2]. apply negb_true_iff in C2. auto.
      * apply (all_sub_In sorted b' y Hs Hb'). split; [exact Hyn|]. apply (is_lower_cover_lt lt n b' y Hcov).
    + intros [Hlt Hnb]. split.
      * split; [|exact Hlt]. destruct sorted; [|reflexivity]. apply negb_true_iff. apply Nat.ltb_ge.
        assert (k < y) by (apply Hs; auto). lia.
      * intros b Hin. apply (all_sub_In sorted k b Hs Hk) in Hin. destruct Hin as [Hb Hbk].
        apply negb_true_iff. apply mem_false_iff. intros Hin.
        assert (X : between lt n y k = true).
        { apply (between_spec lt n). exists b. split; [exact Hb|]. split; [apply HD; assumption | exact Hbk]. }
        congruence.
  - rewrite upd_other by exact E. rewrite (Inv x Hx).
    destruct (Nat.ltb x k) eqn:E1.
    + apply Nat.ltb_lt in E1. replace (Nat.ltb x (S k)) with true by (symmetry; apply Nat.ltb_lt; lia). reflexivity.
    + apply Nat.ltb_ge in E1. replace (Nat.ltb x (S k)) with false by (symmetry; apply Nat.ltb_ge; lia). reflexivity.
Qed.

Lemma complete_comparison_inv sorted :
  (sorted = true -> forall i j, i < n -> j < n -> lt i j = true -> j < i) ->
  cc_inv sorted n (complete_comparison lt n sorted).
Proof.
  intros Hs. unfold complete_comparison.
  apply (fold_left_seq_inv cc_step (cc_inv sorted)).
  - intros x Hx. reflexivity.
  - intros k s Hk Inv. apply cc_step_inv; assumption.
Qed.

Theorem complete_comparison_covers a :
  a < n -> complete_comparison lt n false a = lower_covers lt n a.
Proof.
  intros Ha. assert (Hs : false = true -> forall i j, i < n -> j < n -> lt i j = true -> j < i) by discriminate.
  rewrite (complete_comparison_inv false Hs a Ha).
  replace (Nat.ltb a n) with true by (symmetry; apply Nat.ltb_lt; exact Ha). reflexivity.
Qed.

Theorem complete_comparison_sorted a :
  (forall i j, i < n -> j < n -> lt i j = true -> j < i) ->
  a < n -> complete_comparison lt n true a = lower_covers lt n a.
Proof.
  intros Hs Ha. rewrite (complete_comparison_inv true (fun _ => Hs) a Ha).
  replace (Nat.ltb a n) with true by (symmetry; apply Nat.ltb_lt; exact Ha). reflexivity.
Qed.

End CC.

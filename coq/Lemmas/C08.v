(* Lemmas/C08.v — proofs for property C08: the comparison operators of FormalConcept and
   PatternConcept are inclusion / strict inclusion / equality of extents, a partial order on the
   concepts of one context; guards; frozen fields; from_objects is the closure. *)
From FCA Require Import Base.ListSet Model.BinTable Model.FormalContext Spec.Galois Spec.Closure
  Lemmas.C01 Model.C08_Concept Spec.C08_Order.

(* ------------------------------------------------------------------ generalities *)

Lemma subset_loop_subsetb l g : subset_loop l g = subsetb l g.
Proof. reflexivity. Qed.

(* the support shortcut never changes the answer on duplicate-free extents *)
Lemma support_shortcut_sound l g : NoDup l -> length g < length l -> subsetb l g = false.
Proof.
  intros Hn Hlt. destruct (subsetb l g) eqn:E; [|reflexivity].
  apply subsetb_incl in E. pose proof (NoDup_incl_length Hn E). lia.
Qed.

Lemma same_set_NoDup_length a b : NoDup a -> NoDup b -> same_set a b -> length a = length b.
Proof.
  intros Ha Hb E. apply Nat.le_antisymm; apply NoDup_incl_length; try assumption;
    intros x Hx; apply E; exact Hx.
Qed.

Lemma subset_equal_length_same a b :
  NoDup a -> length b <= length a -> subsetb a b = true -> same_setb a b = true.
Proof.
  intros Ha Hl Hs. unfold same_setb. rewrite Hs. simpl. apply subsetb_incl.
  apply NoDup_length_incl; [exact Ha | exact Hl | apply subsetb_incl; exact Hs].
Qed.

Lemma nat_list_eqb_length a b : nat_list_eqb a b = true -> length a = length b.
Proof. intros H. apply nat_list_eqb_eq in H. subst. reflexivity. Qed.

Lemma nat_list_eqb_refl a : nat_list_eqb a a = true.
Proof. apply nat_list_eqb_eq. reflexivity. Qed.

Lemma same_setb_refl a : same_setb a a = true.
Proof. apply same_setb_spec. intros x. tauto. Qed.

Lemma ohash_eqb_eq x y : ohash_eqb x y = true <-> x = y.
Proof.
  destruct x as [x|], y as [y|]; simpl; split; intros E; try discriminate; try reflexivity.
  - apply Z.eqb_eq in E. subst. reflexivity.
  - inversion E. apply Z.eqb_refl.
Qed.

Lemma ohash_eqb_some x y : ohash_eqb (Some x) (Some y) = Z.eqb x y.
Proof. reflexivity. Qed.

(* tuple equality on canonical extents is set equality *)
Lemma list_eq_is_set_eq a b :
  increasing a -> increasing b -> nat_list_eqb a b = spec_eq a b.
Proof.
  intros Ha Hb. apply bool_eq_iff. unfold spec_eq. rewrite nat_list_eqb_eq, same_setb_spec. split.
  - intros ->. intros x. tauto.
  - apply increasing_same_set_eq; assumption.
Qed.

(* sorted(extent_i) : the insertion sort returns the canonical representative *)
Lemma insert_sorted_In x y l : In y (insert_sorted x l) <-> y = x \/ In y l.
Proof.
  induction l as [|z l IH]; simpl; [intuition|].
  destruct (Nat.leb x z); simpl; [intuition|]. rewrite IH. intuition.
Qed.

Lemma sort_nat_In y l : In y (sort_nat l) <-> In y l.
Proof.
  induction l as [|x l IH]; simpl; [tauto|].
  unfold sort_nat in *. simpl. rewrite insert_sorted_In, IH. intuition.
Qed.

Lemma insert_sorted_increasing x l :
  increasing l -> ~ In x l -> increasing (insert_sorted x l).
Proof.
  unfold increasing. intros Hs. induction Hs as [|z l Hs IH Hf]; intros Hx; simpl.
  - constructor; constructor.
  - destruct (Nat.leb_spec x z) as [L|L].
    + assert (x < z) by (destruct (Nat.eq_dec x z); [subst; exfalso; apply Hx; left; reflexivity | lia]).
      constructor; [constructor; assumption|]. constructor; [assumption|].
      rewrite Forall_forall in *. intros y Hy. specialize (Hf y Hy). lia.
    + constructor.
      * apply IH. intros Hin. apply Hx. right. exact Hin.
      * apply Forall_forall. intros y Hy. apply insert_sorted_In in Hy. destruct Hy as [E|Hy].
        -- subst. exact L.
        -- rewrite Forall_forall in Hf. apply Hf. exact Hy.
Qed.

Lemma sort_nat_increasing l : NoDup l -> increasing (sort_nat l).
Proof.
  induction 1 as [|x l Hx Hn IH]; [constructor|].
  unfold sort_nat in *. simpl. apply insert_sorted_increasing; [exact IH|].
  intros Hin. apply Hx. apply (sort_nat_In x l). exact Hin.
Qed.

Lemma sort_nat_same_set a b :
  NoDup a -> NoDup b -> same_set a b -> sort_nat a = sort_nat b.
Proof.
  intros Na Nb E. apply increasing_same_set_eq; try (apply sort_nat_increasing; assumption).
  intros x. rewrite !sort_nat_In. apply E.
Qed.

(* equality of the sorted lists is equality as sets, on duplicate-free lists *)
Lemma sorted_eq_is_set_eq a b :
  NoDup a -> NoDup b -> nat_list_eqb (sort_nat a) (sort_nat b) = spec_eq a b.
Proof.
  intros Na Nb. apply bool_eq_iff. unfold spec_eq. rewrite nat_list_eqb_eq, same_setb_spec. split.
  - intros E x. rewrite <- (sort_nat_In x a), <- (sort_nat_In x b), E. tauto.
  - apply sort_nat_same_set; assumption.
Qed.

(* ------------------------------------------------------------------ FormalConcept *)

Definition fc_comparable (a b : fconcept) : Prop :=
  fc_hash a = fc_hash b /\ fc_mono a = fc_mono b.

Lemma fc_guard_pass {A} a b (k : cres A) : fc_comparable a b -> fc_guard a b k = k.
Proof.
  intros [H1 H2]. unfold fc_guard. rewrite H1, H2.
  rewrite (proj2 (ohash_eqb_eq _ _) eq_refl), eqb_reflx. reflexivity.
Qed.

Lemma fc_comparable_sym a b : fc_comparable a b -> fc_comparable b a.
Proof. intros [H1 H2]. split; symmetry; assumption. Qed.
Lemma fc_comparable_trans a b c : fc_comparable a b -> fc_comparable b c -> fc_comparable a c.
Proof. intros [H1 H2] [H3 H4]. split; etransitivity; eassumption. Qed.
Lemma fc_comparable_refl a : fc_comparable a a.
Proof. split; reflexivity. Qed.

Theorem fc_le_is_inclusion a b :
  fc_comparable a b -> NoDup (fc_extent_i a) -> NoDup (fc_extent_i b) ->
  fc_le a b = COk (spec_le (fc_mono a) (fc_extent_i a) (fc_extent_i b)).
Proof.
  intros Hc Ha Hb. unfold fc_le. rewrite fc_guard_pass by exact Hc.
  unfold spec_le, fc_support. rewrite !subset_loop_subsetb.
  destruct (fc_mono a).
  - destruct (Nat.ltb_spec (length (fc_extent_i a)) (length (fc_extent_i b))) as [L|L];
      [|reflexivity].
    rewrite support_shortcut_sound by assumption. reflexivity.
  - destruct (Nat.ltb_spec (length (fc_extent_i b)) (length (fc_extent_i a))) as [L|L];
      [|reflexivity].
    rewrite support_shortcut_sound by assumption. reflexivity.
Qed.

(* __eq__ compares the sorted extents, whatever they are *)
Lemma sort_nat_length l : length (sort_nat l) = length l.
Proof.
  assert (X : forall x l, length (insert_sorted x l) = S (length l)).
  { intros x l0. induction l0 as [|y l0 IH]; simpl; [reflexivity|].
    destruct (Nat.leb x y); simpl; [reflexivity | rewrite IH; reflexivity]. }
  induction l as [|x l IH]; [reflexivity|]. unfold sort_nat in *. simpl. rewrite X, IH. reflexivity.
Qed.

Theorem fc_eq_sorted a b :
  fc_comparable a b ->
  fc_eq a b = COk (nat_list_eqb (sort_nat (fc_extent_i a)) (sort_nat (fc_extent_i b))).
Proof.
  intros Hc. unfold fc_eq. rewrite fc_guard_pass by exact Hc. unfold fc_support.
  destruct (Nat.eqb_spec (length (fc_extent_i a)) (length (fc_extent_i b))) as [E|NE];
    [reflexivity|]. simpl.
  destruct (nat_list_eqb (sort_nat (fc_extent_i a)) (sort_nat (fc_extent_i b))) eqn:E; [|reflexivity].
  apply nat_list_eqb_length in E. rewrite !sort_nat_length in E. contradiction.
Qed.

(* == is equality of the extents as sets, in whatever order they are listed *)
Theorem fc_eq_is_ext_equality a b :
  fc_comparable a b -> NoDup (fc_extent_i a) -> NoDup (fc_extent_i b) ->
  fc_eq a b = COk (spec_eq (fc_extent_i a) (fc_extent_i b)).
Proof. intros Hc Na Nb. rewrite fc_eq_sorted by exact Hc. rewrite sorted_eq_is_set_eq by assumption. reflexivity. Qed.

(* equal concepts hash equally, for every tuple-hash function *)
Theorem fc_eq_hash (TH : list nat -> Z) a b :
  fc_eq a b = COk true -> fc_hashv TH a = fc_hashv TH b.
Proof.
  unfold fc_eq, fc_guard, fc_hashv.
  destruct (negb (ohash_eqb (fc_hash a) (fc_hash b))); [discriminate|].
  destruct (negb (Bool.eqb (fc_mono a) (fc_mono b))); [discriminate|].
  destruct (negb (fc_support a =? fc_support b)); [discriminate|].
  intros E. inversion E as [E']. apply nat_list_eqb_eq in E'. rewrite E'. reflexivity.
Qed.

Theorem fc_lt_is_strict a b :
  fc_comparable a b -> NoDup (fc_extent_i a) -> NoDup (fc_extent_i b) ->
  fc_lt a b = COk (spec_lt (fc_mono a) (fc_extent_i a) (fc_extent_i b)).
Proof.
  intros Hc Na Nb.
  unfold fc_lt. rewrite fc_guard_pass by exact Hc. unfold fc_support, spec_lt.
  destruct (Nat.eqb_spec (length (fc_extent_i a)) (length (fc_extent_i b))) as [E|NE].
  - f_equal. symmetry. destruct (spec_le (fc_mono a) (fc_extent_i a) (fc_extent_i b)) eqn:L;
      [|reflexivity]. simpl. apply negb_false_iff. unfold spec_le, spec_eq in *.
    destruct (fc_mono a).
    + assert (X : same_setb (fc_extent_i b) (fc_extent_i a) = true)
        by (apply subset_equal_length_same; [exact Nb | lia | exact L]).
      unfold same_setb in *. rewrite andb_comm. exact X.
    + apply subset_equal_length_same; [exact Na | lia | exact L].
  - rewrite fc_le_is_inclusion by assumption. f_equal.
    assert (X : spec_eq (fc_extent_i a) (fc_extent_i b) = false).
    { destruct (spec_eq (fc_extent_i a) (fc_extent_i b)) eqn:E; [|reflexivity].
      apply same_setb_spec in E. apply same_set_NoDup_length in E; try assumption. contradiction. }
    rewrite X. simpl. rewrite andb_true_r. reflexivity.
Qed.

(* ... and in terms of the model's own <= and == *)
Theorem fc_lt_le_and_ne a b :
  fc_comparable a b -> NoDup (fc_extent_i a) -> NoDup (fc_extent_i b) ->
  exists l e, fc_le a b = COk l /\ fc_eq a b = COk e /\ fc_lt a b = COk (l && negb e).
Proof.
  intros Hc Na Nb. eexists. eexists. split; [|split].
  - apply fc_le_is_inclusion; assumption.
  - apply fc_eq_is_ext_equality; assumption.
  - apply fc_lt_is_strict; assumption.
Qed.

(* the listing order of an extent is irrelevant (since repair 0ac2495): (0,2) and (2,0) are ==,
   hash equally, are <= each other and neither is < the other *)
Definition c02 := mk_fc [0; 2] [] [] [] [] (Some 1%Z) false.
Definition c20 := mk_fc [2; 0] [] [] [] [] (Some 1%Z) false.
Lemma fc_listing_order_irrelevant (TH : list nat -> Z) :
  fc_comparable c02 c20 /\ NoDup (fc_extent_i c02) /\ NoDup (fc_extent_i c20) /\
  fc_eq c02 c20 = COk true /\ fc_ne c02 c20 = COk false /\ fc_hashv TH c02 = fc_hashv TH c20 /\
  fc_le c02 c20 = COk true /\ fc_le c20 c02 = COk true /\ fc_lt c02 c20 = COk false.
Proof.
  repeat split; try (vm_compute; reflexivity);
    repeat constructor; simpl; intuition discriminate.
Qed.

(* what is still needed is that extents are duplicate-free: (0,0) is a proper subset of (0,1) with the
   same support, so <= holds, == does not, and yet < answers False *)
Definition c00 := mk_fc [0; 0] [] [] [] [] (Some 1%Z) false.
Definition c01 := mk_fc [0; 1] [] [] [] [] (Some 1%Z) false.
Lemma fc_lt_needs_nodup_refuted :
  fc_comparable c00 c01 /\ fc_le c00 c01 = COk true /\ fc_eq c00 c01 = COk false /\
  spec_lt false (fc_extent_i c00) (fc_extent_i c01) = true /\ fc_lt c00 c01 = COk false.
Proof. repeat split; vm_compute; reflexivity. Qed.

(* derived operators *)
Lemma fc_ne_is_not_eq a b : fc_ne a b = cres_map negb (fc_eq a b).
Proof. reflexivity. Qed.
Lemma fc_ge_is_le_swapped a b : fc_ge a b = fc_le b a.
Proof. reflexivity. Qed.
Lemma fc_gt_is_lt_swapped a b : fc_gt a b = fc_lt b a.
Proof. reflexivity. Qed.

(* ---- partial order *)

Theorem fc_le_refl a : fc_le a a = COk true.
Proof.
  unfold fc_le. rewrite fc_guard_pass by apply fc_comparable_refl.
  assert (X : forall l, subset_loop l l = true).
  { intros l. rewrite subset_loop_subsetb. apply subsetb_incl, incl_refl. }
  destruct (fc_mono a); rewrite Nat.ltb_irrefl, X; reflexivity.
Qed.

Theorem fc_le_antisym a b :
  fc_comparable a b -> NoDup (fc_extent_i a) -> NoDup (fc_extent_i b) ->
  fc_le a b = COk true -> fc_le b a = COk true -> fc_eq a b = COk true.
Proof.
  intros Hc Na Nb.
  rewrite fc_le_is_inclusion by assumption.
  rewrite fc_le_is_inclusion by (try apply fc_comparable_sym; assumption).
  rewrite fc_eq_is_ext_equality by assumption.
  destruct Hc as [_ Hm]. rewrite <- Hm.
  intros H1 H2. inversion H1 as [H1']. inversion H2 as [H2'].
  rewrite H1'. rewrite (spec_le_antisym _ _ _ H1' H2'). reflexivity.
Qed.

Theorem fc_le_trans a b c :
  fc_comparable a b -> fc_comparable b c ->
  NoDup (fc_extent_i a) -> NoDup (fc_extent_i b) -> NoDup (fc_extent_i c) ->
  fc_le a b = COk true -> fc_le b c = COk true -> fc_le a c = COk true.
Proof.
  intros Hab Hbc Na Nb Nc.
  pose proof (fc_comparable_trans _ _ _ Hab Hbc) as Hac.
  rewrite !fc_le_is_inclusion by assumption.
  destruct Hab as [_ Hm]. rewrite <- Hm.
  intros H1 H2. inversion H1 as [H1']. inversion H2 as [H2'].
  rewrite H1'. rewrite (spec_le_trans _ _ _ _ H1' H2'). reflexivity.
Qed.

(* ---- guards *)

Definition all_six (a b : fconcept) (r : cres bool) : Prop :=
  fc_eq a b = r /\ fc_ne a b = r /\ fc_le a b = r /\ fc_lt a b = r /\ fc_ge a b = r /\ fc_gt a b = r.

Lemma ohash_eqb_sym x y : ohash_eqb x y = ohash_eqb y x.
Proof. destruct x, y; simpl; try reflexivity. apply Z.eqb_sym. Qed.

Theorem fc_guard_context a b :
  fc_hash a <> fc_hash b -> all_six a b (CErr UnmatchedContext).
Proof.
  intros Hne.
  assert (X : ohash_eqb (fc_hash a) (fc_hash b) = false).
  { destruct (ohash_eqb (fc_hash a) (fc_hash b)) eqn:E; [|reflexivity].
    apply ohash_eqb_eq in E. contradiction. }
  assert (Y : ohash_eqb (fc_hash b) (fc_hash a) = false) by (rewrite ohash_eqb_sym; exact X).
  unfold all_six, fc_ne, fc_ge, fc_gt, fc_eq, fc_le, fc_lt, fc_guard. rewrite X, Y. simpl.
  repeat split; reflexivity.
Qed.

Theorem fc_guard_monotone a b :
  fc_hash a = fc_hash b -> fc_mono a <> fc_mono b -> all_six a b (CErr UnmatchedMonotone).
Proof.
  intros Hh Hm.
  assert (X : ohash_eqb (fc_hash a) (fc_hash b) = true) by (apply ohash_eqb_eq; exact Hh).
  assert (Y : ohash_eqb (fc_hash b) (fc_hash a) = true) by (rewrite ohash_eqb_sym; exact X).
  assert (M : Bool.eqb (fc_mono a) (fc_mono b) = false).
  { destruct (fc_mono a), (fc_mono b); try reflexivity; exfalso; apply Hm; reflexivity. }
  assert (M' : Bool.eqb (fc_mono b) (fc_mono a) = false).
  { destruct (fc_mono a), (fc_mono b); try reflexivity; discriminate. }
  unfold all_six, fc_ne, fc_ge, fc_gt, fc_eq, fc_le, fc_lt, fc_guard. rewrite X, Y, M, M'. simpl.
  repeat split; reflexivity.
Qed.

(* ---- concepts the library derives from a context K (with hash function H) *)

Definition fc_derived (H : fctx -> Z) (K : fctx) (mono : bool) (c : fconcept) : Prop :=
  NoDup (fc_extent_i c) /\ fc_hash c = Some (H K) /\ fc_mono c = mono.

Lemma fc_derived_comparable H K mono a b :
  fc_derived H K mono a -> fc_derived H K mono b -> fc_comparable a b.
Proof. intros [_ [H1 H2]] [_ [H3 H4]]. split; congruence. Qed.

Definition ctx_eqb (Ka Kb : fctx) : bool :=
  nat_list_eqb (k_onames Ka) (k_onames Kb) && nat_list_eqb (k_anames Ka) (k_anames Kb)
  && list_eqb bool_list_eqb (k_table Ka) (k_table Kb).

Lemma ctx_eqb_eq Ka Kb : ctx_eqb Ka Kb = true <-> Ka = Kb.
Proof.
  unfold ctx_eqb. rewrite !andb_true_iff, !nat_list_eqb_eq.
  rewrite (list_eqb_eq bool_list_eqb bool_list_eqb_eq).
  destruct Ka, Kb; simpl. split.
  - intros [[-> ->] ->]. reflexivity.
  - intros E. inversion E. auto.
Qed.

(* finding D18: the guard under which a cross-context comparison is refused *)
Definition D18_guard (H : fctx -> Z) (Ka Kb : fctx) : bool :=
  negb (Z.eqb (H Ka) (H Kb)) || ctx_eqb Ka Kb.

Definition cross_context_refused (H : fctx -> Z) : Prop :=
  forall Ka Kb ma mb a b, Ka <> Kb -> fc_derived H Ka ma a -> fc_derived H Kb mb b ->
                          all_six a b (CErr UnmatchedContext).

Theorem cross_context_refused_guarded H Ka Kb ma mb a b :
  D18_guard H Ka Kb = true -> Ka <> Kb -> fc_derived H Ka ma a -> fc_derived H Kb mb b ->
  all_six a b (CErr UnmatchedContext).
Proof.
  unfold D18_guard. intros G Hne [_ [Ha _]] [_ [Hb _]]. apply fc_guard_context.
  rewrite Ha, Hb. intros E. inversion E as [E'].
  apply orb_true_iff in G. destruct G as [G|G].
  - apply negb_true_iff, Z.eqb_neq in G. contradiction.
  - apply ctx_eqb_eq in G. contradiction.
Qed.

Theorem cross_context_refused_if_injective H :
  (forall Ka Kb, H Ka = H Kb -> Ka = Kb) -> cross_context_refused H.
Proof.
  intros Hinj Ka Kb ma mb a b Hne Da Db.
  apply (cross_context_refused_guarded H Ka Kb ma mb); try assumption.
  unfold D18_guard. apply orb_true_iff. left. apply negb_true_iff, Z.eqb_neq.
  intros E. apply Hne, Hinj, E.
Qed.

Theorem same_context_monotonicity_refused H K a b :
  fc_derived H K true a -> fc_derived H K false b ->
  all_six a b (CErr UnmatchedMonotone) /\ all_six b a (CErr UnmatchedMonotone).
Proof.
  intros [_ [Ha Ma]] [_ [Hb Mb]]. split; apply fc_guard_monotone; congruence.
Qed.

Theorem fc_partial_order H K mono :
  (forall a, fc_le a a = COk true) /\
  (forall a b, fc_derived H K mono a -> fc_derived H K mono b ->
               fc_le a b = COk true -> fc_le b a = COk true -> fc_eq a b = COk true) /\
  (forall a b c, fc_derived H K mono a -> fc_derived H K mono b -> fc_derived H K mono c ->
                 fc_le a b = COk true -> fc_le b c = COk true -> fc_le a c = COk true).
Proof.
  split; [exact fc_le_refl | split].
  - intros a b Da Db. apply fc_le_antisym;
      [exact (fc_derived_comparable _ _ _ _ _ Da Db) | apply Da | apply Db].
  - intros a b c Da Db Dc. apply fc_le_trans;
      [exact (fc_derived_comparable _ _ _ _ _ Da Db) | exact (fc_derived_comparable _ _ _ _ _ Db Dc)
       | apply Da | apply Db | apply Dc].
Qed.

Theorem fc_derived_operators a b :
  fc_ne a b = cres_map negb (fc_eq a b) /\ fc_ge a b = fc_le b a /\ fc_gt a b = fc_lt b a.
Proof. repeat split. Qed.

(* D18: with the real adler32 two different contexts collide and the comparison is accepted *)
Definition K_coll_a := mk_ctx [0] [0; 1; 2; 3] [[false; true; true; false]].
Definition K_coll_b := mk_ctx [0] [0; 1; 2; 3] [[true; false; false; true]].

Theorem guards_need_injective_H_refuted : ~ cross_context_refused H_adler.
Proof.
  intros R.
  pose (a := mk_fc [0] [0] [1; 2] [1; 2] [] (Some (H_adler K_coll_a)) false).
  pose (b := mk_fc [0] [0] [0; 3] [0; 3] [] (Some (H_adler K_coll_b)) false).
  assert (Da : fc_derived H_adler K_coll_a false a).
  { split; [|split]; try reflexivity. apply increasing_NoDup, increasingb_spec. reflexivity. }
  assert (Db : fc_derived H_adler K_coll_b false b).
  { split; [|split]; try reflexivity. apply increasing_NoDup, increasingb_spec. reflexivity. }
  assert (Hne : K_coll_a <> K_coll_b) by (intros E; discriminate E).
  destruct (R _ _ _ _ a b Hne Da Db) as [_ [_ [L _]]].
  vm_compute in L. discriminate L.
Qed.

(* ---- frozen fields *)

Theorem fc_frozen o k v : fkey_defining k = true -> fc_setattr o k v = (o, Some Frozen).
Proof. intros Hk. unfold fc_setattr. rewrite Hk. reflexivity. Qed.

Definition defining_fields (c : fconcept) :=
  (fc_extent_i c, fc_extent c, fc_intent_i c, fc_intent c, fc_hash c, fc_mono c).

Theorem fc_setattr_keeps_defining o k v :
  defining_fields (fo_concept (fst (fc_setattr o k v))) = defining_fields (fo_concept o).
Proof.
  unfold fc_setattr. destruct (fkey_defining k); [reflexivity|].
  destruct k; try reflexivity; destruct v; reflexivity.
Qed.

Theorem fc_setattr_other_ok o k v : fkey_defining k = false -> snd (fc_setattr o k v) = None.
Proof.
  intros Hk. unfold fc_setattr. rewrite Hk. destruct k; try reflexivity; destruct v; reflexivity.
Qed.

(* ---- from_objects *)

Lemma first_index_from_nth k names i :
  NoDup names -> i < length names -> first_index_from k names (nth i names 0) = Some (k + i).
Proof.
  revert k i. induction names as [|y ys IH]; intros k i Hn Hi; simpl in *; [lia|].
  inversion Hn as [|? ? Hy Hn']; subst.
  destruct i as [|i].
  - rewrite Nat.eqb_refl. f_equal. lia.
  - destruct (Nat.eqb_spec (nth i ys 0) y) as [E|NE].
    + exfalso. apply Hy. rewrite <- E. apply nth_In. lia.
    + rewrite IH by (try assumption; lia). f_equal. lia.
Qed.

Lemma first_index_notin k names x : ~ In x names -> first_index_from k names x = None.
Proof.
  revert k. induction names as [|y ys IH]; intros k Hx; simpl; [reflexivity|].
  destruct (Nat.eqb_spec x y) as [E|NE]; [exfalso; apply Hx; left; symmetry; exact E|].
  apply IH. intros Hin. apply Hx. right. exact Hin.
Qed.

Lemma names_index_ok names A :
  NoDup names -> in_range (length names) A -> names_index names (map (name_of names) A) = COk A.
Proof.
  intros Hn. induction A as [|i A IH]; intros Hr; simpl; [reflexivity|].
  unfold first_index, name_of at 1. rewrite first_index_from_nth by (try assumption; apply Hr; left; reflexivity).
  rewrite IH by (intros x Hx; apply Hr; right; exact Hx). reflexivity.
Qed.

Lemma names_index_unknown names known x rest :
  NoDup names -> in_range (length names) known -> ~ In x names ->
  names_index names (map (name_of names) known ++ x :: rest) = CErr ValueErr.
Proof.
  intros Hn Hr Hx. induction known as [|i A IH]; simpl.
  - unfold first_index. rewrite first_index_notin by exact Hx. reflexivity.
  - unfold first_index, name_of at 1.
    rewrite first_index_from_nth by (try assumption; apply Hr; left; reflexivity).
    rewrite IH by (intros y Hy; apply Hr; right; exact Hy). reflexivity.
Qed.

Definition closure_concept (H : fctx -> Z) (K : fctx) (A : list nat) : fconcept :=
  let t := k_table K in
  mk_fc (cl_obj t A) (map (name_of (k_onames K)) (cl_obj t A))
        (int t A) (map (name_of (k_anames K)) (int t A)) [] (Some (H K)) false.

Theorem fc_from_objects_is_closure H b K A :
  wf (k_table K) -> in_range (height (k_table K)) A ->
  fc_from_objects H b K (ByIndex A) false false = COk (closure_concept H K A)
  /\ is_concept (k_table K) (cl_obj (k_table K) A) (int (k_table K) A).
Proof.
  intros Hwf HA. split; [|apply closure_is_concept; exact HA].
  unfold fc_from_objects, closure_concept.
  rewrite intention_i_correct by (try assumption; exact Logic.I).
  rewrite extension_i_correct by (try assumption; try exact Logic.I; apply int_in_range).
  reflexivity.
Qed.

Theorem fc_from_objects_by_name H b K A :
  wf (k_table K) -> NoDup (k_onames K) -> length (k_onames K) = height (k_table K) ->
  in_range (height (k_table K)) A ->
  fc_from_objects H b K (ByName (map (name_of (k_onames K)) A)) false false
  = COk (closure_concept H K A).
Proof.
  intros Hwf Hn Hl HA. unfold fc_from_objects.
  rewrite names_index_ok by (try assumption; rewrite Hl; exact HA).
  apply (fc_from_objects_is_closure H b K A Hwf HA).
Qed.

Theorem fc_from_objects_unknown_name H b K known x rest e :
  NoDup (k_onames K) -> in_range (length (k_onames K)) known -> ~ In x (k_onames K) ->
  fc_from_objects H b K (ByName (map (name_of (k_onames K)) known ++ x :: rest)) e false
  = CErr ValueErr.
Proof.
  intros Hn Hr Hx. unfold fc_from_objects. rewrite names_index_unknown by assumption. reflexivity.
Qed.

Theorem fc_from_objects_is_extent H b K A :
  wf (k_table K) -> in_range (height (k_table K)) A ->
  fc_from_objects H b K (ByIndex A) true false
  = COk (mk_fc A (map (name_of (k_onames K)) A) (int (k_table K) A)
               (map (name_of (k_anames K)) (int (k_table K) A)) [] (Some (H K)) false).
Proof.
  intros Hwf HA. unfold fc_from_objects.
  rewrite intention_i_correct by (try assumption; exact Logic.I). reflexivity.
Qed.

Theorem fc_from_objects_monotone_rejected H b K arg e :
  fc_from_objects H b K arg e true = CErr AssertErr.
Proof. reflexivity. Qed.

Theorem fc_from_objects_derived H b K A :
  wf (k_table K) -> in_range (height (k_table K)) A ->
  exists c, fc_from_objects H b K (ByIndex A) false false = COk c /\ fc_derived H K false c.
Proof.
  intros Hwf HA. exists (closure_concept H K A). split.
  - apply fc_from_objects_is_closure; assumption.
  - split; [|split]; try reflexivity. simpl. unfold cl_obj. apply increasing_NoDup, ext_increasing.
Qed.

(* ------------------------------------------------------------------ PatternConcept *)

Lemma pc_guard_pass {A} a b (k : cres A) : pc_hash a = pc_hash b -> pc_guard a b k = k.
Proof. intros E. unfold pc_guard. rewrite E, (proj2 (ohash_eqb_eq _ _) eq_refl). reflexivity. Qed.

Theorem pc_le_is_inclusion a b :
  pc_hash a = pc_hash b -> NoDup (pc_extent_i a) ->
  pc_le a b = COk (spec_le false (pc_extent_i a) (pc_extent_i b)).
Proof.
  intros Hh Na. unfold pc_le. rewrite pc_guard_pass by exact Hh. unfold pc_support, spec_le.
  rewrite subset_loop_subsetb.
  destruct (Nat.ltb_spec (length (pc_extent_i b)) (length (pc_extent_i a))) as [L|L]; [|reflexivity].
  rewrite support_shortcut_sound by assumption. reflexivity.
Qed.

Theorem pc_eq_is_ext_equality a b :
  pc_hash a = pc_hash b -> NoDup (pc_extent_i a) -> NoDup (pc_extent_i b) ->
  pc_eq a b = COk (spec_eq (pc_extent_i a) (pc_extent_i b)).
Proof.
  intros Hh Na Nb. unfold pc_eq. rewrite pc_guard_pass by exact Hh. unfold pc_support.
  destruct (Nat.eqb_spec (length (pc_extent_i a)) (length (pc_extent_i b))) as [E|NE]; simpl.
  - rewrite pc_le_is_inclusion by assumption. f_equal. unfold spec_le, spec_eq.
    destruct (subsetb (pc_extent_i a) (pc_extent_i b)) eqn:S.
    + symmetry. apply subset_equal_length_same; [exact Na | lia | exact S].
    + unfold same_setb. rewrite S. reflexivity.
  - f_equal. symmetry. destruct (spec_eq (pc_extent_i a) (pc_extent_i b)) eqn:E; [|reflexivity].
    apply same_setb_spec in E. apply same_set_NoDup_length in E; try assumption. contradiction.
Qed.

Theorem pc_eq_hash (PH : list nat * option Z -> Z) a b :
  increasing (pc_extent_i a) -> increasing (pc_extent_i b) ->
  pc_eq a b = COk true -> pc_hashv PH a = pc_hashv PH b.
Proof.
  intros Ha Hb E.
  assert (Hh : pc_hash a = pc_hash b).
  { unfold pc_eq, pc_guard in E. destruct (ohash_eqb (pc_hash a) (pc_hash b)) eqn:X;
      [apply ohash_eqb_eq; exact X | discriminate]. }
  rewrite pc_eq_is_ext_equality in E by (try apply increasing_NoDup; assumption).
  inversion E as [E']. apply same_setb_spec in E'.
  unfold pc_hashv. rewrite Hh, (increasing_same_set_eq _ _ Ha Hb E'). reflexivity.
Qed.

(* the hash is insensitive to the order of the stored extent exactly as == is *)
Theorem pc_eq_hash_nodup (PH : list nat * option Z -> Z) a b :
  NoDup (pc_extent_i a) -> NoDup (pc_extent_i b) ->
  pc_eq a b = COk true -> pc_hashv PH a = pc_hashv PH b.
Proof.
  intros Na Nb E.
  assert (Hh : pc_hash a = pc_hash b).
  { unfold pc_eq, pc_guard in E. destruct (ohash_eqb (pc_hash a) (pc_hash b)) eqn:X;
      [apply ohash_eqb_eq; exact X | discriminate]. }
  rewrite pc_eq_is_ext_equality in E by assumption.
  inversion E as [E']. apply same_setb_spec in E'.
  unfold pc_hashv. rewrite Hh, (sort_nat_same_set _ _ Na Nb E'). reflexivity.
Qed.

Theorem pc_lt_is_strict a b :
  pc_hash a = pc_hash b -> NoDup (pc_extent_i a) -> NoDup (pc_extent_i b) ->
  pc_lt a b = COk (spec_lt false (pc_extent_i a) (pc_extent_i b)).
Proof.
  intros Hh Na Nb. unfold pc_lt. rewrite pc_guard_pass by exact Hh. unfold pc_support, spec_lt.
  destruct (Nat.leb_spec (length (pc_extent_i b)) (length (pc_extent_i a))) as [L|L].
  - f_equal. symmetry.
    destruct (spec_le false (pc_extent_i a) (pc_extent_i b)) eqn:S; [|reflexivity]. simpl.
    apply negb_false_iff. apply subset_equal_length_same; [exact Na | exact L | exact S].
  - rewrite pc_le_is_inclusion by assumption. f_equal.
    assert (X : spec_eq (pc_extent_i a) (pc_extent_i b) = false).
    { destruct (spec_eq (pc_extent_i a) (pc_extent_i b)) eqn:E; [|reflexivity].
      apply same_setb_spec in E. apply same_set_NoDup_length in E; try assumption. lia. }
    rewrite X. simpl. rewrite andb_true_r. reflexivity.
Qed.

Theorem pc_le_refl a : pc_le a a = COk true.
Proof.
  unfold pc_le. rewrite pc_guard_pass by reflexivity. rewrite Nat.ltb_irrefl.
  rewrite subset_loop_subsetb. f_equal. apply subsetb_incl, incl_refl.
Qed.

Theorem pc_le_antisym a b :
  pc_hash a = pc_hash b -> NoDup (pc_extent_i a) -> NoDup (pc_extent_i b) ->
  pc_le a b = COk true -> pc_le b a = COk true -> pc_eq a b = COk true.
Proof.
  intros Hh Na Nb. rewrite !pc_le_is_inclusion by (assumption || (symmetry; assumption)).
  rewrite pc_eq_is_ext_equality by assumption.
  intros H1 H2. f_equal. apply (spec_le_antisym false); congruence.
Qed.

Theorem pc_le_trans a b c :
  pc_hash a = pc_hash b -> pc_hash b = pc_hash c -> NoDup (pc_extent_i a) -> NoDup (pc_extent_i b) ->
  pc_le a b = COk true -> pc_le b c = COk true -> pc_le a c = COk true.
Proof.
  intros Hab Hbc Na Nb. rewrite !pc_le_is_inclusion by (try assumption; congruence).
  intros H1 H2. f_equal. apply (spec_le_trans false _ (pc_extent_i b)); congruence.
Qed.

Definition pc_all_six (a b : pconcept) (r : cres bool) : Prop :=
  pc_eq a b = r /\ pc_ne a b = r /\ pc_le a b = r /\ pc_lt a b = r /\ pc_ge a b = r /\ pc_gt a b = r.

Theorem pc_guard_context a b : pc_hash a <> pc_hash b -> pc_all_six a b (CErr NotImpl).
Proof.
  intros Hne.
  assert (X : ohash_eqb (pc_hash a) (pc_hash b) = false).
  { destruct (ohash_eqb (pc_hash a) (pc_hash b)) eqn:E; [|reflexivity].
    apply ohash_eqb_eq in E. contradiction. }
  assert (Y : ohash_eqb (pc_hash b) (pc_hash a) = false) by (rewrite ohash_eqb_sym; exact X).
  unfold pc_all_six, pc_ne, pc_ge, pc_gt, pc_eq, pc_le, pc_lt, pc_guard. rewrite X, Y. simpl.
  repeat split; reflexivity.
Qed.

Theorem pc_frozen c k m : pkey_readonly k = true -> pc_setattr c k m = (c, Some Frozen).
Proof. intros Hk. unfold pc_setattr. rewrite Hk. reflexivity. Qed.

Theorem pc_setattr_keeps_defining c k m :
  let c' := fst (pc_setattr c k m) in
  (pc_extent_i c', pc_extent c', pc_intent_i c', pc_hash c')
  = (pc_extent_i c, pc_extent c, pc_intent_i c, pc_hash c).
Proof. unfold pc_setattr. destruct (pkey_readonly k); reflexivity. Qed.

(* Lemmas/C13.v — proofs for C13: every shipped pattern structure is a Galois connection
   (extension = containment filter, intention = most specific description), the numpy interval
   engine equals the pure-python one, and the binary-attribute view is counted and means what
   its printed description says. *)
From FCA Require Import Base.ListSet Model.PatternStructure Spec.PatternSpec Spec.Galois.
From Coq Require Import Sorting.Sorted.


(* ------------------------------------------------------------------ generic list facts *)
Lemma filter_false_all {A} (l : list A) : filter (fun _ => false) l = [].
Proof. induction l; simpl; auto. Qed.
Lemma filter_true_all {A} (l : list A) : filter (fun _ => true) l = l.
Proof. induction l; simpl; congruence. Qed.

Lemma map_as_nth_seq_from {A B} (h : A -> B) (l pre : list A) d :
  map h l = map (fun g => h (nth g (pre ++ l) d)) (seq (length pre) (length l)).
Proof.
  revert pre. induction l as [|x l IH]; intros pre; simpl; [reflexivity|].
  rewrite app_nth2 by lia. rewrite Nat.sub_diag. simpl. f_equal.
  specialize (IH (pre ++ [x])). rewrite app_length in IH. simpl in IH.
  rewrite Nat.add_1_r in IH. rewrite IH. apply map_ext. intros g.
  rewrite <- app_assoc. reflexivity.
Qed.

Lemma map_as_nth_seq {A B} (h : A -> B) (l : list A) d :
  map h l = map (fun g => h (nth g l d)) (seq 0 (length l)).
Proof. apply (map_as_nth_seq_from h l [] d). Qed.

Lemma map2_andb_map {A} (f g : A -> bool) (l : list A) :
  map2 andb (map f l) (map g l) = map (fun x => f x && g x) l.
Proof. induction l; simpl; congruence. Qed.

Lemma mem_filter_seq (p : nat -> bool) n g :
  g < n -> mem g (filter p (seq 0 n)) = p g.
Proof.
  intros Hg. apply bool_eq_iff. rewrite mem_In, filter_In, in_seq. split.
  - tauto.
  - intros H. split; [lia | exact H].
Qed.

(* ------------------------------------------------------------------ min / max folds *)
Lemma fold_min_le_acc l x : (fold_left Z.min l x <= x)%Z.
Proof. revert x. induction l as [|y l IH]; intros x; simpl; [lia|]. specialize (IH (Z.min x y)). lia. Qed.
Lemma fold_min_le_in l x y : In y l -> (fold_left Z.min l x <= y)%Z.
Proof.
  revert x. induction l as [|z l IH]; intros x H; simpl; [destruct H|].
  destruct H as [H|H].
  - subst. pose proof (fold_min_le_acc l (Z.min x y)). lia.
  - apply IH. exact H.
Qed.
Lemma fold_min_glb l x z : (z <= x)%Z -> (forall y, In y l -> (z <= y)%Z) -> (z <= fold_left Z.min l x)%Z.
Proof.
  revert x. induction l as [|y l IH]; intros x Hx H; simpl; [exact Hx|].
  apply IH; [|intros; apply H; right; assumption].
  pose proof (H y (or_introl eq_refl)). lia.
Qed.
Lemma fold_max_ge_acc l x : (x <= fold_left Z.max l x)%Z.
Proof. revert x. induction l as [|y l IH]; intros x; simpl; [lia|]. specialize (IH (Z.max x y)). lia. Qed.
Lemma fold_max_ge_in l x y : In y l -> (y <= fold_left Z.max l x)%Z.
Proof.
  revert x. induction l as [|z l IH]; intros x H; simpl; [destruct H|].
  destruct H as [H|H].
  - subst. pose proof (fold_max_ge_acc l (Z.max x y)). lia.
  - apply IH. exact H.
Qed.
Lemma fold_max_lub l x z : (x <= z)%Z -> (forall y, In y l -> (y <= z)%Z) -> (fold_left Z.max l x <= z)%Z.
Proof.
  revert x. induction l as [|y l IH]; intros x Hx H; simpl; [exact Hx|].
  apply IH; [|intros; apply H; right; assumption].
  pose proof (H y (or_introl eq_refl)). lia.
Qed.

Lemma zmin_of_le l y : In y l -> (zmin_of l <= y)%Z.
Proof.
  destruct l as [|x t]; simpl; [tauto|]. intros [H|H].
  - subst. apply fold_min_le_acc.
  - apply fold_min_le_in. exact H.
Qed.
Lemma zmax_of_ge l y : In y l -> (y <= zmax_of l)%Z.
Proof.
  destruct l as [|x t]; simpl; [tauto|]. intros [H|H].
  - subst. apply fold_max_ge_acc.
  - apply fold_max_ge_in. exact H.
Qed.
Lemma zmin_of_glb l z : l <> [] -> (forall y, In y l -> (z <= y)%Z) -> (z <= zmin_of l)%Z.
Proof.
  destruct l as [|x t]; [congruence|]. intros _ H. simpl.
  apply fold_min_glb; [apply H; left; reflexivity | intros; apply H; right; assumption].
Qed.
Lemma zmax_of_lub l z : l <> [] -> (forall y, In y l -> (y <= z)%Z) -> (zmax_of l <= z)%Z.
Proof.
  destruct l as [|x t]; [congruence|]. intros _ H. simpl.
  apply fold_max_lub; [apply H; left; reflexivity | intros; apply H; right; assumption].
Qed.

(* ------------------------------------------------------------------ interval: numpy = pure *)
Lemma ivl_step_minmax data mn mx g :
  ivl_step data (mn, mx) g = (Z.min mn (fst (iv_at data g)), Z.max mx (snd (iv_at data g))).
Proof.
  unfold ivl_step. destruct (iv_at data g) as [vmin vmax]. simpl.
  f_equal.
  - destruct (Z.ltb_spec vmin mn); lia.
  - rewrite Z.gtb_ltb. destruct (Z.ltb_spec mx vmax); lia.
Qed.

Lemma ivl_fold data rest mn mx :
  fold_left (ivl_step data) rest (mn, mx)
  = (fold_left Z.min (map (fun g => fst (iv_at data g)) rest) mn,
     fold_left Z.max (map (fun g => snd (iv_at data g)) rest) mx).
Proof.
  revert mn mx. induction rest as [|g rest IH]; intros mn mx; cbn [fold_left map]; [reflexivity|].
  rewrite ivl_step_minmax. apply IH.
Qed.

Lemma np_take_fst data A : np_take (map fst data) A = map (fun g => fst (iv_at data g)) A.
Proof.
  unfold np_take, iv_at. apply map_ext. intros g.
  change 0%Z with (fst (0%Z, 0%Z)) at 1. apply map_nth.
Qed.
Lemma np_take_snd data A : np_take (map snd data) A = map (fun g => snd (iv_at data g)) A.
Proof.
  unfold np_take, iv_at. apply map_ext. intros g.
  change 0%Z with (snd (0%Z, 0%Z)) at 1. apply map_nth.
Qed.

Lemma ivn_intention_eq data A : ivn_intention data A = ivl_intention data A.
Proof.
  destruct A as [|g0 rest]; [reflexivity|].
  unfold ivn_intention, ivl_intention. rewrite np_take_fst, np_take_snd. simpl.
  destruct (iv_at data g0) as [l r] eqn:E. rewrite ivl_fold. simpl. reflexivity.
Qed.

Lemma ivl_test_alt a b v : ivl_test (a, b) v = ((a <=? fst v)%Z && (snd v <=? b)%Z).
Proof. reflexivity. Qed.

Lemma ivn_extension_eq data d base : ivn_extension data d base = ivl_extension data d base.
Proof.
  destruct d as [[a b]|]; [|reflexivity].
  unfold ivn_extension, ivl_extension. destruct base as [b0|]; simpl.
  - rewrite np_take_fst, np_take_snd, !map_map.
    rewrite (map2_andb_map (fun g => (a <=? fst (iv_at data g))%Z) (fun g => (snd (iv_at data g) <=? b)%Z)).
    rewrite select_map_filter. reflexivity.
  - rewrite !map_map.
    rewrite (map2_andb_map (fun v : iv => (a <=? fst v)%Z) (fun v : iv => (snd v <=? b)%Z)).
    rewrite search1_select, map_length.
    rewrite (map_as_nth_seq _ data (0%Z, 0%Z)).
    rewrite select_map_filter. reflexivity.
Qed.

(* sorting a strictly increasing list again changes nothing *)
Lemma zinsert_uniq_In x y l : In y (zinsert_uniq x l) <-> y = x \/ In y l.
Proof.
  induction l as [|z l IH]; simpl; [intuition|].
  destruct (Z.ltb_spec x z); simpl; [intuition|].
  destruct (Z.eqb_spec x z); simpl.
  - subst. intuition.
  - rewrite IH. intuition.
Qed.
Lemma zsort_uniq_In y l : In y (zsort_uniq l) <-> In y l.
Proof.
  induction l as [|x l IH]; simpl; [tauto|]. rewrite zinsert_uniq_In, IH. intuition.
Qed.

Lemma zinsert_uniq_sorted x l : Sorted Z.lt l -> Sorted Z.lt (zinsert_uniq x l).
Proof.
  induction l as [|y l IH]; intros H; simpl; [repeat constructor|].
  destruct (Z.ltb_spec x y); [constructor; [exact H | constructor; exact H0]|].
  destruct (Z.eqb_spec x y); [exact H|].
  inversion H; subst. constructor; [apply IH; assumption|].
  destruct l as [|z l]; simpl.
  - constructor. lia.
  - destruct (Z.ltb_spec x z); [constructor; lia|].
    destruct (Z.eqb_spec x z); [assumption|]. inversion H4; subst. constructor. assumption.
Qed.
Lemma zsort_uniq_sorted l : Sorted Z.lt (zsort_uniq l).
Proof. induction l; simpl; [constructor | apply zinsert_uniq_sorted; assumption]. Qed.

Lemma zsort_sorted_id l : Sorted Z.lt l -> zsort l = l.
Proof.
  induction l as [|x l IH]; intros H; [reflexivity|]. inversion H; subst.
  simpl. rewrite IH by assumption. destruct l as [|y l]; [reflexivity|].
  simpl. inversion H3; subst. destruct (Z.leb_spec x y); [reflexivity | lia].
Qed.

Lemma ivn_bin_attrs_eq data : ivn_bin_attrs data = ivl_bin_attrs data.
Proof.
  unfold ivn_bin_attrs, ivl_bin_attrs.
  rewrite !zsort_sorted_id by apply zsort_uniq_sorted.
  f_equal. f_equal; [|f_equal].
  - apply map_ext. intros lb. rewrite map_map. reflexivity.
  - apply map_ext. intros rb. rewrite map_map. reflexivity.
Qed.

(* ------------------------------------------------------------------ extension = containment filter *)
Lemma set_test_subsetb s row : set_test s row = subsetb row s.
Proof.
  unfold set_test. apply bool_eq_iff. rewrite same_setb_spec, subsetb_incl. unfold same_set, incl. split.
  - intros H x Hx. apply H in Hx. apply inter_In in Hx. tauto.
  - intros H x. rewrite inter_In. split; [tauto|]. intros Hx. split; [exact Hx | apply H; exact Hx].
Qed.

Lemma covers_iv a b data g :
  covers (DIv (Some (a, b))) (value_at (CInterval data) g) = ivl_test (a, b) (iv_at data g).
Proof. unfold iv_at. simpl. destruct (nth g data (0%Z, 0%Z)) as [l r]. reflexivity. Qed.

Lemma ext_exact_interval data d base :
  ivl_extension data d base = ext_ps_spec (CInterval data) (DIv d) (default (seq 0 (length data)) base).
Proof.
  unfold ivl_extension, ext_ps_spec. destruct d as [[a b]|].
  - apply filter_ext_in'. intros g _. symmetry. apply covers_iv.
  - symmetry. apply filter_false_all.
Qed.

Lemma ext_exact_set data d base :
  set_extension data d base = ext_ps_spec (CSet data) (DSet d) (default (seq 0 (length data)) base).
Proof.
  unfold set_extension, ext_ps_spec. destruct d as [s|].
  - apply filter_ext_in'. intros g _. simpl. unfold set_at. apply set_test_subsetb.
  - symmetry. apply filter_false_all.
Qed.

Lemma ext_exact_attr data d base :
  attr_extension data d base = ext_ps_spec (CAttr data) (DAttr d) (default (seq 0 (length data)) base).
Proof.
  unfold attr_extension, ext_ps_spec. destruct d; simpl.
  - apply filter_ext_in'. intros g _. reflexivity.
  - symmetry. apply filter_true_all.
Qed.

Lemma extension_filter c d base :
  desc_matches c d = true ->
  ps_extension c d base = ext_ps_spec c d (default (all_rows c) base).
Proof.
  intros Hm. destruct c as [data|data|data|data], d as [d|d|d]; try discriminate Hm; unfold all_rows; simpl ps_extension; simpl col_len.
  - apply ext_exact_interval.
  - rewrite ivn_extension_eq. apply ext_exact_interval.
  - apply ext_exact_set.
  - apply ext_exact_attr.
Qed.

Theorem extension_exact c d base :
  desc_matches c d = true -> opt_in_range (col_len c) base ->
  ps_extension c d base = ext_ps_spec c d (default (all_rows c) base).
Proof. intros Hm _. apply extension_filter. exact Hm. Qed.

Lemma In_ext_all c d g :
  desc_matches c d = true ->
  (In g (ps_extension c d None) <-> g < col_len c /\ covers d (value_at c g) = true).
Proof.
  intros Hm. rewrite extension_exact by (exact Hm || exact Logic.I). simpl default.
  unfold ext_ps_spec, all_rows. rewrite filter_In, in_seq. split; intros [H1 H2]; split; auto; lia.
Qed.

(* ------------------------------------------------------------------ intention: what it is *)
Lemma ivl_intention_minmax data g0 rest :
  ivl_intention data (g0 :: rest)
  = Some (zmin_of (map (fun g => fst (iv_at data g)) (g0 :: rest)),
          zmax_of (map (fun g => snd (iv_at data g)) (g0 :: rest))).
Proof.
  unfold ivl_intention. destruct (iv_at data g0) as [l r] eqn:E. rewrite ivl_fold.
  simpl. rewrite E. reflexivity.
Qed.

Lemma set_intention_In_gen data A acc x :
  In x (fold_left (fun acc g => set_union acc (set_at data g)) A acc)
  <-> In x acc \/ exists g, In g A /\ In x (set_at data g).
Proof.
  revert acc. induction A as [|g A IH]; intros acc; simpl.
  - split; [auto | intros [H|[g [[] _]]]; exact H].
  - rewrite IH. unfold set_union at 1. rewrite in_app_iff, filter_In, negb_true_iff, mem_false_iff. split.
    + intros [[H|[H _]]|[g' [H1 H2]]].
      * left. exact H.
      * right. exists g. split; [left; reflexivity | exact H].
      * right. exists g'. split; [right; exact H1 | exact H2].
    + intros [H|[g' [[H1|H1] H2]]].
      * left. left. exact H.
      * subst g'. destruct (in_dec Nat.eq_dec x acc) as [Hi|Hn]; [left; left; exact Hi|].
        left. right. split; assumption.
      * right. exists g'. split; assumption.
Qed.

Lemma set_intention_In data A x :
  In x (set_intention data A) <-> exists g, In g A /\ In x (set_at data g).
Proof. unfold set_intention. rewrite set_intention_In_gen. simpl. tauto. Qed.

(* ------------------------------------------------------------------ the Galois laws *)
Definition ps_intention_pure (c : column) (A : list nat) : desc := ps_intention (pure_twin c) A.

Lemma ps_intention_twin c A : ps_intention c A = ps_intention (pure_twin c) A.
Proof. destruct c; simpl; try reflexivity. rewrite ivn_intention_eq. reflexivity. Qed.

Lemma intention_matches c A : desc_matches c (ps_intention c A) = true.
Proof. destruct c; reflexivity. Qed.

Lemma value_at_twin c g : value_at (pure_twin c) g = value_at c g.
Proof. destruct c; reflexivity. Qed.

(* the intention covers every member *)
Lemma intention_covers c A g :
  In g A -> covers (ps_intention c A) (value_at c g) = true.
Proof.
  intros Hg. rewrite ps_intention_twin, <- (value_at_twin c g).
  destruct A as [|g0 rest]; [destruct Hg|].
  destruct c as [data|data|data|data]; cbn [pure_twin ps_intention].
  1,2: rewrite ivl_intention_minmax; rewrite covers_iv; rewrite ivl_test_alt;
       apply andb_true_iff; split; apply Z.leb_le;
       [apply zmin_of_le; apply (in_map (fun g => fst (iv_at data g))); exact Hg
       |apply zmax_of_ge; apply (in_map (fun g => snd (iv_at data g))); exact Hg].
  - simpl. apply subsetb_incl. intros x Hx. apply set_intention_In. exists g. split; [exact Hg | exact Hx].
  - unfold attr_intention. cbn [value_at covers].
    destruct (forallb (attr_at data) (g0 :: rest)) eqn:E; [|reflexivity].
    rewrite forallb_forall in E. cbn [implb]. apply (E g Hg).
Qed.

(* ... and is below every description that covers every member *)
Lemma intention_least c A d g :
  A <> [] -> desc_matches c d = true ->
  (forall a, In a A -> covers d (value_at c a) = true) ->
  covers (ps_intention c A) (value_at c g) = true -> covers d (value_at c g) = true.
Proof.
  intros HA Hm Hall. rewrite ps_intention_twin.
  assert (Hall' : forall a, In a A -> covers d (value_at (pure_twin c) a) = true)
    by (intros a Ha; rewrite value_at_twin; apply Hall; exact Ha).
  rewrite <- (value_at_twin c g). clear Hall.
  assert (Hm' : desc_matches (pure_twin c) d = true) by (destruct c, d; simpl in *; congruence).
  clear Hm. destruct A as [|g0 rest]; [congruence|]. clear HA.
  destruct (pure_twin c) as [data|data|data|data] eqn:Ec, d as [d|d|d]; try discriminate Hm';
    cbn [ps_intention].
  - (* interval *)
    destruct d as [[a b]|].
    2:{ specialize (Hall' g0 (or_introl eq_refl)). simpl in Hall'. destruct (nth g0 data (0%Z,0%Z)); discriminate. }
    rewrite ivl_intention_minmax, !covers_iv, !ivl_test_alt.
    rewrite !andb_true_iff, !Z.leb_le. intros [H1 H2].
    assert (Ha : (a <= zmin_of (map (fun g => fst (iv_at data g)) (g0 :: rest)))%Z).
    { apply zmin_of_glb; [discriminate|]. intros y Hy. apply in_map_iff in Hy. destruct Hy as [x [E Hx]]. subst y.
      specialize (Hall' x Hx). rewrite covers_iv, ivl_test_alt, andb_true_iff, !Z.leb_le in Hall'. tauto. }
    assert (Hb : (zmax_of (map (fun g => snd (iv_at data g)) (g0 :: rest)) <= b)%Z).
    { apply zmax_of_lub; [discriminate|]. intros y Hy. apply in_map_iff in Hy. destruct Hy as [x [E Hx]]. subst y.
      specialize (Hall' x Hx). rewrite covers_iv, ivl_test_alt, andb_true_iff, !Z.leb_le in Hall'. tauto. }
    simpl fst in *. simpl snd in *. split; lia.
  - (* numpy: impossible, pure_twin never is *)
    destruct c; discriminate Ec.
  - (* set *)
    destruct d as [s|].
    2:{ specialize (Hall' g0 (or_introl eq_refl)). discriminate Hall'. }
    simpl. rewrite !subsetb_incl. intros H x Hx. apply H in Hx. apply set_intention_In in Hx.
    destruct Hx as [a [Ha Hx]]. specialize (Hall' a Ha). simpl in Hall'. rewrite subsetb_incl in Hall'.
    apply Hall'. exact Hx.
  - (* attribute *)
    destruct d; [|reflexivity]. unfold attr_intention.
    assert (E : forallb (attr_at data) (g0 :: rest) = true).
    { apply forallb_forall. intros a Ha. specialize (Hall' a Ha). simpl in Hall'. exact Hall'. }
    rewrite E. tauto.
Qed.

Theorem galois_extensive c A :
  A <> [] -> in_range (col_len c) A ->
  incl A (ps_extension c (ps_intention c A) None).
Proof.
  intros _ Hr g Hg. apply In_ext_all; [apply intention_matches|].
  split; [apply Hr; exact Hg | apply intention_covers; exact Hg].
Qed.

Theorem galois_least c A d :
  A <> [] -> desc_matches c d = true ->
  incl A (ps_extension c d None) ->
  incl (ps_extension c (ps_intention c A) None) (ps_extension c d None).
Proof.
  intros HA Hm Hin g Hg. apply In_ext_all in Hg; [|apply intention_matches].
  destruct Hg as [Hn Hc]. apply In_ext_all; [exact Hm|]. split; [exact Hn|].
  apply (intention_least c A d g HA Hm); [|exact Hc].
  intros a Ha. apply Hin in Ha. apply In_ext_all in Ha; [tauto | exact Hm].
Qed.

(* consequently the extension of any description is closed *)
Corollary extension_closed c d :
  desc_matches c d = true -> ps_extension c d None <> [] ->
  ps_extension c (ps_intention c (ps_extension c d None)) None = ps_extension c d None.
Proof.
  intros Hm Hne. set (E := ps_extension c d None) in *.
  rewrite extension_exact by (apply intention_matches || exact Logic.I). simpl default.
  assert (HE : E = ext_ps_spec c d (all_rows c)) by (unfold E; rewrite extension_exact by (exact Hm || exact Logic.I); reflexivity).
  rewrite HE at 2. unfold ext_ps_spec. apply filter_ext_in'. intros g Hg.
  apply in_seq in Hg. apply bool_eq_iff. split; intros H.
  - apply (intention_least c E d g Hne Hm); [|exact H].
    intros a Ha. unfold E in Ha. apply In_ext_all in Ha; [tauto | exact Hm].
  - apply intention_covers. unfold E. apply In_ext_all; [exact Hm|]. split; [unfold col_len, all_rows in *; lia | exact H].
Qed.

Theorem empty_convention_pinned c : ps_intention c [] = empty_convention c.
Proof. destruct c; reflexivity. Qed.

Theorem numpy_agrees data :
  (forall A, ps_intention (CIntervalNp data) A = ps_intention (CInterval data) A) /\
  (forall d base, ps_extension (CIntervalNp data) d base = ps_extension (CInterval data) d base) /\
  ps_bin_attrs (CIntervalNp data) = ps_bin_attrs (CInterval data) /\
  ps_n_bin_attrs (CIntervalNp data) = ps_n_bin_attrs (CInterval data).
Proof.
  repeat split.
  - intros A. cbn [ps_intention]. rewrite ivn_intention_eq. reflexivity.
  - intros [d|d|d] base; cbn [ps_extension]; try reflexivity. apply ivn_extension_eq.
  - cbn [ps_bin_attrs]. rewrite ivn_bin_attrs_eq. reflexivity.
Qed.

(* ------------------------------------------------------------------ counting binary attributes *)
Definition sumf (f : nat -> nat) (n : nat) : nat := list_sum (map f (seq 0 n)).

Lemma sumf_S_head f n : sumf f (S n) = f 0 + sumf (fun k => f (S k)) n.
Proof. unfold sumf. simpl. rewrite <- seq_shift, map_map. reflexivity. Qed.

Lemma sumf_add f g n : sumf (fun k => f k + g k) n = sumf f n + sumf g n.
Proof.
  unfold sumf. induction (seq 0 n) as [|k l IH]; simpl; [reflexivity|]. rewrite IH. lia.
Qed.

Lemma sumf_ext f g n : (forall k, f k = g k) -> sumf f n = sumf g n.
Proof. intros H. unfold sumf. f_equal. apply map_ext. exact H. Qed.

Lemma sumf_zero n : sumf (fun _ => 0) n = 0.
Proof. unfold sumf. induction (seq 0 n); simpl; auto. Qed.

Lemma comb_len_0 l : length (combinations l 0) = 1.
Proof. destruct l; reflexivity. Qed.

Lemma comb_total l : forall m, length l <= m ->
  sumf (fun k => length (combinations l k)) (S m) = 2 ^ length l.
Proof.
  induction l as [|x t IH]; intros m Hm.
  - rewrite sumf_S_head.
    rewrite (sumf_ext (fun k => length (combinations [] (S k))) (fun _ => 0) m) by reflexivity.
    rewrite sumf_zero. reflexivity.
  - cbn [length] in Hm. destruct m as [|m']; [lia|].
    rewrite sumf_S_head. rewrite comb_len_0.
    rewrite (sumf_ext (fun k => length (combinations (x :: t) (S k)))
                      (fun k => length (combinations t k) + length (combinations t (S k)))).
    2:{ intros k. cbn [combinations]. rewrite app_length, map_length. reflexivity. }
    rewrite sumf_add.
    pose proof (IH m' ltac:(lia)) as H1.
    pose proof (IH (S m') ltac:(lia)) as H2.
    rewrite sumf_S_head, comb_len_0 in H2.
    rewrite H1. cbn [length]. rewrite Nat.pow_succ_r'. lia.
Qed.

Lemma flat_map_len {A B} (f : A -> list B) l :
  length (flat_map f l) = list_sum (map (fun x => length (f x)) l).
Proof. induction l as [|x l IH]; simpl; [reflexivity|]. rewrite app_length, IH. reflexivity. Qed.

Lemma list_sum_rev l : list_sum (rev l) = list_sum l.
Proof. induction l as [|x l IH]; simpl; [reflexivity|]. rewrite list_sum_app, IH. simpl. lia. Qed.

Lemma set_bin_attrs_count data : set_n_bin_attrs data = length (set_bin_attrs data).
Proof.
  unfold set_n_bin_attrs, set_bin_attrs. set (u := set_uniq_vals data).
  rewrite flat_map_len. rewrite map_rev, list_sum_rev.
  rewrite (map_ext _ (fun k => length (combinations u k))) by (intros k; apply map_length).
  symmetry. apply (comb_total u (length u)). lia.
Qed.

Lemma zinsert_uniq_nonempty x l : zinsert_uniq x l <> [].
Proof.
  destruct l as [|y t]; simpl; [discriminate|].
  destruct (x <? y)%Z; [discriminate|]. destruct (x =? y)%Z; discriminate.
Qed.
Lemma zsort_uniq_nonempty l : l <> [] -> zsort_uniq l <> [].
Proof. destruct l as [|x t]; [congruence|]. intros _. simpl. apply zinsert_uniq_nonempty. Qed.

Lemma tl_length_pos {A} (l : list A) : l <> [] -> S (length (tl l)) = length l.
Proof. destruct l; [congruence | reflexivity]. Qed.

Lemma ivl_bin_attrs_count data : data <> [] -> ivl_n_bin_attrs data = length (ivl_bin_attrs data).
Proof.
  intros Hd. unfold ivl_n_bin_attrs, ivl_bin_attrs.
  assert (H1 : zsort_uniq (map fst data) <> []) by (apply zsort_uniq_nonempty; destruct data; [congruence | discriminate]).
  assert (H2 : zsort_uniq (map snd data) <> []) by (apply zsort_uniq_nonempty; destruct data; [congruence | discriminate]).
  assert (H3 : rev (zsort_uniq (map snd data)) <> []).
  { intros E. apply H2. rewrite <- (rev_involutive (zsort_uniq (map snd data))), E. reflexivity. }
  simpl length. rewrite !app_length, !map_length. simpl length.
  pose proof (tl_length_pos _ H1). pose proof (tl_length_pos _ H3). rewrite rev_length in H0. lia.
Qed.

Theorem bin_attrs_count c : col_len c <> 0 -> ps_n_bin_attrs c = length (ps_bin_attrs c).
Proof.
  intros Hn. destruct c as [data|data|data|data]; cbn [ps_n_bin_attrs ps_bin_attrs]; rewrite map_length.
  - apply ivl_bin_attrs_count. destruct data; [exact (fun _ => Hn eq_refl) | discriminate].
  - rewrite ivn_bin_attrs_eq. apply ivl_bin_attrs_count. destruct data; [exact (fun _ => Hn eq_refl) | discriminate].
  - apply set_bin_attrs_count.
  - reflexivity.
Qed.

(* ------------------------------------------------------------------ what a binary attribute means *)
Lemma bits_of_ext c d :
  desc_matches c d = true ->
  map (fun g => mem g (ps_extension c d None)) (all_rows c)
  = map (fun g => covers d (value_at c g)) (all_rows c).
Proof.
  intros Hm. rewrite extension_exact by (exact Hm || exact Logic.I). simpl default.
  apply map_ext_in. intros g Hg. unfold all_rows in *. apply in_seq in Hg.
  unfold ext_ps_spec. apply mem_filter_seq. lia.
Qed.

Lemma ivl_bin_meaning data d e :
  In (d, e) (ivl_bin_attrs data) ->
  e = map (fun g => covers (DIv d) (value_at (CInterval data) g)) (seq 0 (length data)).
Proof.
  unfold ivl_bin_attrs.
  set (ul := zsort_uniq (map fst data)). set (ur := zsort_uniq (map snd data)).
  assert (Hmin : forall g, g < length data -> (zmin_of ul <= fst (iv_at data g))%Z).
  { intros g Hg. apply zmin_of_le. apply zsort_uniq_In. apply in_map. apply nth_In. exact Hg. }
  assert (Hmax : forall g, g < length data -> (snd (iv_at data g) <= zmax_of ur)%Z).
  { intros g Hg. apply zmax_of_ge. apply zsort_uniq_In. apply in_map. apply nth_In. exact Hg. }
  intros H. simpl in H. destruct H as [H|H].
  { inversion H; subst. rewrite (map_as_nth_seq _ data (0%Z, 0%Z)).
    apply map_ext_in. intros g Hg. apply in_seq in Hg. rewrite covers_iv, ivl_test_alt.
    symmetry. apply andb_true_iff. rewrite !Z.leb_le. split; [apply Hmin | apply Hmax]; lia. }
  apply in_app_or in H. destruct H as [H|H].
  { apply in_map_iff in H. destruct H as [lb [E _]]. inversion E; subst.
    rewrite (map_as_nth_seq _ data (0%Z, 0%Z)).
    apply map_ext_in. intros g Hg. apply in_seq in Hg. rewrite covers_iv, ivl_test_alt.
    assert (X : (snd (iv_at data g) <=? zmax_of ur)%Z = true) by (apply Z.leb_le, Hmax; lia).
    rewrite X, andb_true_r. reflexivity. }
  apply in_app_or in H. destruct H as [H|H].
  { apply in_map_iff in H. destruct H as [rb [E _]]. inversion E; subst.
    rewrite (map_as_nth_seq _ data (0%Z, 0%Z)).
    apply map_ext_in. intros g Hg. apply in_seq in Hg. rewrite covers_iv, ivl_test_alt.
    assert (X : (zmin_of ul <=? fst (iv_at data g))%Z = true) by (apply Z.leb_le, Hmin; lia).
    rewrite X. reflexivity. }
  destruct H as [H|[]]. inversion H; subst.
  rewrite (map_as_nth_seq _ data (0%Z, 0%Z)). apply map_ext. intros g. simpl.
  destruct (nth g data (0%Z, 0%Z)); reflexivity.
Qed.

Lemma set_bin_meaning data d e :
  In (d, e) (set_bin_attrs data) ->
  e = map (fun g => covers (DSet d) (value_at (CSet data) g)) (seq 0 (length data)).
Proof.
  unfold set_bin_attrs. intros H. apply in_flat_map in H. destruct H as [size [_ H]].
  apply in_map_iff in H. destruct H as [comb [E _]]. inversion E; subst.
  rewrite (map_as_nth_seq _ data []). apply map_ext. intros g. simpl. apply set_test_subsetb.
Qed.

Theorem bin_attrs_meaning c d e :
  In (d, e) (ps_bin_attrs c) ->
  desc_matches c d = true /\
  e = map (fun g => mem g (ps_extension c d None)) (all_rows c).
Proof.
  intros H.
  assert (Hm : desc_matches c d = true).
  { destruct c; cbn [ps_bin_attrs] in H; apply in_map_iff in H; destruct H as [p [E _]];
      inversion E; subst; reflexivity. }
  split; [exact Hm|]. rewrite bits_of_ext by exact Hm. unfold all_rows.
  destruct c as [data|data|data|data]; cbn [ps_bin_attrs col_len] in *;
    apply in_map_iff in H; destruct H as [[d0 e0] [E H]]; inversion E; subst; clear E; cbn [fst snd] in *.
  - apply ivl_bin_meaning. exact H.
  - rewrite ivn_bin_attrs_eq in H. apply ivl_bin_meaning in H. exact H.
  - apply set_bin_meaning. exact H.
  - destruct H as [H|[]]. inversion H; subst.
    transitivity (map (fun b : bool => b) e); [symmetry; apply map_id|].
    rewrite (map_as_nth_seq (fun b : bool => b) e false). apply map_ext. intros g. reflexivity.
Qed.

(* every yielded extent has the column's length *)
Lemma bin_attrs_width c d e : In (d, e) (ps_bin_attrs c) -> length e = col_len c.
Proof.
  intros H. apply bin_attrs_meaning in H. destruct H as [_ H]. subst e.
  rewrite map_length. unfold all_rows. apply seq_length.
Qed.

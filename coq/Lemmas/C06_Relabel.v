(* Lemmas/C06_Relabel.v — permuting the rows and the columns of a table relabels its concepts and
   its cover relation correspondingly (context isomorphism). *)
From FCA Require Import Model.Duality Spec.DualitySpec Lemmas.BitRow.

Section Relabel.
Variable t : table.
Variables ps pc : list nat.
Let h := height t.
Let w := width t.
Hypothesis Hps : is_perm h ps.
Hypothesis Hpc : is_perm w pc.
Let t' := relabel_table ps pc t.
Let sg (g : nat) := nth g ps 0.
Let ta (m : nat) := nth m pc 0.

(* ------------------------------------------------------------------ permutations *)

Lemma perm_lt n p g : is_perm n p -> g < n -> nth g p 0 < n.
Proof. intros [_ [Hl Hr]] Hg. apply Hr. apply nth_In. lia. Qed.

Lemma perm_inj n p g g' : is_perm n p -> g < n -> g' < n -> nth g p 0 = nth g' p 0 -> g = g'.
Proof. intros [Hn [Hl _]] Hg Hg' E. apply (proj1 (NoDup_nth p 0) Hn); lia. Qed.

Lemma perm_surj n p x : is_perm n p -> x < n -> exists g, g < n /\ nth g p 0 = x.
Proof.
  intros [Hn [Hl Hr]] Hx.
  assert (Hin : incl (seq 0 n) p).
  { apply NoDup_length_incl; [exact Hn|rewrite seq_length; lia|].
    intros y Hy. apply in_seq. specialize (Hr y Hy). lia. }
  assert (X : In x p) by (apply Hin; apply in_seq; lia).
  destruct (In_nth p x 0 X) as [g [Hg E]]. exists g. split; [lia|exact E].
Qed.

Lemma pull_In p n A g : In g (pull p n A) <-> g < n /\ In (nth g p 0) A.
Proof. unfold pull. rewrite filter_In, in_seq, mem_In. split; intros [H1 H2]; split; auto; lia. Qed.

Lemma pull_in_range p n A : in_range n (pull p n A).
Proof. intros g Hg. apply pull_In in Hg. tauto. Qed.

Lemma canon_filter (f : nat -> bool) n : canon_set n (filter f (seq 0 n)) = filter f (seq 0 n).
Proof.
  unfold canon_set. apply filter_seq_ext. intros x Hx. apply bool_eq_iff.
  rewrite mem_In, filter_In, in_seq. split; [tauto|]. intros H. split; [lia|exact H].
Qed.

Lemma pull_incl n p X Y : is_perm n p -> in_range n X ->
  (incl (pull p n X) (pull p n Y) <-> incl X Y).
Proof.
  intros Hp HX. split; intros H x Hx.
  - destruct (perm_surj n p x Hp (HX x Hx)) as [g [Hg E]].
    assert (G : In g (pull p n X)) by (apply pull_In; split; [exact Hg|rewrite E; exact Hx]).
    apply H in G. apply pull_In in G. rewrite E in G. tauto.
  - apply pull_In in Hx. apply pull_In. split; [tauto|]. apply H. tauto.
Qed.

Lemma pull_inj n p X Y : is_perm n p -> X = canon_set n X -> Y = canon_set n Y ->
  pull p n X = pull p n Y -> X = Y.
Proof.
  intros Hp HX HY E. rewrite HX, HY. unfold canon_set. apply filter_seq_ext. intros x Hx.
  destruct (perm_surj n p x Hp Hx) as [g [Hg Eg]]. apply bool_eq_iff. rewrite !mem_In.
  assert (A : In g (pull p n X) <-> In g (pull p n Y)) by (rewrite E; tauto).
  rewrite !pull_In, Eg in A. tauto.
Qed.

(* the image of a set of new indexes *)
Definition push (p : list nat) (n : nat) (A' : list nat) : list nat :=
  filter (fun x => existsb (fun g => Nat.eqb (nth g p 0) x) A') (seq 0 n).

Lemma pull_push n p A' : is_perm n p -> in_range n A' -> pull p n (push p n A') = canon_set n A'.
Proof.
  intros Hp HA. unfold pull, canon_set. apply filter_seq_ext. intros g Hg. apply bool_eq_iff.
  rewrite !mem_In. unfold push. rewrite filter_In, in_seq, existsb_exists. split.
  - intros [_ [g' [Hg' E]]]. apply Nat.eqb_eq in E.
    apply (perm_inj n p g' g Hp (HA g' Hg') Hg) in E. subst. exact Hg'.
  - intros H. split; [pose proof (perm_lt n p g Hp Hg); lia|].
    exists g. split; [exact H|apply Nat.eqb_refl].
Qed.

(* ------------------------------------------------------------------ the relabelled table *)

Lemma relabel_height : height t' = h.
Proof. unfold t', relabel_table, height. rewrite map_length. apply Hps. Qed.

Lemma relabel_width : width t' = w.
Proof.
  unfold t', relabel_table. destruct Hps as [_ [Hl _]]. destruct ps as [|p0 ps'].
  - simpl in Hl. simpl. unfold w. unfold h, height in Hl. destruct t; [reflexivity|discriminate Hl].
  - simpl. rewrite map_length. apply Hpc.
Qed.

Lemma relabel_cell g m : g < h -> m < w -> cell t' g m = cell t (sg g) (ta m).
Proof.
  intros Hg Hm. destruct Hps as [_ [Hl _]]. destruct Hpc as [_ [Hl' _]].
  unfold cell, row, t', relabel_table.
  rewrite (nth_map_in _ ps g [] 0) by lia.
  rewrite (nth_map_in _ pc m false 0) by lia. reflexivity.
Qed.

Lemma ext_relabel_In B' g : in_range w B' ->
  (In g (ext t' B') <-> g < h /\ In (sg g) (ext t (map ta B'))).
Proof.
  intros HB. rewrite !ext_In, relabel_height. fold h. split.
  - intros [Hg H]. split; [exact Hg|]. split; [apply perm_lt; assumption|].
    intros m' Hm'. apply in_map_iff in Hm'. destruct Hm' as [m [E Hm]]. subst m'.
    unfold I. rewrite <- relabel_cell by (try assumption; apply HB; assumption). apply H. exact Hm.
  - intros [Hg [_ H]]. split; [exact Hg|]. intros m Hm. unfold I.
    rewrite relabel_cell by (try assumption; apply HB; assumption).
    apply H. apply in_map. exact Hm.
Qed.

Lemma int_relabel_In A' m : in_range h A' ->
  (In m (int t' A') <-> m < w /\ In (ta m) (int t (map sg A'))).
Proof.
  intros HA. rewrite !int_In, relabel_width. fold w. split.
  - intros [Hm H]. split; [exact Hm|]. split; [apply perm_lt; assumption|].
    intros g' Hg'. apply in_map_iff in Hg'. destruct Hg' as [g [E Hg]]. subst g'.
    unfold I. rewrite <- relabel_cell by (try assumption; apply HA; assumption). apply H. exact Hg.
  - intros [Hm [_ H]]. split; [exact Hm|]. intros g Hg. unfold I.
    rewrite relabel_cell by (try assumption; apply HA; assumption).
    apply H. apply in_map. exact Hg.
Qed.

(* prime operators commute with the relabelling *)
Theorem pull_ext B : in_range w B -> pull ps h (ext t B) = ext t' (pull pc w B).
Proof.
  intros HB. unfold pull at 1. unfold ext at 2. unfold ext_spec, all_objs. rewrite relabel_height.
  apply filter_seq_ext. intros g Hg. apply bool_eq_iff. rewrite mem_In, forallb_forall, ext_In.
  fold h. split.
  - intros [_ H] m Hm. apply pull_In in Hm. destruct Hm as [Hm Hin].
    unfold I. rewrite relabel_cell by assumption. apply H. exact Hin.
  - intros H. split; [apply perm_lt; assumption|]. intros m' Hm'.
    destruct (perm_surj w pc m' Hpc (HB m' Hm')) as [m [Hm E]]. subst m'.
    unfold I. fold (sg g). fold (ta m). rewrite <- relabel_cell by assumption. apply H.
    apply pull_In. split; assumption.
Qed.

Theorem pull_int A : in_range h A -> pull pc w (int t A) = int t' (pull ps h A).
Proof.
  intros HA. unfold pull at 1. unfold int at 2. unfold int_spec, all_attrs. rewrite relabel_width.
  apply filter_seq_ext. intros m Hm. apply bool_eq_iff. rewrite mem_In, forallb_forall, int_In.
  fold w. split.
  - intros [_ H] g Hg. apply pull_In in Hg. destruct Hg as [Hg Hin].
    unfold I. rewrite relabel_cell by assumption. apply H. exact Hin.
  - intros H. split; [apply perm_lt; assumption|]. intros g' Hg'.
    destruct (perm_surj h ps g' Hps (HA g' Hg')) as [g [Hg E]]. subst g'.
    unfold I. fold (sg g). fold (ta m). rewrite <- relabel_cell by assumption. apply H.
    apply pull_In. split; assumption.
Qed.

(* ------------------------------------------------------------------ concepts *)

Lemma ext_canonical tt B : ext tt B = canon_set (height tt) (ext tt B).
Proof. unfold ext, ext_spec, all_objs. symmetry. apply canon_filter. Qed.
Lemma int_canonical tt A : int tt A = canon_set (width tt) (int tt A).
Proof. unfold int, int_spec, all_attrs. symmetry. apply canon_filter. Qed.
Lemma push_canonical p n A' : push p n A' = canon_set n (push p n A').
Proof. unfold push. symmetry. apply canon_filter. Qed.
Lemma push_in_range p n A' : in_range n (push p n A').
Proof. intros x Hx. unfold push in Hx. apply filter_In in Hx. destruct Hx as [Hx _]. apply in_seq in Hx. lia. Qed.

Theorem relabel_concept_forward A B :
  is_concept t A B -> is_concept t' (pull ps h A) (pull pc w B).
Proof.
  intros [HA HB]. split.
  - rewrite HA at 1. apply pull_ext. rewrite HB. apply int_in_range.
  - rewrite HB at 1. apply pull_int. rewrite HA. apply ext_in_range.
Qed.

Theorem relabel_concept_backward A' B' :
  is_concept t' A' B' ->
  exists A B, is_concept t A B /\ A' = pull ps h A /\ B' = pull pc w B.
Proof.
  intros [HA HB].
  assert (RA : in_range h A') by (rewrite HA, <- relabel_height; apply ext_in_range).
  assert (RB : in_range w B') by (rewrite HB, <- relabel_width; apply int_in_range).
  assert (CA : canon_set h A' = A') by (rewrite HA at 2; rewrite <- relabel_height, HA; symmetry; apply ext_canonical).
  assert (CB : canon_set w B' = B') by (rewrite HB at 2; rewrite <- relabel_width, HB; symmetry; apply int_canonical).
  set (A := push ps h A'). set (B := push pc w B').
  assert (PA : pull ps h A = A') by (unfold A; rewrite pull_push by assumption; exact CA).
  assert (PB : pull pc w B = B') by (unfold B; rewrite pull_push by assumption; exact CB).
  exists A, B. split; [|split; [symmetry; exact PA|symmetry; exact PB]]. split.
  - apply (pull_inj h ps); [exact Hps|apply push_canonical|apply (ext_canonical t)|].
    rewrite PA, pull_ext by apply push_in_range. fold B. rewrite PB. exact HA.
  - apply (pull_inj w pc); [exact Hpc|apply push_canonical|apply (int_canonical t)|].
    rewrite PB, pull_int by apply push_in_range. fold A. rewrite PA. exact HB.
Qed.

(* the concept set of the relabelled table is the relabelled concept set *)
Theorem relabel_concepts A' B' :
  In (A', B') (concepts_spec t') <->
  exists A B, In (A, B) (concepts_spec t) /\ A' = pull ps h A /\ B' = pull pc w B.
Proof.
  rewrite concepts_spec_complete. split.
  - intros [Hc _]. destruct (relabel_concept_backward _ _ Hc) as [A [B [C [EA EB]]]].
    exists A, B. split; [|split; assumption]. apply concepts_spec_complete. split; [exact C|].
    destruct C as [_ C2]. rewrite C2. apply int_in_range.
  - intros [A [B [Hin [EA EB]]]]. apply concepts_spec_complete in Hin. destruct Hin as [C _].
    subst. split; [apply relabel_concept_forward; exact C|]. rewrite relabel_width. apply pull_in_range.
Qed.

(* ------------------------------------------------------------------ order and covers *)

Lemma extent_in_range tt Z : In Z (map fst (concepts_spec tt)) -> in_range (height tt) Z.
Proof.
  intros H. apply in_map_iff in H. destruct H as [[Z0 B] [E H]]. simpl in E. subst Z0.
  apply concepts_spec_complete in H. destruct H as [[HZ _] _]. rewrite HZ. apply ext_in_range.
Qed.

Lemma relabel_extents Z' :
  In Z' (map fst (concepts_spec t')) <-> exists Z, In Z (map fst (concepts_spec t)) /\ Z' = pull ps h Z.
Proof.
  rewrite in_map_iff. split.
  - intros [[A' B'] [E H]]. simpl in E. subst A'. apply relabel_concepts in H.
    destruct H as [A [B [Hin [EA _]]]]. exists A. split; [|exact EA].
    apply in_map_iff. exists (A, B). split; [reflexivity|exact Hin].
  - intros [Z [Hin E]]. apply in_map_iff in Hin. destruct Hin as [[A B] [E2 Hin]]. simpl in E2. subst A.
    exists (pull ps h Z, pull pc w B). split; [simpl; symmetry; exact E|].
    apply relabel_concepts. exists Z, B. auto.
Qed.

Lemma pull_strict X Y : in_range h X -> in_range h Y ->
  (strict_sub (pull ps h X) (pull ps h Y) <-> strict_sub X Y).
Proof.
  intros HX HY. unfold strict_sub. rewrite (pull_incl h ps X Y Hps HX), (pull_incl h ps Y X Hps HY). tauto.
Qed.

Theorem relabel_covers X Y :
  In X (map fst (concepts_spec t)) -> In Y (map fst (concepts_spec t)) ->
  (ext_cover (map fst (concepts_spec t')) (pull ps h X) (pull ps h Y) <->
   ext_cover (map fst (concepts_spec t)) X Y).
Proof.
  intros HX HY. pose proof (extent_in_range t X HX) as RX. pose proof (extent_in_range t Y HY) as RY.
  fold h in RX, RY. unfold ext_cover. split.
  - intros [_ [_ [Hs Hb]]]. split; [exact HX|]. split; [exact HY|]. split; [apply pull_strict; assumption|].
    intros Z HZ [H1 H2]. pose proof (extent_in_range t Z HZ) as RZ. fold h in RZ.
    apply (Hb (pull ps h Z)).
    + apply relabel_extents. exists Z. auto.
    + split; apply pull_strict; assumption.
  - intros [_ [_ [Hs Hb]]]. split; [apply relabel_extents; exists X; auto|].
    split; [apply relabel_extents; exists Y; auto|]. split; [apply pull_strict; assumption|].
    intros Z' HZ' [H1 H2]. apply relabel_extents in HZ'. destruct HZ' as [Z [HZ E]]. subst Z'.
    pose proof (extent_in_range t Z HZ) as RZ. fold h in RZ.
    apply (Hb Z HZ). split; apply pull_strict; assumption.
Qed.

End Relabel.

(* Lemmas/C03_chains_total.v — ConceptLattice._get_chains always returns on a complete concept
   list: every walk reaches the first position of the sorted listing within n steps (each step
   goes to a parent, which has strictly fewer ancestors), and every round of the outer loop
   visits at least one new concept. *)
From Coq Require Import Sorting.Sorted Permutation.
From FCA Require Import Base.ListSet Base.Order Model.LatticeOrder Spec.Closure Spec.LatticeOrderSpec
     Lemmas.C03 Lemmas.C03_lattice Lemmas.C03_chains.

Lemma index_of_head c d l : fst c = fst d -> index_of c (d :: l) = 0.
Proof.
  intros E. unfold index_of. simpl. unfold same_extent, support. rewrite E, Nat.eqb_refl.
  replace (nat_list_eqb (sort_nat (fst d)) (sort_nat (fst d))) with true
    by (symmetry; apply nat_list_eqb_eq; reflexivity).
  reflexivity.
Qed.

Lemma fold_set_add_length chain : forall v,
  length v <= length (fold_left (fun v x => set_add x v) chain v).
Proof.
  induction chain as [|a chain IH]; intros v; simpl; [lia|].
  eapply Nat.le_trans; [|apply IH]. unfold set_add. destruct (mem a v); [lia|].
  rewrite app_length. simpl. lia.
Qed.

Lemma fold_set_add_grows chain : forall v x, In x chain -> ~ In x v ->
  length v < length (fold_left (fun v x => set_add x v) chain v).
Proof.
  induction chain as [|a chain IH]; intros v x Hx Hnv; [destruct Hx|]. simpl.
  destruct (Nat.eq_dec a x) as [->|Hne].
  - unfold set_add. replace (mem x v) with false by (symmetry; apply mem_false_iff; exact Hnv).
    eapply Nat.lt_le_trans; [|apply fold_set_add_length]. rewrite app_length. simpl. lia.
  - destruct Hx as [E|Hx]; [congruence|].
    eapply Nat.le_lt_trans; [|apply (IH (set_add a v) x Hx)].
    + unfold set_add. destruct (mem a v); [lia | rewrite app_length; simpl; lia].
    + unfold set_add. destruct (mem a v); [exact Hnv|]. rewrite in_app_iff. simpl.
      intros [H|[H|[]]]; [contradiction | congruence].
Qed.

Section Total.
  Variable t : table.
  Variable cs : list concept.
  Hypothesis HF : full_lattice t cs.
  Let n := length cs.
  Let HL : concept_list t cs := proj1 HF.
  Let PO := leq_i_partial_order t cs HL.
  Let sorted := sort_concepts cs.
  Let isort_i := fun k => index_of (cnth sorted k) cs.
  Let i_isort := fun i => index_of (cnth cs i) sorted.
  Let parents := parents_nocache cs.
  Let Hcan : canon_list cs := concept_list_canon t cs HL.

  Lemma HFs : full_lattice t sorted.
  Proof. apply (listing_full t cs HF). Qed.

  Lemma sorted_top : extent sorted 0 = all_objs t.
  Proof. destruct (listing_full t cs HF) as [H1 H2]. apply (top_first t _ H1 H2). Qed.

  Lemma n_pos : 0 < n.
  Proof. destruct (top_exists t cs HF) as [k [Hk _]]. unfold n. lia. Qed.

  Lemma slen : length sorted = n.
  Proof. apply (sorted_length cs). Qed.

  (* a node whose sort position is not 0 is not the top *)
  Lemma i_isort_nonzero p : p < n -> i_isort p <> 0 -> extent cs p <> all_objs t.
  Proof.
    intros Hp Hnz E. apply Hnz. unfold i_isort.
    destruct sorted as [|d l] eqn:S; [assert (X := slen); rewrite S in X; simpl in X; pose proof n_pos; lia|].
    apply index_of_head. fold (extent cs p). rewrite E, <- sorted_top. unfold extent, cnth. rewrite S. reflexivity.
  Qed.

  Lemma isort_nonzero k : k < n -> k <> 0 -> extent cs (isort_i k) <> all_objs t.
  Proof.
    intros Hk Hnz E. apply Hnz.
    destruct (isort_lt cs Hcan k Hk) as [_ Hext]. fold sorted in Hext. fold isort_i in Hext.
    apply (extent_inj t sorted (proj1 HFs)); try (rewrite slen; lia).
    transitivity (extent cs (isort_i k)); [symmetry; exact Hext | rewrite E; symmetry; exact sorted_top].
  Qed.

  (* a node that is not the top has a parent *)
  Lemma has_parent c : c < n -> extent cs c <> all_objs t -> parents c <> [].
  Proof.
    intros Hc Hnt. destruct (top_exists t cs HF) as [kt [Hkt [_ Ekt]]]. fold n in Hkt.
    assert (L : leq_i cs c kt = true).
    { apply (leq_incl t cs HF); [exact Hc|]. rewrite Ekt. apply (extent_in_range t cs HF). exact Hc. }
    assert (Hne : c <> kt) by (intros ->; contradiction).
    assert (S : slt Nat.eqb (leq_i cs) c kt = true).
    { apply (slt_spec nat Nat.eqb (leq_i cs) nat_eqb_ok). auto. }
    destruct (above_some_cover Nat.eqb (leq_i cs) nat_eqb_ok (idxs cs) PO c (proj2 (In_idxs cs c) Hc)
                kt (proj2 (In_idxs cs kt) Hkt) S) as [p [Hp _]].
    unfold parents. rewrite (parents_spec t cs HL c Hc), <- (upper_covers_spec t cs HL c Hc).
    intros E. rewrite E in Hp. destruct Hp.
  Qed.

  (* going to a parent strictly decreases the number of ancestors *)
  Lemma ancestors_decrease c p : c < n -> In p (parents c) ->
    length (ancestors_nocache cs p) < length (ancestors_nocache cs c).
  Proof.
    intros Hc Hp. unfold parents in Hp.
    rewrite (parents_spec t cs HL c Hc), <- (upper_covers_spec t cs HL c Hc) in Hp.
    apply (In_upper_covers Nat.eqb (leq_i cs) nat_eqb_ok) in Hp. destruct Hp as [Hpe [Lcp _]].
    unfold ancestors_nocache, strict_up, strict_down.
    apply (filter_length_lt _ _ (idxs cs) p).
    - intros a Ha La. rewrite (slt_flip Nat.eqb (leq_i cs) nat_eqb_ok) in *.
      apply (slt_trans nat Nat.eqb (leq_i cs) nat_eqb_ok (idxs cs) PO c p a); auto.
      apply (In_idxs cs). exact Hc.
    - exact Hpe.
    - rewrite (slt_flip Nat.eqb (leq_i cs) nat_eqb_ok). exact Lcp.
    - apply slt_irrefl. exact nat_eqb_ok.
  Qed.

  Lemma walk_total fuel : forall c s acc,
    c < n -> (s <> 0 -> extent cs c <> all_objs t) ->
    length (ancestors_nocache cs c) < fuel ->
    exists ch, chain_walk fuel parents i_isort c s acc = Some ch.
  Proof.
    induction fuel as [|f IH]; intros c s acc Hc Hs Hf; [lia|]. simpl.
    destruct (Nat.eqb s 0) eqn:E; [eexists; reflexivity|].
    apply Nat.eqb_neq in E.
    destruct (min_list (parents c)) as [p|] eqn:M.
    - assert (Hp : In p (parents c)) by (apply min_list_In; exact M).
      assert (Hpn : p < n) by (apply (parents_nocache_range cs c p Hp)).
      apply IH; [exact Hpn | apply i_isort_nonzero; exact Hpn|].
      assert (X := ancestors_decrease c p Hc Hp). lia.
    - exfalso. apply (has_parent c Hc (Hs E)). destruct (parents c); [reflexivity | simpl in M].
      destruct (min_list l); discriminate.
  Qed.

  Lemma isort_inj a b : a < n -> b < n -> isort_i a = isort_i b -> a = b.
  Proof.
    intros Ha Hb E.
    destruct (isort_lt cs Hcan a Ha) as [_ Ea]. destruct (isort_lt cs Hcan b Hb) as [_ Eb].
    fold sorted in Ea, Eb. fold isort_i in Ea, Eb.
    apply (extent_inj t sorted (proj1 HFs)); try (rewrite slen; lia).
    transitivity (extent cs (isort_i a)); [symmetry; exact Ea | rewrite E; exact Eb].
  Qed.

  (* while fewer than n nodes are visited, some sort position holds an unvisited node *)
  Lemma unvisited_exists visited : NoDup visited -> length visited < n ->
    exists k, k < n /\ ~ In (isort_i k) visited.
  Proof.
    intros Hnd Hlen.
    destruct (forallb (fun k => mem (isort_i k) visited) (seq 0 n)) eqn:F.
    - exfalso. rewrite forallb_forall in F.
      assert (Hnd' : NoDup (map isort_i (seq 0 n))).
      { assert (G : forall l, NoDup l -> (forall x, In x l -> x < n) -> NoDup (map isort_i l)).
        { induction 1 as [|a l Ha Hl IHl]; intros Hr; simpl; constructor.
          - intros H. apply in_map_iff in H. destruct H as [b [E Hb]]. apply Ha.
            assert (b = a) by (apply isort_inj; [apply Hr; right; exact Hb | apply Hr; left; reflexivity | exact E]).
            subst. exact Hb.
          - apply IHl. intros x Hx. apply Hr. right. exact Hx. }
        apply G; [apply seq_NoDup | intros x Hx; apply in_seq in Hx; lia]. }
      assert (Hincl : incl (map isort_i (seq 0 n)) visited).
      { intros y Hy. apply in_map_iff in Hy. destruct Hy as [k [<- Hk]]. apply mem_In. apply F. exact Hk. }
      assert (X := NoDup_incl_length Hnd' Hincl). rewrite map_length, seq_length in X. lia.
    - assert (exists k, In k (seq 0 n) /\ mem (isort_i k) visited = false) as [k [Hk Hm]].
      { clear -F. induction (seq 0 n) as [|a l IHl]; simpl in F; [discriminate|].
        destruct (mem (isort_i a) visited) eqn:M.
        - destruct (IHl F) as [k [H1 H2]]. exists k. split; [right; exact H1 | exact H2].
        - exists a. split; [left; reflexivity | exact M]. }
      exists k. apply in_seq in Hk. split; [lia | apply mem_false_iff; exact Hm].
  Qed.

  Lemma loop_total fuel : forall visited chains,
    NoDup visited -> (forall x, In x visited -> x < n) -> n + 1 <= fuel + length visited ->
    exists res, chains_loop fuel n parents isort_i i_isort visited chains = Some res.
  Proof.
    induction fuel as [|f IH]; intros visited chains Hnd Hlt Hf.
    - exfalso. assert (X : length visited <= n).
      { assert (H := NoDup_incl_length Hnd (l' := seq 0 n)). rewrite seq_length in H. apply H.
        intros x Hx. apply in_seq. specialize (Hlt x Hx). lia. }
      lia.
    - cbn [chains_loop]. destruct (Nat.leb n (length visited)) eqn:Done; [eexists; reflexivity|].
      apply Nat.leb_gt in Done.
      destruct (find (fun k => negb (mem (isort_i k) visited)) (rev (seq 0 n))) as [k|] eqn:F.
      2:{ exfalso. destruct (unvisited_exists visited Hnd Done) as [k [Hk Hnv]].
          assert (X := find_none _ _ F k). simpl in X.
          rewrite (proj2 (mem_false_iff _ _) Hnv) in X. simpl in X.
          assert (In k (rev (seq 0 n))) by (rewrite <- in_rev; apply in_seq; lia). specialize (X H). discriminate. }
      assert (F' := F). apply find_some in F'. destruct F' as [Hk Hm].
      apply in_rev in Hk. apply in_seq in Hk. apply negb_true_iff in Hm. apply mem_false_iff in Hm.
      destruct (isort_lt cs Hcan k) as [Hik _]; [unfold n in Hk; lia|]. fold sorted in Hik. fold isort_i in Hik. fold n in Hik.
      destruct (walk_total (S n) (isort_i k) k [] Hik) as [ch W].
      { intros Hnz. apply isort_nonzero; [lia | exact Hnz]. }
      { assert (X : length (ancestors_nocache cs (isort_i k)) <= n).
        { unfold ancestors_nocache, strict_up, strict_down. eapply Nat.le_trans; [apply filter_length_le|].
          unfold idxs. rewrite seq_length. fold n. lia. }
        lia. }
      rewrite W.
      destruct (chain_walk_ok cs parents (parents_nocache_range cs) Hcan (S n) (isort_i k) k [] ch Hik n_pos)
        as [L [E1 [Hne [Hlast [_ [_ HL']]]]]].
      { intros ->. destruct (isort_lt cs Hcan 0 n_pos) as [_ E0]. exact E0. }
      { exact W. }
      rewrite app_nil_r in E1. subst L.
      apply IH.
      + apply fold_set_add_NoDup. exact Hnd.
      + intros x Hx. apply (fold_set_add_In cs) in Hx. destruct Hx as [Hx|Hx]; [apply Hlt | apply HL']; exact Hx.
      + assert (X := fold_set_add_grows ch visited (isort_i k)).
        assert (Hin : In (isort_i k) ch).
        { rewrite <- Hlast. destruct ch as [|a ch']; [contradiction|]. clear. revert a.
          induction ch' as [|b ch' IHc]; intros a; [left; reflexivity|]. right. apply IHc. }
        specialize (X Hin Hm). lia.
  Qed.

  Theorem chains_total : exists chains, get_chains_nocache cs = Some chains.
  Proof.
    unfold get_chains_nocache, get_chains_of. apply loop_total; [constructor | intros x [] |].
    simpl. fold n. lia.
  Qed.
End Total.

(* Lemmas/C14_Names.v — the by-name API of MVContext: name -> structure / object index
   translation of extension / intention, the KeyError for an unknown structure name, unknown
   object names being ignored, describe_pattern, and the named views of
   PatternConcept.from_objects (defect D62, repaired: the intent was labelled through
   attribute_names[ps_index]). *)
From FCA Require Import Base.ListSet Model.MVContext Spec.MVLatticeSpec Lemmas.C01 Lemmas.C13 Lemmas.C14.


Definition pname (K : mvctx) (i : nat) : nat := nth i (mv_pnames K) 0.
Definition obname (K : mvctx) (g : nat) : nat := nth g (mv_onames K) 0.
Definition name_ddict (K : mvctx) (dsi : ddict) : list (nat * desc) :=
  map (fun id => (pname K (fst id), snd id)) dsi.

(* ------------------------------------------------------------------ name -> index translation *)
Lemma names_to_ddict_ok pnames (dsi : ddict) :
  NoDup pnames -> (forall id, In id dsi -> fst id < length pnames) ->
  names_to_ddict pnames (map (fun id => (nth (fst id) pnames 0, snd id)) dsi) = Ok dsi.
Proof.
  intros Hnd. induction dsi as [|[i d] rest IH]; intros Hr; [reflexivity|].
  cbn [map names_to_ddict fst snd].
  rewrite name_index_nth by (try assumption; apply (Hr (i, d)); left; reflexivity).
  rewrite IH by (intros id Hid; apply Hr; right; exact Hid). reflexivity.
Qed.

Lemma names_to_ddict_keyerr pnames (known : ddict) x dx rest :
  NoDup pnames -> (forall id, In id known -> fst id < length pnames) -> ~ In x pnames ->
  names_to_ddict pnames (map (fun id => (nth (fst id) pnames 0, snd id)) known ++ (x, dx) :: rest) = ErrKey x.
Proof.
  intros Hnd Hr Hx. induction known as [|[i d] known IH]; cbn [map app names_to_ddict fst snd].
  - rewrite name_index_unknown by exact Hx. reflexivity.
  - rewrite name_index_nth by (try assumption; apply (Hr (i, d)); left; reflexivity).
    rewrite IH by (intros id Hid; apply Hr; right; exact Hid). reflexivity.
Qed.

(* the set of base objects selected by names: known names select their objects, names the
   context does not have are ignored, the result is ascending *)
Lemma objs_named_spec onames bi extra :
  NoDup onames -> in_range (length onames) bi -> (forall x, In x extra -> ~ In x onames) ->
  objs_named onames (map (fun g => nth g onames 0) bi ++ extra)
  = filter (fun g => mem g bi) (seq 0 (length onames)).
Proof.
  intros Hnd Hr Hex. unfold objs_named. apply filter_ext_in'. intros g Hg. apply in_seq in Hg.
  apply bool_eq_iff. rewrite !mem_In, in_app_iff, in_map_iff. split.
  - intros [[h [E Hh]]|H].
    + assert (h = g); [|subst; exact Hh].
      apply (proj1 (NoDup_nth onames 0) Hnd); [apply Hr; exact Hh | lia | exact E].
    + exfalso. apply (Hex _ H). apply nth_In. lia.
  - intros H. left. exists g. split; [reflexivity | exact H].
Qed.

(* ------------------------------------------------------------------ extension by names *)
Theorem extension_named_ok K dsi bi extra :
  NoDup (mv_pnames K) -> NoDup (mv_onames K) ->
  length (mv_pnames K) = length (mv_cols K) -> length (mv_onames K) = mv_n K ->
  ddict_ok K dsi -> in_range (mv_n K) bi -> (forall x, In x extra -> ~ In x (mv_onames K)) ->
  mv_extension K (name_ddict K dsi) (Some (map (obname K) bi ++ extra))
  = Ok (map (obname K) (filter (fun g => mem g bi && covers_ddict K dsi g) (seq 0 (mv_n K)))).
Proof.
  intros Hnp Hno Hlp Hlo Hok Hbi Hex. unfold mv_extension, name_ddict, pname.
  rewrite names_to_ddict_ok.
  2: exact Hnp.
  2:{ intros id Hid. unfold ddict_ok in Hok. rewrite Forall_forall in Hok. rewrite Hlp. apply (Hok id Hid). }
  unfold obname. rewrite objs_named_spec by (try assumption; rewrite Hlo; exact Hbi).
  rewrite extension_conj_any by exact Hok. cbn [default]. rewrite Hlo.
  rewrite filter_filter'. reflexivity.
Qed.

Theorem extension_named_nobase_ok K dsi :
  NoDup (mv_pnames K) -> length (mv_pnames K) = length (mv_cols K) -> ddict_ok K dsi ->
  mv_extension K (name_ddict K dsi) None
  = Ok (map (obname K) (filter (covers_ddict K dsi) (seq 0 (mv_n K)))).
Proof.
  intros Hnp Hlp Hok. unfold mv_extension, name_ddict, pname.
  rewrite names_to_ddict_ok.
  2: exact Hnp.
  2:{ intros id Hid. unfold ddict_ok in Hok. rewrite Forall_forall in Hok. rewrite Hlp. apply (Hok id Hid). }
  rewrite extension_conj_any by exact Hok. reflexivity.
Qed.

(* the first description name the context does not have is the KeyError *)
Theorem extension_named_keyerr K known x dx rest base :
  NoDup (mv_pnames K) -> (forall id, In id known -> fst id < length (mv_pnames K)) ->
  ~ In x (mv_pnames K) ->
  mv_extension K (name_ddict K known ++ (x, dx) :: rest) base = ErrKey x.
Proof.
  intros Hnp Hr Hx. unfold mv_extension, name_ddict, pname.
  rewrite names_to_ddict_keyerr by assumption. reflexivity.
Qed.

(* ------------------------------------------------------------------ intention by names *)
Theorem intention_named_ok K oi extra :
  NoDup (mv_onames K) -> length (mv_onames K) = mv_n K -> in_range (mv_n K) oi ->
  (forall x, In x extra -> ~ In x (mv_onames K)) ->
  mv_intention K (map (obname K) oi ++ extra)
  = map (fun i => (pname K i, ps_intention (mv_col K i) (filter (fun g => mem g oi) (seq 0 (mv_n K)))))
        (seq 0 (length (mv_cols K))).
Proof.
  intros Hno Hlo Hoi Hex. unfold mv_intention, obname.
  rewrite objs_named_spec by (try assumption; rewrite Hlo; exact Hoi). rewrite Hlo.
  set (A := filter (fun g => mem g oi) (seq 0 (mv_n K))).
  unfold mv_intention_i, pname, mv_col.
  generalize (mv_cols K) as cols. intros cols.
  assert (G : forall k pre, length pre = k ->
     map (fun p => (nth (fst p) (mv_pnames K) 0, snd p))
         (combine (seq k (length cols)) (map (fun c => ps_intention c A) cols))
     = map (fun i => (nth i (mv_pnames K) 0, ps_intention (nth i (pre ++ cols) (CAttr [])) A))
           (seq k (length cols))).
  { induction cols as [|c cols IH]; intros k pre Hk; [reflexivity|].
    cbn [length seq map combine fst snd]. rewrite app_nth2 by lia. rewrite Hk, Nat.sub_diag. cbn [nth].
    f_equal. rewrite (IH (S k) (pre ++ [c])) by (rewrite app_length; cbn; lia).
    apply map_ext. intros i. rewrite <- app_assoc. reflexivity. }
  apply (G 0 [] eq_refl).
Qed.

(* ------------------------------------------------------------------ PatternConcept.from_objects, named views *)
(* whatever the order of attribute_names, the named intent pairs every description with the
   name of ITS structure, the named extent with the object names *)
Theorem from_objects_views K objs is_extent :
  let v := pc_from_objects_views K objs is_extent in
  pv_int v = map (fun p => (pname K (fst p), snd p)) (pv_int_i v) /\
  pv_ext v = map (obname K) (pv_ext_i v) /\
  pv_int_i v = mv_intention_i K objs /\
  pv_ext_i v = (if is_extent then objs else mv_cl K objs).
Proof. cbn. repeat split. Qed.

(* the witness of the repaired defect D62: pattern_types order [b; a], attribute_names [a; b] *)
Definition K62 : mvctx :=
  mkMV 1 [CAttr [true]; CInterval [(0, 1)%Z]] [0] [1; 0] [0; 1].

Lemma from_objects_views_K62 :
  mv_anames K62 <> mv_pnames K62 /\
  pv_int (pc_from_objects_views K62 [0] false) = [(1, DAttr true); (0, DIv (Some (0, 1)%Z))] /\
  mv_intention K62 [0] = [(1, DAttr true); (0, DIv (Some (0, 1)%Z))].
Proof. split; [discriminate|]. split; vm_compute; reflexivity. Qed.

(* ------------------------------------------------------------------ describe_pattern *)
Lemma first_index_from_nth names : forall k i,
  NoDup names -> i < length names -> first_index_from k names (nth i names 0) = Some (k + i).
Proof.
  induction names as [|y ys IH]; intros k i Hnd Hi; [cbn in Hi; lia|].
  inversion Hnd; subst. destruct i as [|i]; cbn [nth first_index_from].
  - rewrite Nat.eqb_refl. f_equal. lia.
  - cbn [length] in Hi. destruct (Nat.eqb_spec (nth i ys 0) y) as [E|E].
    + exfalso. apply H1. rewrite <- E. apply nth_In. lia.
    + rewrite IH by (try assumption; lia). f_equal. lia.
Qed.

Definition printed (K : mvctx) (id : nat * desc) : bool :=
  match mv_col K (fst id), snd id with CAttr _, DAttr false => false | _, _ => true end.

Theorem describe_entries_ok K dsi :
  NoDup (mv_pnames K) -> (forall id, In id dsi -> fst id < length (mv_pnames K)) ->
  describe_entries K (name_ddict K dsi) = Some (name_ddict K (filter (printed K) dsi)).
Proof.
  intros Hnd. induction dsi as [|[i d] rest IH]; intros Hr; [reflexivity|].
  cbn [name_ddict map describe_entries fst snd]. unfold pname at 1.
  rewrite first_index_from_nth by (try assumption; apply (Hr (i, d)); left; reflexivity). cbn [Nat.add].
  fold (name_ddict K rest). rewrite IH by (intros id Hid; apply Hr; right; exact Hid).
  cbn [filter].
  assert (P : printed K (i, d) = match mv_col K i, d with CAttr _, DAttr false => false | _, _ => true end)
    by reflexivity.
  rewrite P. destruct (mv_col K i); destruct d as [x|x|[|]]; reflexivity.
Qed.

(* Lemmas/C15MVExact.v — "all concepts when the limit is not binding" on many-valued contexts of
   interval columns: the binary attribute extents of IntervalPS.to_bin_attr_extents generate
   every pattern extent by intersection (interordinal scaling), so without a support threshold
   and with L_max at least the number of pattern extents Sofia returns all of them. *)
From Coq Require Import QArith Permutation.
From FCA Require Import Base.ListSet Model.BinTable Lemmas.BitRow Spec.Closure.
From FCA Require Import Model.Sofia Model.C15Interval Model.TreeExtents Spec.C15
     Lemmas.C15Bits Lemmas.C15Sofia Lemmas.C15Formal Lemmas.C15Exact Lemmas.C15Interval.
Local Open Scope nat_scope.

(* ------------------------------------------------------------ sorted(set(values)) *)

Fixpoint zsorted (l : list Z) : Prop :=
  match l with
  | [] => True
  | x :: l' => (forall y, In y l' -> (x < y)%Z) /\ zsorted l'
  end.

Lemma zinsert_In v l x : In x (zinsert v l) <-> x = v \/ In x l.
Proof.
  induction l as [|y l IH]; simpl; [split; intros [H|H]; auto; contradiction|].
  destruct (v <? y)%Z; [simpl; split; intros [H|H]; auto|].
  destruct (Z.eqb_spec v y).
  - subst. simpl. split; [auto|]. intros [H|H]; [left; auto|exact H].
  - simpl. rewrite IH. split; intros H; tauto.
Qed.

Lemma zsort_uniq_In l x : In x (zsort_uniq l) <-> In x l.
Proof.
  induction l as [|y l IH]; simpl; [tauto|]. unfold zsort_uniq in *. simpl.
  rewrite zinsert_In, IH. split; intros [H|H]; auto.
Qed.

Lemma zinsert_sorted v l : zsorted l -> zsorted (zinsert v l).
Proof.
  induction l as [|y l IH]; simpl; intros H; [split; [intros ? []|exact Logic.I]|].
  destruct H as [H1 H2]. destruct (Z.ltb_spec v y).
  - simpl. split; [|split; assumption]. intros z [Hz|Hz]; [subst; lia|]. specialize (H1 z Hz). lia.
  - destruct (Z.eqb_spec v y); [simpl; split; assumption|].
    simpl. split; [|apply IH; exact H2].
    intros z Hz. apply zinsert_In in Hz. destruct Hz as [Hz|Hz]; [subst; lia|apply H1; exact Hz].
Qed.

Lemma zsort_uniq_sorted l : zsorted (zsort_uniq l).
Proof. induction l as [|y l IH]; simpl; [exact Logic.I|]. apply zinsert_sorted. exact IH. Qed.

Lemma zsorted_head_min h r y : zsorted (h :: r) -> In y (h :: r) -> (h <= y)%Z.
Proof. intros [H _] [Hy|Hy]; [subst; lia|]. specialize (H y Hy). lia. Qed.

Lemma hd_In {A} (d : A) l : l <> [] -> In (hd d l) l.
Proof. destruct l; [congruence|]. intros _. left. reflexivity. Qed.

Lemma zsorted_rev_head_max l d y : zsorted l -> In y l -> (y <= hd d (rev l))%Z.
Proof.
  induction l as [|h r IH]; simpl; intros Hs Hy; [contradiction|]. destruct Hs as [H1 H2].
  destruct r as [|h2 r2].
  - simpl. destruct Hy as [Hy|[]]. subst. lia.
  - assert (Hne : rev (h2 :: r2) <> []).
    { intros E. apply (f_equal (@length Z)) in E. rewrite rev_length in E. discriminate. }
    assert (Ehd : hd d (rev (h2 :: r2) ++ [h]) = hd d (rev (h2 :: r2))).
    { destruct (rev (h2 :: r2)); [congruence|reflexivity]. }
    rewrite Ehd. destruct Hy as [Hy|Hy].
    + subst y. pose proof (hd_In d _ Hne) as Hin. apply in_rev in Hin. specialize (H1 _ Hin). lia.
    + apply IH; assumption.
Qed.

(* a member of a non-empty list is its head or lies in its tail *)
Lemma In_hd_tl {A} (d : A) l x : In x l -> x = hd d l \/ In x (tl l).
Proof. destruct l; simpl; [tauto|]. intros [H|H]; [left; symmetry; exact H|right; exact H]. Qed.

(* ------------------------------------------------------------ the binary attributes generate *)

Lemma cellv_In c g : g < length c -> In (cellv c g) c.
Proof. intros H. unfold cellv. apply nth_In. exact H. Qed.

Lemma left_attr_In K c lb :
  In c K -> In lb (tl (zsort_uniq (map fst c))) ->
  In (map (fun v : ival => (lb <=? fst v)%Z) c) (mv_bin_attr_extents K).
Proof.
  intros Hc Hl. unfold mv_bin_attr_extents. apply in_flat_map. exists c. split; [exact Hc|].
  unfold ips_bin_attr_extents. apply in_or_app. right. apply in_or_app. left.
  apply in_map_iff. exists lb. split; [reflexivity|exact Hl].
Qed.

Lemma right_attr_In K c rb :
  In c K -> In rb (tl (rev (zsort_uniq (map snd c)))) ->
  In (map (fun v : ival => (snd v <=? rb)%Z) c) (mv_bin_attr_extents K).
Proof.
  intros Hc Hl. unfold mv_bin_attr_extents. apply in_flat_map. exists c. split; [exact Hc|].
  unfold ips_bin_attr_extents. apply in_or_app. right. apply in_or_app. right. apply in_or_app. left.
  apply in_map_iff. exists rb. split; [reflexivity|exact Hl].
Qed.

Lemma false_attr_In K c : In c K -> In (map (fun _ : ival => false) c) (mv_bin_attr_extents K).
Proof.
  intros Hc. unfold mv_bin_attr_extents. apply in_flat_map. exists c. split; [exact Hc|].
  unfold ips_bin_attr_extents. apply in_or_app. right. apply in_or_app. right. apply in_or_app. right.
  left. reflexivity.
Qed.

(* g lies in every binary attribute extent that contains A  =>  g is covered by A's description *)
Theorem bin_attrs_generate K A g :
  mv_wf K -> A <> [] -> in_range (mv_nobj K) A -> g < mv_nobj K ->
  (forall a, In a (mv_bin_attr_extents K) ->
             (forall x, In x A -> nth x a false = true) -> nth g a false = true) ->
  covered K A g.
Proof.
  intros [_ Hwf] Hne Hr Hg Hall. rewrite Forall_forall in Hwf. apply covered_iff. intros c Hc.
  pose proof (Hwf c Hc) as Lc.
  destruct (col_int_some c A Hne) as [mn [mx E]]. rewrite E. simpl.
  destruct (col_int_attained c A mn mx E) as [[g1 [Hg1 E1]] [g2 [Hg2 E2]]].
  apply andb_true_iff. split; apply Z.leb_le.
  - (* left bound *)
    assert (Hin : In mn (zsort_uniq (map fst c))).
    { apply zsort_uniq_In. rewrite <- E1. apply in_map. apply cellv_In. rewrite Lc. apply Hr. exact Hg1. }
    assert (Hgin : In (fst (cellv c g)) (zsort_uniq (map fst c))).
    { apply zsort_uniq_In. apply in_map. apply cellv_In. lia. }
    pose proof (zsort_uniq_sorted (map fst c)) as Hs.
    destruct (zsort_uniq (map fst c)) as [|h r] eqn:Es; [contradiction|].
    destruct Hin as [Hin|Hin].
    + subst h. apply (zsorted_head_min mn r); assumption.
    + assert (Ha : In (map (fun v : ival => (mn <=? fst v)%Z) c) (mv_bin_attr_extents K)).
      { apply left_attr_In; [exact Hc|]. rewrite Es. exact Hin. }
      specialize (Hall _ Ha). rewrite nth_map_cell in Hall by lia. apply Z.leb_le. apply Hall.
      intros x Hx. rewrite nth_map_cell by (rewrite Lc; apply Hr; exact Hx).
      apply Z.leb_le. apply (col_int_bounds c A mn mx x E Hx).
  - (* right bound *)
    assert (Hin : In mx (rev (zsort_uniq (map snd c)))).
    { apply -> in_rev. apply zsort_uniq_In. rewrite <- E2. apply in_map. apply cellv_In. rewrite Lc. apply Hr. exact Hg2. }
    assert (Hgin : In (snd (cellv c g)) (zsort_uniq (map snd c))).
    { apply zsort_uniq_In. apply in_map. apply cellv_In. lia. }
    pose proof (zsort_uniq_sorted (map snd c)) as Hs.
    destruct (In_hd_tl 0%Z _ _ Hin) as [Hh|Ht].
    + rewrite Hh. apply zsorted_rev_head_max; assumption.
    + assert (Ha : In (map (fun v : ival => (snd v <=? mx)%Z) c) (mv_bin_attr_extents K)).
      { apply right_attr_In; assumption. }
      specialize (Hall _ Ha). rewrite nth_map_cell in Hall by lia. apply Z.leb_le. apply Hall.
      intros x Hx. rewrite nth_map_cell by (rewrite Lc; apply Hr; exact Hx).
      apply Z.leb_le. apply (col_int_bounds c A mn mx x E Hx).
Qed.

(* conversely a covered row lies in every binary attribute extent that contains A *)
Lemma covered_in_attr K A g a :
  mv_wf K -> in_range (mv_nobj K) A -> g < mv_nobj K -> In a (mv_bin_attr_extents K) ->
  (forall x, In x A -> nth x a false = true) -> covered K A g -> nth g a false = true.
Proof.
  intros [_ Hwf] Hr Hg Ha HA Hcov. rewrite Forall_forall in Hwf.
  destruct (mv_bin_attr_extents_In K a Ha) as [c [phi [Hc [Hphi E]]]]. subst a.
  pose proof (Hwf c Hc) as Lc.
  pose proof (covered_nonempty K A g c Hc Hcov) as Hne.
  destruct (col_int_some c A Hne) as [mn [mx Ei]].
  apply covered_iff with (c := c) in Hcov; [|exact Hc]. rewrite Ei in Hcov. simpl in Hcov.
  apply andb_true_iff in Hcov. destruct Hcov as [C1 C2]. apply Z.leb_le in C1. apply Z.leb_le in C2.
  destruct (col_int_attained c A mn mx Ei) as [[g1 [Hg1 E1]] [g2 [Hg2 E2]]].
  rewrite nth_map_cell by lia.
  apply (Hphi (cellv c g) (cellv c g1) (cellv c g2)).
  - rewrite <- nth_map_cell by (rewrite Lc; apply Hr; exact Hg1). apply HA. exact Hg1.
  - rewrite <- nth_map_cell by (rewrite Lc; apply Hr; exact Hg2). apply HA. exact Hg2.
  - lia.
  - lia.
Qed.

(* ------------------------------------------------------------ Sofia returns every intersection *)

Lemma nonempty_has_member {A} (l : list A) : l <> [] -> exists x, In x l.
Proof. destruct l as [|x l]; [congruence|]. intros _. exists x. left. reflexivity. Qed.

Section MVExact.
  Variable shuffle : list extent -> list extent.
  Variable mu : list extent -> list Q.
  Hypothesis shuffle_perm : forall l, Permutation l (shuffle l).
  Variable K : mvctx.
  Hypothesis Hwf : mv_wf K.
  Variable L : nat.
  Hypothesis HL : length (mv_extents_spec K) <= L.

  Let n := mv_nobj K.
  Let ms := eff_min_supp 0%Q n.
  Let step := sofia_step shuffle mu ms L.
  Let attrs := mv_bin_attr_extents K.

  (* e is the intersection of the attribute extents in S *)
  Definition is_meet (S : list extent) (e : extent) : Prop :=
    length e = n /\ forall k, k < n -> (nth k e false = true <-> forall a, In a S -> nth k a false = true).

  Definition mcomplete (js : list extent) (F : list extent) : Prop :=
    forall S, incl S js -> exists e, In e F /\ is_meet S e.

  Definition msound (F : list extent) : Prop := NoDup F /\ forall e, In e F -> closed_row K e.

  Lemma mv_extents_spec_In A :
    In A (mv_extents_spec K) <-> exists A0, In A0 (sublists (seq 0 n)) /\ A = mv_cl K A0.
  Proof.
    unfold mv_extents_spec. rewrite nodup_lists_In, in_map_iff. split; intros [A0 [H1 H2]]; exists A0; auto.
  Qed.

  Lemma closed_row_in_spec e : closed_row K e -> In (search1 e) (mv_extents_spec K).
  Proof.
    intros Hc. apply mv_extents_spec_In. exists (search1 e). split.
    - rewrite search1_filter. rewrite (proj1 Hc). apply filter_In_sublists.
    - apply (proj1 (closed_row_concept K e Hc)).
  Qed.

  Lemma msound_length F : msound F -> length F <= L.
  Proof.
    intros [Hnd Hs]. eapply Nat.le_trans; [|exact HL].
    apply Nat.le_trans with (length (map search1 F)); [rewrite map_length; apply Nat.le_refl|].
    apply NoDup_incl_length.
    - apply NoDup_map_inj_in; [|exact Hnd]. intros x y Hx Hy E. apply search1_inj; [|exact E].
      rewrite (proj1 (Hs x Hx)), (proj1 (Hs y Hy)). reflexivity.
    - intros A HA. apply in_map_iff in HA. destruct HA as [e [E He]]. subst A.
      apply closed_row_in_spec. apply Hs. exact He.
  Qed.

  Lemma mcandidates_all F a s :
    sofia_candidates shuffle ms F a = Some s ->
    forall e, In e s <-> In e (F ++ map (fun e0 => band e0 a) F).
  Proof.
    unfold sofia_candidates. destruct (ball a); [discriminate|]. destruct (Qlt_b (cntQ a) ms); [discriminate|].
    intros E e. injection E as E. subst s. unfold support_filter.
    rewrite (filter_all_true _ _ (fun x _ => ms0_le n x)), firstn_skipn. split; intros H.
    - apply (proj1 (dedup_In _ _)).
      apply (Permutation_in _ (Permutation_sym (shuffle_perm _))).
      apply (Permutation_in _ (Permutation_sym (sort_by_count_perm _))). exact H.
    - apply (Permutation_in _ (sort_by_count_perm _)).
      apply (Permutation_in _ (shuffle_perm _)). apply (proj2 (dedup_In _ _)). exact H.
  Qed.

  Lemma attrs_length a : In a attrs -> length a = n.
  Proof. apply mv_attrs_len. exact Hwf. Qed.

  Lemma ball_nth a k : ball a = true -> k < length a -> nth k a false = true.
  Proof. intros H Hk. unfold ball in H. rewrite (forallb_nth id _ false) in H. apply (H k Hk). Qed.

  Definition drop (a : extent) (S : list extent) : list extent :=
    filter (fun x => negb (bool_list_eqb x a)) S.

  Lemma drop_incl js a S : incl S (js ++ [a]) -> incl (drop a S) js.
  Proof.
    intros H x Hx. apply filter_In in Hx. destruct Hx as [Hx1 Hx2].
    apply H in Hx1. apply in_app_or in Hx1. destruct Hx1 as [Hx1|[Hx1|[]]]; [exact Hx1|].
    subst x. assert (X : bool_list_eqb a a = true) by (apply bool_list_eqb_eq; reflexivity).
    rewrite X in Hx2. discriminate.
  Qed.

  Lemma drop_In a S x : In x S -> x = a \/ In x (drop a S).
  Proof.
    intros Hx. destruct (bool_list_eqb x a) eqn:E.
    - left. apply bool_list_eqb_eq. exact E.
    - right. apply filter_In. split; [exact Hx|]. rewrite E. reflexivity.
  Qed.

  Lemma mstep_exact js a F :
    In a attrs -> msound F -> mcomplete js F ->
    msound (step F a) /\ mcomplete (js ++ [a]) (step F a).
  Proof.
    intros Ha HS HC. pose proof (attrs_length a Ha) as La. unfold step, sofia_step.
    destruct (sofia_candidates shuffle ms F a) as [s|] eqn:E.
    - pose proof (mcandidates_all F a s E) as Hin.
      assert (HSs : msound s).
      { split.
        - unfold sofia_candidates in E. destruct (ball a); [discriminate|].
          destruct (Qlt_b (cntQ a) ms); [discriminate|]. injection E as E. subst s.
          unfold support_filter. apply NoDup_app_filter. rewrite firstn_skipn.
          eapply Permutation_NoDup; [apply sort_by_count_perm|].
          eapply Permutation_NoDup; [apply shuffle_perm|]. apply dedup_NoDup.
        - intros e He. apply Hin in He. apply in_app_or in He. destruct He as [He|He].
          + apply (proj2 HS). exact He.
          + apply in_map_iff in He. destruct He as [e' [Ee He']]. subst e.
            apply closed_row_band; [exact Hwf|apply (proj2 HS); exact He'|exact Ha]. }
      assert (EL : L <? length s = false) by (apply Nat.ltb_ge; apply msound_length; exact HSs).
      rewrite EL. split; [exact HSs|].
      intros S HSi. destruct (HC (drop a S) (drop_incl js a S HSi)) as [e' [He' [Le' Me']]].
      destruct (existsb (fun x => bool_list_eqb x a) S) eqn:Ex.
      + (* a belongs to S *)
        apply existsb_exists in Ex. destruct Ex as [x [Hx Ex]]. apply bool_list_eqb_eq in Ex. subst x.
        exists (band e' a). split.
        * apply Hin. apply in_or_app. right. apply (in_map (fun e0 => band e0 a)). exact He'.
        * split; [rewrite band_length, Le', La; apply Nat.min_id|].
          intros k Hk. rewrite nth_band by lia. rewrite andb_true_iff, (Me' k Hk). split.
          -- intros [H1 H2] b Hb. destruct (drop_In a S b Hb) as [Eb|Hb']; [subst; exact H2|apply H1; exact Hb'].
          -- intros H. split; [|apply H; exact Hx]. intros b Hb. apply H. apply filter_In in Hb. tauto.
      + exists e'. split; [apply Hin; apply in_or_app; left; exact He'|].
        split; [exact Le'|]. intros k Hk. rewrite (Me' k Hk). split.
        * intros H b Hb. destruct (drop_In a S b Hb) as [Eb|Hb']; [|apply H; exact Hb'].
          subst b. assert (X : existsb (fun x => bool_list_eqb x a) S = true).
          { apply existsb_exists. exists a. split; [exact Hb|apply bool_list_eqb_eq; reflexivity]. }
          congruence.
        * intros H b Hb. apply H. apply filter_In in Hb. tauto.
    - split; [exact HS|].
      unfold sofia_candidates in E. destruct (ball a) eqn:Eb.
      + intros S HSi. destruct (HC (drop a S) (drop_incl js a S HSi)) as [e' [He' [Le' Me']]].
        exists e'. split; [exact He'|]. split; [exact Le'|]. intros k Hk. rewrite (Me' k Hk). split.
        * intros H b Hb. destruct (drop_In a S b Hb) as [Ebb|Hb']; [|apply H; exact Hb'].
          subst b. apply ball_nth; [exact Eb|lia].
        * intros H b Hb. apply H. apply filter_In in Hb. tauto.
      + assert (X : Qlt_b (cntQ a) ms = false) by (unfold Qlt_b, ms; rewrite ms0_le; reflexivity).
        rewrite X in E. discriminate.
  Qed.

  Lemma mfold_exact js' : forall js F,
    incl js' attrs -> msound F -> mcomplete js F ->
    msound (fold_left step js' F) /\ mcomplete (js ++ js') (fold_left step js' F).
  Proof.
    induction js' as [|a js' IH]; intros js F Hi HS HC; simpl.
    - rewrite app_nil_r. split; assumption.
    - destruct (mstep_exact js a F (Hi a (or_introl eq_refl)) HS HC) as [HS' HC'].
      replace (js ++ a :: js') with ((js ++ [a]) ++ js') by (rewrite <- app_assoc; reflexivity).
      apply IH; [intros x Hx; apply Hi; right; exact Hx|exact HS'|exact HC'].
  Qed.

  Theorem sofia_mv_extents_exact :
    forall A, In A (map search1 (sofia_extents shuffle mu n attrs ms L)) <-> In A (mv_extents_spec K).
  Proof.
    assert (HS0 : msound [repeat true n]).
    { split; [constructor; [intros []|constructor]|]. intros e [He|[]]. subst e. apply closed_row_top. }
    assert (HC0 : mcomplete [] [repeat true n]).
    { intros S HSi. exists (repeat true n). split; [left; reflexivity|]. split; [apply repeat_length|].
      intros k Hk. split.
      - intros _ a Ha. destruct (HSi a Ha).
      - intros _. apply nth_repeat_lt. exact Hk. }
    destruct (mfold_exact attrs [] [repeat true n] (incl_refl _) HS0 HC0) as [HS HC].
    intros A. unfold sofia_extents. fold step. split.
    - intros HA. apply in_map_iff in HA. destruct HA as [e [E He]]. subst A.
      apply closed_row_in_spec. apply (proj2 HS). exact He.
    - intros HA. apply mv_extents_spec_In in HA. destruct HA as [A0 [HA0 EA]]. subst A.
      assert (Hr : in_range n A0).
      { intros x Hx. apply In_sublists in HA0. apply HA0 in Hx. apply in_seq in Hx. lia. }
      set (S := filter (fun a => forallb (fun x => nth x a false) A0) attrs).
      destruct (HC S) as [e [He [Le Me]]].
      { intros a Ha. apply filter_In in Ha. simpl. tauto. }
      apply in_map_iff. exists e. split; [|exact He].
      rewrite search1_filter, Le. unfold mv_cl, mv_ext_spec. fold n.
      apply filter_seq_ext. intros k Hk. apply bool_eq_iff. rewrite (Me k Hk). split.
      + intros H. destruct A0 as [|x0 A0'] eqn:EA0.
        * (* the empty set: the all-false attribute of any column excludes k *)
          exfalso. destruct (nonempty_has_member K (proj1 Hwf)) as [c Hc].
          assert (Hf : In (map (fun _ : ival => false) c) S).
          { apply filter_In. split; [unfold attrs; apply false_attr_In; exact Hc|reflexivity]. }
          specialize (H _ Hf).
          destruct (Nat.lt_ge_cases k (length c)) as [Lk|Lk].
          -- rewrite (nth_map_in (fun _ : ival => false) c k false (0%Z, 0%Z)) in H by exact Lk. discriminate.
          -- rewrite nth_overflow in H by (rewrite map_length; exact Lk). discriminate.
        * rewrite <- EA0 in *. apply bin_attrs_generate; [exact Hwf|rewrite EA0; discriminate|exact Hr|exact Hk|].
          intros a Ha HAa. apply H. apply filter_In. split; [exact Ha|].
          apply forallb_forall. intros x Hx. apply HAa. rewrite EA0. exact Hx.
      + intros Hcov a Ha. apply filter_In in Ha. destruct Ha as [Ha1 Ha2].
        rewrite forallb_forall in Ha2.
        apply (covered_in_attr K A0 k a Hwf Hr Hk Ha1 Ha2 Hcov).
  Qed.
End MVExact.

Theorem sofia_mv_exact : forall shuffle mu,
  (forall l, Permutation l (shuffle l)) ->
  forall K L, mv_wf K -> length (mv_extents_spec K) <= L ->
  forall A, In A (map fst (sofia_mv shuffle mu K L 0%Q)) <-> In A (mv_extents_spec K).
Proof.
  intros shuffle mu Hp K L Hwf HL A. unfold sofia_mv. rewrite map_map. simpl.
  apply sofia_mv_extents_exact; assumption.
Qed.

(* Lemmas/C06_Complement.v — complementing twice gives the context back exactly when no
   attribute name starts with 'not not ' (finding D19 outside that guard). *)
From FCA Require Import Model.Duality Spec.DualitySpec Lemmas.BitRow.
From FCA Require Import Lemmas.C06_Transpose.

Definition notnot_prefix : str := not_prefix ++ not_prefix.          (* 'not not ' *)
Definition name_ok (m : str) : bool := negb (starts_with notnot_prefix m).
Definition names_ok (an : list str) : bool := forallb name_ok an.

(* ------------------------------------------------------------------ the prefix toggle *)

Lemma starts_with_app p q s :
  starts_with (p ++ q) s = starts_with p s && starts_with q (skipn (length p) s).
Proof.
  revert s. induction p as [|x p IH]; intros s; simpl; [reflexivity|].
  destruct s as [|y s]; simpl.
  - reflexivity.
  - rewrite IH. rewrite andb_assoc. reflexivity.
Qed.

Lemma starts_with_decompose p s : starts_with p s = true -> s = p ++ skipn (length p) s.
Proof.
  revert s. induction p as [|x p IH]; intros s H; simpl in *; [reflexivity|].
  destruct s as [|y s]; [discriminate|]. apply andb_true_iff in H. destruct H as [H1 H2].
  apply Nat.eqb_eq in H1. subst. simpl. f_equal. apply IH. exact H2.
Qed.

Lemma starts_with_self_app p s : starts_with p (p ++ s) = true.
Proof. induction p as [|x p IH]; simpl; [reflexivity|]. rewrite Nat.eqb_refl. exact IH. Qed.

Lemma skipn_self_app (p s : str) : skipn (length p) (p ++ s) = s.
Proof. induction p; simpl; auto. Qed.

Lemma toggle_unprefixed m : starts_with not_prefix m = false -> toggle_name (toggle_name m) = m.
Proof.
  intros H. unfold toggle_name at 2. rewrite H. unfold toggle_name.
  rewrite starts_with_self_app. apply (skipn_self_app not_prefix m).
Qed.

(* the exact set of names a double toggle restores *)
Theorem toggle_twice_iff m : toggle_name (toggle_name m) = m <-> name_ok m = true.
Proof.
  unfold name_ok, notnot_prefix. rewrite starts_with_app. change (length not_prefix) with 4.
  destruct (starts_with not_prefix m) eqn:E.
  - (* m = 'not ' ++ r *)
    pose proof (starts_with_decompose _ _ E) as D. change (length not_prefix) with 4 in D.
    assert (T1 : toggle_name m = skipn 4 m) by (unfold toggle_name; rewrite E; reflexivity).
    rewrite T1. remember (skipn 4 m) as r eqn:Hr.
    destruct (starts_with not_prefix r) eqn:E2; cbn [andb negb].
    + assert (T2 : toggle_name r = skipn 4 r) by (unfold toggle_name; rewrite E2; reflexivity).
      rewrite T2. split; [|discriminate]. intros H. exfalso.
      assert (L : length (skipn 4 r) = length m) by (rewrite H; reflexivity).
      rewrite skipn_length in L.
      assert (length m = 4 + length r) by (rewrite D at 1; rewrite app_length; reflexivity). lia.
    + assert (T2 : toggle_name r = not_prefix ++ r) by (unfold toggle_name; rewrite E2; reflexivity).
      rewrite T2. split; [reflexivity|]. intros _. symmetry. exact D.
  - cbn [andb negb]. split; [reflexivity|]. intros _. apply toggle_unprefixed. exact E.
Qed.

Lemma map_toggle_twice an : names_ok an = true -> map toggle_name (map toggle_name an) = an.
Proof.
  induction an as [|m an IH]; simpl; intros H; [reflexivity|].
  apply andb_true_iff in H. destruct H as [H1 H2]. rewrite IH by exact H2.
  f_equal. apply toggle_twice_iff. exact H1.
Qed.

Lemma map_toggle_twice_inv an : map toggle_name (map toggle_name an) = an -> names_ok an = true.
Proof.
  induction an as [|m an IH]; simpl; intros H; [reflexivity|].
  inversion H as [[H1 H2]]. rewrite H1, H2. apply andb_true_iff. split.
  - apply toggle_twice_iff. exact H1.
  - apply IH. exact H2.
Qed.

(* ------------------------------------------------------------------ tables *)

Lemma tbl_invert_involutive t : tbl_invert (tbl_invert t) = t.
Proof.
  unfold tbl_invert. rewrite map_map. rewrite <- (map_id t) at 2. apply map_ext. intros r.
  rewrite map_map. rewrite <- (map_id r) at 2. apply map_ext. intros v. apply negb_involutive.
Qed.

Lemma tbl_invert_height t : height (tbl_invert t) = height t.
Proof. unfold tbl_invert, height. apply map_length. Qed.

Lemma tbl_invert_width t : width (tbl_invert t) = width t.
Proof. destruct t as [|r t]; simpl; [reflexivity|apply map_length]. Qed.

Lemma tbl_invert_wf t : wf t -> wf (tbl_invert t).
Proof.
  unfold wf. rewrite tbl_invert_width. intros H. unfold tbl_invert. apply Forall_forall.
  intros r Hr. apply in_map_iff in Hr. destruct Hr as [r0 [E Hr0]]. subst. rewrite map_length.
  rewrite Forall_forall in H. apply H. exact Hr0.
Qed.

Lemma cell_tbl_invert t i j : wf t -> i < height t -> j < width t ->
  cell (tbl_invert t) i j = negb (cell t i j).
Proof.
  intros Hwf Hi Hj. unfold cell, row, tbl_invert.
  rewrite (nth_map_in _ _ _ _ []) by exact Hi.
  rewrite (nth_map_in _ _ _ _ false); [reflexivity|].
  change (nth i t []) with (row t i). rewrite wf_row_length by assumption. exact Hj.
Qed.

(* ------------------------------------------------------------------ contexts *)

Theorem ctx_invert_ok K : ctx_wf K ->
  ctx_invert K = COk {| k_tbl := tbl_invert (k_tbl K); k_on := k_on K; k_an := map toggle_name (k_an K) |}.
Proof.
  intros [Hwf [Ho Ha]]. unfold ctx_invert. apply mk_ctx_ok.
  - rewrite tbl_invert_height. exact Ho.
  - rewrite map_length, tbl_invert_width. exact Ha.
Qed.

Lemma ctx_wf_invert K : ctx_wf K ->
  ctx_wf {| k_tbl := tbl_invert (k_tbl K); k_on := k_on K; k_an := map toggle_name (k_an K) |}.
Proof.
  intros [Hwf [Ho Ha]]. unfold ctx_wf. cbn [k_tbl k_on k_an]. split; [apply tbl_invert_wf; exact Hwf|].
  split.
  - rewrite tbl_invert_height. exact Ho.
  - rewrite map_length, tbl_invert_width. exact Ha.
Qed.

Lemma ctx_invert2_value K : ctx_wf K ->
  ctx_invert2 K = COk {| k_tbl := k_tbl K; k_on := k_on K;
                         k_an := map toggle_name (map toggle_name (k_an K)) |}.
Proof.
  intros HK. unfold ctx_invert2. rewrite ctx_invert_ok by exact HK. cbn [cbind].
  rewrite ctx_invert_ok by (apply ctx_wf_invert; exact HK). cbn [k_tbl k_on k_an].
  rewrite tbl_invert_involutive. reflexivity.
Qed.

(* ~~K = K  <->  no attribute name starts with 'not not ' *)
Theorem complement_involutive_iff K : ctx_wf K ->
  (ctx_invert2 K = COk K <-> names_ok (k_an K) = true).
Proof.
  intros HK. rewrite ctx_invert2_value by exact HK. split.
  - intros H. apply map_toggle_twice_inv. destruct K as [t on an]. cbn [k_tbl k_on k_an] in H.
    injection H as H. exact H.
  - intros H. rewrite map_toggle_twice by exact H. destruct K; reflexivity.
Qed.

Theorem complement_involutive K : ctx_wf K -> names_ok (k_an K) = true -> ctx_invert2 K = COk K.
Proof. intros HK H. apply complement_involutive_iff; assumption. Qed.

(* ~~K == K evaluates to True under the guard ... *)
Theorem complement_eq_true K : ctx_wf K -> names_ok (k_an K) = true ->
  cbind (ctx_invert2 K) (fun K2 => ctx_eq K2 K) = COk true.
Proof. intros HK H. rewrite complement_involutive by assumption. simpl. apply ctx_eq_refl. Qed.

(* ... and raises ValueError outside it *)
Lemma strs_eqb_eq a b : strs_eqb a b = true <-> a = b.
Proof. unfold strs_eqb. apply list_eqb_eq. intros x y. apply nat_list_eqb_eq. Qed.

Theorem complement_eq_raises K : ctx_wf K -> names_ok (k_an K) = false ->
  cbind (ctx_invert2 K) (fun K2 => ctx_eq K2 K) = CErr E_Value.
Proof.
  intros HK H. rewrite ctx_invert2_value by exact HK. cbn [cbind]. unfold ctx_eq. cbn [k_on k_an k_tbl].
  rewrite strs_eqb_refl. simpl.
  destruct (strs_eqb (map toggle_name (map toggle_name (k_an K))) (k_an K)) eqn:E; [|reflexivity].
  apply strs_eqb_eq in E. apply map_toggle_twice_inv in E. congruence.
Qed.

(* the recorded finding: a 1x1 context whose attribute is called 'not not x' *)
Definition d19_witness : ctx :=
  {| k_tbl := [[true]]; k_on := [[103]];
     k_an := [[110; 111; 116; 32; 110; 111; 116; 32; 120]] |}.

Theorem complement_refuted :
  exists K, ctx_wf K /\ names_ok (k_an K) = false /\ ctx_invert2 K <> COk K.
Proof.
  exists d19_witness. split; [|split].
  - repeat split. repeat constructor.
  - vm_compute. reflexivity.
  - vm_compute. discriminate.
Qed.

(* Lemmas/C06.v — lattice-level corollaries of the relabelling theorems and the concrete objects
   used by the non-vacuity examples of Props/C06.v. *)
From FCA Require Import Model.Duality Spec.DualitySpec Lemmas.BitRow.
From FCA Require Export Lemmas.C06_Transpose Lemmas.C06_Complement Lemmas.C06_Lattice
                        Lemmas.C06_Monotone Lemmas.C06_Relabel.

(* ------------------------------------------------------------------ per-back-end forms used by Props/C06.v *)

Theorem transpose_swaps_primes b t X :
  wf t -> nondegenerate t ->
  ext (transpose b t) X = int t X /\ int (transpose b t) X = ext t X.
Proof.
  intros Hwf Hn. rewrite transpose_backend.
  split; [exact (ext_transpose t X Hwf) | exact (int_transpose t X Hwf Hn)].
Qed.

Theorem lattice_of_transpose b t :
  wf t -> nondegenerate t ->
  (forall A B, In (A, B) (concepts_spec (transpose b t)) <-> In (B, A) (concepts_spec t)) /\
  (forall A1 B1 A2 B2, is_concept t A1 B1 -> is_concept t A2 B2 -> (incl A1 A2 <-> incl B2 B1)).
Proof.
  intros Hwf Hn. rewrite transpose_backend. split.
  - intros A B. apply concepts_of_transpose; assumption.
  - intros A1 B1 A2 B2. apply concept_order_dual.
Qed.

Theorem lattice_T_correct_b b t on an L :
  wf t -> nondegenerate t -> lattice_for t on an L ->
  lattice_for (transpose b t) an on (lattice_T L).
Proof. rewrite transpose_backend. apply lattice_T_correct. Qed.

Theorem relabel_primes t ps pc :
  is_perm (height t) ps -> is_perm (width t) pc ->
  (forall B, in_range (width t) B ->
     pull ps (height t) (ext t B) = ext (relabel_table ps pc t) (pull pc (width t) B)) /\
  (forall A, in_range (height t) A ->
     pull pc (width t) (int t A) = int (relabel_table ps pc t) (pull ps (height t) A)).
Proof. intros Hps Hpc. split; [apply pull_ext | apply pull_int]; assumption. Qed.

(* ------------------------------------------------------------------ children dictionaries as covers of extents *)

Lemma cover_ext_cover E i j : i < length E -> j < length E ->
  (cover (ext_lt E) (length E) j i <-> ext_cover E (nth j E []) (nth i E [])).
Proof.
  intros Hi Hj. unfold cover, ext_cover, ext_lt. split.
  - intros [H1 H2]. split; [apply nth_In; exact Hj|]. split; [apply nth_In; exact Hi|].
    split; [exact H1|]. intros Z HZ. destruct (In_nth E Z [] HZ) as [k [Hk Ek]]. subst Z.
    apply H2. exact Hk.
  - intros [_ [_ [H1 H2]]]. split; [exact H1|]. intros k Hk. apply H2. apply nth_In. exact Hk.
Qed.

Lemma ext_cover_members E1 E2 X Y :
  (forall Z, In Z E1 <-> In Z E2) -> (ext_cover E1 X Y <-> ext_cover E2 X Y).
Proof.
  intros H. unfold ext_cover. rewrite !H.
  split; intros [H1 [H2 [H3 H4]]]; (split; [exact H1|]; split; [exact H2|]; split; [exact H3|]);
    intros Z HZ; apply H4; apply H; exact HZ.
Qed.

Lemma lf_extents t on an L Z :
  lattice_for t on an L -> (In Z (exts_of L) <-> In Z (map fst (concepts_spec t))).
Proof.
  intros HL. unfold exts_of. rewrite !in_map_iff. split.
  - intros [c [E Hc]]. exists (cpair c). split; [exact E|].
    assert (X : In (cpair c) (map cpair (l_concepts L))) by (apply in_map; exact Hc).
    unfold cpair in X at 1. apply (lf_pairs _ _ _ _ HL) in X. exact X.
  - intros [[A B] [E H]]. simpl in E. subst A. apply (lf_pairs _ _ _ _ HL) in H.
    apply in_map_iff in H. destruct H as [c [E Hc]]. exists c. split; [|exact Hc].
    unfold cpair in E. inversion E. reflexivity.
Qed.

(* the children dictionary of a concept lattice is the cover relation on the extents of the table *)
Theorem lattice_children_ext_cover t on an L i j :
  lattice_for t on an L -> i < length (l_concepts L) ->
  (In j (nth i (l_children L) []) <->
   j < length (l_concepts L) /\
   ext_cover (map fst (concepts_spec t)) (nth j (exts_of L) []) (nth i (exts_of L) [])).
Proof.
  intros HL Hi. rewrite (lf_children _ _ _ _ HL i j Hi).
  assert (Hlen : length (exts_of L) = length (l_concepts L)) by (unfold exts_of; apply map_length).
  split; intros [Hj H]; split; try exact Hj.
  - apply (ext_cover_members (exts_of L)); [intros Z; apply (lf_extents _ _ _ _ Z HL)|].
    apply cover_ext_cover; try lia. rewrite Hlen. exact H.
  - apply (ext_cover_members (exts_of L)) in H; [|intros Z; apply (lf_extents _ _ _ _ Z HL)].
    apply cover_ext_cover in H; try lia. rewrite Hlen in H. exact H.
Qed.

(* ------------------------------------------------------------------ relabelling, lattice level *)

Theorem relabel_lattice_concepts t ps pc on an on' an' L L' :
  is_perm (height t) ps -> is_perm (width t) pc ->
  lattice_for t on an L -> lattice_for (relabel_table ps pc t) on' an' L' ->
  forall A' B', In (A', B') (map cpair (l_concepts L')) <->
    exists A B, In (A, B) (map cpair (l_concepts L)) /\
                A' = pull ps (height t) A /\ B' = pull pc (width t) B.
Proof.
  intros Hps Hpc HL HL' A' B'. rewrite (lf_pairs _ _ _ _ HL'), (relabel_concepts t ps pc Hps Hpc).
  split; intros [A [B [H HE]]]; exists A, B; split; try exact HE; apply (lf_pairs _ _ _ _ HL); exact H.
Qed.

Theorem relabel_lattice_covers t ps pc on an on' an' L L' i j i' j' :
  is_perm (height t) ps -> is_perm (width t) pc ->
  lattice_for t on an L -> lattice_for (relabel_table ps pc t) on' an' L' ->
  i < length (l_concepts L) -> j < length (l_concepts L) ->
  i' < length (l_concepts L') -> j' < length (l_concepts L') ->
  nth i' (exts_of L') [] = pull ps (height t) (nth i (exts_of L) []) ->
  nth j' (exts_of L') [] = pull ps (height t) (nth j (exts_of L) []) ->
  (In j' (nth i' (l_children L') []) <-> In j (nth i (l_children L) [])).
Proof.
  intros Hps Hpc HL HL' Hi Hj Hi' Hj' Ei Ej.
  rewrite (lattice_children_ext_cover _ _ _ _ i' j' HL' Hi').
  rewrite (lattice_children_ext_cover _ _ _ _ i j HL Hi). rewrite Ei, Ej.
  assert (Xi : In (nth i (exts_of L) []) (map fst (concepts_spec t))).
  { apply (lf_extents _ _ _ _ _ HL). apply nth_In. unfold exts_of. rewrite map_length. exact Hi. }
  assert (Xj : In (nth j (exts_of L) []) (map fst (concepts_spec t))).
  { apply (lf_extents _ _ _ _ _ HL). apply nth_In. unfold exts_of. rewrite map_length. exact Hj. }
  rewrite (relabel_covers t ps pc Hps Hpc _ _ Xj Xi). tauto.
Qed.

(* ------------------------------------------------------------------ K[rows, cols] is the spec relabelling *)

Theorem subtable_is_relabel b t rs cs : subtable b t rs cs = relabel_table rs cs t.
Proof.
  destruct b; try reflexivity. unfold subtable, N_subtable, N_slice, relabel_table.
  rewrite map_map. reflexivity.
Qed.

Theorem ctx_getitem_is_relabel b K ps pc :
  ctx_wf K -> is_perm (height (k_tbl K)) ps -> is_perm (width (k_tbl K)) pc ->
  ctx_getitem b K ps pc =
  COk {| k_tbl := relabel_table ps pc (k_tbl K);
         k_on := names_at (k_on K) ps; k_an := names_at (k_an K) pc |}.
Proof.
  intros [Hwf [Ho Ha]] Hps Hpc. unfold ctx_getitem. rewrite subtable_is_relabel. apply mk_ctx_ok.
  - unfold slice_names, names_at. rewrite map_length. rewrite (relabel_height (k_tbl K) ps pc Hps). apply Hps.
  - unfold slice_names, names_at. rewrite map_length. rewrite (relabel_width (k_tbl K) ps pc Hps Hpc). apply Hpc.
Qed.

(* ------------------------------------------------------------------ objects for the non-vacuity examples *)

Definition n_g0 : str := [103; 48].     (* g0 *)
Definition n_g1 : str := [103; 49].
Definition n_g2 : str := [103; 50].
Definition n_a : str := [97].           (* a *)
Definition n_not_b : str := [110; 111; 116; 32; 98].   (* not b *)
Definition n_c : str := [99].

(* 3 objects x 3 attributes, 4 concepts, one attribute name carrying the prefix *)
Definition ex_tbl : table := [[true; false; true]; [false; true; true]; [false; false; true]].
Definition ex_ctx : ctx := {| k_tbl := ex_tbl; k_on := [n_g0; n_g1; n_g2]; k_an := [n_a; n_not_b; n_c] |}.

Lemma ex_ctx_wf : ctx_wf ex_ctx.
Proof. repeat split. repeat constructor. Qed.

Lemma ex_nondegenerate : nondegenerate ex_tbl.
Proof. intros H. discriminate. Qed.

Definition mkc (e i : list nat) (on an : list str) : concept :=
  {| c_ext_i := e; c_ext := names_at on e; c_int_i := i; c_int := names_at an i; c_hash := Some 7%Z; c_mono := false |}.

(* its lattice, concepts in the order ConceptLattice.sort_concepts would give *)
Definition ex_lat : lattice :=
  {| l_concepts := [ mkc [0; 1; 2] [2] (k_on ex_ctx) (k_an ex_ctx);
                     mkc [0] [0; 2] (k_on ex_ctx) (k_an ex_ctx);
                     mkc [1] [1; 2] (k_on ex_ctx) (k_an ex_ctx);
                     mkc [] [0; 1; 2] (k_on ex_ctx) (k_an ex_ctx) ];
     l_children := [[1; 2]; [3]; [3]; []];
     l_mono := false |}.

(* ------------------------------------------------------------------ deciding lattice_for (used by the examples) *)

Definition pair_eqb2 (x y : list nat * list nat) : bool :=
  nat_list_eqb (fst x) (fst y) && nat_list_eqb (snd x) (snd y).

Fixpoint nodupb (l : list (list nat)) : bool :=
  match l with
  | [] => true
  | x :: l' => negb (existsb (nat_list_eqb x) l') && nodupb l'
  end.

Definition coverb (E : list (list nat)) (n j i : nat) : bool :=
  ext_ltb E j i && forallb (fun k => negb (ext_ltb E j k && ext_ltb E k i)) (seq 0 n).

Definition lattice_forb (t : table) (on an : list str) (L : lattice) : bool :=
  let cs := l_concepts L in
  let n := length cs in
  let E := exts_of L in
  forallb (fun p => existsb (pair_eqb2 p) (concepts_spec t)) (map cpair cs) &&
  forallb (fun p => existsb (pair_eqb2 p) (map cpair cs)) (concepts_spec t) &&
  nodupb E &&
  forallb (fun c => strs_eqb (c_ext c) (names_at on (c_ext_i c)) &&
                    strs_eqb (c_int c) (names_at an (c_int_i c))) cs &&
  Nat.eqb (length (l_children L)) n &&
  forallb (fun i => in_rangeb n (nth i (l_children L) []) &&
                    forallb (fun j => Bool.eqb (mem j (nth i (l_children L) [])) (coverb E n j i)) (seq 0 n))
          (seq 0 n).

Lemma pair_eqb2_eq x y : pair_eqb2 x y = true <-> x = y.
Proof.
  destruct x as [a b], y as [c d]. unfold pair_eqb2. simpl.
  rewrite andb_true_iff, !nat_list_eqb_eq. split; [intros [H1 H2]; subst; reflexivity|].
  intros H. inversion H. auto.
Qed.

Lemma forallb_existsb_incl (l1 l2 : list (list nat * list nat)) :
  forallb (fun p => existsb (pair_eqb2 p) l2) l1 = true -> forall p, In p l1 -> In p l2.
Proof.
  intros H p Hp. rewrite forallb_forall in H. apply H in Hp. apply existsb_exists in Hp.
  destruct Hp as [q [Hq E]]. apply pair_eqb2_eq in E. subst. exact Hq.
Qed.

Lemma nodupb_NoDup l : nodupb l = true -> NoDup l.
Proof.
  induction l as [|x l IH]; simpl; intros H; [constructor|].
  apply andb_true_iff in H. destruct H as [H1 H2]. constructor; [|apply IH; exact H2].
  intros Hin. apply negb_true_iff in H1.
  assert (X : existsb (nat_list_eqb x) l = true).
  { apply existsb_exists. exists x. split; [exact Hin|apply nat_list_eqb_eq; reflexivity]. }
  congruence.
Qed.

Lemma strict_subb_spec a b : strict_subb a b = true <-> strict_sub a b.
Proof.
  unfold strict_subb, strict_sub. destruct (subsetb a b) eqn:E1.
  - apply subsetb_incl in E1. rewrite negb_true_iff. split.
    + intros H2. split; [exact E1|]. intros Hc. apply subsetb_incl in Hc. congruence.
    + intros [_ H2]. destruct (subsetb b a) eqn:E; [|reflexivity]. apply subsetb_incl in E. tauto.
  - split; [discriminate|]. intros [H1 _]. apply subsetb_incl in H1. congruence.
Qed.

Lemma coverb_spec E n j i : coverb E n j i = true <-> cover (ext_lt E) n j i.
Proof.
  unfold coverb, cover, ext_ltb, ext_lt. rewrite andb_true_iff, strict_subb_spec, forallb_forall.
  split; intros [H1 H2]; split; try exact H1.
  - intros k Hk [Ha Hb]. assert (X := H2 k). rewrite in_seq in X. specialize (X ltac:(lia)).
    apply negb_true_iff in X. apply andb_false_iff in X.
    apply strict_subb_spec in Ha. apply strict_subb_spec in Hb. destruct X; congruence.
  - intros k Hk. apply in_seq in Hk. apply negb_true_iff. apply andb_false_iff.
    destruct (strict_subb (nth j E []) (nth k E [])) eqn:Ea; [|left; reflexivity].
    destruct (strict_subb (nth k E []) (nth i E [])) eqn:Eb; [|right; reflexivity].
    exfalso. apply (H2 k ltac:(lia)). split; apply strict_subb_spec; assumption.
Qed.

Theorem lattice_forb_sound t on an L : lattice_forb t on an L = true -> lattice_for t on an L.
Proof.
  unfold lattice_forb. rewrite !andb_true_iff. intros [[[[[H1 H2] H3] H4] H5] H6]. constructor.
  - intros A B. split; [apply (forallb_existsb_incl _ _ H1)|apply (forallb_existsb_incl _ _ H2)].
  - apply nodupb_NoDup. exact H3.
  - intros c Hc. rewrite forallb_forall in H4. apply H4 in Hc. apply andb_true_iff in Hc.
    destruct Hc as [Ha Hb]. apply strs_eqb_eq in Ha. apply strs_eqb_eq in Hb. auto.
  - apply Nat.eqb_eq. exact H5.
  - intros i j Hi. rewrite forallb_forall in H6. assert (X := H6 i). rewrite in_seq in X.
    specialize (X ltac:(lia)). apply andb_true_iff in X. destruct X as [Xr Xc].
    apply in_rangeb_spec in Xr. rewrite forallb_forall in Xc. split.
    + intros Hin. pose proof (Xr j Hin) as Hj. split; [exact Hj|].
      assert (Y := Xc j). rewrite in_seq in Y. specialize (Y ltac:(lia)).
      apply eqb_prop in Y. apply coverb_spec. rewrite <- Y. apply mem_In. exact Hin.
    + intros [Hj Hc]. assert (Y := Xc j). rewrite in_seq in Y. specialize (Y ltac:(lia)).
      apply eqb_prop in Y. apply mem_In. rewrite Y. apply coverb_spec. exact Hc.
Qed.

Lemma ex_lat_ok : lattice_for ex_tbl (k_on ex_ctx) (k_an ex_ctx) ex_lat.
Proof. apply lattice_forb_sound. vm_compute. reflexivity. Qed.

(* the lattice of the complemented example context, names toggled *)
Definition ex_ctx_inv : ctx :=
  {| k_tbl := tbl_invert ex_tbl; k_on := k_on ex_ctx; k_an := map toggle_name (k_an ex_ctx) |}.

Definition ex_lat_inv : lattice :=
  {| l_concepts := [ mkc [0; 1; 2] [] (k_on ex_ctx_inv) (k_an ex_ctx_inv);
                     mkc [0; 2] [1] (k_on ex_ctx_inv) (k_an ex_ctx_inv);
                     mkc [1; 2] [0] (k_on ex_ctx_inv) (k_an ex_ctx_inv);
                     mkc [2] [0; 1] (k_on ex_ctx_inv) (k_an ex_ctx_inv);
                     mkc [] [0; 1; 2] (k_on ex_ctx_inv) (k_an ex_ctx_inv) ];
     l_children := [[1; 2]; [3]; [3]; [4]; []];
     l_mono := false |}.

Lemma ex_lat_inv_ok : lattice_for (tbl_invert ex_tbl) (k_on ex_ctx_inv) (k_an ex_ctx_inv) ex_lat_inv.
Proof. apply lattice_forb_sound. vm_compute. reflexivity. Qed.

(* a relabelling of the example: rows 2,0,1 and columns 1,2,0 *)
Definition ex_ps := [2; 0; 1].
Definition ex_pc := [1; 2; 0].
Lemma ex_ps_perm : is_perm (height ex_tbl) ex_ps.
Proof. split; [repeat constructor; simpl; intuition lia|]. split; [reflexivity|]. intros x Hx. simpl in *. intuition lia. Qed.
Lemma ex_pc_perm : is_perm (width ex_tbl) ex_pc.
Proof. split; [repeat constructor; simpl; intuition lia|]. split; [reflexivity|]. intros x Hx. simpl in *. intuition lia. Qed.

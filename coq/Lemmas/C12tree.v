(* Lemmas/C12tree.v — construct_spanning_tree builds a tree of strict super-concepts,
   ConceptLattice._get_chains decomposes it into chains from the top that contain every concept,
   and construct_lattice_by_spanning_tree therefore returns the cover relation. *)
From Coq Require Import Permutation Sorted.
From FCA Require Export Lemmas.C12sweep Lemmas.C12par.

Section Tree.
Variable lt : nat -> nat -> bool.
Variable rank : nat -> nat.
Variable n : nat.
Hypothesis SO : strict_order lt n.
Hypothesis Hrank : forall i j, i < n -> j < n -> lt i j = true -> rank j < rank i.
Variable t : nat.
Hypothesis Ht : is_top lt n t.
Variable enum : list nat -> list nat.
Hypothesis Henum : forall l x, In x (enum l) <-> In x l.

Lemma order_perm : Permutation (order rank n) (seq 0 n).
Proof. apply sort_by_perm. Qed.
Lemma order_In c : In c (order rank n) <-> c < n.
Proof.
  split; intros H.
  - apply (Permutation_in _ order_perm) in H. apply in_seq in H. lia.
  - apply (Permutation_in _ (Permutation_sym order_perm)). apply in_seq. lia.
Qed.
Lemma order_NoDup : NoDup (order rank n).
Proof. apply (Permutation_NoDup (Permutation_sym order_perm)), seq_NoDup. Qed.

Lemma order_head : exists rest, order rank n = t :: rest.
Proof.
  assert (Hs := sort_by_sorted rank (seq 0 n)). fold (order rank n) in Hs.
  destruct (order rank n) as [|h rest] eqn:E.
  - exfalso. assert (X : In t (order rank n)) by (apply order_In; apply Ht). rewrite E in X. contradiction.
  - exists rest. f_equal. destruct (Nat.eq_dec h t) as [D|D]; [exact D|]. exfalso.
    assert (Hh : h < n) by (apply order_In; rewrite E; left; reflexivity).
    assert (Htin : In t (h :: rest)) by (rewrite <- E; apply order_In; apply Ht).
    destruct Htin as [Htin|Htin]; [congruence|].
    inversion Hs as [|? ? _ Hall]; subst. rewrite Forall_forall in Hall. specialize (Hall t Htin).
    assert (X := Hrank h t Hh (proj1 Ht) (proj2 Ht h Hh D)). lia.
Qed.

(* ---- the state after the concepts of [done] have been placed *)
Definition tree_inv (done : list nat) (sub sup : imap) : Prop :=
  (forall c, In c done -> c <> t -> exists p, sup c = [p] /\ In p done /\ lt c p = true) /\
  (sup t = []) /\
  (forall c, ~ In c done -> sup c = [] /\ sub c = []) /\
  (forall p c, In c (sub p) <-> In c done /\ c <> t /\ sup c = [p]).

Lemma sift_ok done sub sup c : tree_inv done sub sup -> (forall x, In x done -> x < n) -> c < n ->
  forall fuel cur, In cur done -> lt c cur = true -> length (strict_down lt n cur) < fuel ->
  exists p, sift lt enum fuel sub c cur = Some p /\ In p done /\ lt c p = true.
Proof.
  intros [I1 [I2 [I3 I4]]] Hdn Hc. induction fuel as [|f IH]; intros cur Hcur Hlt Hm; [lia|].
  cbn [sift]. destruct (find (fun s => lt c s) (enum (sub cur))) as [s|] eqn:E.
  - apply find_some in E. destruct E as [Hs Hcs]. apply (proj1 (Henum _ _)) in Hs. apply (proj1 (I4 _ _)) in Hs.
    destruct Hs as [Hsd [Hst Hsup]].
    destruct (I1 s Hsd Hst) as [p' [Hp' [_ Hsp]]]. rewrite Hsup in Hp'. inversion Hp'; subst p'.
    apply IH; [exact Hsd | exact Hcs|].
    assert (Hsn := Hdn s Hsd). assert (Hcn := Hdn cur Hcur).
    assert (L : length (strict_down lt n s) < length (strict_down lt n cur)).
    { unfold strict_down. apply (filter_length_lt _ _ _ s).
      - intros x Hx Hxs. apply in_seq in Hx. apply (lt_trans lt n SO x s cur); auto; lia.
      - apply in_seq. lia.
      - exact Hsp.
      - apply (lt_irrefl lt n SO s Hsn). }
    lia.
  - exists cur. auto.
Qed.

Lemma st_step_inv done sub sup c :
  tree_inv done sub sup -> (forall x, In x done -> x < n) -> In t done ->
  c < n -> ~ In c done ->
  exists sub' sup', st_step lt n enum t (Done (sub, sup)) c = Done (sub', sup') /\
                    tree_inv (done ++ [c]) sub' sup'.
Proof.
  intros HI Hdn Htd Hc Hcd.
  assert (Hct : c <> t) by (intros ->; contradiction).
  assert (Hlt : lt c t = true) by (apply Ht; assumption).
  assert (Hfuel : length (strict_down lt n t) < S n).
  { unfold strict_down. assert (X := filter_length_le (fun x => lt x t) (seq 0 n)). rewrite seq_length in X. lia. }
  destruct (sift_ok done sub sup c HI Hdn Hc (S n) t Htd Hlt Hfuel) as [p [Hs [Hpd Hcp]]].
  unfold st_step. rewrite Hs. eexists. eexists. split; [reflexivity|].
  destruct HI as [I1 [I2 [I3 I4]]].
  assert (Hpc : p <> c) by (intros ->; contradiction).
  split; [|split; [|split]].
  - intros c' Hc' Hc't. apply in_app_or in Hc'. destruct Hc' as [Hc'|[Hc'|[]]].
    + assert (c' <> c) by (intros ->; contradiction).
      destruct (I1 c' Hc' Hc't) as [q [Q1 [Q2 Q3]]]. exists q. rewrite upd_other by assumption.
      split; [exact Q1|]. split; [apply in_or_app; left; exact Q2 | exact Q3].
    + subst c'. exists p. rewrite upd_same. split; [reflexivity|]. split; [apply in_or_app; left; exact Hpd | exact Hcp].
  - rewrite upd_other by (intros E; apply Hct; symmetry; exact E). exact I2.
  - intros c' Hc'. assert (Hn1 : ~ In c' done) by (intros H; apply Hc'; apply in_or_app; left; exact H).
    assert (Hn2 : c' <> c) by (intros ->; apply Hc'; apply in_or_app; right; left; reflexivity).
    assert (Hn3 : c' <> p) by (intros ->; contradiction).
    rewrite !upd_other by assumption. apply I3. exact Hn1.
  - intros q x. destruct (Nat.eq_dec q p) as [Eq|Eq].
    + subst q. rewrite upd_same. rewrite (upd_other sub c [] p Hpc). rewrite add_In, I4. split.
      * intros [E|[H1 [H2 H3]]].
        -- subst x. split; [apply in_or_app; right; left; reflexivity|]. split; [exact Hct|]. apply upd_same.
        -- assert (x <> c) by (intros ->; contradiction).
           split; [apply in_or_app; left; exact H1|]. split; [exact H2|]. rewrite upd_other by assumption. exact H3.
      * intros [H1 [H2 H3]]. apply in_app_or in H1. destruct H1 as [H1|[H1|[]]].
        -- right. assert (x <> c) by (intros ->; contradiction). rewrite upd_other in H3 by assumption. auto.
        -- left. symmetry. exact H1.
    + rewrite (upd_other _ p _ q Eq). destruct (Nat.eq_dec q c) as [Ec|Ec].
      * subst q. rewrite upd_same. split; [intros []|]. intros [H1 [H2 H3]]. exfalso.
        apply in_app_or in H1. destruct H1 as [H1|[H1|[]]].
        -- assert (x <> c) by (intros ->; contradiction). rewrite upd_other in H3 by assumption.
           destruct (I1 x H1 H2) as [q' [Q1 [Q2 _]]]. rewrite H3 in Q1. inversion Q1; subst q'. contradiction.
        -- subst x. rewrite upd_same in H3. inversion H3. contradiction.
      * rewrite (upd_other sub c [] q Ec). rewrite I4. split.
        -- intros [H1 [H2 H3]]. assert (x <> c) by (intros ->; contradiction).
           split; [apply in_or_app; left; exact H1|]. split; [exact H2|]. rewrite upd_other by assumption. exact H3.
        -- intros [H1 [H2 H3]]. apply in_app_or in H1. destruct H1 as [H1|[H1|[]]].
           ++ assert (x <> c) by (intros ->; contradiction). rewrite upd_other in H3 by assumption. auto.
           ++ subst x. rewrite upd_same in H3. inversion H3. congruence.
Qed.

(* the result: a tree of strict super-concepts rooted at the top *)
Definition tree_ok (sub sup : imap) : Prop :=
  sup t = [] /\
  (forall c, c < n -> c <> t -> exists p, sup c = [p] /\ p < n /\ lt c p = true) /\
  (forall p c, In c (sub p) <-> c < n /\ c <> t /\ sup c = [p]).

Theorem spanning_tree_ok :
  exists sub sup, spanning_tree lt rank n enum = Done (sub, sup) /\ tree_ok sub sup.
Proof.
  unfold spanning_tree. destruct order_head as [rest E]. rewrite E.
  assert (Hnd := order_NoDup). rewrite E in Hnd.
  assert (G : forall todo done sub sup,
            t :: rest = done ++ todo -> In t done -> tree_inv done sub sup ->
            exists sub' sup', fold_left (st_step lt n enum t) todo (Done (sub, sup)) = Done (sub', sup') /\
                              tree_inv (t :: rest) sub' sup').
  { induction todo as [|c todo IH]; intros done sub sup Ed Htd HI.
    - rewrite app_nil_r in Ed. subst done. exists sub, sup. split; [reflexivity | exact HI].
    - assert (Hdn : forall x, In x done -> x < n).
      { intros x Hx. apply order_In. rewrite E, Ed. apply in_or_app. left. exact Hx. }
      assert (Hc : c < n) by (apply order_In; rewrite E, Ed; apply in_or_app; right; left; reflexivity).
      assert (Hcd : ~ In c done).
      { rewrite Ed in Hnd. apply NoDup_remove_2 in Hnd. intros H. apply Hnd. apply in_or_app. left. exact H. }
      destruct (st_step_inv done sub sup c HI Hdn Htd Hc Hcd) as [sub1 [sup1 [S1 S2]]].
      cbn [fold_left]. rewrite S1. apply (IH (done ++ [c])).
      + rewrite <- app_assoc. exact Ed.
      + apply in_or_app. left. exact Htd.
      + exact S2. }
  destruct (G rest [t] empty_map empty_map eq_refl (or_introl eq_refl)) as [sub [sup [F HI]]].
  { split; [|split; [|split]].
    - intros c [Hc|[]] Hne. congruence.
    - reflexivity.
    - intros c _. split; reflexivity.
    - intros p c. simpl. split; [intros [] | intros [_ [_ H]]; discriminate]. }
  exists sub, sup. split; [exact F|].
  destruct HI as [I1 [I2 [I3 I4]]]. rewrite <- E in *.
  split; [exact I2|]. split.
  - intros c Hc Hct. destruct (I1 c (proj2 (order_In c) Hc) Hct) as [p [P1 [P2 P3]]].
    exists p. split; [exact P1|]. split; [apply order_In; exact P2 | exact P3].
  - intros p c. rewrite I4, order_In. reflexivity.
Qed.

(* ------------------------------------------------------------------ chains of a tree *)
Hypothesis Hrank0 : forall c, c < n -> (rank c = 0 <-> c = t).
Variables sub sup : imap.
Hypothesis Htree : tree_ok sub sup.

Lemma descending_snoc l x y : descending lt (l ++ [y]) -> lt x y = true -> descending lt ((l ++ [y]) ++ [x]).
Proof.
  induction l as [|a l IH]; simpl; intros Hd Hxy; [auto|].
  destruct l as [|b l'].
  - simpl in *. tauto.
  - simpl in *. destruct Hd as [H1 H2]. split; [exact H1|]. apply IH; assumption.
Qed.

(* walking up from c: the reversed list is a chain from the top down to c *)
Lemma walk_up_ok : forall fuel c, c < n -> length (strict_up lt n c) < fuel ->
  exists up, walk_up rank fuel sup c = Done up /\
    (exists pre, rev up = pre ++ [c]) /\ (exists r, rev up = t :: r) /\
    descending lt (rev up) /\ (forall x, In x up -> x < n).
Proof.
  induction fuel as [|f IH]; intros c Hc Hm; [lia|].
  cbn [walk_up]. destruct (Nat.eqb (rank c) 0) eqn:E0.
  - apply Nat.eqb_eq in E0. apply (Hrank0 c Hc) in E0. subst c.
    exists [t]. split; [reflexivity|]. simpl. split; [exists []; reflexivity|].
    split; [exists []; reflexivity|]. split; [exact Logic.I|]. intros x [Hx|[]]. subst. exact Hc.
  - apply Nat.eqb_neq in E0. assert (Hct : c <> t) by (intros ->; apply E0; apply (Hrank0 t Hc); reflexivity).
    destruct Htree as [_ [T2 _]]. destruct (T2 c Hc Hct) as [p [Hp [Hpn Hcp]]].
    rewrite Hp. cbn [min_list].
    destruct (IH p Hpn) as [up [W1 [[pre W2] [[r W3] [W4 W5]]]]].
    { assert (L : length (strict_up lt n p) < length (strict_up lt n c)).
      { unfold strict_up. apply (filter_length_lt _ _ _ p).
        - intros x Hx Hpx. apply in_seq in Hx. apply (lt_trans lt n SO c p x); auto; lia.
        - apply in_seq. lia.
        - exact Hcp.
        - apply (lt_irrefl lt n SO p Hpn). }
      lia. }
    rewrite W1. exists (c :: up). split; [reflexivity|]. cbn [rev].
    split; [exists (rev up); reflexivity|].
    split; [exists (r ++ [c]); rewrite W3; reflexivity|].
    split.
    + rewrite W2. apply descending_snoc; [rewrite <- W2; exact W4 | exact Hcp].
    + intros x [Hx|Hx]; [subst; exact Hc | apply W5; exact Hx].
Qed.

Lemma chains_loop_ok : forall fuel visited,
  length (filter (fun c => negb (mem c visited)) (order rank n)) <= fuel ->
  exists chs, chains_loop rank n fuel sup visited = Done chs /\
    (forall ch, In ch chs -> valid_chain lt n t ch) /\
    (forall i, i < n -> In i visited \/ exists ch, In ch chs /\ In i ch).
Proof.
  induction fuel as [|f IH]; intros visited Hm.
  - assert (Hnone : find (fun c => negb (mem c visited)) (rev (order rank n)) = None).
    { destruct (find (fun c => negb (mem c visited)) (rev (order rank n))) as [c|] eqn:E; [|reflexivity].
      apply find_some in E. destruct E as [H1 H2]. apply in_rev in H1.
      assert (X : In c (filter (fun c => negb (mem c visited)) (order rank n))) by (apply filter_In; auto).
      destruct (filter (fun c => negb (mem c visited)) (order rank n)); [contradiction | simpl in Hm; lia]. }
    unfold chains_loop. rewrite Hnone. exists []. split; [reflexivity|]. split; [intros ch []|].
    intros i Hi. left. apply order_In in Hi. apply in_rev in Hi.
    assert (X := find_none _ _ Hnone i Hi). apply negb_false_iff in X. apply mem_In. exact X.
  - cbn [chains_loop]. destruct (find (fun c => negb (mem c visited)) (rev (order rank n))) as [c|] eqn:E.
    + apply find_some in E. destruct E as [H1 H2]. apply in_rev in H1.
      assert (Hc : c < n) by (apply order_In; exact H1).
      assert (Hfu : length (strict_up lt n c) < S n).
      { unfold strict_up. assert (X := filter_length_le (fun x => lt c x) (seq 0 n)). rewrite seq_length in X. lia. }
      destruct (walk_up_ok (S n) c Hc Hfu) as [up [W1 [[pre W2] [W3 [W4 W5]]]]].
      rewrite W1.
      assert (Hcup : In c up) by (apply in_rev; rewrite W2; apply in_or_app; right; left; reflexivity).
      destruct (IH (union up visited)) as [chs [C1 [C2 C3]]].
      { assert (L : length (filter (fun c0 => negb (mem c0 (union up visited))) (order rank n))
                  < length (filter (fun c0 => negb (mem c0 visited)) (order rank n))).
        { apply (filter_length_lt _ _ _ c).
          - intros x _ Hx. apply negb_true_iff in Hx. apply negb_true_iff. apply mem_false_iff. apply mem_false_iff in Hx.
            intros H. apply Hx. apply union_In. right. exact H.
          - exact H1.
          - exact H2.
          - apply negb_false_iff. apply mem_In. apply union_In. left. exact Hcup. }
        lia. }
      rewrite C1. exists (rev up :: chs). split; [reflexivity|]. split.
      * intros ch [Ech|Hch]; [|apply C2; exact Hch]. subst ch. split; [exact W3|]. split; [exact W4|].
        intros x Hx. apply W5. apply in_rev. exact Hx.
      * intros i Hi. destruct (C3 i Hi) as [H|[ch [Hch Hich]]].
        -- apply union_In in H. destruct H as [H|H]; [|left; exact H].
           right. exists (rev up). split; [left; reflexivity | apply in_rev in H; exact H].
        -- right. exists ch. split; [right; exact Hch | exact Hich].
    + exists []. split; [reflexivity|]. split; [intros ch []|].
      intros i Hi. left. apply order_In in Hi. apply in_rev in Hi.
      assert (X := find_none _ _ E i Hi). apply negb_false_iff in X. apply mem_In. exact X.
Qed.

Theorem chains_ok :
  exists chs, get_chains rank n sup = Done chs /\
    (forall ch, In ch chs -> valid_chain lt n t ch) /\
    (forall i, i < n -> exists ch, In ch chs /\ In i ch).
Proof.
  unfold get_chains. destruct (chains_loop_ok n []) as [chs [C1 [C2 C3]]].
  - assert (X := filter_length_le (fun c => negb (mem c [])) (order rank n)).
    assert (Y := Permutation_length order_perm). rewrite seq_length in Y. lia.
  - exists chs. split; [exact C1|]. split; [exact C2|]. intros i Hi.
    destruct (C3 i Hi) as [[]|H]. exact H.
Qed.
End Tree.

(* ------------------------------------------------------------------ construct_lattice_by_spanning_tree *)
Theorem by_spanning_tree_covers lt rank n t enum k :
  strict_order lt n ->
  (forall i j, i < n -> j < n -> lt i j = true -> rank j < rank i) ->
  is_top lt n t -> (forall c, c < n -> (rank c = 0 <-> c = t)) ->
  (forall l x, In x (enum l) <-> In x l) ->
  (match k with Some j => 1 <= j | None => True end) ->
  exists m, by_spanning_tree lt rank n enum k = Done m /\
            forall y, y < n -> same_set (m y) (lower_covers lt n y).
Proof.
  intros SO Hrank Ht Hrank0 Henum Hk. unfold by_spanning_tree.
  destruct (spanning_tree_ok lt rank n SO Hrank t Ht enum Henum) as [sub [sup [E1 Htree]]].
  rewrite E1.
  destruct (chains_ok lt rank n SO t Hrank0 sub sup Htree) as [chs [E2 [Hv Hcov]]].
  rewrite E2. eexists. split; [reflexivity|]. intros y Hy.
  destruct k as [j|].
  - rewrite (jobs_irrelevant lt rank n j chs Hk).
    apply (from_spanning_tree_covers lt rank n SO Hrank t Ht chs Hv Hcov y Hy).
  - apply (from_spanning_tree_covers lt rank n SO Hrank t Ht chs Hv Hcov y Hy).
Qed.

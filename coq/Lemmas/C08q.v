(* Lemmas/C08q.v — PatternConcept.from_objects builds the closure for ALL shipped pattern structures
   (IntervalPS, IntervalNumpyPS, SetPS, AttributePS): stated over the many-valued model of
   properties C13/C14 (Model/PatternStructure.v, Model/MVContext.v, imported, not edited) and
   obtained from their theorem that the model's closure is the product closure of
   Spec/PatternSpec.v.  Kept in a file of its own because that model and Model/C08_Concept.v use
   the same short names (mvctx, desc, pc_from_objects, ...). *)
From FCA Require Import Base.ListSet Model.MVContext Spec.MVLatticeSpec Lemmas.C14.

Theorem pc_from_objects_closure_all K A :
  pc_int (pc_from_objects K A false) = mv_intention_i K A
  /\ pc_ext (pc_from_objects K A false) = mv_cl_spec (mv_cols K) (mv_n K) A
  /\ pc_ext (pc_from_objects K A true) = A.
Proof. split; [reflexivity | split; [apply model_closure_is_spec | reflexivity]]. Qed.

Theorem pc_from_objects_closure_laws K A B :
  A <> [] -> in_range (mv_n K) A ->
  incl A (pc_ext (pc_from_objects K A false))
  /\ (incl A B -> incl (pc_ext (pc_from_objects K A false)) (pc_ext (pc_from_objects K B false)))
  /\ pc_ext (pc_from_objects K (pc_ext (pc_from_objects K A false)) false) = pc_ext (pc_from_objects K A false).
Proof. intros Hne Hr. exact (closure_laws K A B Hne Hr). Qed.
